/-
C05 — In-VM transaction introspection returns the executed transaction's data.

  "During script and predicate execution, every transaction-field query instruction returns either the exact field
   value of the transaction as placed in VM memory or a pointer at which VM memory holds exactly that field's canonical
   bytes, and fails with the specified panic for absent indices or selectors of another transaction kind. The metadata
   queries for chain id, base asset, transaction start, gas price and owner return the configured values."

Model: Model/Gtf.lean — `init_inner` (prepare the transaction, owner pointer, stack layout), `get_transaction_field`
(`gtf`: selector table regenerated from fuel-asm/src/args.rs, each arm one of the shapes `Spec`, evaluated by `evalSpec`
with the offset functions of C04) and `metadata` (`gm`). `VmOk vm` is what `initVm` establishes (`memory_after_init`).
Pointer theorems are corollaries of C04 (the offset points at the field inside the encoding) and the layout (the
encoding is at `tx_offset`). `At mem p x` : `mem = pre ++ x ++ post`, `pre.length = p`.

The transaction "as placed in VM memory" is the prepared one (`init_inner` calls `prepare_sign`): `vm.tx.val`.
The real object additionally carries the metadata cache `precompute` computed BEFORE that preparation; the model reads
the prepared value without a cache. `prepare_sign_preserves_sizes`, `prepared_offsets_eq_original` and
`vm_object_offsets_eq_model` (section "the prepared transaction and the stale cache") prove that this is the same:
the preparation `init_inner` performs keeps the witnesses, assigns defaults to fixed-size fields only, and so preserves
every size and every offset.
-/
import FuelVerif.Lemmas.GtfWitness
import FuelVerif.Lemmas.GtfPrepared
namespace FuelVerif.C05
open FuelVerif FuelVerif.Canonical FuelVerif.Offsets FuelVerif.TxId FuelVerif.Gtf
open FuelVerif.Canonical.TxDesc (env)
open FuelVerif.Canonical.InputCodec (env0 encDesc)

/-! ### obligations on the regenerated selector tables -/

/-- every variant of `GTFArgs` has an arm in the model (a selector added in Rust breaks this), immediates fit 12 bits, names and
immediates are distinct; the executable kinds are the five chargeable ones -/
theorem every_selector_has_an_arm :
    (Gen.Gtf.gtfArgs.all (fun r => (specOf r.1).isSome && decide (r.2 < 4096)) &&
     decide ((Gen.Gtf.gtfArgs.map (·.1)).Nodup) && decide ((Gen.Gtf.gtfArgs.map (·.2)).Nodup) && decide (Gen.Gtf.gtfArgs.length = 82) &&
     Gen.Gtf.executable.all (fun n => Kind.all.any (fun k => k.name == n && k.chargeable)) && decide (Gen.Gtf.executable.length = 5)) = true := by
  decide +kernel

/-- looking a selector up by its immediate gives back that selector -/
theorem selector_lookup : Gen.Gtf.gtfArgs.all (fun r => Gen.Gtf.gtfArgs.find? (fun q => q.2 == r.2) == some r) = true := by decide +kernel

/-! ### the VM after initialisation -/

/-- **memory after `init_script` / `init_predicate`**: id at 0, base asset id at 32, the size word below `tx_offset`, the
canonical bytes of the prepared transaction at `tx_offset = max_inputs * 40 + 72`; and the state is `VmOk` -/
theorem memory_after_init (k : Kind) (hk : k.chargeable = true) (v : Val) (hv : wt env k.desc v = true) (maxInputs chainId gasPrice : Nat) (context : Context)
    (id baseAsset balances : Bytes) (hid : id.length = 32) (hb : baseAsset.length = 32) (hbal : balances.length = maxInputs * 40) (vm : Vm)
    (h : initVm k v maxInputs chainId gasPrice context id baseAsset balances = .ok vm) :
    VmOk vm ∧ vm.tx.kind = k ∧ vm.tx.val = (vmMask k).apply v ∧ vm.chainId = chainId ∧ vm.gasPrice = gasPrice ∧ vm.context = context ∧
    vm.txOffset = txOffsetOf maxInputs ∧
    At vm.mem 0 id ∧ At vm.mem 32 baseAsset ∧ At vm.mem (vm.txOffset - 8) (natBE 8 (size env k.desc vm.tx.val)) ∧
    At vm.mem vm.txOffset (encode env k.desc vm.tx.val) :=
  initVm_layout k hk v hv maxInputs chainId gasPrice context id baseAsset balances hid hb hbal vm h

/-! ### the prepared transaction and the stale cache -/

/-- complete check over the regenerated tables (`Gen/PrepareSign.lean`, `Gen/Canonical.lean`): for every executable kind the
`prepare_sign` of `init_inner` assigns defaults to fixed-size fields only and clears nothing that is on the wire (the
witnesses are KEPT — `init_inner` does not call `witnesses_mut().clear()`); the id mask of C03, which does clear the
witnesses, would not pass -/
theorem vm_masks_size_safe :
    Kind.all.all (fun k => !k.chargeable || sizeSafe okCustom (vmMask k) k.desc) = true ∧
    sizeSafe okCustom (maskOf .script) Kind.script.desc = false :=
  ⟨vmMasks_sizeSafe, idMask_not_sizeSafe⟩

/-- **`prepare_sign` preserves sizes**: the prepared transaction has the static, dynamic and total size of the original
(so the size word `init_inner` pushes and the `TxLength` selector are those of the transaction that was checked) -/
theorem prepare_sign_preserves_sizes (k : Kind) (hk : k.chargeable = true) (v : Val) (hv : wt env k.desc v = true) :
    sizeS env k.desc ((vmMask k).apply v) = sizeS env k.desc v ∧ sizeD env k.desc ((vmMask k).apply v) = sizeD env k.desc v ∧
    size env k.desc ((vmMask k).apply v) = size env k.desc v :=
  prepare_sign_preserves_size k hk v hv

/-- … of every input and output, and it keeps the predicate offset and length of every input -/
theorem prepare_sign_preserves_element_sizes (i o : Val) (hi : wt env TxDesc.input i = true) (ho : wt env TxDesc.output o = true) :
    Tx.inputSize (inputMask.apply i) = Tx.inputSize i ∧ predicateOffset (inputMask.apply i) = predicateOffset i ∧
    predicateLen (inputMask.apply i) = predicateLen i ∧ Tx.outputSize (outputMask.apply o) = Tx.outputSize o :=
  ⟨inputSize_apply i hi, predicateOffset_apply i, predicateLen_apply i, outputSize_apply o ho⟩

/-- **every offset of the prepared transaction is the offset of the original one** (both without a cache) -/
theorem prepared_offsets_eq_original (k : Kind) (hk : k.chargeable = true) (v : Val) (hv : wt env k.desc v = true) :
    let tO : Tx := { kind := k, val := v, metadata := none }
    let tP : Tx := { kind := k, val := (vmMask k).apply v, metadata := none }
    (k = .script → tP.scriptDataOffset = tO.scriptDataOffset) ∧ tP.bodyOffsetEnd = tO.bodyOffsetEnd ∧
    (k = .create → ∀ i, tP.storageSlotsOffsetAt i = tO.storageSlotsOffsetAt i) ∧
    (k = .upload → ∀ i, tP.proofSetOffsetAt i = tO.proofSetOffsetAt i) ∧
    tP.inputsOffset = tO.inputsOffset ∧ tP.outputsOffset = tO.outputsOffset ∧ tP.witnessesOffset = tO.witnessesOffset ∧
    (∀ i, tP.inputsOffsetAt i = tO.inputsOffsetAt i) ∧ (∀ i, tP.outputsOffsetAt i = tO.outputsOffsetAt i) ∧
    (∀ i, tP.witnessesOffsetAt i = tO.witnessesOffsetAt i) ∧ (∀ i, tP.inputsPredicateOffsetAt i = tO.inputsPredicateOffsetAt i) :=
  prepared_offsets_eq k hk v hv

/-- **the object the real VM holds answers like the model's**: a transaction that went through `precompute` (cache computed
from the unprepared value, whatever cache `m0` it carried before) and then through `init_inner`'s `prepare_sign` (value
prepared, cache left alone) gives, for every offset accessor `get_transaction_field` uses, the answer of the prepared value
without a cache — the transaction of `Model/Gtf.lean`. This discharges the former assumption "prepare_sign does not change
sizes" (C04 `cached_offsets_eq_uncached` + `prepared_offsets_eq_original`). -/
theorem vm_object_offsets_eq_model (idOf : Tx → Bytes) (k : Kind) (hk : k.chargeable = true) (v : Val) (hv : wt env k.desc v = true)
    (m0 : Option Metadata) (t' : Tx) (h : Tx.precompute idOf { kind := k, val := v, metadata := m0 } = .ok t') :
    let tReal : Tx := { t' with val := (vmMask k).apply t'.val }
    let tModel : Tx := { kind := k, val := (vmMask k).apply v, metadata := none }
    tReal.kind = tModel.kind ∧ tReal.val = tModel.val ∧ tReal.metadata.isSome = true ∧
    (k = .script → tReal.scriptDataOffset = tModel.scriptDataOffset) ∧ tReal.bodyOffsetEnd = tModel.bodyOffsetEnd ∧
    (∀ i, tReal.storageSlotsOffsetAt i = tModel.storageSlotsOffsetAt i) ∧ (∀ i, tReal.proofSetOffsetAt i = tModel.proofSetOffsetAt i) ∧
    tReal.inputsOffset = tModel.inputsOffset ∧ tReal.outputsOffset = tModel.outputsOffset ∧ tReal.witnessesOffset = tModel.witnessesOffset ∧
    (∀ i, tReal.inputsOffsetAt i = tModel.inputsOffsetAt i) ∧ (∀ i, tReal.outputsOffsetAt i = tModel.outputsOffsetAt i) ∧
    (∀ i, tReal.witnessesOffsetAt i = tModel.witnessesOffsetAt i) ∧
    (∀ i, tReal.inputsPredicateOffsetAt i = tModel.inputsPredicateOffsetAt i) :=
  real_vm_tx_offsets_eq_model idOf k hk v hv m0 t' h

/-! ### GTF: dispatch -/

/-- an index above `u32::MAX` or an immediate that is no selector: `InvalidMetadataIdentifier`; otherwise the arm of the selector -/
theorem gtf_dispatch (vm : Vm) (b imm : Nat) :
    (b > 2 ^ 32 - 1 → gtf vm b imm = .error .invalidMetadataIdentifier) ∧
    (Gen.Gtf.gtfArgs.all (fun r => r.2 != imm) = true → gtf vm b imm = .error .invalidMetadataIdentifier) ∧
    (∀ name s, b ≤ 2 ^ 32 - 1 → Gen.Gtf.gtfArgs.find? (fun r => r.2 == imm) = some (name, imm) → specOf name = some s → gtf vm b imm = evalSpec vm b s) :=
  ⟨gtf_large_index vm b imm, gtf_unknown_selector vm b imm, fun name s hb hn hs => gtf_eq_evalSpec vm b imm hb name s hn hs⟩

/-! ### GTF: pointers (the arms that return an address) -/

/-- inputs / outputs / witnesses at an index: the address holds the element's full canonical encoding; the specified panic
exactly for indices past the end (and no other panic) -/
theorem element_pointers {vm : Vm} (h : VmOk vm) (b : Nat) :
    ((∀ p, evalSpec vm b .inputAt = .ok p → ∃ x, vm.tx.inputs[b]? = some x ∧ At vm.mem p (encode env TxDesc.input x)) ∧
     (evalSpec vm b .inputAt = .error .inputNotFound ↔ vm.tx.inputs.length ≤ b) ∧ (∀ e, evalSpec vm b .inputAt = .error e → e = .inputNotFound)) ∧
    ((∀ p, evalSpec vm b .outputAt = .ok p → ∃ x, vm.tx.outputs[b]? = some x ∧ At vm.mem p (encode env TxDesc.output x)) ∧
     (evalSpec vm b .outputAt = .error .outputNotFound ↔ vm.tx.outputs.length ≤ b) ∧ (∀ e, evalSpec vm b .outputAt = .error e → e = .outputNotFound)) ∧
    ((∀ p, evalSpec vm b .witnessAt = .ok p → ∃ x, vm.tx.witnesses[b]? = some x ∧ At vm.mem p (encode env TxDesc.witness x)) ∧
     (evalSpec vm b .witnessAt = .error .witnessNotFound ↔ vm.tx.witnesses.length ≤ b) ∧ (∀ e, evalSpec vm b .witnessAt = .error e → e = .witnessNotFound)) ∧
    ((∀ p, evalSpec vm b .witnessData = .ok p → ∃ w, vm.tx.witnesses[b]? = some w ∧ At vm.mem p (padded (bytesOf w))) ∧
     (evalSpec vm b .witnessData = .error .witnessNotFound ↔ vm.tx.witnesses.length ≤ b)) :=
  ⟨input_at_sound h b, output_at_sound h b, witness_at_sound h b, witness_data_sound h b⟩

/-- pointers to static fields of an input (tx id / utxo id, owner, asset id, tx pointer, contract id, sender, recipient, nonce) -/
theorem input_field_pointers {vm : Vm} (h : VmOk vm) (b : Nat) (f : InFilter) (e : String × InputRepr × String) (he : e ∈ inputStaticMeaning) (p : Nat)
    (hp : evalSpec vm b (.inputReprPtr f e.1) = .ok p) :
    ∃ k i, vm.tx.inputs[b]? = some i ∧ inputKind i = some k ∧ f.ok k = true ∧
      (InputRepr.fromInput k = e.2.1 → At vm.mem p (encS env0 (k.fieldDesc e.2.2) (inputField k e.2.2 i))) :=
  input_repr_ptr_sound h b f e he p hp

/-- pointers to the predicate, the predicate data and the message data of an input -/
theorem input_dynamic_pointers {vm : Vm} (h : VmOk vm) (b p : Nat) :
    (∀ f data, evalSpec vm b (.inputPredPtr f data) = .ok p →
      ∃ k i, vm.tx.inputs[b]? = some i ∧ inputKind i = some k ∧ f.ok k = true ∧ k.hasPredicate = true ∧
        At vm.mem p (padded (bytesOf (inputField k (if data then "predicate_data" else "predicate") i)))) ∧
    (evalSpec vm b (.inputReprPtr .message "data_offset") = .ok p →
      ∃ k i, vm.tx.inputs[b]? = some i ∧ inputKind i = some k ∧ k.isMessage = true ∧ At vm.mem p (padded (bytesOf (inputField k "data" i)))) :=
  ⟨fun f data hp => input_pred_ptr_sound h b f data p hp, input_message_data_sound h b p⟩

/-- pointers into an output (to, asset id, created contract id, created state root) -/
theorem output_field_pointers {vm : Vm} (h : VmOk vm) (b : Nat) (created : Bool) (e : String × OutputKind × List String) (he : e ∈ outputMeaning) (p : Nat)
    (hp : evalSpec vm b (.outputReprPtr created e.1) = .ok p) :
    ∃ k o, vm.tx.outputs[b]? = some o ∧ outputKind o = some k ∧ (if created then k = .contractCreated else (k = .coin ∨ k = .change)) ∧
      (k = e.2.1 → ∃ path fd fv, outputPath k e.2.2 = some path ∧ valPath (outputPayload o) path = some fv ∧ At vm.mem p (encS env fd fv)) :=
  output_repr_ptr_sound h b created e he p hp

/-- kind-specific pointers: script, script data (Script); storage slots, salt (Create); proof set, root (Upload); blob id (Blob);
purpose (Upgrade) — and `InvalidMetadataIdentifier` on a transaction of another kind -/
theorem kind_specific_pointers {vm : Vm} (h : VmOk vm) (b : Nat) :
    ((vm.tx.kind ≠ .script → evalSpec vm b .script = .error .invalidMetadataIdentifier ∧ evalSpec vm b .scriptData = .error .invalidMetadataIdentifier) ∧
     (vm.tx.kind = .script → ∃ p q, evalSpec vm b .script = .ok p ∧ evalSpec vm b .scriptData = .ok q ∧
       At vm.mem p (padded (bytesOf (fieldOf "ScriptBody" "script" vm.tx.body))) ∧
       At vm.mem q (padded (bytesOf (fieldOf "ScriptBody" "script_data" vm.tx.body))))) ∧
    (vm.tx.kind = .create →
      (∀ p, evalSpec vm b .createStorageSlotAt = .ok p → ∃ x, vm.tx.storageSlots[b]? = some x ∧ At vm.mem p (encode env dSlot x)) ∧
      (evalSpec vm b .createStorageSlotAt = .error .storageSlotsNotFound ↔ vm.tx.storageSlots.length ≤ b)) ∧
    (vm.tx.kind = .upload →
      (∀ p, evalSpec vm b .uploadProofSetAt = .ok p → ∃ x, vm.tx.proofSet[b]? = some x ∧ At vm.mem p (encode env InputLaws.dB32 x)) ∧
      (evalSpec vm b .uploadProofSetAt = .error .proofInUploadNotFound ↔ vm.tx.proofSet.length ≤ b)) ∧
    (∀ r ∈ constPtrRows,
      (vm.tx.kind ≠ r.2.1 → evalSpec vm b r.1 = .error .invalidMetadataIdentifier) ∧
      (vm.tx.kind = r.2.1 → ∃ off path fd fv, evalSpec vm b r.1 = .ok (vm.txOffset + off) ∧ staticOffsetOf r.2.1 r.2.2.1 = some off ∧
        staticPath r.2.1 r.2.2.2 = some path ∧ valPath vm.tx.val path = some fv ∧ At vm.mem (vm.txOffset + off) (encS env fd fv))) :=
  ⟨script_ptr_sound h b, fun hk => storage_slot_ptr_sound h hk b, fun hk => proof_ptr_sound h hk b, fun r hr => const_ptr_sound h b r hr⟩

/-! ### GTF: values and panics -/

/-- `TxLength` = the number of transaction bytes in memory; counts = the vector lengths; `Type` = the kind -/
theorem value_selectors {vm : Vm} (h : VmOk vm) (b : Nat) :
    evalSpec vm b .txLength = .ok (encode env vm.tx.kind.desc vm.tx.val).length ∧
    evalSpec vm b .inputsCount = .ok vm.tx.inputs.length ∧ evalSpec vm b .outputsCount = .ok vm.tx.outputs.length ∧
    evalSpec vm b .witnessesCount = .ok vm.tx.witnesses.length ∧ evalSpec vm b .txType = .ok vm.tx.kind.idx := value_arms h b

/-- input arms can only fail with `InputNotFound`, output pointer arms with `OutputNotFound` -/
theorem specified_panics (vm : Vm) (b : Nat) (f : InFilter) (e : Panic) :
    (∀ m, evalSpec vm b (.inputReprPtr f m) = .error e → e = .inputNotFound) ∧
    (∀ d, evalSpec vm b (.inputPredPtr f d) = .error e → e = .inputNotFound) ∧
    (∀ w, evalSpec vm b (.inputVal f w) = .error e → e = .inputNotFound) ∧
    (∀ c m, evalSpec vm b (.outputReprPtr c m) = .error e → e = .outputNotFound) := input_arm_panic vm b f e

/-- The full statement for value selectors — "returns the exact field value" — is, in this model, the definition of each
value arm of `evalSpec` through the accessors of Model/Gtf.lean (`inputAmount`, `policyGet`, ..): there is no second
description of "the field value" inside Lean to prove it against. It is checked on the real interpreter, for every
selector, by the independent table of the harness (stream c05). -/
def ValueSelectorsStatement : Prop :=
  ∀ (vm : Vm) (b : Nat) (f : InFilter) (w : InVal), VmOk vm →
    evalSpec vm b (.inputVal f w) = okOr ((inputAtFiltered vm.tx f b).bind (fun p => inVal w p.1 p.2)) .inputNotFound

theorem value_selectors_partial : ValueSelectorsStatement := fun _ _ _ _ _ => rfl

/-! ### GM -/

/-- chain id, base asset, transaction start, gas price, owner (and the other three selectors) -/
theorem gm_returns_configured_values (vm : Vm) :
    gm vm (gmImm "GetChainId") = .ok vm.chainId ∧ gm vm (gmImm "BaseAssetId") = .ok 32 ∧ gm vm (gmImm "TxStart") = .ok vm.txOffset ∧
    gm vm (gmImm "GetGasPrice") = (match vm.context with | .script => .ok vm.gasPrice | .predicate _ => .error .canNotGetGasPriceInPredicate) ∧
    gm vm (gmImm "GetOwner") = (match vm.ownerPtr with | some p => .ok p | none => .error .ownerIsUnknown) ∧
    gm vm (gmImm "GetVerifyingPredicate") = (match vm.context with | .script => .error .transactionValidity | .predicate i => .ok i) ∧
    gm vm (gmImm "GetCaller") = .error .expectedInternalContext ∧ gm vm (gmImm "IsCallerExternal") = .error .expectedInternalContext := gm_values vm

/-- the owner pointer set by initialisation addresses the owner (coin owner / message recipient) of the owning input -/
theorem owner_pointer {vm : Vm} (h : VmOk vm) (idx p : Nat) (hp : ownerPtrOf vm.tx vm.txOffset idx = some p) :
    ∃ k i, vm.tx.inputs[idx]? = some i ∧ inputKind i = some k ∧ inputHasOwner k = true ∧
      At vm.mem p (encS env0 (k.fieldDesc (if k.isCoin then "owner" else "recipient")) (inputField k (if k.isCoin then "owner" else "recipient") i)) :=
  owner_ptr_sound h idx p hp

/-! ### non-vacuity: a VM initialised with a concrete script (coin-predicate input, contract input, change output, one witness) -/

def b32' (x : UInt8) : Val := Val.ofList [.bytes (List.replicate 32 x)]
def utxo (x : UInt8) (n : Nat) : Val := Val.ofList [b32' x, .int n]
def txp (h i : Nat) : Val := Val.ofList [Val.ofList [.int h], .int i]
def code (bs : Bytes) : Val := Val.ofList [Val.ofList [.bytes bs]]
def bytesV (bs : Bytes) : Val := Val.ofList [.bytes bs]
def exTx : Val :=
  Val.ofList [Val.ofList [.int 77, b32' 1, code [0x24, 0, 0, 0], bytesV [1]], Policies.mk 1 [3, 0, 0, 0, 0, 0],
    Val.ofList [Val.variant 1 (Val.ofList [utxo 1 2, b32' 3, .int 10, b32' 4, txp 6 5, .unit, .int 9, code [0x24, 1], bytesV [1, 2, 3]]),
                Val.variant 2 (Val.ofList [utxo 2 7, b32' 8, b32' 9, txp 1 2, b32' 5])],
    Val.ofList [Val.variant 2 (Val.ofList [b32' 6, .int 11, b32' 7])], Val.ofList [Val.ofList [bytesV [5, 6, 7]]], .unit]
def exVm : Except InitError Vm := initVm .script exTx 2 7 13 (.predicate 0) (List.replicate 32 0xAA) (List.replicate 32 0xBB) (zeros 80)

example : wt env Kind.script.desc exTx = true := by decide +kernel
/-- the preparation does change this transaction (tx pointers, predicate gas, the contract input's utxo id / roots, the
contract output's roots, the receipts root are non-zero in `exTx`) and keeps its size (568 bytes) -/
example : ((vmMask .script).apply exTx != exTx) = true ∧ size env Kind.script.desc ((vmMask .script).apply exTx) = size env Kind.script.desc exTx := by
  decide +kernel
/-- InputCoinOwner (0x203), InputCoinPredicate (0x20B), InputCoinAmount, InputContractId on a coin input (absent), index past the end,
TxLength, an unknown immediate; the owner of input 0 is read back from memory at the returned pointer -/
def showRes : Except Panic Nat → String
  | .ok v => toString v
  | .error p => p.name
example : (match exVm with
    | .ok vm => some ([gtf vm 0 0x203, gtf vm 0 0x20B, gtf vm 0 0x204, gtf vm 0 0x225, gtf vm 2 0x203, gtf vm 0 0x00E, gtf vm 0 0x008].map showRes)
    | .error _ => none) =
    some ["320", "440", "10", "InputNotFound", "InputNotFound", "560", "InvalidMetadataIdentifier"] := by decide +kernel
example : (match exVm with | .ok vm => some (readMem vm 320 32 == List.replicate 32 3, vm.txOffset, vm.ownerPtr) | .error _ => none) =
    some (true, 152, some 320) := by decide +kernel

end FuelVerif.C05
