/-
C31 — Execution is deterministic and independent of VM instance reuse.

  "Executing a given ready transaction against equal storage yields identical program state, receipts,
   output transaction and storage changes whether the interpreter and its memory are fresh or were
   previously used for any other transactions or predicate runs, and whether predicates are checked with
   fresh memory, reused memory or a memory pool."

Proved here:
* memory: `MemoryInstance::reset` keeps the old allocation and its dirty bytes; nevertheless for EVERY dirty
  memory and EVERY later history of memory operations (grow_stack, grow_heap_by with both its in-place and its
  reallocating branch, reads, writes, further resets) a reset memory and a new one return the same results
  and stay equal in the sense of the Rust `PartialEq` (accessible memory) — `reused_memory_behaves_like_fresh`.
  A memory obtained from any pool is reset by `init_inner` before use, so the same theorem covers pools.
* interpreter: every field of `struct Interpreter` (list regenerated from the Rust text) is assigned by
  `init_inner`/`init_script`/`init_predicate`, or is configuration, or is on the explicit unobserved list
  (`fields_classified`); and initialising two instances with arbitrary different residues gives instances that
  agree on every observed field and have equal accessible memory (`init_forgets_residue`).
* determinism: the models are functions; a run is a function of the initialised observed fields.
Partial: that the instruction implementations read memory only through the modelled operations, and no field
outside the observed ones, is tied by the differential stream `c31` (fresh vs reused instances), not proved.
-/
import FuelVerif.Lemmas.VmMemory
import FuelVerif.Model.Reuse
namespace FuelVerif.Reuse
open FuelVerif.VmMemory FuelVerif.Gen

/-- the full statement (kept visible): for the real interpreter, `transact` on a reused instance equals `transact`
on a fresh one. What is proved below is this statement for the field-level model of initialisation and the
full memory model; the step function is abstract. -/
def C31Statement : Prop :=
  ∀ (α R : Type) (run : Interp α → R) (_respects : ∀ a b : Interp α,
      (a.registers = b.registers ∧ a.memory.Equiv b.memory ∧ a.frames = b.frames ∧ a.receipts = b.receipts ∧ a.tx = b.tx ∧
       a.initialBalances = b.initialBalances ∧ a.inputContracts = b.inputContracts ∧
       a.inputContractsIndexToOutputIndex = b.inputContractsIndexToOutputIndex ∧ a.storage = b.storage ∧
       a.context = b.context ∧ a.balances = b.balances ∧ a.interpreterParams = b.interpreterParams ∧
       a.ecalState = b.ecalState ∧ a.verifier = b.verifier ∧ a.ownerPtr = b.ownerPtr ∧
       a.storageSlotCache = b.storageSlotCache) → run a = run b)
    (i1 i2 : Interp α) (d : InitData α),
    i1.storage = i2.storage → i1.interpreterParams = i2.interpreterParams → i1.ecalState = i2.ecalState →
    i1.verifier = i2.verifier → i1.memory.Wf → i2.memory.Wf →
    run (init i1 d) = run (init i2 d)

/-- any history of memory operations keeps two equal (accessible-memory) well-formed memories equal and
returns the same observations -/
theorem runOps_equiv : ∀ (ops : List Op) (a b : MemI), a.Wf → b.Wf → a.Equiv b →
    (runOps a ops).2 = (runOps b ops).2 ∧ (runOps a ops).1.Equiv (runOps b ops).1 ∧
    (runOps a ops).1.Wf ∧ (runOps b ops).1.Wf := by
  intro ops
  induction ops with
  | nil => intro a b ha hb he; exact ⟨rfl, he, ha, hb⟩
  | cons op rest ih =>
    intro a b ha hb he
    obtain ⟨o, e, wa, wb⟩ := applyOp_equiv ha hb he op
    obtain ⟨o', e', wa', wb'⟩ := ih _ _ wa wb e
    simp only [runOps]
    exact ⟨by rw [o, o'], e', wa', wb'⟩

/-- **A reused memory behaves like a fresh one.** For every (well-formed) memory left behind by earlier
transactions or predicate runs — any stack, any heap allocation size, any stale heap contents — and every
subsequent history of memory operations, `reset` followed by that history gives exactly the results and the
accessible memory that `MemoryInstance::new()` gives. -/
theorem reused_memory_behaves_like_fresh (dirty : MemI) (hw : dirty.Wf) (ops : List Op) :
    (runOps dirty.reset ops).2 = (runOps MemI.new ops).2 ∧ (runOps dirty.reset ops).1.Equiv (runOps MemI.new ops).1 := by
  obtain ⟨h1, h2, _, _⟩ := runOps_equiv ops dirty.reset MemI.new (reset_wf hw) new_wf (reset_equiv_new dirty)
  exact ⟨h1, h2⟩

/-- histories of operations never break the representation invariant, so every memory an instance can hold
after any number of transactions satisfies the hypothesis of the theorem above -/
theorem history_wf (ops : List Op) : (runOps MemI.new ops).1.Wf :=
  (runOps_equiv ops MemI.new MemI.new new_wf new_wf (equiv_refl _)).2.2.1

/-- newly accessible heap is zero whatever was there before the reset -/
theorem regrown_heap_is_zero (dirty : MemI) (hw : dirty.Wf) (sp n : Nat) (m' : MemI)
    (h : dirty.reset.growHeapBy sp n = .ok m') (x : Nat) (h1 : m'.hp ≤ x) (h2 : x < memSize) :
    m'.heap (x - m'.heapOffset) = 0 :=
  (growHeapBy_spec (reset_wf hw) h).fresh x h1 h2

/-- **Every interpreter field is accounted for** (lists regenerated from the Rust text on every run): it is
assigned/cleared/reset by initialisation, or it is configuration, or it is on the unobserved list; and
initialisation assigns nothing that is not a field. -/
theorem fields_classified :
    (interpFields.all fun f =>
      (initInnerSets ++ initScriptSets).contains f || configFields.contains f || unobservedFields.contains f) = true
    ∧ (initInnerSets ++ initScriptSets ++ initPredicateSets).all (fun f => interpFields.contains f) = true
    ∧ initScriptSets = initPredicateSets
    ∧ ((initInnerSets ++ initScriptSets).all fun f => !(configFields.contains f) && !(unobservedFields.contains f)) = true := by
  decide

/-- the model's `init` assigns exactly the fields the translator found assigned in the Rust text -/
theorem init_assigns_generated_fields :
    (initInnerSets ++ initScriptSets).length = 12 ∧
    (["context", "tx", "input_contracts", "owner_ptr", "input_contracts_index_to_output_index", "initial_balances", "frames",
      "receipts", "memory", "storage_slot_cache", "registers", "balances"].all
        fun f => (initInnerSets ++ initScriptSets).contains f) = true := by
  decide

/-- **Initialisation forgets the residue.** Two instances with arbitrary different leftovers (registers,
frames, receipts, previous transaction, balances, slot cache, dirty memory, …) but the same configuration are,
after `init` with the same transaction data, equal on every observed field, equal on accessible memory, and the
initialisation itself observed the same memory results. -/
theorem init_forgets_residue {α : Type} (i1 i2 : Interp α) (d : InitData α)
    (hs : i1.storage = i2.storage) (hp : i1.interpreterParams = i2.interpreterParams)
    (he : i1.ecalState = i2.ecalState) (hv : i1.verifier = i2.verifier)
    (w1 : i1.memory.Wf) (w2 : i2.memory.Wf) :
    let a := init i1 d
    let b := init i2 d
    a.registers = b.registers ∧ a.memory.Equiv b.memory ∧ a.frames = b.frames ∧ a.receipts = b.receipts ∧ a.tx = b.tx ∧
    a.initialBalances = b.initialBalances ∧ a.inputContracts = b.inputContracts ∧
    a.inputContractsIndexToOutputIndex = b.inputContractsIndexToOutputIndex ∧ a.storage = b.storage ∧
    a.context = b.context ∧ a.balances = b.balances ∧ a.interpreterParams = b.interpreterParams ∧
    a.ecalState = b.ecalState ∧ a.verifier = b.verifier ∧ a.ownerPtr = b.ownerPtr ∧
    a.storageSlotCache = b.storageSlotCache ∧ initObservations i1 d = initObservations i2 d ∧
    a.memory.Wf ∧ b.memory.Wf := by
  have e : i1.memory.reset.Equiv i2.memory.reset := by
    refine ⟨rfl, fun i hi => ?_, rfl, fun x h1 h2 => ?_⟩
    · exact absurd hi (Nat.not_lt_zero _)
    · exact absurd h1 (by show ¬(memSize ≤ x); omega)
  obtain ⟨o, m, wa, wb⟩ := runOps_equiv d.memOps _ _ (reset_wf w1) (reset_wf w2) e
  exact ⟨rfl, m, rfl, rfl, rfl, rfl, rfl, rfl, hs, rfl, rfl, hp, he, hv, rfl, rfl, o, wa, wb⟩

/-- the full statement holds for the model: any run that depends only on the observed fields (and on memory
only up to accessible-memory equality) cannot tell a reused instance from a fresh one -/
theorem c31_model : C31Statement := by
  intro α R run respects i1 i2 d hs hp he hv w1 w2
  obtain ⟨a1, a2, a3, a4, a5, a6, a7, a8, a9, a10, a11, a12, a13, a14, a15, a16, _⟩ :=
    init_forgets_residue i1 i2 d hs hp he hv w1 w2
  exact respects _ _ ⟨a1, a2, a3, a4, a5, a6, a7, a8, a9, a10, a11, a12, a13, a14, a15, a16⟩

/-! ### non-vacuity -/

/-- a dirty memory: 40 stack bytes, a 256-byte heap allocation full of 0xAA with `hp` 16 bytes into it -/
def dirtyMem : MemI := ⟨40, fun _ => 0x55, 256, fun _ => 0xAA, memSize - 16⟩

example : dirtyMem.Wf := by simp [MemI.Wf, dirtyMem, MemI.heapOffset, memSize]

def okBytes (r : Except Err Bytes) : Option Bytes := match r with | .ok b => some b | .error _ => none

/-- after reset, allocating 32 bytes re-exposes 32 bytes of the old allocation — they read as zero, as on a new memory -/
example : (runOps dirtyMem.reset [.growHeapBy 0 32, .read (memSize - 32) 32]).2.map okBytes
        = (runOps MemI.new [.growHeapBy 0 32, .read (memSize - 32) 32]).2.map okBytes := by decide +kernel

example : (runOps dirtyMem.reset [.growHeapBy 0 32, .read (memSize - 32) 4]).2.map okBytes = [some [], some [0, 0, 0, 0]] := by
  decide +kernel

/-- growing beyond the old allocation takes the reallocating branch (capacity 256 → 512) -/
example : (runOps dirtyMem.reset [.growHeapBy 0 300]).1.heapLen = 512 := by decide +kernel

end FuelVerif.Reuse
