/-
C34 — Calls and returns preserve the caller's frame.

  "After a contract call returns (with or without data), the caller resumes at the instruction after the
   call with all its registers restored except the gas, return value/length and heap pointer registers,
   its stack contents unchanged, and the call-depth back to its previous value; the callee runs with its
   own stack region starting after the copied code, its own balance register and zeroed flags, and cannot
   modify the caller's stack. Heap memory allocated by the callee remains readable by the caller."

Model: `Model/Call.lean` transcribes `prepare_call` and `return_from_context` at the level of the 64
registers, the frame vector, the context flag and byte-addressed memory; the frame layout, register ids,
memory size and the list of registers `return_from_context` keeps are regenerated from the Rust sources
(`Gen/VmConsts.lean`). What the callee does between CALL and RET is ARBITRARY code, constrained only by the
memory-ownership rule (C24: a context writes only at or above its own `$ssp`) — `Exec` below, closed under
nested balanced calls of any depth.
-/
import FuelVerif.Lemmas.Call
namespace FuelVerif.Call
open FuelVerif.Gen

/-- the translator's list of registers kept from the callee is the list the model's `returnFromContext` keeps -/
theorem kept_regs_match : retKeptRegs = [regCgas, regGgas, regRet, regRetl, regHp] := by decide

/-- **The new frame starts at the caller's `$sp`** (not at its `$ssp`): the register `prepare_call` reads the frame base
from, regenerated from the Rust text, is `$sp`. Together with `callee_entry_state` (`$fp` = old `$sp`, callee
`$ssp = $sp` = old `$sp` + frame + code) and `call_writes_above_caller_stack` this is what keeps a caller's LIVE
frame locals `[$ssp, $sp)` out of reach of the frame write and of the callee's stack. -/
theorem frame_base_is_sp : callFrameBaseReg = regSp := by decide

/-- the generated frame layout is the canonical serialization of the `CallFrame` fields in order:
to (32) | asset id (32) | 64 registers | code size | a | b -/
theorem frame_layout (f : Frame) (hto : f.to.length = 32) (has : f.assetId.length = 32) :
    f.toBytes.length = frameSize ∧ frameAssetOffset = frameToOffset + 32 ∧ frameRegsOffset = frameAssetOffset + 32
    ∧ frameCodeSizeOffset = frameRegsOffset + vmRegisterCount * wordSize ∧ frameAOffset = frameCodeSizeOffset + wordSize
    ∧ frameBOffset = frameAOffset + wordSize ∧ frameSize = frameBOffset + wordSize ∧ f.toBytes.take 32 = f.to := by
  refine ⟨Frame.toBytes_length f hto has, by decide, by decide, by decide, by decide, by decide, by decide, ?_⟩
  unfold Frame.toBytes
  simp only [List.append_assoc]
  rw [List.take_append_of_le_length (by omega)]
  rw [← hto, List.take_length]

/-- **The callee's entry state**: own stack region starting right after the frame and the padded code
(`$ssp = $sp = old $sp + frame + code`), `$fp` = old `$sp`, `$is = $pc` = start of the copied code, own
balance register (`$bal` = forwarded coins), zeroed flags, at most the requested gas; `$hp`, the program
registers and `$zero,$one,$of,$err,$ret,$retl` are passed through; the pushed frame holds the caller's
registers (with the caller's remaining `$cgas`). -/
theorem callee_entry_state {a b c d : Nat} {env : CallEnv} {vm vm' : VM}
    (h : prepareCall a b c d env vm = .ok vm') :
    ∃ (codeSize : Nat) (f : Frame), env.codeSize = .ok codeSize ∧ vm'.frames = f :: vm.frames ∧
      f.codeSizePadded = padded codeSize ∧
      (∀ i, i ≠ regCgas → i ≠ regGgas → f.registers i = vm.regs i) ∧
      vm'.regs regFp = vm.regs regSp ∧
      vm'.regs regPc = vm.regs regSp + frameSize ∧ vm'.regs regIs = vm.regs regSp + frameSize ∧
      vm'.regs regSsp = vm.regs regSp + (frameSize + padded codeSize) ∧ vm'.regs regSp = vm'.regs regSsp ∧
      vm'.regs regBal = b ∧ vm'.regs regFlag = 0 ∧
      vm'.regs regCgas ≤ d ∧ vm'.regs regCgas + f.registers regCgas ≤ vm.regs regCgas ∧
      vm'.regs regHp = vm.regs regHp ∧
      (∀ i, regWritable ≤ i → vm'.regs i = vm.regs i) ∧
      (∀ i ∈ [regZero, regOne, regOf, regErr, regRet, regRetl], vm'.regs i = vm.regs i) ∧
      (vm'.ctxIsCall = true ↔ vm.regs regSp ≠ 0) ∧ env.listed = true := by
  obtain ⟨F, hvm⟩ := prepareCall_ok h
  refine ⟨F.codeSize, ⟨F.to, F.asset, setReg F.r2 regCgas (F.r2 regCgas - min (F.r2 regCgas) d), padded F.codeSize, F.ca, F.cb⟩,
    F.hsize, ?_⟩
  have hr2 := F.hr2
  have hr2c := F.hr2c
  subst hvm
  simp only [CallFacts.result, buildCallee, setFramePointer]
  vm_consts
  have h7 := hr2 7 (by omega) (by omega)
  refine ⟨trivial, trivial, ?_, ?_, ?_, ?_, ?_, ?_, ?_, ?_, ?_, ?_, ?_, ?_, ?_, ?_, F.hlisted⟩
  · intro i h1 h2; simp [setReg, h1, hr2 i h1 h2]
  · simp [setReg]
  · simp [setReg]
  · simp [setReg]
  · simp [setReg]
  · simp [setReg]
  · simp [setReg]
  · simp [setReg]
  · simp [setReg]; omega
  · simp [setReg]; omega
  · simp [setReg, h7]
  · intro i hi
    have := hr2 i (by omega) (by omega)
    simp only [setReg]
    rw [if_neg (by omega), if_neg (by omega), if_neg (by omega), if_neg (by omega), if_neg (by omega),
      if_neg (by omega), if_neg (by omega), if_neg (by omega), if_neg (by omega)]
    exact this
  · intro i hi
    simp only [List.mem_cons, List.not_mem_nil, or_false] at hi
    rcases hi with rfl | rfl | rfl | rfl | rfl | rfl <;> simp [setReg] <;> exact hr2 _ (by omega) (by omega)
  · cases vm.ctxIsCall <;> by_cases h0 : vm.regs 5 = 0 <;> simp [h0]

/-- memory after a successful `prepare_call`: everything below the old `$sp` (the caller's whole stack, its
frame locals included) is untouched — except, when the caller is the script (external context), the 8-byte
balance word of the forwarded asset in the VM's balance table (`debitRange`); the serialized frame lies at the
new `$fp`; the heap boundary is unchanged -/
theorem call_writes_above_caller_stack {a b c d : Nat} {env : CallEnv} {vm vm' : VM}
    (h : prepareCall a b c d env vm = .ok vm') (hinv : vm.regs regSp ≤ vm.mem.stackLen) :
    (∀ x, x < vm.regs regSp → ¬((debitRange env vm).1 ≤ x ∧ x < (debitRange env vm).1 + (debitRange env vm).2) →
      vm'.mem.bytes x = vm.mem.bytes x) ∧ vm'.mem.hp = vm.mem.hp ∧
    (∃ f : Frame, vm'.frames = f :: vm.frames ∧ f.toBytes.length = frameSize ∧
      ∀ i, i < frameSize → vm'.mem.bytes (vm'.regs regFp + i) = f.toBytes.getD i 0) ∧
    vm'.regs regSp ≤ vm'.mem.stackLen := by
  obtain ⟨F, hvm⟩ := prepareCall_ok h
  subst hvm
  obtain ⟨d1, d2, d3⟩ := debit_bytes F.hdebit
  obtain ⟨g1, g2, g3, g4⟩ := growStack_below F.hgrow
  obtain ⟨w1, w2, w3, w4⟩ := writeNoOwner_bytes F.hwrite
  have hfl := Frame.toBytes_length ⟨F.to, F.asset, setReg F.r2 regCgas (F.r2 regCgas - min (F.r2 regCgas) d),
    padded F.codeSize, F.ca, F.cb⟩ F.hto F.hasset
  simp only [CallFacts.result, buildCallee, setFramePointer, show callFrameBaseReg = regSp from by decide]
  refine ⟨fun x hx hd => ?_, by rw [w3, g2, d2], ⟨_, rfl, hfl, fun i hi => ?_⟩, ?_⟩
  · rw [w1 x hx, g1 x (by omega), d1 x hd]
  · have hfp : (setReg (setReg (setReg (setReg (setReg (setReg (setReg (setReg
        (setReg F.r2 regCgas (F.r2 regCgas - min (F.r2 regCgas) d)) regSp (vm.regs regSp + (frameSize + padded F.codeSize)))
        regSsp (vm.regs regSp + (frameSize + padded F.codeSize))) regFp (vm.regs regSp)) regPc (vm.regs regSp + frameSize))
        regBal b) regIs (vm.regs regSp + frameSize)) regCgas (min (F.r2 regCgas) d)) regFlag 0) regFp = vm.regs regSp := by
      vm_consts; simp [setReg]
    rw [hfp, w2 i (by simp only [List.length_append]; omega)]
    simp only [List.append_assoc]
    simp only [List.getD_eq_getElem?_getD]
    rw [List.getElem?_append_left (by omega)]
  · have : (setReg (setReg (setReg (setReg (setReg (setReg (setReg (setReg
        (setReg F.r2 regCgas (F.r2 regCgas - min (F.r2 regCgas) d)) regSp (vm.regs regSp + (frameSize + padded F.codeSize)))
        regSsp (vm.regs regSp + (frameSize + padded F.codeSize))) regFp (vm.regs regSp)) regPc (vm.regs regSp + frameSize))
        regBal b) regIs (vm.regs regSp + frameSize)) regCgas (min (F.r2 regCgas) d)) regFlag 0) regSp
        = vm.regs regSp + (frameSize + padded F.codeSize) := by
      vm_consts; simp [setReg]
    rw [this, w4]; exact g4

/-- **Registers after call + return.** Whatever the callee did (`vm2` is ANY state whose frame stack is the
one `prepare_call` left — nested calls have been popped again), returning restores every caller register
except `$pc` and the registers the translator lists as kept (`$cgas,$ggas,$ret,$retl,$hp`); `$pc` is the
instruction after the CALL; the call depth (frame stack) and the context are the caller's again; the heap
pointer, global gas and return registers are the callee's; unused forwarded gas comes back. -/
theorem call_ret_registers {a b c d : Nat} {env : CallEnv} {vm0 vm1 vm2 vm3 : VM} {k : RetKind}
    (hcall : prepareCall a b c d env vm0 = .ok vm1)
    (hframes : vm2.frames = vm1.frames)
    (hret : returnFromContext k vm2 = .ok vm3)
    (hpc : vm0.regs regPc + 4 < 2 ^ 64) :
    (∀ i, i ∉ regPc :: retKeptRegs → vm3.regs i = vm0.regs i) ∧
    vm3.regs regPc = vm0.regs regPc + 4 ∧
    vm3.frames = vm0.frames ∧
    (vm3.ctxIsCall = true ↔ vm0.regs regFp ≠ 0) ∧
    vm3.regs regHp = vm2.regs regHp ∧ vm3.regs regGgas = vm2.regs regGgas ∧
    (∃ saved, saved + vm1.regs regCgas ≤ vm0.regs regCgas ∧ vm3.regs regCgas = vm2.regs regCgas + saved) ∧
    (match k with
      | .ret x => vm3.regs regRet = x ∧ vm3.regs regRetl = 0
      | .retData x y => vm3.regs regRet = x ∧ vm3.regs regRetl = y) ∧
    vm3.mem = vm2.mem := by
  obtain ⟨F, hvm⟩ := prepareCall_ok hcall
  subst hvm
  have hr2 := F.hr2
  have hr2c := F.hr2c
  simp only [CallFacts.result, buildCallee] at hframes
  have R := ret_cons hframes hret
  have h3 := hr2 regPc (by decide) (by decide)
  have h6 := hr2 regFp (by decide) (by decide)
  simp only [CallFacts.result, buildCallee, setFramePointer]
  refine ⟨fun i hi => ?_, ?_, R.frames, ?_, R.hp, R.ggas, ⟨F.r2 regCgas - min (F.r2 regCgas) d, ?_, ?_⟩, ?_, R.mem⟩
  · rw [R.other i hi]
    have := hr2 i
    vm_consts
    simp only [List.mem_cons, List.not_mem_nil, or_false, not_or] at hi
    simp only [setReg]; rw [if_neg hi.2.1]; exact this hi.2.1 hi.2.2.1
  · rw [R.pc]; vm_consts; simp only [setReg]; rw [if_neg (by omega), h3]; omega
  · have := R.ctx; vm_consts; simp only [setReg] at this; rw [if_neg (by omega), h6] at this; exact this
  · vm_consts; simp [setReg]; omega
  · rw [R.cgas]; vm_consts; simp [setReg]
  · cases k <;> exact ⟨R.ret, R.retl⟩

/-- One step of code running in some context that respects memory ownership (C24) and does not itself
push or pop frames: frames, context and `$fp` stay, `$ssp` never decreases, and memory between `lo` and the
context's `$ssp` is not written (the owned stack is `[$ssp, $sp)`, the owned heap lies above `$hp ≥ $sp`).
`lo` is the end of the VM-initialised area (transaction id, base asset, balance table, transaction bytes = the
script's initial `$ssp`): that area is rewritten without ownership checks by TRO / SMO-style output updates and by
the script's balance debits, from any call depth — found by the stream's oracle in the thorough tier. -/
structure OwnStep (lo : Nat) (t u : VM) : Prop where
  frames : u.frames = t.frames
  fp : u.regs regFp = t.regs regFp
  ssp : t.regs regSsp ≤ u.regs regSsp
  mem : ∀ x, lo ≤ x → x < t.regs regSsp → u.mem.bytes x = t.mem.bytes x

/-- Balanced executions inside one context: any sequence of ownership-respecting steps and of complete
CALL … RET/RETD round trips (whose callee is again any balanced execution: call trees of any depth). At each
CALL site the stack invariants `$ssp ≤ $sp ≤ stack.len()` hold (C23/C24) and the context is internal (these are
executions of callees: only the script runs in the external context). -/
inductive Exec (lo : Nat) : VM → VM → Prop
  | refl (s : VM) : Exec lo s s
  | step {s t u : VM} : Exec lo s t → OwnStep lo t u → Exec lo s u
  | call {s t t' u u' : VM} {a b c d : Nat} {env : CallEnv} {k : RetKind} :
      Exec lo s t → t.regs regSsp ≤ t.regs regSp → t.regs regSp ≤ t.mem.stackLen → t.ctxIsCall = true →
      prepareCall a b c d env t = .ok t' → Exec lo t' u → returnFromContext k u = .ok u' → Exec lo s u'

/-- **A balanced execution cannot modify anything below its context's `$ssp`, and leaves the call depth
as it found it.** -/
theorem exec_preserves {lo : Nat} {s u : VM} (h : Exec lo s u) :
    u.frames = s.frames ∧ u.regs regFp = s.regs regFp ∧ s.regs regSsp ≤ u.regs regSsp ∧
    ∀ x, lo ≤ x → x < s.regs regSsp → u.mem.bytes x = s.mem.bytes x := by
  induction h with
  | refl s => exact ⟨rfl, rfl, Nat.le_refl _, fun _ _ _ => rfl⟩
  | step _ hs ih =>
    obtain ⟨i1, i2, i3, i4⟩ := ih
    exact ⟨by rw [hs.frames, i1], by rw [hs.fp, i2], Nat.le_trans i3 hs.ssp,
      fun x hl hx => by rw [hs.mem x hl (by omega), i4 x hl hx]⟩
  | @call s t t' u u' a b c d env k _ hsp hlen hctx hcall _ hret ih1 ih2 =>
    obtain ⟨i1, i2, i3, i4⟩ := ih1
    obtain ⟨j1, _, _, j4⟩ := ih2
    obtain ⟨m1, _, _, _⟩ := call_writes_above_caller_stack hcall hlen
    obtain ⟨cs, f, _, hfr, _, hregs, _, _, _, hssp, _⟩ := callee_entry_state hcall
    have R := ret_cons (by rw [j1, hfr]) hret
    have hfp := hregs regFp (by decide) (by decide)
    have hss := hregs regSsp (by decide) (by decide)
    refine ⟨by rw [R.frames, i1], ?_, ?_, fun x hl hx => ?_⟩
    · rw [R.other regFp (by decide), hfp, i2]
    · rw [R.other regSsp (by decide), hss]; exact i3
    · rw [R.mem, j4 x hl (by rw [hssp]; omega), m1 x (by omega) (by simp [debitRange, hctx]), i4 x hl hx]

/-- **The callee cannot modify the caller's stack**: after a complete call round trip with an arbitrary
balanced callee execution, every byte below the caller's `$sp` — its own stack `[$ssp, $sp)` and everything
beneath — is what it was at the CALL, except the balance word debited when the script forwards coins; and the
call depth is restored. -/
theorem caller_stack_unchanged {lo : Nat} {t t' u u' : VM} {a b c d : Nat} {env : CallEnv} {k : RetKind}
    (hlen : t.regs regSp ≤ t.mem.stackLen)
    (hcall : prepareCall a b c d env t = .ok t') (hexec : Exec lo t' u) (hret : returnFromContext k u = .ok u') :
    (∀ x, lo ≤ x → x < t.regs regSp → ¬((debitRange env t).1 ≤ x ∧ x < (debitRange env t).1 + (debitRange env t).2) →
      u'.mem.bytes x = t.mem.bytes x) ∧ u'.frames = t.frames := by
  obtain ⟨j1, _, _, j4⟩ := exec_preserves hexec
  obtain ⟨m1, _, _, _⟩ := call_writes_above_caller_stack hcall hlen
  obtain ⟨cs, f, _, hfr, _, _, _, _, _, hssp, _⟩ := callee_entry_state hcall
  have R := ret_cons (by rw [j1, hfr]) hret
  exact ⟨fun x hl hx hd => by rw [R.mem, j4 x hl (by rw [hssp]; omega), m1 x hx hd], R.frames⟩

/-- in an internal context (a contract calling a contract) nothing at all below `$sp` changes; in the external
context the balance table lies in the VM-initialised area below the script's `$ssp`, so the script's own stack
`[$ssp, $sp)` is unchanged whenever the debited word is below `$ssp` -/
theorem caller_own_stack_unchanged {lo : Nat} {t t' u u' : VM} {a b c d : Nat} {env : CallEnv} {k : RetKind}
    (hlen : t.regs regSp ≤ t.mem.stackLen) (hlo : lo ≤ t.regs regSsp)
    (hbal : t.ctxIsCall = true ∨ (debitRange env t).1 + (debitRange env t).2 ≤ t.regs regSsp)
    (hcall : prepareCall a b c d env t = .ok t') (hexec : Exec lo t' u) (hret : returnFromContext k u = .ok u') :
    ∀ x, t.regs regSsp ≤ x → x < t.regs regSp → u'.mem.bytes x = t.mem.bytes x := by
  intro x h1 h2
  refine (caller_stack_unchanged hlen hcall hexec hret).1 x (by omega) h2 ?_
  rcases hbal with hc | hb
  · simp [debitRange, hc]
  · omega

/-- **The whole round trip, for any callee.** CALL, then ANY balanced execution of the callee (arbitrary code obeying
the ownership rule, nested call trees of any depth), then RET/RETD: the caller's registers are restored except `$pc`
(= call site + 4) and the kept registers, its call depth is back, and its stack bytes are unchanged. -/
theorem call_round_trip {lo : Nat} {t t' u u' : VM} {a b c d : Nat} {env : CallEnv} {k : RetKind}
    (hlen : t.regs regSp ≤ t.mem.stackLen) (hpc : t.regs regPc + 4 < 2 ^ 64)
    (hcall : prepareCall a b c d env t = .ok t') (hexec : Exec lo t' u) (hret : returnFromContext k u = .ok u') :
    (∀ i, i ∉ regPc :: retKeptRegs → u'.regs i = t.regs i) ∧ u'.regs regPc = t.regs regPc + 4 ∧
    u'.frames = t.frames ∧ u'.regs regHp = u.regs regHp ∧
    (∀ x, lo ≤ x → x < t.regs regSp → ¬((debitRange env t).1 ≤ x ∧ x < (debitRange env t).1 + (debitRange env t).2) →
      u'.mem.bytes x = t.mem.bytes x) := by
  obtain ⟨hf, _, _, _⟩ := exec_preserves hexec
  obtain ⟨r1, r2, r3, _, r5, _⟩ := call_ret_registers hcall hf hret hpc
  exact ⟨r1, r2, r3, r5, (caller_stack_unchanged hlen hcall hexec hret).1⟩

/-- **Heap memory allocated by the callee remains readable by the caller**: returning does not touch
memory and keeps the callee's `$hp`, and accessibility of a range depends only on the memory's `hp` and
stack length — so every range the callee could read in its heap verifies for the caller, with the same bytes. -/
theorem callee_heap_readable {u u' : VM} {k : RetKind} (hret : returnFromContext k u = .ok u')
    (start len : Nat) (hrd : u.mem.verify start len = .ok ()) :
    u'.mem.verify start len = .ok () ∧ u'.mem.read start len = u.mem.read start len ∧
    u'.regs regHp = u.regs regHp := by
  cases hfr : u.frames with
  | nil =>
    unfold returnFromContext at hret
    rw [hfr] at hret
    cases hret
    refine ⟨hrd, rfl, ?_⟩
    simp only [incPc]
    cases k <;> simp only [setRet] <;> vm_consts <;> simp [setReg]
  | cons frame rest =>
    have R := ret_cons hfr hret
    exact ⟨by rw [R.mem]; exact hrd, by rw [R.mem], R.hp⟩

/-! ### non-vacuity: a concrete caller, a call that forwards 7 coins and 1000 gas, and a return with data -/

/-- `$ssp=900, $sp=1000`, 5000 context gas, a call struct at address 100 and an asset id at 200 -/
def demoVm : VM where
  regs := fun i => if i = regSp then 1000 else if i = regSsp then 900 else if i = regCgas then 5000 else if i = regGgas then 9000
    else if i = regHp then 60000000 else if i = regPc then 500 else if i = regIs then 400 else if i = regOne then 1 else if i = 20 then 77 else 0
  mem := ⟨fun a => UInt8.ofNat (a % 251), 1000, 60000000⟩
  frames := []
  ctxIsCall := false

def demoEnv : CallEnv :=
  { codeSize := .ok 12, charge0 := 10, charge1 := 3, debitInternal := .ok (), debitExternal := .ok (some (72, natBE 8 993)), listed := true, credit := .ok true, charge2 := 40,
    code := some (List.replicate 12 0x47) }

/-- callee entry: `$pc=$is=1600`, `$ssp=$sp=1616` (600-byte frame + 16 bytes of padded code), `$fp=1000`, `$bal=7`,
flags 0, 1000 gas, one frame, call context -/
example : (match prepareCall 100 7 200 1000 demoEnv demoVm with
    | .ok v1 => some ([regPc, regIs, regSp, regSsp, regFp, regBal, regFlag, regCgas].map v1.regs, v1.frames.length, v1.ctxIsCall)
    | .error _ => none) = some ([1600, 1600, 1616, 1616, 1000, 7, 0, 1000], 1, true) := by decide +kernel

/-- the callee clobbers register 20 and allocates heap, then returns data: the caller is back at `$pc+4` with
`$sp,$ssp,$fp`, register 20 restored, the callee's `$hp`, `$ret/$retl` set and the unused gas returned -/
example : (match prepareCall 100 7 200 1000 demoEnv demoVm with
    | .error _ => none
    | .ok v1 =>
      match returnFromContext (.retData 8 16) { v1 with regs := setReg (setReg v1.regs 20 1234) regHp 59999000 } with
      | .error _ => none
      | .ok v3 => some ([regPc, regSp, regSsp, regFp, regCgas, regGgas, regHp, regRet, regRetl, 20].map v3.regs, v3.frames.length))
    = some ([504, 1000, 900, 0, 4947, 8947, 59999000, 8, 16, 77], 0) := by decide +kernel

/-- an unlisted callee is refused -/
example : (match prepareCall 100 7 200 1000 { demoEnv with listed := false } demoVm with
    | .error e => some e | .ok _ => none) = some Err.ContractNotInInputs := by decide +kernel

end FuelVerif.Call
