/-
C19 composed with C10 and C15 — the cryptographic sub-checks are no longer booleans handed in by the real code.

  "A transaction passes the basic checks exactly when it satisfies the specification's validity rules (…, kind-specific
   rules) …"

`Raw` (Model/ValidityCompose.lean) is a transaction that still carries the bytes the four hash-based sub-checks read;
`Raw.toTx H` builds the validity summary with the verdicts COMPUTED through the models of the code that performs them
(`BMT.verify` — C10; `Ids.CreateMetadata.compute` — C15; `H` for the blob id and the upgrade checksum).

* `check_ok_iff_composed`: `into_checked_basic` accepts a raw transaction IFF the declarative `Valid` holds for its
  skeleton (every non-cryptographic rule) and `CryptoOk` holds, in which the four clauses are stated mathematically:
    Upload   index < count ∧ the RFC 6962 audit-path recomputation from (subsection, proof set, index, count) reaches the root
             (C10 `verify_true_iff_recomputes`)
    Create   every ContractCreated output has state root = the compact sparse Merkle root of the slots keyed by H(key)
             and contract id = H("FUEL" ‖ salt ‖ MTH(16 KiB leaves of the bytecode) ‖ state root)
             (C15 `stateRoot_spec`, `rootFromCode_eq_mth`, `contractId_formula`)
    Blob     blob id = H(witness data)
    Upgrade  checksum = H(witness data)            (the postcard deserialisation verdict stays a boolean of the skeleton)
* `valid_flags_iff`: the declarative predicate reads the verdict flags of a summary only through "every flag is true".
* `check_balances_composed`, `overspend_rejected_composed`: the balance theorems, for raw transactions.
`H` is a parameter (the driver instantiates SHA-256); `H [] = emptySum` and 32-byte digests are the hypotheses C10/C15 need.
-/
import FuelVerif.Lemmas.ValidityCompose
import FuelVerif.Props.C19
import FuelVerif.Props.C10
import FuelVerif.Props.C15
namespace FuelVerif.Validity
open FuelVerif FuelVerif.Fee

/-- the declarative predicate sees the flags only through `FlagsTrue` -/
theorem valid_flags_iff {p : Params} {h : Nat} (hh : h ≤ u32Max) (tx : Tx) :
    Valid p h tx ↔ (Valid p h tx.eraseFlags ∧ tx.FlagsTrue) := by
  rw [valid_iff_stages hh, valid_iff_stages hh, commonOk_erase, metadataOk_erase tx, kindOk_erase p tx]
  have e3 : tx.eraseFlags.inputs = tx.inputs := rfl
  have e5 : tx.eraseFlags.outputs = tx.outputs.map Output.eraseFlag := rfl
  have ef : ∀ a, feeOf p tx.eraseFlags a = feeOf p tx a := fun _ => rfl
  simp only [e3, e5, coinOut_erase, ef]
  unfold Tx.FlagsTrue
  constructor
  · rintro ⟨⟨m, mc⟩, c, ⟨k, ku, kb, kc⟩, b1, b2, b3⟩
    refine ⟨⟨m, c, k, b1, b2, b3⟩, ?_, kc⟩
    cases hb : tx.body with
    | upgradeConsensus wi cc d => exact mc wi cc d hb
    | upload wi n ok => exact ku wi n ok hb
    | blob wi ok => exact kb wi ok hb
    | _ => trivial
  · rintro ⟨⟨m, c, k, b1, b2, b3⟩, f, kc⟩
    refine ⟨⟨m, ?_⟩, c, ⟨k, ?_, ?_, kc⟩, b1, b2, b3⟩
    · intro wi cc d hb; rw [hb] at f; exact f
    · intro wi n ok hb; rw [hb] at f; exact f
    · intro wi ok hb; rw [hb] at f; exact f

/-- shape conditions of a raw transaction (representation, not validity): `plain` never wraps a ContractCreated,
`subsections_number` is a `u16`, witness data is shorter than 2^64 bytes -/
structure Raw.WellShaped (raw : Raw) : Prop where
  plain : ∀ o, ROutput.plain o ∈ raw.outputs → o.isContractCreated = false
  count : ∀ wi n root proof idx, raw.body = .upload wi n root proof idx → n < 2 ^ 16
  witnessLen : ∀ w ∈ raw.witnesses, w.length < 2 ^ 64

/-- **the four cryptographic clauses, stated mathematically** -/
structure CryptoOk (H : Bytes → Bytes) (raw : Raw) : Prop where
  /-- Upload: the audit path recomputation reaches the root -/
  upload : ∀ wi n root proof idx, raw.body = .upload wi n root proof idx → ∀ w, raw.witnesses[wi]? = some w →
    idx < n ∧ BMT.rootFromPath H idx n (BMT.leafSum H w) proof = some root
  /-- Blob: id = H(data) -/
  blob : ∀ wi id, raw.body = .blob wi id → ∀ w, raw.witnesses[wi]? = some w → id = H w
  /-- Upgrade: checksum = H(serialised consensus parameters) -/
  checksum : ∀ wi c d, raw.body = .upgradeConsensus wi c d → ∀ w, raw.witnesses[wi]? = some w → c = H w
  /-- Create: state root = sparse Merkle root of the slots, contract id = H("FUEL" ‖ salt ‖ code root ‖ state root) -/
  created : ∀ cid sroot, ROutput.contractCreated cid sroot ∈ raw.outputs →
    ∀ bwi salt slots, raw.body = .create bwi salt slots → ∀ code, raw.witnesses[bwi]? = some code →
      ∃ r, Smt.specRoot SmtBytes.bitOf (SmtBytes.hashes H) 256 0 (Ids.slotMap H slots) = some r ∧ sroot = r ∧
        cid = H (Ids.seedFUEL ++ salt ++ BMT.mth H (Ids.specLeaves code) ++ r)

theorem toTx_eraseFlags (H : Bytes → Bytes) (raw : Raw) (hs : raw.WellShaped) : (raw.toTx H).eraseFlags = raw.skeleton := by
  unfold Raw.toTx Raw.skeleton Raw.toTxWith Tx.eraseFlags
  simp only [List.map_map]
  congr 1
  · cases raw.body <;> rfl
  · apply List.map_congr_left
    intro ro hro
    cases ro with
    | plain o =>
      have := hs.plain o hro
      cases o <;> simp_all [ROutput.toOutput, Output.eraseFlag, Output.isContractCreated]
    | contractCreated c s => rfl

theorem witness_of_len (raw : Raw) (i len : Nat) (h : (raw.witnesses.map List.length)[i]? = some len) :
    ∃ w, raw.witnesses[i]? = some w := by
  simp only [List.getElem?_map, Option.map_eq_some_iff] at h
  obtain ⟨w, hw, _⟩ := h
  exact ⟨w, hw⟩

theorem beq_bytes (a b : Bytes) : (a == b) = true ↔ a = b := beq_iff_eq

/-- `CreateMetadata::compute` in closed form (C15) -/
theorem createMetadata_spec (H : Bytes → Bytes) (hE : H [] = BMT.emptySum) (hl : ∀ x, (H x).length = Gen.Sparse.keyBytes)
    (raw : Raw) (bwi : Nat) (salt : Bytes) (slots : List Ids.Slot) (hb : raw.body = .create bwi salt slots)
    (code : Bytes) (hc : raw.witnesses[bwi]? = some code) (hlen : code.length < 2 ^ 64) :
    ∃ r, Smt.specRoot SmtBytes.bitOf (SmtBytes.hashes H) 256 0 (Ids.slotMap H slots) = some r ∧
      raw.createMetadata H = some
        { contractId := H (Ids.seedFUEL ++ salt ++ BMT.mth H (Ids.specLeaves code) ++ r),
          contractRoot := BMT.mth H (Ids.specLeaves code), stateRoot := r } := by
  obtain ⟨r, hr1, hr2⟩ := Ids.stateRoot_spec H hl slots
  refine ⟨r, hr1, ?_⟩
  unfold Raw.createMetadata
  rw [hb]
  simp only [Ids.CreateMetadata.compute, Ids.Create.bytecode, hc, Ids.rootFromCode_eq_mth H hE code hlen, hr2]
  rfl

/-- under the non-cryptographic rules, "all computed verdicts are true" is the mathematical statement `CryptoOk` -/
theorem flagsTrue_toTx_iff (H : Bytes → Bytes) (hE : H [] = BMT.emptySum) (hl : ∀ x, (H x).length = Gen.Sparse.keyBytes)
    {p : Params} {h : Nat} (raw : Raw) (hs : raw.WellShaped) (hv : Valid p h raw.skeleton) :
    (raw.toTx H).FlagsTrue ↔ CryptoOk H raw := by
  have hk := hv.kind
  have hm := hv.metadata
  have hwit : raw.skeleton.witnesses = raw.witnesses.map List.length := rfl
  have hout : raw.skeleton.outputs = raw.outputs.map (ROutput.toOutput fun _ _ => true) := rfl
  -- membership of a ContractCreated in the computed outputs
  have hmem : ∀ v : Bytes → Bytes → Bool, (∀ b, Output.contractCreated b ∈ raw.outputs.map (ROutput.toOutput v) → b = true) ↔
      (∀ cid s, ROutput.contractCreated cid s ∈ raw.outputs → v cid s = true) := by
    intro v
    constructor
    · intro hh cid s hcs
      exact hh _ (List.mem_map.mpr ⟨_, hcs, rfl⟩)
    · intro hh b hb
      obtain ⟨ro, hro, he⟩ := List.mem_map.mp hb
      cases ro with
      | plain o =>
        have := hs.plain o hro
        simp only [ROutput.toOutput] at he
        subst he
        simp [Output.isContractCreated] at this
      | contractCreated c s =>
        simp only [ROutput.toOutput, Output.contractCreated.injEq] at he
        rw [← he]; exact hh c s hro
  -- no ContractCreated output at all outside Create
  have hnone : (∀ bwi salt slots, raw.body ≠ .create bwi salt slots) → ∀ cid s, ROutput.contractCreated cid s ∉ raw.outputs := by
    intro hnc cid s hcs
    have hin : Output.contractCreated true ∈ raw.skeleton.outputs := by
      rw [hout]; exact List.mem_map.mpr ⟨_, hcs, rfl⟩
    unfold KindOk at hk
    cases hb : raw.body with
    | create bwi salt slots => exact hnc bwi salt slots hb
    | script g sl sdl =>
      have e : raw.skeleton.body = .script g sl sdl := by simp [Raw.skeleton, Raw.toTxWith, hb, RBody.toBody]
      rw [e] at hk
      have := hk.2.2 _ hin
      simp [Output.isContractCreated] at this
    | upgradeConsensus wi c d =>
      have e : raw.skeleton.body = .upgradeConsensus wi true d := by simp [Raw.skeleton, Raw.toTxWith, hb, RBody.toBody]
      rw [e] at hk
      exact absurd (hk.2.2 _ hin) (by simp [PlainOutput])
    | upgradeState =>
      have e : raw.skeleton.body = .upgradeState := by simp [Raw.skeleton, Raw.toTxWith, hb, RBody.toBody]
      rw [e] at hk
      exact absurd (hk.2.2 _ hin) (by simp [PlainOutput])
    | upload wi n root proof idx =>
      have e : raw.skeleton.body = .upload wi n true := by simp [Raw.skeleton, Raw.toTxWith, hb, RBody.toBody]
      rw [e] at hk
      exact absurd (hk.2.2.2.2 _ hin) (by simp [PlainOutput])
    | blob wi id =>
      have e : raw.skeleton.body = .blob wi true := by simp [Raw.skeleton, Raw.toTxWith, hb, RBody.toBody]
      rw [e] at hk
      exact absurd (hk.2.2.2 _ hin) (by simp [PlainOutput])
  unfold Tx.FlagsTrue
  have hto : (raw.toTx H).outputs = raw.outputs.map (ROutput.toOutput (createdMatches (raw.createMetadata H))) := rfl
  rw [hto, hmem]
  cases hb : raw.body with
  | script g sl sdl =>
    have hnc := hnone (by intro a b c; rw [hb]; simp)
    have e : (raw.toTx H).body = .script g sl sdl := by simp [Raw.toTx, Raw.toTxWith, hb, RBody.toBody]
    rw [e]
    constructor
    · intro _
      exact ⟨(by intro _ _ _ _ _ hh; rw [hb] at hh; cases hh), (by intro _ _ hh; rw [hb] at hh; cases hh), (by intro _ _ _ hh; rw [hb] at hh; cases hh),
        fun cid s hcs => absurd hcs (hnc cid s)⟩
    · intro _; exact ⟨trivial, fun cid s hcs => absurd hcs (hnc cid s)⟩
  | upgradeState =>
    have hnc := hnone (by intro a b c; rw [hb]; simp)
    have e : (raw.toTx H).body = .upgradeState := by simp [Raw.toTx, Raw.toTxWith, hb, RBody.toBody]
    rw [e]
    constructor
    · intro _
      exact ⟨(by intro _ _ _ _ _ hh; rw [hb] at hh; cases hh), (by intro _ _ hh; rw [hb] at hh; cases hh), (by intro _ _ _ hh; rw [hb] at hh; cases hh),
        fun cid s hcs => absurd hcs (hnc cid s)⟩
    · intro _; exact ⟨trivial, fun cid s hcs => absurd hcs (hnc cid s)⟩
  | upgradeConsensus wi c d =>
    have hnc := hnone (by intro a b c; rw [hb]; simp)
    have e : (raw.toTx H).body = .upgradeConsensus wi (checksumOk H raw wi c) d := by
      simp [Raw.toTx, Raw.toTxWith, hb, RBody.toBody, Raw.sumVerdict]
    rw [e]
    have es : raw.skeleton.body = .upgradeConsensus wi true d := by simp [Raw.skeleton, Raw.toTxWith, hb, RBody.toBody]
    unfold MetadataOk at hm
    rw [es, hwit] at hm
    obtain ⟨w, hw⟩ := witness_of_len raw wi _ hm.1.choose_spec
    simp only [checksumOk, hw, beq_bytes]
    constructor
    · rintro ⟨h1, _⟩
      exact ⟨(by intro _ _ _ _ _ hh; rw [hb] at hh; cases hh), (by intro _ _ hh; rw [hb] at hh; cases hh),
        (by intro wi' c' d' hh w' hw'; rw [hb] at hh; cases hh; rw [hw] at hw'; cases hw'; exact h1),
        fun cid s hcs => absurd hcs (hnc cid s)⟩
    · intro hc; exact ⟨hc.checksum wi c d hb w hw, fun cid s hcs => absurd hcs (hnc cid s)⟩
  | blob wi id =>
    have hnc := hnone (by intro a b c; rw [hb]; simp)
    have e : (raw.toTx H).body = .blob wi (blobIdOk H raw wi id) := by
      simp [Raw.toTx, Raw.toTxWith, hb, RBody.toBody, Raw.idVerdict]
    rw [e]
    have es : raw.skeleton.body = .blob wi true := by simp [Raw.skeleton, Raw.toTxWith, hb, RBody.toBody]
    unfold KindOk at hk
    rw [es, hwit] at hk
    obtain ⟨w, hw⟩ := witness_of_len raw wi _ hk.1.choose_spec
    simp only [blobIdOk, hw, beq_bytes]
    constructor
    · rintro ⟨h1, _⟩
      exact ⟨(by intro _ _ _ _ _ hh; rw [hb] at hh; cases hh),
        (by intro wi' id' hh w' hw'; rw [hb] at hh; cases hh; rw [hw] at hw'; cases hw'; exact h1),
        (by intro _ _ _ hh; rw [hb] at hh; cases hh), fun cid s hcs => absurd hcs (hnc cid s)⟩
    · intro hc; exact ⟨hc.blob wi id hb w hw, fun cid s hcs => absurd hcs (hnc cid s)⟩
  | upload wi n root proof idx =>
    have hnc := hnone (by intro a b c; rw [hb]; simp)
    have e : (raw.toTx H).body = .upload wi n (uploadProofOk H raw wi n root proof idx) := by
      simp [Raw.toTx, Raw.toTxWith, hb, RBody.toBody, Raw.proofVerdict]
    rw [e]
    have es : raw.skeleton.body = .upload wi n true := by simp [Raw.skeleton, Raw.toTxWith, hb, RBody.toBody]
    unfold KindOk at hk
    rw [es, hwit] at hk
    obtain ⟨w, hw⟩ := witness_of_len raw wi _ hk.2.1.choose_spec
    have hn : n < 2 ^ 63 := by have := hs.count wi n root proof idx hb; omega
    have hver : uploadProofOk H raw wi n root proof idx = true ↔
        (idx < n ∧ BMT.rootFromPath H idx n (BMT.leafSum H w) proof = some root) := by
      rw [← BMT.verify_true_iff_recomputes H root w proof idx n hn]
      simp only [uploadProofOk, hw]
      cases hvv : BMT.verify H root w proof idx n with
      | error e => simp
      | ok b => cases b <;> simp
    simp only
    rw [hver]
    constructor
    · rintro ⟨h1, _⟩
      exact ⟨(by intro wi' n' r' p' i' hh w' hw'; rw [hb] at hh; cases hh; rw [hw] at hw'; cases hw'; exact h1),
        (by intro _ _ hh; rw [hb] at hh; cases hh), (by intro _ _ _ hh; rw [hb] at hh; cases hh), fun cid s hcs => absurd hcs (hnc cid s)⟩
    · intro hc; exact ⟨hc.upload wi n root proof idx hb w hw, fun cid s hcs => absurd hcs (hnc cid s)⟩
  | create bwi salt slots =>
    have e : (raw.toTx H).body = .create bwi (slotKeyNats slots) := by simp [Raw.toTx, Raw.toTxWith, hb, RBody.toBody]
    rw [e]
    have es : raw.skeleton.body = .create bwi (slotKeyNats slots) := by simp [Raw.skeleton, Raw.toTxWith, hb, RBody.toBody]
    unfold MetadataOk at hm
    rw [es, hwit] at hm
    obtain ⟨code, hcode⟩ := witness_of_len raw bwi _ hm.choose_spec
    have hlen := hs.witnessLen code (List.mem_of_getElem? hcode)
    obtain ⟨r, hr, hmeta⟩ := createMetadata_spec H hE hl raw bwi salt slots hb code hcode hlen
    simp only [true_and, hmeta, createdMatches, Bool.and_eq_true, beq_bytes]
    constructor
    · intro hh
      refine ⟨(by intro _ _ _ _ _ h'; rw [hb] at h'; cases h'), (by intro _ _ h'; rw [hb] at h'; cases h'), (by intro _ _ _ h'; rw [hb] at h'; cases h'), ?_⟩
      intro cid s hcs bwi' salt' slots' hb' code' hcode'
      rw [hb] at hb'; cases hb'
      rw [hcode] at hcode'; cases hcode'
      obtain ⟨h1, h2⟩ := hh cid s hcs
      exact ⟨r, hr, h2, h1⟩
    · intro hc cid s hcs
      obtain ⟨r', hr', h2, h1⟩ := hc.created cid s hcs bwi salt slots hb code hcode
      rw [hr] at hr'; cases hr'
      exact ⟨h1, h2⟩

/-- **accepted exactly when valid, the cryptographic clauses stated mathematically** — for every raw transaction
(well-shaped representation), every hash function with `H [] = emptySum` and 32-byte digests, consensus parameters with
well-formed gas costs and block heights: the model of `into_checked_basic`, with the four sub-check verdicts computed
from the transaction's own bytes through the C10 / C15 models, succeeds IFF the non-cryptographic rules hold for the
skeleton and the four clauses of `CryptoOk` hold -/
theorem check_ok_iff_composed (H : Bytes → Bytes) (hE : H [] = BMT.emptySum) (hl : ∀ x, (H x).length = Gen.Sparse.keyBytes)
    {p : Params} (hg : p.gas.Ok) {h : Nat} (hh : h ≤ u32Max) (raw : Raw) (hs : raw.WellShaped) :
    (∃ c, checkRaw H p h raw = .ok c) ↔ (Valid p h raw.skeleton ∧ CryptoOk H raw) := by
  unfold checkRaw
  rw [check_ok_iff hg hh, valid_flags_iff hh, toTx_eraseFlags H raw hs]
  constructor
  · rintro ⟨hv, hf⟩; exact ⟨hv, (flagsTrue_toTx_iff H hE hl raw hs hv).mp hf⟩
  · rintro ⟨hv, hc⟩; exact ⟨hv, (flagsTrue_toTx_iff H hE hl raw hs hv).mpr hc⟩

/-- a raw transaction whose cryptographic clause fails is rejected (whatever else holds) -/
theorem crypto_violation_rejected (H : Bytes → Bytes) (hE : H [] = BMT.emptySum) (hl : ∀ x, (H x).length = Gen.Sparse.keyBytes)
    {p : Params} (hg : p.gas.Ok) {h : Nat} (hh : h ≤ u32Max) (raw : Raw) (hs : raw.WellShaped) (hc : ¬ CryptoOk H raw) :
    ∃ e, checkRaw H p h raw = .error e := by
  cases hr : checkRaw H p h raw with
  | error e => exact ⟨e, rfl⟩
  | ok c => exact absurd ((check_ok_iff_composed H hE hl hg hh raw hs).mp ⟨c, hr⟩).2 hc

/-- the balances formula for raw transactions (the skeleton has the same inputs, outputs-as-coins and policies) -/
theorem check_balances_composed (H : Bytes → Bytes) {p : Params} {h : Nat} {raw : Raw} {c : Checked}
    (hc : checkRaw H p h raw = .ok c) :
    (∀ a, (mget c.balances.nonRetryable a).getD 0 + coinOut (raw.toTx H).outputs a + feeOf p (raw.toTx H) a =
      sumIn p.baseAsset raw.inputs a) ∧ c.balances.retryable = sumRetry raw.inputs :=
  ⟨(check_balances hc).1, (check_balances hc).2.2.1⟩

/-! ## non-vacuity (a toy hash with `H [] = emptySum` and 32-byte digests, evaluated by the kernel) -/

def toy32 : Bytes → Bytes := fun b => if b = [] then BMT.emptySum else (b ++ List.replicate 32 0).take 32

theorem toy32_empty : toy32 [] = BMT.emptySum := rfl
theorem toy32_len (x : Bytes) : (toy32 x).length = Gen.Sparse.keyBytes := by
  unfold toy32
  split
  · decide
  · simp only [List.length_take, List.length_append, List.length_replicate, Gen.Sparse.keyBytes]; omega

def exPolicies : Policies := { tip := none, witnessLimit := none, maturity := none, maxFee := some 100, expiration := none, owner := none }

/-- a Blob whose id is the hash of its witness -/
def exBlob : Raw :=
  { body := .blob 0 (toy32 [1, 2, 3]), size := 300, policies := exPolicies,
    inputs := [.coinSigned 11 77 1000 0 0], outputs := [.plain (.change 0)], witnesses := [[1, 2, 3]] }

theorem exBlob_shaped : exBlob.WellShaped := by
  refine ⟨?_, ?_, by decide⟩
  · intro o h
    simp only [exBlob, List.mem_singleton, ROutput.plain.injEq] at h
    subst h; rfl
  · intro _ _ _ _ _ h; cases h

theorem exBlob_accepted : (checkRaw toy32 exParams 10 exBlob).toBool = true := by decide +kernel

/-- the accepted Blob satisfies the mathematical clause: its id is H(data) — through `check_ok_iff_composed` -/
example : Valid exParams 10 exBlob.skeleton ∧ CryptoOk toy32 exBlob := by
  apply (check_ok_iff_composed toy32 toy32_empty toy32_len (p := exParams) (by decide) (by decide) exBlob exBlob_shaped).mp
  cases h : checkRaw toy32 exParams 10 exBlob with
  | ok c => exact ⟨c, rfl⟩
  | error e => have := exBlob_accepted; rw [h] at this; cases this

/-- one byte of the id changed: rejected with the Blob rule's error -/
example : checkRaw toy32 exParams 10 { exBlob with body := .blob 0 (toy32 [1, 2, 4]) } =
    .error (.validity .TransactionBlobIdVerificationFailed) := by decide +kernel

/-- a Create (no storage slots, 8 bytes of bytecode) whose ContractCreated output carries the computed id and root -/
def exCreateMeta : Ids.CreateMetadata :=
  match Ids.CreateMetadata.compute toy32
      { bytecodeWitnessIndex := 0, salt := List.replicate 32 5, storageSlots := [], witnesses := [[1, 2, 3, 4, 5, 6, 7, 8]] } with
  | .ok m => m
  | .error _ => ⟨[], [], []⟩

def exCreate : Raw :=
  { body := .create 0 (List.replicate 32 5) [], size := 400, policies := exPolicies,
    inputs := [.coinSigned 11 77 1000 0 0],
    outputs := [.plain (.change 0), .contractCreated exCreateMeta.contractId exCreateMeta.stateRoot],
    witnesses := [[1, 2, 3, 4, 5, 6, 7, 8]] }

theorem exCreate_accepted : (checkRaw toy32 exParams 10 exCreate).toBool = true := by decide +kernel

/-- … and with the state root of the output replaced by 32 ones: `ContractCreatedDoesntMatch` -/
example : checkRaw toy32 exParams 10
    { exCreate with outputs := [.plain (.change 0), .contractCreated exCreateMeta.contractId (List.replicate 32 1)] } =
    .error (.validity .TransactionCreateOutputContractCreatedDoesntMatch) := by decide +kernel

/-- an Upload of subsection 1 of 2 with its one-element audit path (RFC 6962: root = node(leaf 0, leaf 1)) -/
def exUpload : Raw :=
  { body := .upload 0 2 (BMT.mth toy32 [[9, 9], [1, 2, 3]]) [BMT.leafSum toy32 [9, 9]] 1, size := 400, policies := exPolicies,
    inputs := [.coinSigned 11 77 1000 0 0], outputs := [.plain (.change 0)], witnesses := [[1, 2, 3]] }

theorem exUpload_accepted : (checkRaw toy32 exParams 10 exUpload).toBool = true := by decide +kernel

/-- another sibling hash in the proof set: the recomputation no longer reaches the root -/
example : checkRaw toy32 exParams 10
    { exUpload with body := .upload 0 2 (BMT.mth toy32 [[9, 9], [1, 2, 3]]) [BMT.leafSum toy32 [9, 8]] 1 } =
    .error (.validity .TransactionUploadRootVerificationFailed) := by decide +kernel

end FuelVerif.Validity
