/-
C07 — DA compression round-trip preserves transaction identity.

  "Compressing a transaction against a registry context and decompressing it against a context holding the
   same referenced data yields a transaction with the same id and the same value in every field that is not
   deliberately skipped; skipped fields come back as their defaults or are restored from the context."

Model: `Model/Compression.lean` (field-level derive semantics, `RegistryKey`, the ring registry context).
The field table (`compress(skip)` flags, registry-typed fields, what `prepare_sign` resets, which fields the
hand-written `DecompressibleBy` impls restore from the context) is regenerated from the Rust sources by
`tools/gen/fields.py` (`Gen/Fields.lean`); the obligations on it are decided by the kernel.
-/
import FuelVerif.Lemmas.Compression
namespace FuelVerif.C07
open FuelVerif FuelVerif.Compression

/-! ### obligations on the regenerated field table -/

/-- Every `compress(skip)` field is either malleable (reset by `prepare_sign`, i.e. zeroed before the id is hashed),
or restored from the context by a hand-written `DecompressibleBy` impl, or carries no content
(`canonical(skip)` metadata caches, `PhantomData`). -/
theorem skip_subset_malleable_or_restored :
    Gen.Fields.compressFields.all (fun r =>
      !r.2.2.1 || genTable.zeroed (r.1, r.2.1) || genTable.restored (r.1, r.2.1) || r.2.2.2.1 || r.1 == "Empty") = true := by
  decide +kernel

/-- The hand-written impls agree with the attributes: a field they fill with `Default::default()` is skipped AND
malleable; a field they take from the context is skipped; a field they decompress is not skipped. -/
theorem hand_written_impls_consistent :
    Gen.Fields.handDecompress.all (fun h =>
      let seg := (h.1, h.2.1)
      if h.2.2 == "default" then genTable.skip seg && genTable.zeroed seg
      else if h.2.2 == "ctx" then genTable.skip seg && !genTable.zeroed seg
      else h.2.2 == "decompress" && !genTable.skip seg) = true := by
  decide +kernel

/-- `Mint::id` resets exactly through its two contract fields (whose own `prepare_sign` sets are in `zeroed`);
`Mint.tx_pointer`, skipped, is not malleable and is restored from the context -/
theorem mint_obligation :
    Gen.Fields.mintIdPrepares = ["input_contract", "output_contract"] ∧
    genTable.skip ("Mint", "tx_pointer") = true ∧ genTable.restored ("Mint", "tx_pointer") = true ∧
    genTable.zeroed ("Mint", "tx_pointer") = false := by decide +kernel

/-- Every hand-written (not derived) `CompressibleBy`/`DecompressibleBy` pair of fuel-tx / fuel-types /
fuel-compression — `Policies`, `PoliciesBits`, `Bytes`, `Vec<T>`, `[T; S]`, the primitive and array types of
`identity_compression!` — has bodies (pinned and classified by the translator) that compose to the identity; hence no
field of any compressible type is unmodelled, and the `normal` mode (value kept) is what the code does. -/
theorem hand_impls_roundtrip :
    Gen.Fields.handImpls.all (fun h => pairRoundTrips h.2.1 h.2.2) = true ∧
    Gen.Fields.compressFields.all (fun r => !genTable.unmodelled (r.1, r.2.1)) = true ∧
    (["Policies", "PoliciesBits", "Bytes", "Vec<T>", "[T;S]", "u8", "u16", "u32", "u64", "Bytes32", "BlockHeight", "Nonce", "Salt", "BlobId"].all
      (fun t => Gen.Fields.handImpls.any (fun h => h.1 == t))) = true := by
  decide +kernel

/-- the key is 3 bytes: default value 2^24-1 -/
theorem key_constants : keyDefault = 2 ^ 24 - 1 ∧ keyMaxWritable = 2 ^ 24 - 2 := by decide +kernel

/-! ### RegistryKey::next -/

/-- `next` never panics on a writable key, never yields the reserved default key, and is +1 modulo 2^24-1 -/
theorem key_next_never_default (k : Nat) (h : k < keyDefault) :
    ∃ k', keyNext k = .ok k' ∧ k' < keyDefault ∧ k' = (k + 1) % keyDefault := keyNext_spec k h

/-- iterating `next` n times adds n modulo 2^24-1: the keys cycle with period exactly 2^24-1 -/
theorem key_next_cycle (k n : Nat) (h : k < keyDefault) :
    iterNext n k = .ok ((k + n) % keyDefault) := iterNext_spec k n h

theorem key_next_period (k : Nat) (h : k < keyDefault) :
    iterNext keyDefault k = .ok k ∧ ∀ n, 0 < n → n < keyDefault → iterNext n k ≠ .ok k := iterNext_period k h

/-- the default key has no next key (the Rust code panics) -/
theorem key_next_default_panics : ∃ e, keyNext keyDefault = .error e :=
  ⟨"Max/default value has no next key", by simp [keyNext]⟩

/-! ### round trip -/

/-- Decompressing the compression of ANY transaction (list of fields), against the context as it is after the
compression and holding the coin / message data of the transaction, gives back the transaction with exactly the
skipped-and-not-restored fields replaced by their defaults. Stated for every context satisfying `CtxLaws`
(a key handed out during the compression of a transaction still maps to its value when the compression ends). -/
theorem decompress_compress {C : Type} (ops : CtxOps C) (L : CtxLaws ops) (T : FieldTable)
    (c c' : C) (tx : List Leaf) (cls : List CLeaf)
    (hinfo : InfoAgrees ops T c tx) (hstable : L.Good c)
    (hc : compressAll ops T c tx = .ok (cls, c')) :
    decompressAll ops T c' tx cls = some (tx.map (restoreDefaults T)) :=
  decompress_compress_aux ops L T c c' tx cls hinfo hstable hc

/-- … and the ring registry context of the harness (any ring size, any start key, any history) satisfies the laws -/
def ringLaws : CtxLaws ringOps := Compression.ringLaws

/-- Identity: `prepare_sign` of the round-tripped transaction equals `prepare_sign` of the original, for any field
table in which every skipped field on a leaf's path is restored or malleable. Hence any id computed from the
stripped fields (`id = H (chain_id ‖ encode (strip tx))`, property C03) is preserved, whatever `H` and `encode`. -/
theorem strip_roundtrip (T : FieldTable) (tx : List Leaf)
    (hT : ∀ l ∈ tx, ∀ s ∈ l.path, T.skip s = true → T.restored s = true ∨ T.zeroed s = true) :
    (tx.map (restoreDefaults T)).map (strip T) = tx.map (strip T) := strip_restoreDefaults_list T tx hT

theorem id_preserved {β : Type} (H : Bytes → β) (encode : List Leaf → Bytes) (chain : Bytes) (T : FieldTable) (tx : List Leaf)
    (hT : ∀ l ∈ tx, ∀ s ∈ l.path, T.skip s = true → T.restored s = true ∨ T.zeroed s = true) :
    H (chain ++ encode ((tx.map (restoreDefaults T)).map (strip T))) = H (chain ++ encode (tx.map (strip T))) := by
  rw [strip_roundtrip T tx hT]

/-- for the regenerated table the hypothesis of `strip_roundtrip` holds for every field that has content -/
theorem gen_table_obligation (s : Seg) (hs : genTable.skip s = true) :
    genTable.restored s = true ∨ genTable.zeroed s = true ∨ NoContent s := gen_skip_cases s hs

/-- Sequences: over any history of transactions sharing one ring context, each transaction decompresses to its
`restoreDefaults` against the context as it is right after its own compression (`runSeq` stores the coin /
message data, compresses, decompresses; a transaction whose compression fails — ring full — leaves the
registry unchanged and is skipped). -/
theorem sequence_roundtrip (T : FieldTable) (r : Ring) (txs : List (List Leaf)) (hr : RingGood r)
    (hcons : ∀ tx ∈ txs, GroupsConsistent T tx) :
    ∀ res ∈ (runSeq T r txs).2, ∀ d, res.2 = .ok d → d = some (res.1.map (restoreDefaults T)) :=
  runSeq_ok T r txs hr hcons

/-- every fresh context (any ring size, any start key) satisfies the invariant -/
theorem fresh_ring_good (size start : Nat) : RingGood ⟨size, start, [], [], [], []⟩ := by
  intro ks; simp [getReg]

/-! ### non-vacuity -/

def coinLeaves : List Leaf := [
  ⟨[("Input::CoinSigned", "0"), ("Coin", "utxo_id")], "utxo:aa", .bytes [0xaa]⟩,
  ⟨[("Input::CoinSigned", "0"), ("Coin", "owner")], "utxo:aa", .bytes [1, 2]⟩,
  ⟨[("Input::CoinSigned", "0"), ("Coin", "amount")], "utxo:aa", .num 77⟩,
  ⟨[("Input::CoinSigned", "0"), ("Coin", "tx_pointer"), ("TxPointer", "block_height")], "utxo:aa", .num 9⟩,
  ⟨[("Output::Coin", "to")], "", .bytes [1, 2]⟩,
  ⟨[("Output::Change", "to")], "", .bytes [1, 2]⟩,
  ⟨[("Output::Change", "amount")], "", .num 5⟩,
  ⟨[("Output::Coin", "to")], "", .bytes [3, 4]⟩,
  ⟨[("Output::Coin", "to")], "", .bytes [5, 6]⟩]

def ring2 : Ring := ⟨2, 0, [], [], [], []⟩

/-- modes from the real table: kept, restored, restored, defaulted, registry (same value twice: one key),
defaulted amount; third distinct address in a ring of 2 while both keys are protected: registry full -/
example : (coinLeaves.map (mode genTable)) =
    [.utxo, .skipRestored, .skipRestored, .skipDefault, .registry "Address", .registry "Address", .skipDefault,
     .registry "Address", .registry "Address"] := by decide +kernel
example : (compressAll ringOps genTable (storeTxInfo genTable ring2 coinLeaves) (coinLeaves.take 8)).toOption.map (·.1) =
    some [.utxo 0, .skipped, .skipped, .skipped, .key "Address" 0, .key "Address" 0, .skipped, .key "Address" 1] := by
  decide +kernel
example : (compressAll ringOps genTable (storeTxInfo genTable ring2 coinLeaves) coinLeaves).toOption = none := by
  decide +kernel
/-- a history with eviction in a ring of 2: third transaction re-registers an evicted address; all three round-trip -/
example : (runSeq genTable ring2 [coinLeaves.take 8, coinLeaves.drop 7, coinLeaves.take 8]).2.map
    (fun res => decide (res.2.toOption = some (some (res.1.map (restoreDefaults genTable))))) = [true, true, true] := by decide +kernel
example : GroupsConsistent genTable coinLeaves := by
  intro l hl l' hl' hm hm' hg hp
  simp only [coinLeaves, List.mem_cons, List.mem_nil_iff, or_false] at hl hl'
  rcases hl with rfl | rfl | rfl | rfl | rfl | rfl | rfl | rfl | rfl <;>
  rcases hl' with rfl | rfl | rfl | rfl | rfl | rfl | rfl | rfl | rfl <;> first | rfl | (revert hp; decide) | (revert hm; decide +kernel) | (revert hm'; decide +kernel)
example : (keyNext keyMaxWritable).toOption = some 0 := by decide +kernel
example : (keyNext 255).toOption = some 256 := by decide +kernel

end FuelVerif.C07
