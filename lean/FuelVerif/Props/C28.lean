/-
C28 — Execution outcomes and receipts are well formed.

  "Every script execution that completes ends with exactly one script-result receipt, preceded by a panic
   receipt exactly when the result is a panic, with the result being success iff the top-level program
   returned, revert iff it reverted; the committed receipts root equals the binary Merkle root of the
   encoded receipts, and at most 65,535 receipts are produced. If execution reverts or panics, variable
   outputs are zeroed, change outputs hold the initial free balance (plus the refund for the base asset),
   and the in-memory client leaves contract storage exactly as it was."

Model: `Model/Outcome.lean` (`run_program` loop over abstract instruction events, `ReceiptsCtx::push` with the
two reserved tail slots, `MerkleRootCalculator`, `should_revert`, `MemoryClient::transact`), and
`Model/Ledger.lean` for `update_outputs`. Theorems hold for every hash function `H`, every event list.
-/
import FuelVerif.Lemmas.Outcome
import FuelVerif.Lemmas.Ledger
import FuelVerif.Gen.Outcome
namespace FuelVerif.Outcome
open FuelVerif

/-- shape of the receipt list of a completed execution: quiet program receipts, then the trailer -/
structure Shape (sr : Final → Rcpt) (evs : List Ev) (o : Outcome) where
  body : List Rcpt
  quiet : ∀ r ∈ body, r.quiet
  success : o.fin = .success → o.rc.receipts = body ++ [sr .success] ∧ ∃ r, Ev.ret r ∈ evs ∧ body.getLast? = some r
  revert : o.fin = .revert → ∃ r, Ev.rvrt r ∈ evs ∧ r.kind = .revert ∧ o.rc.receipts = body ++ [r, sr .revert]
  panic : o.fin = .panic → ∃ p, p.kind = .panic ∧ o.rc.receipts = body ++ [p, sr .panic]
  le : o.rc.receipts.length ≤ maxReceipts

theorem finish_spec {H : Bytes → Bytes} {sr : Final → Rcpt} (hsr : ∀ f, (sr f).kind = .scriptResult)
    {rc : RCtx} (fin : Final) (hl : rc.n ≤ maxReceipts - 1) (hs : Sync H rc) :
    ∃ o, finish H rc fin sr = .ok o ∧ o.fin = fin ∧ o.rc.receipts = rc.receipts ++ [sr fin] ∧ Sync H o.rc := by
  obtain ⟨rc', h⟩ := push_sr_ok (H := H) hl (hsr fin)
  refine ⟨⟨rc', fin⟩, by simp [finish, h], rfl, (push_shape h).1, push_sync hs h⟩

theorem panicPath_spec {H : Bytes → Bytes} {sr : Final → Rcpt} (hsr : ∀ f, (sr f).kind = .scriptResult)
    {rc : RCtx} {p : Rcpt} (hg : Good rc) (hp : p.kind = .panic) (hs : Sync H rc) :
    ∃ o, panicPath H rc p sr = .ok o ∧ o.fin = .panic ∧ o.rc.receipts = rc.receipts ++ [p, sr .panic] ∧ Sync H o.rc := by
  obtain ⟨rc', h⟩ := push_panic_ok (H := H) hg hp
  have h1 := (push_shape h).1
  have hl : rc'.n ≤ maxReceipts - 1 := by
    rw [(push_shape h).2.2]
    have := hg.1; simp [maxReceipts] at *; omega
  obtain ⟨o, ho, hf, hr, hsy⟩ := finish_spec (H := H) hsr .panic hl (push_sync hs h)
  refine ⟨o, by simp [panicPath, h, ho], hf, ?_, hsy⟩
  rw [hr, h1]; simp

/-- **main theorem**: for every hash `H`, every list of well-formed instruction events, starting from any
receipt context that satisfies the loop invariant, `run_program` either has not terminated yet (events
exhausted) or completes with a receipt list of the stated shape, within the limit, with the tree in sync —
it never returns a VM error and `append_panic_receipt`'s `expect` never fires. -/
theorem run_wellformed (H : Bytes → Bytes) (sr : Final → Rcpt) (tmr : Rcpt)
    (hsr : ∀ f, (sr f).kind = .scriptResult) (htmr : tmr.kind = .panic)
    (evs : List Ev) (hw : ∀ e ∈ evs, e.wf) (rc : RCtx) (depth : Nat) (hg : Good rc) (hs : Sync H rc) :
    (runEvents H sr tmr rc depth evs = .error .unfinished) ∨
    (∃ o, runEvents H sr tmr rc depth evs = .ok o ∧ Nonempty (Shape sr evs o) ∧ Sync H o.rc) := by
  have lenle : ∀ {n : Nat}, n ≤ maxReceipts - 2 → n ≤ maxReceipts - 1 := by
    intro n h; simp [maxReceipts] at *; omega
  have panicShape : ∀ (evs : List Ev) (rc : RCtx) (p : Rcpt), Good rc → p.kind = .panic → Sync H rc →
      ∃ o, panicPath H rc p sr = .ok o ∧ Nonempty (Shape sr evs o) ∧ Sync H o.rc := by
    intro evs rc p hg hp hs
    obtain ⟨o, ho, hf, hr, hsy⟩ := panicPath_spec (H := H) hsr hg hp hs
    refine ⟨o, ho, ⟨⟨rc.receipts, hg.2.1, fun h => absurd (hf.symm.trans h) (by decide), fun h => absurd (hf.symm.trans h) (by decide),
      fun _ => ⟨p, hp, hr⟩, ?_⟩⟩, hsy⟩
    rw [hr]; simp only [List.length_append, List.length_cons, List.length_nil]
    have := hg.1; have := hg.2.2; simp [maxReceipts] at *; omega
  induction evs generalizing rc depth with
  | nil => left; rfl
  | cons e evs ih =>
    have hw' : ∀ e ∈ evs, e.wf := fun x hx => hw x (List.mem_cons_of_mem _ hx)
    have he : e.wf := hw e List.mem_cons_self
    have lift : ∀ {o : Outcome}, Nonempty (Shape sr evs o) → Nonempty (Shape sr (e :: evs) o) := by
      intro o ⟨sh⟩
      exact ⟨⟨sh.body, sh.quiet,
        fun h => let ⟨h1, r, hm, hl⟩ := sh.success h; ⟨h1, r, List.mem_cons_of_mem _ hm, hl⟩,
        fun h => let ⟨r, hm, hk, hl⟩ := sh.revert h; ⟨r, List.mem_cons_of_mem _ hm, hk, hl⟩, sh.panic, sh.le⟩⟩
    have recur : ∀ (rc' : RCtx) (d : Nat), Good rc' → Sync H rc' →
        (runEvents H sr tmr rc' d evs = .error .unfinished) ∨
        (∃ o, runEvents H sr tmr rc' d evs = .ok o ∧ Nonempty (Shape sr (e :: evs) o) ∧ Sync H o.rc) := by
      intro rc' d hg' hs'
      rcases ih hw' rc' d hg' hs' with h | ⟨o, ho, hsh, hsy⟩
      · left; exact h
      · right; exact ⟨o, ho, lift hsh, hsy⟩
    cases e with
    | quiet => simp only [runEvents]; exact recur rc depth hg hs
    | emit r =>
      simp only [runEvents]
      cases hp : rc.push H r with
      | ok rc' => simp only; exact recur rc' depth (push_prog_ok hg he hp) (push_sync hs hp)
      | error err =>
        have := push_prog_err hg hp; subst this
        simp only
        right; exact panicShape _ rc tmr hg htmr hs
    | call r =>
      simp only [runEvents]
      cases hp : rc.push H r with
      | ok rc' => simp only; exact recur rc' (depth + 1) (push_prog_ok hg he hp) (push_sync hs hp)
      | error err =>
        have := push_prog_err hg hp; subst this
        simp only
        right; exact panicShape _ rc tmr hg htmr hs
    | ret r =>
      simp only [runEvents]
      cases hp : rc.push H r with
      | ok rc' =>
        simp only
        have hg' := push_prog_ok hg he hp
        have hs' := push_sync hs hp
        split
        · right
          obtain ⟨o, ho, hf, hr, hsy⟩ := finish_spec (H := H) hsr .success (lenle hg'.1) hs'
          refine ⟨o, ho, ⟨⟨rc'.receipts, hg'.2.1,
            fun _ => ⟨hr, r, List.mem_cons_self, by rw [(push_shape hp).1]; simp⟩,
            fun h => absurd (hf.symm.trans h) (by decide), fun h => absurd (hf.symm.trans h) (by decide), ?_⟩⟩, hsy⟩
          rw [hr]; simp only [List.length_append, List.length_cons, List.length_nil]
          have := hg'.1; have := hg'.2.2; simp [maxReceipts] at *; omega
        · exact recur rc' (depth - 1) hg' hs'
      | error err =>
        have := push_prog_err hg hp; subst this
        simp only
        right; exact panicShape _ rc tmr hg htmr hs
    | rvrt r =>
      simp only [runEvents]
      have hrp : IsProg r := ⟨by rw [he]; simp, by rw [he]; simp⟩
      cases hp : rc.push H r with
      | ok rc' =>
        simp only
        have hl' := push_prog_len hg hrp hp
        have hs' := push_sync hs hp
        right
        obtain ⟨o, ho, hf, hr, hsy⟩ := finish_spec (H := H) hsr .revert (lenle hl'.1) hs'
        refine ⟨o, ho, ⟨⟨rc.receipts, hg.2.1, fun h => absurd (hf.symm.trans h) (by decide),
          fun _ => ⟨r, List.mem_cons_self, he, by rw [hr, (push_shape hp).1]; simp⟩,
          fun h => absurd (hf.symm.trans h) (by decide), ?_⟩⟩, hsy⟩
        rw [hr]; simp only [List.length_append, List.length_cons, List.length_nil]
        have := hl'.1; have := hl'.2; simp [maxReceipts] at *; omega
      | error err =>
        have := push_prog_err hg hp; subst this
        simp only
        right; exact panicShape _ rc tmr hg htmr hs
    | fault p =>
      simp only [runEvents]
      right; exact panicShape _ rc p hg he hs

theorem body_filter {sr : Final → Rcpt} {evs : List Ev} {o : Outcome} (sh : Shape sr evs o) (k : RKind)
    (hk : k = .scriptResult ∨ k = .panic ∨ k = .revert) : sh.body.filter (fun r => r.kind == k) = [] := by
  rw [List.filter_eq_nil_iff]
  intro r hr
  have := sh.quiet r hr
  rcases hk with rfl | rfl | rfl
  · simpa using this.1
  · simpa using this.2.1
  · simpa using this.2.2

/-- receipts of a completed execution, by result -/
theorem receipts_by_result {sr : Final → Rcpt} {evs : List Ev} {o : Outcome} (sh : Shape sr evs o) :
    (o.fin = .success ∧ o.rc.receipts = sh.body ++ [sr o.fin]) ∨
    (∃ t, (t.kind = .revert ∧ o.fin = .revert ∨ t.kind = .panic ∧ o.fin = .panic) ∧ o.rc.receipts = sh.body ++ [t, sr o.fin]) := by
  cases hf : o.fin with
  | success => left; exact ⟨rfl, (sh.success hf).1⟩
  | revert => right; obtain ⟨r, _, hk, hr⟩ := sh.revert hf; exact ⟨r, Or.inl ⟨hk, rfl⟩, hr⟩
  | panic => right; obtain ⟨p, hk, hr⟩ := sh.panic hf; exact ⟨p, Or.inr ⟨hk, rfl⟩, hr⟩

/-- a completed execution **ends with exactly one script-result receipt** (the last one; none earlier) -/
theorem exactly_one_script_result {sr : Final → Rcpt} {evs : List Ev} {o : Outcome}
    (hsr : ∀ f, (sr f).kind = .scriptResult) (sh : Shape sr evs o) :
    o.rc.receipts.getLast? = some (sr o.fin) ∧
    (o.rc.receipts.filter (fun r => r.kind == .scriptResult)).length = 1 := by
  have hb := body_filter sh .scriptResult (Or.inl rfl)
  rcases receipts_by_result sh with ⟨_, hr⟩ | ⟨t, ht, hr⟩
  · rw [hr]; refine ⟨by simp, ?_⟩
    rw [List.filter_append, hb]; simp [hsr]
  · rw [hr]; refine ⟨by simp, ?_⟩
    rw [List.filter_append, hb]
    rcases ht with ⟨hk, _⟩ | ⟨hk, _⟩ <;> simp [hk, hsr]

/-- the script result is **preceded by a panic receipt exactly when the result is a panic**; there is no
other panic receipt -/
theorem panic_receipt_iff {sr : Final → Rcpt} {evs : List Ev} {o : Outcome}
    (hsr : ∀ f, (sr f).kind = .scriptResult) (sh : Shape sr evs o) :
    (o.fin = .panic ↔ ∃ pre p, p.kind = .panic ∧ o.rc.receipts = pre ++ [p, sr o.fin]) ∧
    (o.rc.receipts.filter (fun r => r.kind == .panic)).length = (if o.fin = .panic then 1 else 0) := by
  have hb := body_filter sh .panic (Or.inr (Or.inl rfl))
  have key : ∀ (l pre : List Rcpt) (x p s : Rcpt), l ++ [x, s] = pre ++ [p, s] → x = p := by
    intro l pre x p s h
    have h1 : (l ++ [x, s]).dropLast = (pre ++ [p, s]).dropLast := by rw [h]
    have e1 : l ++ [x, s] = (l ++ [x]) ++ [s] := by simp
    have e2 : pre ++ [p, s] = (pre ++ [p]) ++ [s] := by simp
    rw [e1, e2, List.dropLast_concat, List.dropLast_concat] at h1
    have := congrArg List.getLast? h1
    simpa using this
  rcases receipts_by_result sh with ⟨hf, hr⟩ | ⟨t, ht, hr⟩
  · refine ⟨⟨fun h => absurd (hf.symm.trans h) (by decide), ?_⟩, ?_⟩
    · rintro ⟨pre, p, hpk, he⟩
      rw [hr] at he
      have h1 : (sh.body ++ [sr o.fin]).dropLast = (pre ++ [p, sr o.fin]).dropLast := by rw [he]
      have e2 : pre ++ [p, sr o.fin] = (pre ++ [p]) ++ [sr o.fin] := by simp
      rw [e2, List.dropLast_concat, List.dropLast_concat] at h1
      have : p ∈ sh.body := by rw [h1]; simp
      exact absurd hpk (sh.quiet p this).2.1
    · rw [hr, List.filter_append, hb, hf]; simp [hsr]
  · rcases ht with ⟨hk, hf⟩ | ⟨hk, hf⟩
    · refine ⟨⟨fun h => absurd (hf.symm.trans h) (by decide), ?_⟩, ?_⟩
      · rintro ⟨pre, p, hpk, he⟩
        rw [hr] at he
        have := key _ _ _ _ _ he
        rw [this] at hk; rw [hk] at hpk; cases hpk
      · rw [hr, List.filter_append, hb, hf]; simp [hsr, hk]
    · refine ⟨⟨fun _ => ⟨sh.body, t, hk, hr⟩, fun _ => hf⟩, ?_⟩
      rw [hr, List.filter_append, hb, hf]; simp [hsr, hk]

/-- **success iff the top-level program returned, revert iff it reverted** (results are exclusive; the
receipt just before the trailer is that RET/RETD receipt, resp. the trailer starts with the RVRT receipt) -/
theorem result_kind {sr : Final → Rcpt} {evs : List Ev} {o : Outcome} (sh : Shape sr evs o) :
    (o.fin = .success → ∃ r, Ev.ret r ∈ evs ∧ sh.body.getLast? = some r ∧ o.rc.receipts = sh.body ++ [sr .success]) ∧
    (o.fin = .revert → ∃ r, Ev.rvrt r ∈ evs ∧ o.rc.receipts = sh.body ++ [r, sr .revert]) ∧
    (o.fin = .panic → ∃ p, p.kind = .panic ∧ o.rc.receipts = sh.body ++ [p, sr .panic]) :=
  ⟨fun h => let ⟨h1, r, hm, hl⟩ := sh.success h; ⟨r, hm, hl, h1⟩,
   fun h => let ⟨r, hm, _, hr⟩ := sh.revert h; ⟨r, hm, hr⟩, sh.panic⟩

/-- **at most 65,535 receipts** -/
theorem receipts_le_max {sr : Final → Rcpt} {evs : List Ev} {o : Outcome} (sh : Shape sr evs o) :
    o.rc.receipts.length ≤ 65535 := sh.le

/-- the two reserved tail slots make the final pushes infallible: from the start of a script, no list of
well-formed events makes `run_program` return an interpreter error or hit the `expect` -/
theorem tail_slots_reserved (H : Bytes → Bytes) (sr : Final → Rcpt) (tmr : Rcpt)
    (hsr : ∀ f, (sr f).kind = .scriptResult) (htmr : tmr.kind = .panic) (evs : List Ev) (hw : ∀ e ∈ evs, e.wf) :
    runEvents H sr tmr RCtx.empty 0 evs ≠ .error .vmError ∧ runEvents H sr tmr RCtx.empty 0 evs ≠ .error .hostPanic := by
  rcases run_wellformed H sr tmr hsr htmr evs hw RCtx.empty 0 good_empty (sync_empty H) with h | ⟨o, ho, _, _⟩
  · rw [h]; exact ⟨by simp, by simp⟩
  · rw [ho]; exact ⟨by simp, by simp⟩

/-- **the committed receipts root is the root of the Merkle calculator fed with the encoded receipts, in
order, including the trailer** (`script.receipts_root = self.receipts.root()`). That this value is the RFC-6962
binary Merkle root is `root_eq_mth_holds` / `root_eq_mth_receipts` in `Props/C28Root.lean`. -/
theorem root_eq_mth_receipts_partial (H : Bytes → Bytes) (sr : Final → Rcpt) (tmr : Rcpt)
    (hsr : ∀ f, (sr f).kind = .scriptResult) (htmr : tmr.kind = .panic) (evs : List Ev) (hw : ∀ e ∈ evs, e.wf)
    (o : Outcome) (h : runEvents H sr tmr RCtx.empty 0 evs = .ok o) :
    o.rc.root H = calcRoot H ((o.rc.receipts.map (·.enc)).foldl (calcPush H) []) := by
  rcases run_wellformed H sr tmr hsr htmr evs hw RCtx.empty 0 good_empty (sync_empty H) with h' | ⟨o', ho, _, hsy⟩
  · rw [h'] at h; cases h
  · rw [ho] at h; cases h
    unfold RCtx.root; rw [hsy]

/-- full statement of the root clause; proved for `mth := BMT.mth` in `Props/C28Root.lean` (`root_eq_mth_holds`) by composing
with C09 -/
def RootEqMthStatement (mth : (Bytes → Bytes) → List Bytes → Bytes) : Prop :=
  ∀ (H : Bytes → Bytes) (sr : Final → Rcpt) (tmr : Rcpt) (evs : List Ev) (o : Outcome),
    (∀ f, (sr f).kind = .scriptResult) → tmr.kind = .panic → (∀ e ∈ evs, e.wf) →
    runEvents H sr tmr RCtx.empty 0 evs = .ok o → o.rc.root H = mth H (o.rc.receipts.map (·.enc))

/-- `should_revert` is true exactly for the non-success results -/
theorem should_revert_iff {sr : Final → Rcpt} {evs : List Ev} {o : Outcome}
    (hsr : ∀ f, (sr f).kind = .scriptResult) (sh : Shape sr evs o) :
    shouldRevert o.rc.receipts = true ↔ o.fin ≠ .success := by
  have hbody : sh.body.any (fun r => r.kind == .revert || r.kind == .panic) = false := by
    rw [List.any_eq_false]
    intro r hr
    have := sh.quiet r hr
    simp [this.2.1, this.2.2]
  unfold shouldRevert
  rcases receipts_by_result sh with ⟨hf, hr⟩ | ⟨t, ht, hr⟩
  · rw [hr, List.any_append, hbody, hf]
    simp [hsr]
  · rw [hr, List.any_append, hbody]
    rcases ht with ⟨hk, hf⟩ | ⟨hk, hf⟩ <;> simp [hk, hf]

/-- **revert / panic ⇒ the in-memory client leaves contract storage exactly as it was** (memory := the
committed state, whatever the run did to it); success ⇒ the run's state is committed. -/
theorem client_storage_unchanged_on_revert {σ : Type} {sr : Final → Rcpt} {evs : List Ev} {o : Outcome}
    (hsr : ∀ f, (sr f).kind = .scriptResult) (sh : Shape sr evs o) (s : Store σ) (after : σ) :
    (o.fin ≠ .success → (clientSettle s after o.rc.receipts).memory = s.transacted ∧
                         (clientSettle s after o.rc.receipts).transacted = s.transacted) ∧
    (o.fin = .success → (clientSettle s after o.rc.receipts).memory = after ∧
                         (clientSettle s after o.rc.receipts).transacted = after) := by
  have h := should_revert_iff hsr sh
  constructor
  · intro hf
    have := h.mpr hf
    simp [clientSettle, this]
  · intro hf
    have : shouldRevert o.rc.receipts = false := by
      cases hsv : shouldRevert o.rc.receipts with
      | false => rfl
      | true => exact absurd hf (h.mp hsv)
    simp [clientSettle, this]

/-- **revert / panic ⇒ variable outputs are zeroed and change outputs hold the initial free balance (plus
the refund for the base asset)** — `update_outputs(revert = true)`, for every ledger state the run left -/
theorem revert_outputs (l : Ledger.Ledger) (initial : Nat → Option Nat) (refund a v : Nat) :
    (∀ p ∈ Ledger.finalVars l true, p.2 = 0) ∧
    (Ledger.changeAmount l initial true refund a = some v →
      v = (initial a).getD 0 + (if a = l.base then refund else 0)) := by
  constructor
  · intro p hp
    simp only [Ledger.finalVars, if_true, List.mem_map] at hp
    obtain ⟨q, _, rfl⟩ := hp
    rfl
  · intro h
    have := Ledger.change_amount_spec_aux l initial refund a v h
    exact this

/-- obligation on the constants regenerated from receipts.rs / state.rs on every run: the model's limit is
`ReceiptsCtx::MAX_RECEIPTS`, two tail slots are reserved, `should_revert` looks for Revert and Panic receipts.
(The translator also fails closed on the text of `push`, `run_program`'s arms, `append_panic_receipt`,
`MemoryClient::transact` and `MemoryStorage::{commit,revert}`.) -/
theorem limits_match_code :
    maxReceipts = Gen.receiptsMax ∧ Gen.receiptsMax = 65535 ∧ Gen.reservedTailSlots = 2 ∧
    Gen.shouldRevertKinds = ["Revert", "Panic"] := by decide

/-! ### reused interpreters: every transaction starts from a clean frame stack and an empty receipts context -/

/-- `init_inner` clears the call-frame stack and the receipts context, whatever the previous transaction left behind
(an obligation on the generated flags: deleting `self.frames.clear();` or `self.receipts.clear();` from `init_inner`
breaks this proof) -/
theorem init_inner_resets (c : Carry) : (initInner c).depth = 0 ∧ (initInner c).rc = RCtx.empty := by
  constructor <;> simp [initInner, Gen.initClearsFrames, Gen.initClearsReceipts]

/-- The well-formedness assumption on instruction events (`Ev.wf`: only RVRT pushes a Revert receipt, an instruction
never pushes a Panic or ScriptResult receipt), tied to the source instead of "by inspection": in the non-test code of
fuel-vm/src a Revert receipt is built only in `flow.rs::revert`, reached only through `Interpreter::revert`, which only
the RVRT instruction calls; a Panic receipt is built only in `append_panic_receipt`, called only from `run_program`;
a ScriptResult receipt is built only in `run_program`. The two lists are regenerated on every run (translator outcome);
a new construction or call site anywhere under fuel-vm/src changes them and breaks this proof. -/
theorem special_receipts_built_only_where_assumed :
    Gen.receiptBuilders =
      [("panic", "interpreter/flow.rs", "append_panic_receipt"),
       ("revert", "interpreter/flow.rs", "revert"),
       ("script_result", "interpreter/executors/main.rs", "run_program")] ∧
    Gen.receiptHelperCallers =
      [(".revert", "interpreter/executors/opcodes_impl.rs", "RVRT::execute"),
       ("append_panic_receipt", "interpreter/executors/main.rs", "run_program"),
       ("revert", "interpreter/flow.rs", "revert")] := by
  decide

/-- a transaction on a reused interpreter runs exactly as on a fresh one — in particular a previous run that ended
inside a nested call (revert, panic, out of gas: `depthAfter > 0`) does not make the next top-level RET "return from a call" -/
theorem reused_interpreter_as_fresh (H : Bytes → Bytes) (sr : Final → Rcpt) (tmr : Rcpt) (c : Carry) (evs : List Ev) :
    (transactOn H sr tmr c evs).1 = runEvents H sr tmr RCtx.empty 0 evs := by
  obtain ⟨h1, h2⟩ := init_inner_resets c
  simp only [transactOn, h1, h2]

/-- hence for every sequence of transactions on one `MemoryClient` / `Transactor`, each transaction's outcome is the
fresh-interpreter outcome, and all theorems above apply to it -/
theorem sequence_on_reused_client (H : Bytes → Bytes) (sr : Final → Rcpt) (tmr : Rcpt) (c : Carry) (txs : List (List Ev)) :
    runSeq H sr tmr c txs = txs.map (runEvents H sr tmr RCtx.empty 0) := by
  induction txs generalizing c with
  | nil => rfl
  | cons evs rest ih => simp only [runSeq, List.map_cons, reused_interpreter_as_fresh, ih]

/-! ### non-vacuity -/

def exH : Bytes → Bytes := fun b => [UInt8.ofNat b.length]
def exSr : Final → Rcpt := fun f => ⟨.scriptResult, [match f with | .success => 0 | .revert => 1 | .panic => 2]⟩
def exTmr : Rcpt := ⟨.panic, [9]⟩

def kindsOf (r : Except RunErr Outcome) : List RKind := match r with | .ok o => o.rc.receipts.map (·.kind) | .error _ => []

example : kindsOf (runEvents exH exSr exTmr RCtx.empty 0
    [.emit ⟨.log, [1]⟩, .call ⟨.call, [2]⟩, .quiet, .ret ⟨.ret, [3]⟩, .emit ⟨.logd, [4]⟩, .ret ⟨.retd, [5]⟩, .emit ⟨.log, [6]⟩])
    = [.log, .call, .ret, .logd, .retd, .scriptResult] := by decide
example : kindsOf (runEvents exH exSr exTmr RCtx.empty 0 [.call ⟨.call, [2]⟩, .rvrt ⟨.revert, [3]⟩]) = [.call, .revert, .scriptResult] := by decide
example : kindsOf (runEvents exH exSr exTmr RCtx.empty 0 [.emit ⟨.log, [1]⟩, .fault ⟨.panic, [7]⟩]) = [.log, .panic, .scriptResult] := by decide
/-- the boundary: with 65,533 receipts a further program receipt is refused, a Panic receipt is accepted;
with 65,532 a program receipt is still accepted -/
-- a first transaction that reverts inside a call leaves a frame behind (`depthAfter = 1`); the next transaction's
-- top-level RET still ends the script with success
example : depthAfter exH RCtx.empty 0 [.call ⟨.call, [2]⟩, .rvrt ⟨.revert, [3]⟩] = 1 ∧
    (runSeq exH exSr exTmr {} [[.call ⟨.call, [2]⟩, .rvrt ⟨.revert, [3]⟩], [.ret ⟨.ret, [4]⟩]]).map kindsOf
      = [[.call, .revert, .scriptResult], [.ret, .scriptResult]] := by decide

example (l : List Rcpt) :
    (RCtx.push exH ⟨l, 65533, []⟩ ⟨.log, []⟩).toOption = none ∧ (RCtx.push exH ⟨l, 65533, []⟩ ⟨.panic, []⟩).toOption.isSome = true
    ∧ (RCtx.push exH ⟨l, 65532, []⟩ ⟨.log, []⟩).toOption.isSome = true := by
  simp [RCtx.push, maxReceipts, Except.toOption]

end FuelVerif.Outcome
