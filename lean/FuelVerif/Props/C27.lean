/-
C27 — Assets are conserved by every script execution.

  "For every executed script and every asset, the spendable input amount plus the contracts' prior
   balances plus minted amounts equals the coin, change and variable output amounts plus the contracts'
   final balances plus burned amounts plus any balance left without a change output, plus, for the base
   asset, the fee actually charged and the amounts sent in outgoing messages (message-data inputs count
   only when execution succeeds). Every transfer, mint, burn and message receipt matches a balance
   movement of exactly that amount, and the balance table the program can read in memory always equals
   the VM's internal free balances."

Model: `Model/Ledger.lean` (TR, TRO, CALL coin forwarding, RET, MINT, BURN, SMO with their failure order,
`update_outputs`). Theorems quantify over every well-formed ledger state and every history of ops.
-/
import FuelVerif.Lemmas.Ledger
import FuelVerif.Gen.Ledger
namespace FuelVerif.Ledger

/-- **every op conserves every asset**: a successful TR / TRO / CALL / RET / MINT / BURN / SMO changes the
per-asset holdings (free balance + all input contracts' balances + variable outputs + burned + outgoing
messages for the base asset) by exactly the amount minted; well-formedness and the memory mirror are kept. -/
theorem op_conserves (s t : Ledger) (op : Op) (r : Option Rcpt) (hw : WF s) (h : applyOp s op = .ok (t, r)) :
    WF t ∧ t.base = s.base ∧ t.cids = s.cids ∧
    (∀ a, holdings t a + s.minted a = holdings s a + t.minted a) ∧
    (s.mem = s.free → t.mem = t.free) := by
  cases op with
  | tr dest amt asset =>
    simp only [applyOp] at h
    split at h
    · cases h
    · rename_i hin
      split at h
      · cases h
      · split at h
        · cases h
        · rename_i s1 hd
          split at h
          · cases h
          · rename_i s2 hi
            cases h
            obtain ⟨hf1, hsum1, hm1⟩ := debit_spec hw hd
            have hdest : dest ∈ s1.cids := by
              rw [hf1.2.1]; simpa using hin
            have hw1 : WF s1 := ⟨hf1.2.1 ▸ hw.1, by rw [hf1.2.2.2.2.2.2.2, hf1.2.1]; exact hw.2⟩
            obtain ⟨hf2, hfree2, hmem2, hsum2⟩ := balanceIncrease_spec hw1.1 hdest hi
            refine ⟨⟨hf2.2.1 ▸ hw1.1, by rw [hf2.2.2.2.2.2.2.2, hf2.2.1]; exact hw1.2⟩,
              by rw [hf2.1, hf1.1], by rw [hf2.2.1, hf1.2.1], ?_, ?_⟩
            · intro a
              unfold holdings
              rw [hf2.2.2.2.1, hf2.2.2.2.2.1, hf2.2.2.2.2.2.1, hf2.2.2.2.2.2.2.1, hf2.1, hfree2,
                  hf1.2.2.2.1, hf1.2.2.2.2.1, hf1.2.2.2.2.2.1, hf1.2.2.2.2.2.2.1, hf1.1]
              have := hsum1 a; have := hsum2 a
              omega
            · intro hm; rw [hmem2, hfree2]; exact hm1 hm
  | tro to idx amt asset =>
    simp only [applyOp] at h
    split at h
    · cases h
    · split at h
      · cases h
      · rename_i s1 hd
        split at h
        · cases h
        · rename_i vs hv
          cases h
          obtain ⟨hf1, hsum1, hm1⟩ := debit_spec hw hd
          unfold setVar at hv
          split at hv
          · rename_i x hx
            cases hv
            refine ⟨⟨hf1.2.1 ▸ hw.1, by simp only; rw [hf1.2.2.2.2.2.2.2, hf1.2.1]; exact hw.2⟩,
              hf1.1, hf1.2.1, ?_, fun hm => hm1 hm⟩
            intro a
            unfold holdings
            simp only
            rw [varSum_set _ _ _ _ _ _ hx, hf1.2.2.2.1, hf1.2.2.2.2.1, hf1.2.2.2.2.2.1, hf1.2.2.2.2.2.2.1, hf1.1]
            have := hsum1 a
            by_cases ha : a = asset
            · subst ha; simp only [if_true] at this ⊢; omega
            · have ha' : ¬ asset = a := fun e => ha e.symm
              simp only [ha, ha', if_false] at this ⊢; omega
          · cases hv
  | call dest amt asset =>
    simp only [applyOp] at h
    split at h
    · cases h
    · split at h
      · cases h
      · rename_i s1 hd
        split at h
        · cases h
        · rename_i hin
          split at h
          · cases h
          · rename_i s2 hi
            cases h
            obtain ⟨hf1, hsum1, hm1⟩ := debit_spec hw hd
            have hdest : dest ∈ s1.cids := by simpa using hin
            have hw1 : WF s1 := ⟨hf1.2.1 ▸ hw.1, by rw [hf1.2.2.2.2.2.2.2, hf1.2.1]; exact hw.2⟩
            obtain ⟨hf2, hfree2, hmem2, hsum2⟩ := balanceIncrease_spec hw1.1 hdest hi
            refine ⟨⟨hf2.2.1 ▸ hw1.1, ?_⟩, by simp only; rw [hf2.1, hf1.1], by simp only; rw [hf2.2.1, hf1.2.1], ?_, ?_⟩
            · intro c hc
              simp only [List.mem_cons] at hc
              rw [hf2.2.1]
              rcases hc with rfl | hc
              · exact hdest
              · rw [hf2.2.2.2.2.2.2.2] at hc; exact hw1.2 c hc
            · intro a
              unfold holdings
              simp only
              rw [hf2.2.2.2.1, hf2.2.2.2.2.1, hf2.2.2.2.2.2.1, hf2.2.2.2.2.2.2.1, hf2.1, hfree2,
                  hf1.2.2.2.1, hf1.2.2.2.2.1, hf1.2.2.2.2.2.1, hf1.2.2.2.2.2.2.1, hf1.1]
              have := hsum1 a; have := hsum2 a
              omega
            · intro hm; simp only; rw [hmem2, hfree2]; exact hm1 hm
  | ret =>
    simp only [applyOp] at h
    cases h
    refine ⟨⟨hw.1, fun c hc => hw.2 c (List.mem_of_mem_tail hc)⟩, rfl, rfl, fun a => rfl, fun hm => hm⟩
  | mint amt asset =>
    simp only [applyOp] at h
    split at h
    · cases h
    · rename_i c rest hctx
      split at h
      · cases h
      · rename_i v hv
        cases h
        have hc : c ∈ s.cids := hw.2 c (by rw [hctx]; exact List.mem_cons_self)
        unfold checkedAdd at hv
        split at hv
        · cases hv
        · cases hv
          refine ⟨hw, rfl, rfl, ?_, fun hm => hm⟩
          intro a
          unfold holdings
          simp only
          by_cases ha : a = asset
          · subst ha
            have := csum_updB_same s.cids s.bal c a (balance s c a + amt) hw.1 hc
            unfold balance at *
            simp only [updN, if_true]
            omega
          · rw [csum_updB_other _ _ _ _ _ _ ha]
            simp [updN, ha]
  | burn amt asset =>
    simp only [applyOp] at h
    split at h
    · cases h
    · rename_i c rest hctx
      split at h
      · cases h
      · rename_i v hv
        cases h
        have hc : c ∈ s.cids := hw.2 c (by rw [hctx]; exact List.mem_cons_self)
        unfold checkedSub at hv
        split at hv
        · cases hv
        · cases hv
          refine ⟨hw, rfl, rfl, ?_, fun hm => hm⟩
          intro a
          unfold holdings
          simp only
          by_cases ha : a = asset
          · subst ha
            have := csum_updB_same s.cids s.bal c a (balance s c a - amt) hw.1 hc
            unfold balance at *
            simp only [updN, if_true]
            omega
          · rw [csum_updB_other _ _ _ _ _ _ ha]
            simp [updN, ha]
  | smo amt =>
    simp only [applyOp] at h
    split at h
    · cases h
    · rename_i s1 hd
      cases h
      obtain ⟨hf1, hsum1, hm1⟩ := debit_spec hw hd
      refine ⟨⟨hf1.2.1 ▸ hw.1, by simp only; rw [hf1.2.2.2.2.2.2.2, hf1.2.1]; exact hw.2⟩,
        hf1.1, hf1.2.1, ?_, fun hm => hm1 hm⟩
      intro a
      unfold holdings
      simp only
      rw [hf1.2.2.2.1, hf1.2.2.2.2.1, hf1.2.2.2.2.2.1, hf1.2.2.2.2.2.2.1, hf1.1]
      have := hsum1 a
      by_cases ha : a = s.base
      · simp only [ha, if_true] at this ⊢; omega
      · simp only [ha, if_false] at this ⊢; omega

/-- **every history conserves every asset** (induction over arbitrary op lists; a panic anywhere makes the
history fail, i.e. the script is reverted as a whole) -/
theorem history_conserves (ops : List Op) (s t : Ledger) (hw : WF s) (h : runOps s ops = .ok t) :
    WF t ∧ t.base = s.base ∧ t.cids = s.cids ∧
    (∀ a, holdings t a + s.minted a = holdings s a + t.minted a) ∧
    (s.mem = s.free → t.mem = t.free) := by
  induction ops generalizing s with
  | nil => simp only [runOps] at h; cases h; exact ⟨hw, rfl, rfl, fun a => rfl, fun hm => hm⟩
  | cons op ops ih =>
    simp only [runOps] at h
    split at h
    · cases h
    · rename_i s1 r h1
      obtain ⟨hw1, hb1, hc1, hh1, hm1⟩ := op_conserves s s1 op r hw h1
      obtain ⟨hw2, hb2, hc2, hh2, hm2⟩ := ih s1 hw1 h
      refine ⟨hw2, by rw [hb2, hb1], by rw [hc2, hc1], ?_, fun hm => hm2 (hm1 hm)⟩
      intro a
      have := hh1 a; have := hh2 a
      omega

/-- **the balance table in VM memory always equals the internal free balances**: in every state reachable
by any history from a state where they agree (`RuntimeBalances::to_vm` writes both) -/
theorem mem_balance_mirror (ops : List Op) (s t : Ledger) (hw : WF s) (hm : s.mem = s.free)
    (h : runOps s ops = .ok t) : t.mem = t.free :=
  (history_conserves ops s t hw h).2.2.2.2 hm

/-- start of a script: nothing in variable outputs, nothing minted / burned / sent, no frame -/
structure Initial (s : Ledger) : Prop where
  var0 : ∀ a, varSum s.varOut a = 0
  minted0 : ∀ a, s.minted a = 0
  burned0 : ∀ a, s.burned a = 0
  msg0 : s.msgOut = 0
  ctx0 : s.ctx = []
  nodup : s.cids.Nodup

/-- what `initial_free_balances` (checked_transaction/balances.rs) establishes: per asset the inputs equal the
non-retryable free balance plus the coin outputs plus, for the base asset, the max fee; the runtime free
balance is the non-retryable one plus, for the base asset, the retryable (message-data) amount -/
structure InputsOk (s : Ledger) (inputs init coinOut : Nat → Nat) (maxFee retry : Nat) : Prop where
  split : ∀ a, inputs a = init a + coinOut a + (if a = s.base then maxFee else 0)
  runtime : ∀ a, (s.free a).getD 0 = init a + (if a = s.base then retry else 0)

/-- **the property's per-asset equation, successful execution**: inputs (incl. message-data inputs for the
base asset) + prior contract balances + minted = coin outputs + change-or-leftover (final free balance, plus
the refund for the base asset) + variable outputs + final contract balances + burned + (base asset:
fee charged `maxFee − refund` + outgoing messages). -/
theorem finalize_equation_success (ops : List Op) (s t : Ledger) (inputs init coinOut : Nat → Nat)
    (maxFee retry refund : Nat) (hi : Initial s) (hin : InputsOk s inputs init coinOut maxFee retry)
    (hr : refund ≤ maxFee) (h : runOps s ops = .ok t) (a : Nat) :
    inputs a + (if a = s.base then retry else 0) + csum s.cids s.bal a + t.minted a
      = coinOut a + ((t.free a).getD 0 + (if a = s.base then refund else 0)) + varSum (finalVars t false) a
        + csum t.cids t.bal a + t.burned a + (if a = s.base then (maxFee - refund) + t.msgOut else 0) := by
  have hw : WF s := ⟨hi.nodup, by rw [hi.ctx0]; intro c hc; cases hc⟩
  obtain ⟨_, hb, hc, hh, _⟩ := history_conserves ops s t hw h
  have := hh a
  unfold holdings at this
  rw [hi.var0, hi.minted0, hi.burned0, hi.msg0, hb] at this
  have h1 := hin.split a
  have h2 := hin.runtime a
  simp only [finalVars, Bool.false_eq_true, if_false]
  by_cases hba : a = s.base
  · simp only [hba, if_true] at *; omega
  · simp only [hba, if_false] at *; omega

/-- **reverted / panicked execution**: variable outputs are zero, change-or-leftover is the initial
non-retryable balance (plus refund for the base asset), contract balances are the prior ones (storage is
rolled back), message-data inputs are not spent, nothing minted/burned/sent is counted. -/
theorem finalize_equation_revert (s t : Ledger) (inputs init coinOut : Nat → Nat)
    (maxFee retry refund : Nat) (hin : InputsOk s inputs init coinOut maxFee retry)
    (hr : refund ≤ maxFee) (a : Nat) :
    varSum (finalVars t true) a = 0 ∧
    inputs a + csum s.cids s.bal a
      = coinOut a + (init a + (if a = s.base then refund else 0)) + varSum (finalVars t true) a
        + csum s.cids s.bal a + (if a = s.base then maxFee - refund else 0) := by
  have hz : varSum (finalVars t true) a = 0 := by simp [finalVars, varSum_zeroed]
  refine ⟨hz, ?_⟩
  rw [hz]
  have h1 := hin.split a
  by_cases hba : a = s.base
  · simp only [hba, if_true] at *; omega
  · simp only [hba, if_false] at *; omega

/-- the change output written by `update_outputs` is exactly the change-or-leftover term of the equations -/
theorem change_amount_spec (s : Ledger) (initial : Nat → Option Nat) (revert : Bool) (refund a v : Nat)
    (h : changeAmount s initial revert refund a = some v) :
    v = ((if revert then initial a else s.free a).getD 0) + (if a = s.base then refund else 0) := by
  unfold changeAmount at h
  simp only at h
  split at h
  · cases h
  · rename_i v0 hv0
    rw [hv0]
    split at h
    · rename_i hb
      unfold checkedAdd at h
      split at h
      · cases h
      · cases h; simp [hb]
    · rename_i hb
      cases h; simp [hb]

/-- **every receipt matches a balance movement of exactly that amount** — the funding source (current
contract's balance, or the free balance in a script) of the receipt's asset drops by the receipt's amount
for Transfer / TransferOut / Call / MessageOut; the current contract's balance rises / drops by it for
Mint / Burn. (For Transfer / Call the recipient's credit is the other half of `op_conserves`.) -/
def srcBalance (s : Ledger) (a : Nat) : Nat :=
  match s.ctx with
  | c :: _ => balance s c a
  | [] => (s.free a).getD 0

theorem receipt_matches_movement_partial (s t : Ledger) (op : Op) (r : Rcpt) (hw : WF s)
    (h : applyOp s op = .ok (t, some r)) :
    match op with
    | .tro _ _ amt asset => r.amt = amt ∧ r.asset = asset ∧
        ∃ s1, debit s asset amt = .ok s1 ∧ varSum t.varOut asset = varSum s.varOut asset + amt
    | .mint amt asset => r.amt = amt ∧ r.asset = asset ∧ t.minted asset = s.minted asset + amt ∧
        srcBalance t asset = srcBalance s asset + amt
    | .burn amt asset => r.amt = amt ∧ r.asset = asset ∧ t.burned asset = s.burned asset + amt ∧
        srcBalance t asset + amt = srcBalance s asset
    | .smo amt => r.amt = amt ∧ r.asset = s.base ∧ t.msgOut = s.msgOut + amt
    | .tr _ amt asset => r.amt = amt ∧ r.asset = asset
    | .call _ amt asset => r.amt = amt ∧ r.asset = asset
    | .ret => False := by
  cases op with
  | tr dest amt asset =>
    simp only [applyOp] at h
    split at h
    · cases h
    · split at h
      · cases h
      · split at h
        · cases h
        · split at h
          · cases h
          · cases h; exact ⟨rfl, rfl⟩
  | tro to idx amt asset =>
    simp only [applyOp] at h
    split at h
    · cases h
    · split at h
      · cases h
      · rename_i s1 hd
        split at h
        · cases h
        · rename_i vs hv
          cases h
          obtain ⟨hf1, _, _⟩ := debit_spec hw hd
          unfold setVar at hv
          split at hv
          · rename_i x hx
            cases hv
            refine ⟨rfl, rfl, s1, hd, ?_⟩
            simp only
            rw [varSum_set _ _ _ _ _ _ hx, hf1.2.2.2.1]
            simp
          · cases hv
  | call dest amt asset =>
    simp only [applyOp] at h
    split at h
    · cases h
    · split at h
      · cases h
      · split at h
        · cases h
        · split at h
          · cases h
          · cases h; exact ⟨rfl, rfl⟩
  | ret => simp only [applyOp] at h; cases h
  | mint amt asset =>
    simp only [applyOp] at h
    split at h
    · cases h
    · rename_i c rest hctx
      split at h
      · cases h
      · rename_i v hv
        cases h
        unfold checkedAdd at hv
        split at hv
        · cases hv
        · cases hv
          refine ⟨rfl, rfl, by simp [updN], ?_⟩
          simp [srcBalance, hctx, balance, updB]
  | burn amt asset =>
    simp only [applyOp] at h
    split at h
    · cases h
    · rename_i c rest hctx
      split at h
      · cases h
      · rename_i v hv
        cases h
        unfold checkedSub at hv
        split at hv
        · cases hv
        · cases hv
          refine ⟨rfl, rfl, by simp [updN], ?_⟩
          simp only [srcBalance, hctx, balance, updB, and_self, if_true, Option.getD_some] at *
          omega
  | smo amt =>
    simp only [applyOp] at h
    split at h
    · cases h
    · rename_i s1 hd
      cases h
      obtain ⟨hf1, _, _⟩ := debit_spec hw hd
      exact ⟨rfl, rfl, by simp only; rw [hf1.2.2.2.2.2.2.1]⟩

/-- **Transfer and Call receipts match the movement**: when the sender is not itself the recipient contract,
the funding source (the sender contract's balance, or the free balance in a script) of the receipt's asset drops
by exactly the receipt's amount and the recipient contract's balance rises by exactly that amount. (If the
sender is the recipient the two movements cancel; `op_conserves` covers that case in aggregate.) -/
theorem receipt_matches_movement (s t : Ledger) (op : Op) (r : Rcpt) (dest amt asset : Nat)
    (h : applyOp s op = .ok (t, some r)) (hop : op = .tr dest amt asset ∨ op = .call dest amt asset)
    (hne : s.ctx.head? ≠ some dest) :
    r.amt = amt ∧ r.asset = asset ∧
    srcOf s.ctx t asset + amt = srcOf s.ctx s asset ∧ balance t dest asset = balance s dest asset + amt := by
  have core : ∀ (s1 s2 : Ledger), debit s asset amt = .ok s1 → balanceIncrease s1 dest asset amt = .ok s2 →
      srcOf s.ctx s2 asset + amt = srcOf s.ctx s asset ∧ balance s2 dest asset = balance s dest asset + amt := by
    intro s1 s2 hd hi
    obtain ⟨d1, _, _, d4⟩ := debit_point hd
    obtain ⟨i1, i2, _, _, i5⟩ := balanceIncrease_point hi
    constructor
    · -- the source is untouched by the credit
      have : srcOf s.ctx s2 asset = srcOf s.ctx s1 asset := by
        unfold srcOf
        split
        · rename_i c rest hctx
          unfold balance
          rw [i5 c asset (by intro ⟨e, _⟩; rw [hctx] at hne; simp [e] at hne)]
        · rw [i2]
      rw [this]; exact d1
    · rw [i1]; unfold balance; rw [d4 dest asset hne]
  rcases hop with rfl | rfl
  · simp only [applyOp] at h
    split at h
    · cases h
    · split at h
      · cases h
      · split at h
        · cases h
        · rename_i s1 hd
          split at h
          · cases h
          · rename_i s2 hi
            cases h
            exact ⟨rfl, rfl, core s1 _ hd hi⟩
  · simp only [applyOp] at h
    split at h
    · cases h
    · split at h
      · cases h
      · rename_i s1 hd
        split at h
        · cases h
        · split at h
          · cases h
          · rename_i s2 hi
            cases h
            obtain ⟨c1, c2⟩ := core s1 s2 hd hi
            refine ⟨rfl, rfl, ?_, ?_⟩
            · -- the frame push does not change balances
              have : srcOf s.ctx { s2 with ctx := dest :: s2.ctx } asset = srcOf s.ctx s2 asset := by
                unfold srcOf balance; split <;> rfl
              rw [this]; exact c1
            · exact c2

/-! ### failure order: the model follows the order of the fallible steps in the Rust text -/

/-- obligation on the generated step sequences (regenerated from contract.rs / flow.rs / blockchain.rs on
every run): the order the model is transcribed in. A reordering or a dropped step in the Rust text breaks this. -/
theorem failure_order_matches_code :
    Gen.trOrder = ["inputs", "zero", "debit", "credit", "receipt"] ∧
    Gen.troOrder = ["zero", "debit", "var", "receipt"] ∧
    Gen.callOrder = ["size", "debit", "inputs", "credit", "receipt"] ∧
    Gen.mintOrder = ["add", "receipt"] ∧ Gen.burnOrder = ["sub", "receipt"] ∧ Gen.smoOrder = ["debit", "receipt"] := by
  decide

/-- … and the model realises that order, for every state: TR tests the input-contract set first, then the zero
amount, then debits; CALL looks the callee's code up first and debits the sender *before* the input-contract
test (DESIGN F8: an unlisted callee that exists and an insufficient balance report NotEnoughBalance). -/
theorem failure_order_model (s : Ledger) (dest amt a : Nat) :
    (¬ dest ∈ s.cids → applyOp s (.tr dest amt a) = .error .contractNotInInputs) ∧
    (dest ∈ s.cids → amt = 0 → applyOp s (.tr dest amt a) = .error .transferZeroCoins) ∧
    (amt = 0 → applyOp s (.tro 0 0 amt a) = .error .transferZeroCoins) ∧
    (¬ dest ∈ s.code → applyOp s (.call dest amt a) = .error .contractNotFound) ∧
    (dest ∈ s.code → ∀ e, debit s a amt = .error e → applyOp s (.call dest amt a) = .error e) := by
  refine ⟨?_, ?_, ?_, ?_, ?_⟩
  · intro h; simp [applyOp, h]
  · intro h hz; simp [applyOp, h, hz]
  · intro hz; simp [applyOp, hz]
  · intro h; simp [applyOp, h]
  · intro h e he; simp [applyOp, h, he]

/-! ### non-vacuity -/

def exLedger : Ledger :=
  { base := 0, cids := [7, 8], code := [7, 8], free := fun a => if a = 0 then some 1000 else if a = 5 then some 50 else none,
    mem := fun a => if a = 0 then some 1000 else if a = 5 then some 50 else none,
    bal := fun c a => if c = 7 ∧ a = 5 then some 10 else none,
    varOut := [(0, 0), (0, 0)], minted := fun _ => 0, burned := fun _ => 0, msgOut := 0, ctx := [] }

def okAnd (r : Except Panic Ledger) (p : Ledger → Bool) : Bool := match r with | .ok t => p t | .error _ => false
def failsWith (r : Except Panic Ledger) (e : Panic) : Bool := match r with | .ok _ => false | .error e' => e' == e

example : okAnd (runOps exLedger [.tr 7 20 5, .call 8 100 0, .mint 3 99, .burn 1 99, .smo 4, .ret, .tro 1 0 30 5, .smo 9])
    (fun t => (t.free 5, t.free 0, balance t 7 5, balance t 8 0, balance t 8 99, t.msgOut, t.varOut, t.minted 99, t.burned 99) ==
        (some 0, some 891, 30, 96, 2, 13, [(5, 30), (0, 0)], 3, 1)) = true := by decide

example : failsWith (runOps exLedger [.tr 7 20 5, .tro 1 0 31 5]) .notEnoughBalance = true := by decide
example : failsWith (runOps exLedger [.tr 9 20 5]) .contractNotInInputs = true := by decide
example : WF exLedger ∧ exLedger.mem 0 = exLedger.free 0 := by
  refine ⟨⟨by decide, by intro c hc; cases hc⟩, rfl⟩

end FuelVerif.Ledger
