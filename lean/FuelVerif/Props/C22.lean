/-
C22 — Wide-integer instructions follow the specification.

  "For every 128-bit and 256-bit compare, arithmetic, shift, multiply, divide, add-mod, mul-mod and fused
   multiply-divide instruction, for all operand values, direct/indirect argument modes and flag settings, the
   VM reads operands from memory as big-endian integers, writes exactly the specified result to the
   destination memory (or register, for compares), sets the overflow and error registers as specified, and
   panics exactly in the specified cases."

Model: `Model/Wide.lean` (the `wideint_ops!` macro body for u128 / U256, parametric in the byte width `n`),
`Model/VmMem.lean` (`verify`, `read_bytes`, `write_bytes`, ownership). The immediate-decoding tables, register
ids, flag bits and `VM_MAX_RAM` come from `Gen/AluArgs.lean`, the opcode table from `Gen/Instructions.lean`.
Theorems: (1) immediates: which of the 64 values are valid and what they select; (2) operands are the
big-endian numbers of the bytes read, results are written big-endian and read back as `result mod 2^W`;
(3) per instruction: result, `$of`, `$err`, panic — as equations on `Nat` for all operands; (4) the write goes
through the bounds / allocation / ownership checks in that order, touches only `[dest, dest+n)`, and a
successful instruction advances `$pc` by 4.
-/
import FuelVerif.Lemmas.Wide
import FuelVerif.Lemmas.WideSpec
import FuelVerif.Model.Memory
import FuelVerif.Props.C21
namespace FuelVerif.Alu
open FuelVerif FuelVerif.Gen FuelVerif.Gen.AluArgs FuelVerif.Instr

/-! ### (1) tables -/

def WideOp.shape : WideOp → List ArgKind
  | .WDCM | .WQCM | .WDOP | .WQOP | .WDML | .WQML | .WDDV | .WQDV => [.reg, .reg, .reg, .imm06]
  | _ => [.reg, .reg, .reg, .reg]

def allWideOps : List WideOp :=
  [.WDCM, .WQCM, .WDOP, .WQOP, .WDML, .WQML, .WDDV, .WQDV, .WDMD, .WQMD, .WDAM, .WQAM, .WDMM, .WQMM]

theorem allWideOps_complete (op : WideOp) : op ∈ allWideOps := by cases op <;> decide

/-- each of the 14 wide opcodes occurs exactly once in the generated table with the shape the model wires -/
theorem table_wide_ops :
    allWideOps.all (fun op =>
      (instrTable.filter (fun row => WideOp.ofName row.name == some op)).map (·.args) == [op.shape]) = true := by
  decide +kernel

-- `cmpModeOfNat`, `wMathOpOfNat`: the selector tables of the specification, `Model/WideSpec.lean`

/-- **all 64 immediates** of each family: valid iff the reserved bits are clear and the selector is defined;
bit 5 = indirect right operand, bit 4 (multiply only) = indirect left operand -/
theorem imm_valid_iff :
    (List.range 64).all (fun imm =>
      (compareFromImm imm == if imm / 8 % 4 = 0 ∧ imm % 8 ≤ 6 then some (cmpModeOfNat (imm % 8), decide (imm / 32 = 1)) else none) &&
      (mathFromImm imm == if imm % 32 ≤ 7 then some (wMathOpOfNat (imm % 32), decide (imm / 32 = 1)) else none) &&
      (mulFromImm imm == if imm % 16 = 0 then some (decide (imm / 16 % 2 = 1), decide (imm / 32 = 1)) else none) &&
      (divFromImm imm == if imm % 32 = 0 then some (decide (imm / 32 = 1)) else none)) = true := imm_table_all

/-! ### (2) operands and results are big-endian numbers -/

/-- writing then reading `n` big-endian bytes gives the value modulo `256^n` -/
theorem be_write_read (n v : Nat) : beNat (natBE n v) = v % 256 ^ n := be_roundtrip n v

/-- an indirect operand is the big-endian number of the `n` bytes at its address — provided they lie inside
memory (`MemoryOverflow` otherwise) and inside allocated memory (`UninitalizedMemoryAccess` otherwise) -/
theorem operand_read (m : Mem) (a n : Nat) (hn : n ≤ memSize) :
    readWide m a n =
      if a + n ≤ memSize then
        (if m.accessible a n then .ok (beNat ((List.range n).map (fun i => m.bytes (a + i)))) else .error .UninitalizedMemoryAccess)
      else .error .MemoryOverflow := readWide_eq m a n hn

/-- a direct operand is the register value itself (zero-extended) -/
theorem operand_direct (m : Mem) (v n : Nat) : readOperand m false v n = .ok v := rfl

theorem operand_range (m : Mem) (a n v : Nat) (h : readWide m a n = .ok v) : v < 2 ^ (8 * n) := readWide_lt m a n v h

/-! ### (4) the result write -/

/-- `$sp`-window / heap ownership exactly as `OwnershipRegisters::has_ownership_range` for a non-empty range -/
theorem owner_spec (o : Owner) (a e : Nat) (hne : a < e) :
    (o.hasStack a e || o.hasHeap a e) = true ↔
      (o.ssp ≤ a ∧ a < o.sp ∧ e ≤ o.sp ∧ e ≤ vmMaxRam) ∨ (o.hp ≤ a ∧ o.hp ≠ o.prevHp ∧ e ≤ o.prevHp) := by
  simp only [Owner.hasStack, Owner.hasHeap, Bool.or_eq_true]
  have h1 : ¬ (e ≤ a ∧ a = o.ssp) := by omega
  have h2 : ¬ (e ≤ a ∧ a = o.hp) := by omega
  simp only [h1, h2, if_false]
  constructor
  · rintro (h | h)
    · left
      split at h
      · cases h
      · split at h
        · cases h
        · simp only [decide_eq_true_eq] at h; omega
    · right
      split at h
      · cases h
      · simp only [decide_eq_true_eq] at h; omega
  · rintro (⟨a1, a2, a3, a4⟩ | ⟨b1, b2, b3⟩)
    · left
      rw [if_neg (by omega), if_neg (by omega)]
      simp only [decide_eq_true_eq]; omega
    · right
      rw [if_neg (by omega)]
      simp only [decide_eq_true_eq]; exact ⟨b2, b3⟩

/-- **the write**: bounds, then allocation, then ownership; on success the `n` result bytes are stored
big-endian at `dest` and `$pc` advances; on failure memory is untouched and the panic is the first failing check -/
theorem writeResult_spec (s : VmSt) (regs' : Regs) (dest n result : Nat) (hn : n ≤ memSize) :
    writeResult s regs' dest n result =
      if dest + n ≤ memSize then
        (if s.mem.accessible dest n then
          (if s.owner.hasStack dest (dest + n) || s.owner.hasHeap dest (dest + n)
           then ({ s with regs := incPc regs', mem := s.mem.store dest (natBE n result) }, none)
           else ({ s with regs := regs' }, some .MemoryOwnership))
         else ({ s with regs := regs' }, some .UninitalizedMemoryAccess))
      else ({ s with regs := regs' }, some .MemoryOverflow) := by
  unfold writeResult
  rw [writeBytes_eq _ _ _ _ (by rw [natBE_length]; exact hn), natBE_length]
  by_cases h1 : dest + n ≤ memSize
  · by_cases h2 : s.mem.accessible dest n
    · by_cases h3 : (s.owner.hasStack dest (dest + n) || s.owner.hasHeap dest (dest + n)) = true
      · simp [h1, h2, h3]
      · simp [h1, h2, h3]
    · simp [h1, h2]
  · simp [h1]

/-- **memory frame and read-back** of a successful write: only `[dest, dest+n)` changes, the allocation
bounds do not, and the destination reads back as `result mod 2^(8n)` -/
theorem write_frame_readback (m : Mem) (dest n result : Nat) (hn : n ≤ memSize) (h1 : dest + n ≤ memSize)
    (h2 : m.accessible dest n) :
    let m' := m.store dest (natBE n result)
    m'.stackLen = m.stackLen ∧ m'.hp = m.hp ∧
    (∀ x, x < dest ∨ dest + n ≤ x → m'.bytes x = m.bytes x) ∧
    readWide m' dest n = .ok (result % 2 ^ (8 * n)) := by
  refine ⟨rfl, rfl, ?_, store_readWide m dest n result hn h1 h2⟩
  intro x hx
  apply store_other
  rw [natBE_length]; exact hx

/-! ### (3) the instructions, given the operands read -/

/-- compare: destination REGISTER receives the comparison of the two numbers; `$of = $err = 0`; `$pc + 4`;
a reserved destination register panics before any memory access -/
theorem wideCmp_spec (n : Nat) (s : VmSt) (ra b c lhs rhs : Nat) (mode : CmpMode) (ind : Bool) (ha : 16 ≤ ra)
    (hl : readWide s.mem b n = .ok lhs) (hr : readOperand s.mem ind c n = .ok rhs) :
    wideCmp n s ra b c mode ind =
      ({ s with regs := incPc (((s.regs.set ra (wideCmpVal (8 * n) lhs rhs mode)).set regOF 0).set regERR 0) }, none) := by
  simp only [wideCmp, writeRegKey_ok ha, hl, hr]

theorem wideCmp_reserved (n : Nat) (s : VmSt) (ra b c : Nat) (mode : CmpMode) (ind : Bool) (ha : ra < 16) :
    wideCmp n s ra b c mode ind = (s, some .ReservedRegisterNotWritable) := by
  simp only [wideCmp, writeRegKey_err ha]

/-- the seven comparison modes on numbers -/
theorem wideCmpVal_spec (W l r : Nat) :
    wideCmpVal W l r .EQ = (if l = r then 1 else 0) ∧ wideCmpVal W l r .NE = (if l ≠ r then 1 else 0) ∧
    wideCmpVal W l r .LT = (if l < r then 1 else 0) ∧ wideCmpVal W l r .GT = (if l > r then 1 else 0) ∧
    wideCmpVal W l r .LTE = (if l ≤ r then 1 else 0) ∧ wideCmpVal W l r .GTE = (if l ≥ r then 1 else 0) ∧
    wideCmpVal W l r .LZC = leadingZeros W l := by
  simp [wideCmpVal, wideCmpVal.boolWord']

/-- LZC: the number of leading zero bits of a `W`-bit number -/
theorem leadingZeros_spec (W v : Nat) (hv : v < 2 ^ W) :
    leadingZeros W v ≤ W ∧ v < 2 ^ (W - leadingZeros W v) ∧
    (v ≠ 0 → leadingZeros W v < W ∧ 2 ^ (W - leadingZeros W v - 1) ≤ v) ∧ (v = 0 → leadingZeros W v = W) := by
  unfold leadingZeros
  by_cases h0 : v = 0
  · simp [h0]
  · rw [if_neg h0]
    have h1 : v.log2 < W := (Nat.log2_lt h0).mpr hv
    have h2 : 2 ^ v.log2 ≤ v := Nat.log2_self_le h0
    have h3 : v < 2 ^ (v.log2 + 1) := Nat.lt_log2_self
    have e1 : W - (W - (v.log2 + 1)) = v.log2 + 1 := by omega
    have e2 : W - (W - (v.log2 + 1)) - 1 = v.log2 := by omega
    refine ⟨by omega, by rw [e1]; exact h3, fun _ => ⟨by omega, by rw [e2]; exact h2⟩, fun h => absurd h h0⟩

/-- arithmetic / logic / shift (WDOP, WQOP) -/
theorem wideOp_spec (n : Nat) (s : VmSt) (dest b c lhs rhs : Nat) (op : WMathOp) (ind : Bool)
    (hl : readWide s.mem b n = .ok lhs) (hr : readOperand s.mem ind c n = .ok rhs) :
    wideOp n s dest b c op ind =
      if (wideOpOverflowing (8 * n) lhs rhs op).2 = true ∧ ¬ Wrapping s.regs then (s, some .ArithmeticOverflow)
      else writeResult s ((s.regs.set regOF (if (wideOpOverflowing (8 * n) lhs rhs op).2 then 1 else 0)).set regERR 0)
        dest n (wideOpOverflowing (8 * n) lhs rhs op).1 := by
  simp only [wideOp, hl, hr]

/-- the eight operations on `W`-bit numbers: (result, overflow) -/
theorem wideOpOverflowing_spec (W l r : Nat) (hW : W ≤ 2 ^ 32) (hl : l < 2 ^ W) (hr : r < 2 ^ W) :
    wideOpOverflowing W l r .ADD = ((l + r) % 2 ^ W, decide (2 ^ W ≤ l + r)) ∧
    wideOpOverflowing W l r .SUB = ((if r ≤ l then l - r else l + 2 ^ W - r), decide (l < r)) ∧
    wideOpOverflowing W l r .NOT = (2 ^ W - 1 - l, false) ∧
    wideOpOverflowing W l r .OR = (l ||| r, false) ∧ wideOpOverflowing W l r .XOR = (l ^^^ r, false) ∧
    wideOpOverflowing W l r .AND = (l &&& r, false) ∧
    wideOpOverflowing W l r .SHL = (l * 2 ^ r % 2 ^ W, false) ∧
    wideOpOverflowing W l r .SHR = (l / 2 ^ r, false) := by
  refine ⟨rfl, ?_, rfl, rfl, rfl, rfl, ?_, ?_⟩
  · simp only [wideOpOverflowing, Prod.mk.injEq, and_true]
    split
    · rw [show l + 2 ^ W - r = (l - r) + 2 ^ W by omega, Nat.add_mod_right]
      exact Nat.mod_eq_of_lt (by omega)
    · exact Nat.mod_eq_of_lt (by omega)
  · simp only [wideOpOverflowing, Prod.mk.injEq, and_true]
    by_cases h : r < W
    · rw [if_pos (by omega), if_pos h, Nat.shiftLeft_eq]
    · have hz : l * 2 ^ r % 2 ^ W = 0 := by
        have : r = W + (r - W) := by omega
        rw [this, Nat.pow_add, ← Nat.mul_assoc, Nat.mul_comm l, Nat.mul_assoc]
        exact Nat.mul_mod_right _ _
      rw [hz]; split <;> simp [h]
  · simp only [wideOpOverflowing, Prod.mk.injEq, and_true]
    by_cases h : r < W
    · rw [if_pos (by omega), if_pos h, Nat.shiftRight_eq_div_pow]
    · have hz : l / 2 ^ r = 0 := Nat.div_eq_of_lt (Nat.lt_of_lt_of_le hl (Nat.pow_le_pow_right (by decide) (by omega)))
      rw [hz]; split <;> simp [h]

/-- multiply (WDML, WQML): low `W` bits of the product, `$of = 1` iff the product needs more -/
theorem wideMul_spec (n : Nat) (s : VmSt) (dest b c lhs rhs : Nat) (il ir : Bool)
    (hl : readOperand s.mem il b n = .ok lhs) (hr : readOperand s.mem ir c n = .ok rhs) :
    wideMul n s dest b c il ir =
      if 2 ^ (8 * n) ≤ lhs * rhs ∧ ¬ Wrapping s.regs then (s, some .ArithmeticOverflow)
      else writeResult s ((s.regs.set regOF (if 2 ^ (8 * n) ≤ lhs * rhs then 1 else 0)).set regERR 0)
        dest n (lhs * rhs % 2 ^ (8 * n)) := by
  simp only [wideMul, hl, hr, ge_iff_le, decide_eq_true_eq]

/-- divide (WDDV, WQDV): zero divisor ⇒ ArithmeticError, or with UNSAFEMATH `$err = 1` and result 0 -/
theorem wideDiv_spec (n : Nat) (s : VmSt) (dest b c lhs rhs : Nat) (ir : Bool)
    (hl : readWide s.mem b n = .ok lhs) (hr : readOperand s.mem ir c n = .ok rhs) :
    wideDiv n s dest b c ir =
      if rhs = 0 then
        (if UnsafeMath s.regs then writeResult s ((s.regs.set regERR 1).set regOF 0) dest n 0 else (s, some .ArithmeticError))
      else writeResult s ((s.regs.set regERR 0).set regOF 0) dest n (lhs / rhs) := by
  simp only [wideDiv, hl, hr, wideErrTail, checkedDiv]
  by_cases h : rhs = 0 <;> simp [h]

theorem read3_ok (n : Nat) (s : VmSt) (b c d x y z : Nat)
    (hx : readWide s.mem b n = .ok x) (hy : readWide s.mem c n = .ok y) (hz : readWide s.mem d n = .ok z) :
    read3 n s b c d = .ok (x, y, z) := by simp only [read3, hx, hy, hz]

/-- add-mod (WDAM, WQAM): `(l + r) mod m`, computed without intermediate overflow; `m = 0` as for divide.
The result is `< m ≤ 2^W`, so the truncation to `W` bits in the code loses nothing. -/
theorem wideAddmod_spec (n : Nat) (s : VmSt) (dest b c d l r m : Nat)
    (hx : readWide s.mem b n = .ok l) (hy : readWide s.mem c n = .ok r) (hz : readWide s.mem d n = .ok m) :
    wideAddmod n s dest b c d =
      if m = 0 then
        (if UnsafeMath s.regs then writeResult s ((s.regs.set regERR 1).set regOF 0) dest n 0 else (s, some .ArithmeticError))
      else writeResult s ((s.regs.set regERR 0).set regOF 0) dest n ((l + r) % m) := by
  have hm := readWide_lt _ _ _ _ hz
  simp only [wideAddmod, read3_ok n s b c d l r m hx hy hz, wideErrTail, checkedRem]
  by_cases h : m = 0
  · simp [h]
  · have : (l + r) % m % 2 ^ (8 * n) = (l + r) % m := Nat.mod_eq_of_lt (Nat.lt_trans (Nat.mod_lt _ (by omega)) hm)
    simp [h, this]

/-- mul-mod (WDMM, WQMM): `(l · r) mod m` -/
theorem wideMulmod_spec (n : Nat) (s : VmSt) (dest b c d l r m : Nat)
    (hx : readWide s.mem b n = .ok l) (hy : readWide s.mem c n = .ok r) (hz : readWide s.mem d n = .ok m) :
    wideMulmod n s dest b c d =
      if m = 0 then
        (if UnsafeMath s.regs then writeResult s ((s.regs.set regERR 1).set regOF 0) dest n 0 else (s, some .ArithmeticError))
      else writeResult s ((s.regs.set regERR 0).set regOF 0) dest n ((l * r) % m) := by
  have hm := readWide_lt _ _ _ _ hz
  simp only [wideMulmod, read3_ok n s b c d l r m hx hy hz, wideErrTail, checkedRem]
  by_cases h : m = 0
  · simp [h]
  · have : (l * r) % m % 2 ^ (8 * n) = (l * r) % m := Nat.mod_eq_of_lt (Nat.lt_trans (Nat.mod_lt _ (by omega)) hm)
    simp [h, this]

/-- fused multiply-divide (WDMD, WQMD): `d ≠ 0` ⇒ `q = l·r / d`, result `q mod 2^W`, overflow iff `q ≥ 2^W`;
`d = 0` ⇒ the divisor is taken as `2^W`: result `l·r / 2^W`, which always fits -/
theorem wideMuldiv_spec (n : Nat) (s : VmSt) (dest b c dd l r d : Nat)
    (hx : readWide s.mem b n = .ok l) (hy : readWide s.mem c n = .ok r) (hz : readWide s.mem dd n = .ok d) :
    wideMuldiv n s dest b c dd =
      if d = 0 then writeResult s ((s.regs.set regOF 0).set regERR 0) dest n (l * r / 2 ^ (8 * n))
      else if 2 ^ (8 * n) ≤ l * r / d ∧ ¬ Wrapping s.regs then (s, some .ArithmeticOverflow)
      else writeResult s ((s.regs.set regOF (if 2 ^ (8 * n) ≤ l * r / d then 1 else 0)).set regERR 0) dest n (l * r / d % 2 ^ (8 * n)) := by
  have hl := readWide_lt _ _ _ _ hx
  have hr := readWide_lt _ _ _ _ hy
  have hW : 0 < 2 ^ (8 * n) := Nat.two_pow_pos _
  have hprod : l * r < 2 ^ (8 * n) * 2 ^ (8 * n) := Nat.mul_lt_mul'' hl hr
  simp only [wideMuldiv, read3_ok n s b c dd l r d hx hy hz, checkedDiv]
  generalize 2 ^ (8 * n) = M at *
  by_cases h : d = 0
  · have hq : l * r / M < M := (Nat.div_lt_iff_lt_mul hW).mpr hprod
    have h1 : l * r / M / M % M = 0 := by rw [Nat.div_eq_of_lt hq]; exact Nat.zero_mod _
    have h2 : l * r / M % M = l * r / M := Nat.mod_eq_of_lt hq
    simp [h, h1, h2]
  · have hq : l * r / d < M * M := Nat.lt_of_le_of_lt (Nat.div_le_self _ _) hprod
    simp only [h, if_false, Option.getD_some]
    generalize l * r / d = Q at *
    have hqq : Q / M < M := (Nat.div_lt_iff_lt_mul hW).mpr hq
    have h1 : Q / M % M = Q / M := Nat.mod_eq_of_lt hqq
    have h3 : (Q / M ≠ 0) ↔ M ≤ Q := by
      constructor
      · intro hne
        by_cases hlt : Q < M
        · exact absurd (Nat.div_eq_of_lt hlt) hne
        · omega
      · intro hle h0
        have := (Nat.div_eq_zero_iff.mp h0)
        omega
    simp only [h1]
    by_cases hov : M ≤ Q
    · have : Q / M ≠ 0 := h3.mpr hov
      simp [hov, this]
    · have : Q / M = 0 := by
        by_cases h0 : Q / M = 0
        · exact h0
        · exact absurd (h3.mp h0) hov
      simp [hov, this]

/-- an unreadable operand panics with the read's reason and changes nothing (shown for the 3-operand forms;
the 2-operand forms unfold the same way) -/
theorem read3_fail (n : Nat) (s : VmSt) (dest b c d : Nat) (p : Panic) (h : read3 n s b c d = .error p) :
    wideAddmod n s dest b c d = (s, some p) ∧ wideMulmod n s dest b c d = (s, some p) ∧
    wideMuldiv n s dest b c d = (s, some p) := by
  simp only [wideAddmod, wideMulmod, wideMuldiv, h, and_self]

/-- an invalid immediate panics with InvalidImmediateValue and changes nothing -/
theorem invalid_imm (op : WideOp) (a b c imm : Nat) (s : VmSt) (hshape : op.shape = [.reg, .reg, .reg, .imm06])
    (h : (op = .WDCM ∨ op = .WQCM) ∧ compareFromImm imm = none ∨ (op = .WDOP ∨ op = .WQOP) ∧ mathFromImm imm = none ∨
         (op = .WDML ∨ op = .WQML) ∧ mulFromImm imm = none ∨ (op = .WDDV ∨ op = .WQDV) ∧ divFromImm imm = none) :
    execWide op [a, b, c, imm] s = (s, some .InvalidImmediateValue) := by
  rcases h with ⟨h | h, hi⟩ | ⟨h | h, hi⟩ | ⟨h | h, hi⟩ | ⟨h | h, hi⟩ <;> subst h <;> simp only [execWide, hi]

/-- **`$pc + 4`**: the only places a wide instruction succeeds are `wideCmp`'s tail and `writeResult`'s success
branch, both of which apply `inc_pc`; `$pc` is not otherwise written -/
theorem writeResult_pc (s : VmSt) (regs' : Regs) (dest n result : Nat) (s' : VmSt)
    (h : writeResult s regs' dest n result = (s', none)) (hpc : regs' regPC + 4 < 2 ^ 64) :
    s'.regs regPC = regs' regPC + 4 := by
  unfold writeResult at h
  split at h
  · cases h
  · simp only [Prod.mk.injEq, and_true] at h
    subst h
    exact incPc_pc _ hpc


theorem setOfErr_pc (r : Regs) (x y : Nat) : ((r.set regOF x).set regERR y) regPC = r regPC := by
  simp [Regs.set, regPC, regOF, regERR]
theorem setErrOf_pc (r : Regs) (x y : Nat) : ((r.set regERR x).set regOF y) regPC = r regPC := by
  simp [Regs.set, regPC, regOF, regERR]

theorem wideErrTail_pc (n : Nat) (s s' : VmSt) (dest : Nat) (v : Option Nat)
    (h : wideErrTail n s dest v = (s', none)) (hpc : s.regs regPC + 4 < 2 ^ 64) : s'.regs regPC = s.regs regPC + 4 := by
  unfold wideErrTail at h
  split at h
  · have := writeResult_pc _ _ _ _ _ _ h (by rw [setErrOf_pc]; exact hpc)
    rw [this, setErrOf_pc]
  · split at h
    · have := writeResult_pc _ _ _ _ _ _ h (by rw [setErrOf_pc]; exact hpc)
      rw [this, setErrOf_pc]
    · cases h

/-- **every wide-integer instruction that succeeds advances `$pc` by exactly four** (all 14 opcodes, any
arguments of the table shape) -/
theorem execWide_advances_4 (op : WideOp) (a b c d : Nat) (s s' : VmSt)
    (h : execWide op [a, b, c, d] s = (s', none)) (hpc : s.regs regPC + 4 < 2 ^ 64) :
    s'.regs regPC = s.regs regPC + 4 := by
  have hOp : ∀ n dest b c op ind, wideOp n s dest b c op ind = (s', none) → s'.regs regPC = s.regs regPC + 4 := by
    intro n dest b c op ind h
    unfold wideOp at h
    split at h
    · cases h
    · split at h
      · cases h
      · simp only [] at h
        split at h
        · cases h
        · have := writeResult_pc _ _ _ _ _ _ h (by rw [setOfErr_pc]; exact hpc)
          rw [this, setOfErr_pc]
  have hMul : ∀ n dest b c il ir, wideMul n s dest b c il ir = (s', none) → s'.regs regPC = s.regs regPC + 4 := by
    intro n dest b c il ir h
    unfold wideMul at h
    split at h
    · cases h
    · split at h
      · cases h
      · simp only [] at h
        split at h
        · cases h
        · have := writeResult_pc _ _ _ _ _ _ h (by rw [setOfErr_pc]; exact hpc)
          rw [this, setOfErr_pc]
  have hDiv : ∀ n dest b c ir, wideDiv n s dest b c ir = (s', none) → s'.regs regPC = s.regs regPC + 4 := by
    intro n dest b c ir h
    unfold wideDiv at h
    split at h
    · cases h
    · split at h
      · cases h
      · exact wideErrTail_pc _ _ _ _ _ h hpc
  have hAm : ∀ n dest b c d, wideAddmod n s dest b c d = (s', none) → s'.regs regPC = s.regs regPC + 4 := by
    intro n dest b c d h
    unfold wideAddmod at h
    split at h
    · cases h
    · exact wideErrTail_pc _ _ _ _ _ h hpc
  have hMm : ∀ n dest b c d, wideMulmod n s dest b c d = (s', none) → s'.regs regPC = s.regs regPC + 4 := by
    intro n dest b c d h
    unfold wideMulmod at h
    split at h
    · cases h
    · exact wideErrTail_pc _ _ _ _ _ h hpc
  have hMd : ∀ n dest b c d, wideMuldiv n s dest b c d = (s', none) → s'.regs regPC = s.regs regPC + 4 := by
    intro n dest b c d h
    unfold wideMuldiv at h
    split at h
    · cases h
    · simp only [] at h
      split at h
      · cases h
      · have := writeResult_pc _ _ _ _ _ _ h (by rw [setOfErr_pc]; exact hpc)
        rw [this, setOfErr_pc]
  have hCm : ∀ n ra b c mode ind, wideCmp n s ra b c mode ind = (s', none) → s'.regs regPC = s.regs regPC + 4 := by
    intro n ra b c mode ind h
    unfold wideCmp at h
    split at h
    · cases h
    · rename_i k hk
      have hk16 : 16 ≤ k := by
        unfold writeRegKey at hk
        split at hk
        · simp only [Except.ok.injEq] at hk; subst hk; simpa [regWRITABLE] using ‹ra ≥ regWRITABLE›
        · cases hk
      split at h
      · cases h
      · split at h
        · cases h
        · simp only [Prod.mk.injEq, and_true] at h
          subst h
          have h3 : (3 : Nat) ≠ k := by omega
          simp [incPc, Regs.set, regPC, regOF, regERR, h3, satAdd, instrSize]
          simp only [regPC] at hpc
          omega
  cases op <;> simp only [execWide] at h
  case WDCM | WQCM => split at h; cases h; exact hCm _ _ _ _ _ _ h
  case WDOP | WQOP => split at h; cases h; exact hOp _ _ _ _ _ _ h
  case WDML | WQML => split at h; cases h; exact hMul _ _ _ _ _ _ h
  case WDDV | WQDV => split at h; cases h; exact hDiv _ _ _ _ _ h
  case WDMD | WQMD => exact hMd _ _ _ _ _ h
  case WDAM | WQAM => exact hAm _ _ _ _ _ h
  case WDMM | WQMM => exact hMm _ _ _ _ _ h

/-- **memory frame of the write**: a failing write leaves memory as it was; a successful one changes no byte
outside `[dest, dest + n)` and no allocation bound -/
theorem writeResult_mem_frame (s : VmSt) (regs' : Regs) (dest n result : Nat) (hn : n ≤ memSize) :
    ((writeResult s regs' dest n result).2 ≠ none → (writeResult s regs' dest n result).1.mem = s.mem) ∧
    (∀ x, x < dest ∨ dest + n ≤ x → (writeResult s regs' dest n result).1.mem.bytes x = s.mem.bytes x) ∧
    (writeResult s regs' dest n result).1.mem.stackLen = s.mem.stackLen ∧ (writeResult s regs' dest n result).1.mem.hp = s.mem.hp := by
  rw [writeResult_spec s regs' dest n result hn]
  split
  · split
    · split
      · refine ⟨fun h => absurd rfl h, fun x hx => ?_, rfl, rfl⟩
        apply store_other; rw [natBE_length]; exact hx
      · exact ⟨fun _ => rfl, fun _ _ => rfl, rfl, rfl⟩
    · exact ⟨fun _ => rfl, fun _ _ => rfl, rfl, rfl⟩
  · exact ⟨fun _ => rfl, fun _ _ => rfl, rfl, rfl⟩

/-! ### (5) ONE closed theorem: `execWide` = the specification, for all 14 opcodes and every failure order -/

/-- **`execWide_spec`** — for every one of the 14 wide-integer opcodes, every operand list of the table shape
(`d` a 6-bit immediate for the six immediate forms), every memory, call-frame stack and every register file of
64-bit values, the transcribed implementation `execWide` equals the specification `wideSpec` of
`Model/WideSpec.lean`: the outcome (registers, memory, status) is determined by the mathematical operation on the
operand VALUES (`wideMath`: big-endian numbers of the bytes read / zero-extended registers) and the FIRST failing
stage of `InvalidImmediateValue` ▸ reserved compare destination ▸ read b ▸ read c ▸ read d (each: beyond memory
before unallocated) ▸ arithmetic overflow / error ▸ [`$of`,`$err` written] ▸ write beyond memory ▸ write
unallocated ▸ write not owned ▸ store + `$pc += 4`. -/
theorem execWide_spec (op : WideOp) (a b c d : Nat) (s : VmSt)
    (himm : op.shape = [.reg, .reg, .reg, .imm06] → d < 64) (hregs : ∀ i, s.regs i < 2 ^ 64) :
    execWide op [a, b, c, d] s = wideSpec op a b c d s := by
  have hm16 : (16 : Nat) ≤ memSize := by decide
  have hm32 : (32 : Nat) ≤ memSize := by decide
  cases op
  case WDCM =>
    have hi := (imm_table d (himm rfl)).1
    by_cases hc : d / 8 % 4 = 0 ∧ d % 8 ≤ 6
    · simp only [execWide, wideSpec, widePlan, WideOp.bytes, hi, hc, and_self, if_true]
      exact wideCmp_body 16 s a _ _ _ _ _ hm16
    · simp only [execWide, wideSpec, widePlan, hi, hc, if_false]
  case WQCM =>
    have hi := (imm_table d (himm rfl)).1
    by_cases hc : d / 8 % 4 = 0 ∧ d % 8 ≤ 6
    · simp only [execWide, wideSpec, widePlan, WideOp.bytes, hi, hc, and_self, if_true]
      exact wideCmp_body 32 s a _ _ _ _ _ hm32
    · simp only [execWide, wideSpec, widePlan, hi, hc, if_false]
  case WDOP =>
    have hi := (imm_table d (himm rfl)).2.1
    by_cases hc : d % 32 ≤ 7
    · simp only [execWide, wideSpec, widePlan, WideOp.bytes, hi, hc, if_true]
      exact wideOp_body 16 s a _ _ _ _ _ hm16 (by decide) (by decide) (hregs c)
    · simp only [execWide, wideSpec, widePlan, hi, hc, if_false]
  case WQOP =>
    have hi := (imm_table d (himm rfl)).2.1
    by_cases hc : d % 32 ≤ 7
    · simp only [execWide, wideSpec, widePlan, WideOp.bytes, hi, hc, if_true]
      exact wideOp_body 32 s a _ _ _ _ _ hm32 (by decide) (by decide) (hregs c)
    · simp only [execWide, wideSpec, widePlan, hi, hc, if_false]
  case WDML =>
    have hi := (imm_table d (himm rfl)).2.2.1
    by_cases hc : d % 16 = 0
    · simp only [execWide, wideSpec, widePlan, WideOp.bytes, hi, hc, if_true]
      exact wideMul_body 16 s a _ _ _ _ _ hm16
    · simp only [execWide, wideSpec, widePlan, hi, hc, if_false]
  case WQML =>
    have hi := (imm_table d (himm rfl)).2.2.1
    by_cases hc : d % 16 = 0
    · simp only [execWide, wideSpec, widePlan, WideOp.bytes, hi, hc, if_true]
      exact wideMul_body 32 s a _ _ _ _ _ hm32
    · simp only [execWide, wideSpec, widePlan, hi, hc, if_false]
  case WDDV =>
    have hi := (imm_table d (himm rfl)).2.2.2
    by_cases hc : d % 32 = 0
    · simp only [execWide, wideSpec, widePlan, WideOp.bytes, hi, hc, if_true]
      exact wideDiv_body 16 s a _ _ _ _ hm16
    · simp only [execWide, wideSpec, widePlan, hi, hc, if_false]
  case WQDV =>
    have hi := (imm_table d (himm rfl)).2.2.2
    by_cases hc : d % 32 = 0
    · simp only [execWide, wideSpec, widePlan, WideOp.bytes, hi, hc, if_true]
      exact wideDiv_body 32 s a _ _ _ _ hm32
    · simp only [execWide, wideSpec, widePlan, hi, hc, if_false]
  case WDMD => simp only [execWide, wideSpec, widePlan, WideOp.bytes]; exact wideMuldiv_body 16 s a _ _ _ hm16
  case WQMD => simp only [execWide, wideSpec, widePlan, WideOp.bytes]; exact wideMuldiv_body 32 s a _ _ _ hm32
  case WDAM => simp only [execWide, wideSpec, widePlan, WideOp.bytes]; exact wideAddmod_body 16 s a _ _ _ hm16
  case WQAM => simp only [execWide, wideSpec, widePlan, WideOp.bytes]; exact wideAddmod_body 32 s a _ _ _ hm32
  case WDMM => simp only [execWide, wideSpec, widePlan, WideOp.bytes]; exact wideMulmod_body 16 s a _ _ _ hm16
  case WQMM => simp only [execWide, wideSpec, widePlan, WideOp.bytes]; exact wideMulmod_body 32 s a _ _ _ hm32

/-- **which error wins**: the status of the specification is the first failing entry of the priority list
`wideStages`, every entry of which is a total function of the initial state -/
theorem wideSpec_status (op : WideOp) (a b c d : Nat) (s : VmSt) :
    (wideSpec op a b c d s).2 = firstSome (wideStages op a b c d s) := by
  unfold wideSpec wideStages
  cases hp : widePlan op d with
  | none => rfl
  | some p =>
    simp only [wideSpecBody]
    by_cases h0 : p.kind.isCmp = true ∧ a < 16
    · simp [h0, firstSome]
    · simp only [h0, if_false, firstSome]
      cases operandFail s.mem p.indB (s.regs b) op.bytes <;> cases operandFail s.mem p.indC (s.regs c) op.bytes <;>
        cases operandFail s.mem p.third (s.regs d) op.bytes <;> simp only [firstSome]
      cases wideMath (8 * op.bytes) p.kind (operandVal s.mem p.indB (s.regs b) op.bytes)
          (operandVal s.mem p.indC (s.regs c) op.bytes) (operandVal s.mem p.third (s.regs d) op.bytes)
          (isWrapping (s.regs regFLAG)) (isUnsafeMath (s.regs regFLAG)) with
      | error e => rfl
      | ok v =>
        by_cases hc : p.kind.isCmp = true
        · simp [hc, firstSome]
        · simp only [hc, Bool.false_eq_true, if_false, writeFail, Bool.false_or]
          cases accessFail s.mem (s.regs a) op.bytes <;> simp only [firstSome]
          by_cases ho : ownsRange s (s.regs a) op.bytes = true <;> simp [ho, firstSome]

/-- the same for the implementation model -/
theorem execWide_status (op : WideOp) (a b c d : Nat) (s : VmSt)
    (himm : op.shape = [.reg, .reg, .reg, .imm06] → d < 64) (hregs : ∀ i, s.regs i < 2 ^ 64) :
    (execWide op [a, b, c, d] s).2 = firstSome (wideStages op a b c d s) := by
  rw [execWide_spec op a b c d s himm hregs, wideSpec_status]

theorem setOfErr_other (r : Regs) (x y j : Nat) (h1 : j ≠ regOF) (h2 : j ≠ regERR) : setOfErr r x y j = r j := by
  simp [setOfErr, Regs.set, h1, h2]

/-- **a panicking wide instruction** changes no memory, no allocation bound, no call frame and no register other than
`$of` / `$err` (those only when the panic comes from the result write) -/
theorem execWide_panic_frame (op : WideOp) (a b c d : Nat) (s : VmSt)
    (himm : op.shape = [.reg, .reg, .reg, .imm06] → d < 64) (hregs : ∀ i, s.regs i < 2 ^ 64)
    (hp : (execWide op [a, b, c, d] s).2 ≠ none) :
    (execWide op [a, b, c, d] s).1.mem = s.mem ∧ (execWide op [a, b, c, d] s).1.frames = s.frames ∧
    ∀ j, j ≠ regOF → j ≠ regERR → (execWide op [a, b, c, d] s).1.regs j = s.regs j := by
  rw [execWide_spec op a b c d s himm hregs] at hp ⊢
  unfold wideSpec at hp ⊢
  cases hpl : widePlan op d with
  | none => exact ⟨rfl, rfl, fun _ _ _ => rfl⟩
  | some p =>
    rw [hpl] at hp
    simp only [wideSpecBody] at hp ⊢
    by_cases h0 : p.kind.isCmp = true ∧ a < 16
    · simp [h0]
    · simp only [h0, if_false] at hp ⊢
      generalize firstSome [operandFail s.mem p.indB (s.regs b) op.bytes, operandFail s.mem p.indC (s.regs c) op.bytes,
        operandFail s.mem p.third (s.regs d) op.bytes] = F at hp ⊢
      cases F with
      | some e => exact ⟨rfl, rfl, fun _ _ _ => rfl⟩
      | none =>
        simp only [] at hp ⊢
        generalize wideMath (8 * op.bytes) p.kind (operandVal s.mem p.indB (s.regs b) op.bytes)
          (operandVal s.mem p.indC (s.regs c) op.bytes) (operandVal s.mem p.third (s.regs d) op.bytes)
          (isWrapping (s.regs regFLAG)) (isUnsafeMath (s.regs regFLAG)) = R at hp ⊢
        cases R with
        | error e => exact ⟨rfl, rfl, fun _ _ _ => rfl⟩
        | ok v =>
          simp only [] at hp ⊢
          by_cases hc : p.kind.isCmp = true
          · simp only [hc, if_true] at hp
            exact absurd rfl hp
          · simp only [hc, if_false] at hp ⊢
            generalize writeFail s (s.regs a) op.bytes = Wf at hp ⊢
            cases Wf with
            | some e => exact ⟨rfl, rfl, fun j h1 h2 => setOfErr_other _ _ _ _ h1 h2⟩
            | none => exact absurd rfl hp

/-- **`prev_hp` comes from the call frames**: the ownership registers of the model are those of
`OwnershipRegisters::new` as modelled for C24 (`Ownership.ofVm`, `ofVm_prevHp`): `$sp`, `$ssp`, `$hp`, and the `$hp`
saved in the innermost call frame, `VM_MAX_RAM` when there is none -/
theorem owner_ofVm (s : VmSt) :
    s.owner.sp = (Memory.Ownership.ofVm Gen.memSize (s.regs regSP) (s.regs regSSP) (s.regs regHP) s.frames.getLast?).sp ∧
    s.owner.ssp = (Memory.Ownership.ofVm Gen.memSize (s.regs regSP) (s.regs regSSP) (s.regs regHP) s.frames.getLast?).ssp ∧
    s.owner.hp = (Memory.Ownership.ofVm Gen.memSize (s.regs regSP) (s.regs regSSP) (s.regs regHP) s.frames.getLast?).hp ∧
    s.owner.prevHp = (Memory.Ownership.ofVm Gen.memSize (s.regs regSP) (s.regs regSSP) (s.regs regHP) s.frames.getLast?).prevHp ∧
    (s.frames = [] → s.owner.prevHp = vmMaxRam) ∧ (∀ fs f, s.frames = fs ++ [f] → s.owner.prevHp = f) := by
  refine ⟨rfl, rfl, rfl, ?_, ?_, ?_⟩
  · simp only [VmSt.owner, VmSt.prevHp, Memory.Ownership.ofVm]
    have : vmMaxRam = Gen.memSize := by decide
    rw [this]
  · intro h; simp [VmSt.owner, VmSt.prevHp, h]
  · intro fs f h; simp [VmSt.owner, VmSt.prevHp, h]

/-! ### non-vacuity: a concrete state executed through the model -/

def exMem : Mem := { stackLen := 128, hp := vmMaxRam, bytes := fun a => if a = 15 then 7 else if a = 31 then 5 else 0 }
def exSt : VmSt := { regs := fun i => if i = 1 then 1 else if i = 16 then 64 else if i = 17 then 0 else if i = 18 then 16 else if i = 4 then 32 else if i = 5 then 128 else if i = 7 then vmMaxRam else 0,
                     mem := exMem, frames := [] }

example : (readWide exMem 0 16).toOption = some 7 := by decide
example : (execWide .WDOP [16, 17, 18, 0x20] exSt).2 = none := by decide     -- 7 + 5 (indirect rhs)
example : (readWide (execWide .WDOP [16, 17, 18, 0x20] exSt).1.mem 64 16).toOption = some 12 := by decide
example : (execWide .WDOP [16, 17, 18, 0x20] exSt).1.regs regPC = 4 := by decide
example : (execWide .WDOP [16, 17, 18, 0x28] exSt).2 = some .InvalidImmediateValue := by decide
example : (execWide .WDCM [20, 17, 18, 0x23] exSt).1.regs 20 = 1 := by decide   -- 7 > 5
example : (execWide .WDDV [16, 17, 1, 0x00] exSt).2 = none := by decide          -- divide by $one (direct)
example : (execWide .WDDV [16, 17, 0, 0x00] exSt).2 = some .ArithmeticError := by decide
example : (execWide .WDOP [17, 17, 18, 0x20] exSt).2 = some .MemoryOwnership := by decide  -- dest below $ssp
-- the specification on the same state; inside a call (`frames = [saved $hp]`) the heap above the saved `$hp` is the caller's
example : (wideSpec .WDOP 16 17 18 0x20 exSt).2 = none ∧ (wideSpec .WDOP 16 17 18 0x28 exSt).2 = some .InvalidImmediateValue := by decide
example : (List.range 64).all (fun i => decide (exSt.regs i < 2 ^ 64)) = true := by decide
def exHeapMem : Mem := { stackLen := 128, hp := vmMaxRam - 64, bytes := fun a => if a = 15 then 7 else if a = 31 then 5 else 0 }
def exCall : VmSt := { regs := fun i => if i = 16 then vmMaxRam - 32 else if i = 17 then 0 else if i = 18 then 16 else if i = 4 then 32 else if i = 5 then 128 else if i = 7 then vmMaxRam - 64 else 0,
                       mem := exHeapMem, frames := [vmMaxRam, vmMaxRam - 40] }
example : exCall.prevHp = vmMaxRam - 40 := by decide
example : (wideSpec .WDOP 16 17 18 0x20 exCall).2 = some .MemoryOwnership := by decide               -- [max-32, max-16) crosses the caller's $hp
example : (wideSpec .WDOP 16 17 18 0x20 { exCall with frames := [] }).2 = none := by decide            -- the same write in a script is owned
example : firstSome (wideStages .WDOP 16 17 18 0x28 exCall) = some .InvalidImmediateValue := by decide -- an invalid immediate beats the unowned destination

end FuelVerif.Alu
