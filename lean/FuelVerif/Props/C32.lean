/-
C32 — Breakpoints and single-stepping do not change execution results.

  "Running a script with any set of breakpoints or with single-stepping enabled, and resuming after every
   debug event until completion, produces the same final program state, receipts, output transaction and
   storage as running it without a debugger; each debug event is reported at most once per reached
   location before the instruction there executes."

Model: `Model/Debug.lean` transcribes `Debugger`, `eval_debugger_state`, `execute`/`instruction_per_inner`,
`run_program` and `resume`; the interpreter minus its `debugger` field is an abstract state `σ` (registers,
memory, frames, receipts, tx, balances, storage, …: everything the statement calls "final program state,
receipts, output transaction and storage" is a projection of `σ` and the returned `Outcome`), and
`Machine.exec` is an arbitrary deterministic instruction semantics that cannot see the debugger
(`Gen/DebuggerRefs.lean`: the translator re-checks on every run that no Rust file outside the debugger
plumbing mentions the field or constructs `DebugEvent`).

The theorems hold for every machine, every VM state, every debugger configuration (including a stale
pending `last_state`), and every run length.
-/
import FuelVerif.Lemmas.Debug
import FuelVerif.Gen.DebuggerRefs
namespace FuelVerif.Debug
variable {σ ε : Type}

/-- The run "without a debugger" of the statement is the transcribed `run_program` with
`Debugger::default()`; it is the function `plainRun` of the VM state alone and leaves the debugger untouched. -/
theorem run_without_debugger (m : Machine σ ε) (n : Nat) (s : σ) :
    runProgram m n {} s = (plainRun m n s).map (fun x => (({} : Debugger), x.1, x.2.1)) := by
  have hl : ∀ (n : Nat) (s : σ), loop m n {} s = (plainLoop m n s).map (fun x => (({} : Debugger), x.1, x.2.1)) := by
    intro n
    induction n with
    | zero => intro s; rfl
    | succ n ih =>
      intro s
      rw [loop_succ, plainLoop]
      cases hf : m.fetch s with
      | error e => rfl
      | ok raw =>
        have hg : gate m {} s = ({}, none) := rfl
        simp only [hg]
        cases hx : stepExec m raw s with
        | stop s1 r1 => rfl
        | cont s1 =>
          simp only [ih s1]
          cases plainLoop m n s1 <;> rfl
  unfold runProgram plainRun
  cases m.scriptEmpty
  · simp only [Bool.false_eq_true, if_false, hl]
    cases plainLoop m n s with
    | none => rfl
    | some x => simp only [Option.map_some, afterLoop_eq]
  · simp only [if_true]
    rcases m.retOne s with ⟨s1, _ | e⟩
    · simp only [afterLoop_eq, Option.map_some]
    · rfl

/-- **Debugger transparency.** If the run without a debugger finishes (within `n` loop iterations) in VM
state `s'` with outcome `o`, then with ANY debugger configuration — any breakpoint set, single-stepping on
or off, any pending `last_state` — starting the run and resuming after every debug event finishes in the
same VM state `s'` with the same outcome `o`; the debugger configuration is unchanged, and the events
reported are exactly `expectedEvents` of the plain run's arrivals. -/
theorem debug_transparent (m : Machine σ ε) (n : Nat) (s s' : σ) (o : Outcome ε) (tr : List (Breakpoint × σ))
    (hplain : plainRun m n s = some (s', o, tr))
    (dbg : Debugger) (fuel k : Nat) (hfuel : n ≤ fuel) (hk : n ≤ k) :
    ∃ dbg' : Debugger, runToCompletion m fuel k dbg s = some (dbg', s', o, expectedEvents dbg tr)
      ∧ dbg'.isActive = dbg.isActive ∧ dbg'.singleStepping = dbg.singleStepping
      ∧ dbg'.breakpoints = dbg.breakpoints := by
  obtain ⟨act, ss, bps, last⟩ := dbg
  unfold plainRun at hplain
  unfold runToCompletion runProgram
  cases he : m.scriptEmpty with
  | true =>
    simp only [he, if_true] at hplain ⊢
    rcases hr : m.retOne s with ⟨s1, _ | e⟩ <;> rw [hr] at hplain <;> simp only [hr]
    · simp only [Option.some.injEq, Prod.mk.injEq] at hplain
      obtain ⟨rfl, rfl, rfl⟩ := hplain
      refine ⟨⟨act, ss, bps, last⟩, ?_, rfl, rfl, rfl⟩
      rw [drive_final m fuel k _ _ _ (by simp [LoopOut.final, ProgramState.debugRef])]
      rfl
    · simp only [Option.some.injEq, Prod.mk.injEq] at hplain
      obtain ⟨rfl, rfl, rfl⟩ := hplain
      refine ⟨⟨act, ss, bps, last⟩, ?_, rfl, rfl, rfl⟩
      cases k <;> simp [drive, Outcome.debugOf, expectedEvents]
  | false =>
    simp only [he, Bool.false_eq_true, if_false] at hplain ⊢
    cases hp : plainLoop m n s with
    | none => rw [hp] at hplain; cases hplain
    | some y =>
      obtain ⟨s2, r2, tr2⟩ := y
      rw [hp] at hplain
      simp only [Option.some.injEq, Prod.mk.injEq] at hplain
      obtain ⟨rfl, rfl, rfl⟩ := hplain
      obtain ⟨last', hi⟩ := contLoop_sim m he n s s2 r2 tr2 hp act ss bps last fuel fuel k [] hfuel hfuel hk
      unfold contLoop at hi
      refine ⟨⟨act, ss, bps, last'⟩, ?_, rfl, rfl, rfl⟩
      cases hl : loop m fuel ⟨act, ss, bps, last⟩ s with
      | none => rw [hl] at hi; cases hi
      | some z =>
        rw [hl] at hi
        simp only [Option.map_some]
        simpa using hi

/-- **Each debug event is reported once per reached location, before the instruction there executes.**
With no stale `last_state`, the reported events are, in order, exactly one event for each arrival of the
plain run at a location the configuration stops at (`hits`: single-stepping, or a breakpoint at that
location), and the VM state recorded with the event is the plain run's state BEFORE that instruction
executes. In particular two consecutive events at the same location are two different arrivals, separated
by an execution of that instruction. -/
theorem events_once_per_arrival (m : Machine σ ε) (n : Nat) (s s' : σ) (o : Outcome ε) (tr : List (Breakpoint × σ))
    (hplain : plainRun m n s = some (s', o, tr))
    (dbg : Debugger) (hlast : dbg.lastState = none) (fuel k : Nat) (hfuel : n ≤ fuel) (hk : n ≤ k) :
    ∃ dbg' : Debugger, runToCompletion m fuel k dbg s =
      some (dbg', s', o, (tr.filter (fun x => hits dbg x.1)).map (fun x => (DebugEval.breakpoint x.1, x.2))) := by
  obtain ⟨dbg', h, _⟩ := debug_transparent m n s s' o tr hplain dbg fuel k hfuel hk
  refine ⟨dbg', ?_⟩
  rw [h]
  obtain ⟨act, ss, bps, last⟩ := dbg
  simp only at hlast
  subst hlast
  rw [expectedEvents_none act ss bps none (fun _ => rfl)]
  rfl

/-- single-stepping reports every executed instruction exactly once -/
theorem single_stepping_reports_every_instruction (m : Machine σ ε) (n : Nat) (s s' : σ) (o : Outcome ε)
    (tr : List (Breakpoint × σ)) (hplain : plainRun m n s = some (s', o, tr))
    (bps : List Breakpoint) (fuel k : Nat) (hfuel : n ≤ fuel) (hk : n ≤ k) :
    ∃ dbg' : Debugger, runToCompletion m fuel k ⟨true, true, bps, none⟩ s =
      some (dbg', s', o, tr.map (fun x => (DebugEval.breakpoint x.1, x.2))) := by
  obtain ⟨dbg', h⟩ := events_once_per_arrival m n s s' o tr hplain ⟨true, true, bps, none⟩ rfl fuel k hfuel hk
  refine ⟨dbg', ?_⟩
  rw [h]
  congr 4
  simp only [hits, Bool.true_or, Bool.and_self]
  congr 1
  exact List.filter_eq_self.mpr (fun _ _ => rfl)

/-- an inactive debugger, or one with no breakpoints and single-stepping off, reports nothing -/
theorem no_breakpoints_no_events (m : Machine σ ε) (n : Nat) (s s' : σ) (o : Outcome ε)
    (tr : List (Breakpoint × σ)) (hplain : plainRun m n s = some (s', o, tr))
    (act : Bool) (last : Option ProgramState) (fuel k : Nat) (hfuel : n ≤ fuel) (hk : n ≤ k) :
    ∃ dbg' : Debugger, runToCompletion m fuel k ⟨act, false, [], last⟩ s = some (dbg', s', o, []) := by
  obtain ⟨dbg', h, _⟩ := debug_transparent m n s s' o tr hplain ⟨act, false, [], last⟩ fuel k hfuel hk
  refine ⟨dbg', ?_⟩
  rw [h]
  congr 4
  cases tr with
  | nil => rfl
  | cons x rest => obtain ⟨b, s0⟩ := x; simp [expectedEvents, hits, laterEvents]

/-- the suppression in `eval_state` lasts for exactly one evaluation: evaluating twice in a row at a
location that hits reports the location the second time (an instruction that jumps to itself stops again) -/
theorem suppression_is_one_shot (d : Debugger) (c : Option ContractId) (pc : Nat)
    (hhit : hits d ⟨c.getD zeroId, pc⟩ = true) :
    ((d.evalState c pc).1.evalState c pc).2 = .breakpoint ⟨c.getD zeroId, pc⟩ := by
  obtain ⟨act, ss, bps, last⟩ := d
  simp only [hits, Bool.and_eq_true, Bool.or_eq_true, decide_eq_true_eq] at hhit
  unfold Debugger.evalState
  simp only
  rcases hhit.2 with h | h
  · simp [h, Debugger.suppress]
  · cases ss <;> simp [h, Debugger.suppress]

/-- obligation on the Rust text (regenerated by the translator `debugger_refs` on every run): the
`debugger` field / plumbing methods and the `DebugEvent` constructor are mentioned exactly where the model
accounts for them — no instruction implementation can observe the debugger or fabricate a debug event, which
is what the type of `Machine.exec` assumes. (The translator also pins the text of `execute` and
`instruction_per_inner`: fetch, then the gate, then `instruction_inner`.) -/
theorem debugger_only_in_plumbing :
    Gen.debuggerMentions = expectedDebuggerMentions ∧ Gen.debugEventMentions = expectedDebugEventMentions := by
  decide

/-! ### non-vacuity: a concrete machine (a counting loop with a call-free body) -/

/-- state = (pc, counter); program: 0: counter += 1; 4: if counter < 3 jump 0; 8: ret counter -/
def demo : Machine (Nat × Nat) String where
  fetch := fun s => if s.1 ≤ 8 then .ok s.1 else .error "MemoryNotExecutable"
  exec := fun raw s =>
    if raw = 0 then ((4, s.2 + 1), .ok .proceed)
    else if raw = 4 then ((if s.2 < 3 then 0 else 8, s.2), .ok .proceed)
    else (s, .ok (.ret s.2))
  loc := fun s => (none, s.1)
  inCall := fun _ => false
  panicReceipt := fun _ s => some s
  scriptEmpty := false
  retOne := fun s => (s, none)
  finish := fun _ _ s => (s, none)
  debugNotInit := "DebugStateNotInitialized"

example : (plainRun demo 10 (0, 0)).map (fun x => (x.1, x.2.2.length)) = some ((8, 3), 7) := by decide

/-- a breakpoint on the loop head (pc 0) is reported on each of the three arrivals, and the final state
is the plain run's -/
example : (runToCompletion demo 10 10 (({} : Debugger).setBreakpoint ⟨zeroId, 0⟩) (0, 0)).map
      (fun x => (x.2.1, x.2.2.2.map (fun e => e.2))) = some ((8, 3), [(0, 0), (0, 1), (0, 2)]) := by decide

/-- single-stepping: seven events, one per executed instruction -/
example : (runToCompletion demo 10 10 (({} : Debugger).setSingleStepping true) (0, 0)).map
      (fun x => (x.2.1, x.2.2.2.length)) = some ((8, 3), 7) := by decide

/-- a stale pending state equal to the first location suppresses exactly the first report -/
example : (runToCompletion demo 10 10
      ((({} : Debugger).setBreakpoint ⟨zeroId, 0⟩).setLastState (.runProgram (.breakpoint ⟨zeroId, 0⟩))) (0, 0)).map
      (fun x => (x.2.1, x.2.2.2.map (fun e => e.2))) = some ((8, 3), [(0, 1), (0, 2)]) := by decide

/-- `resume` without a pending debug state is the error the Rust code returns -/
example : (resume demo 5 {} (0, 0)).map (fun x => match x.2.2 with | .err e => e | _ => "") =
    some "DebugStateNotInitialized" := by decide

end FuelVerif.Debug
