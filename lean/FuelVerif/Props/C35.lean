/-
C35 — Bytecode upload, blob, deployment and upgrade state evolve as specified.

  "Over any sequence of deployment, blob, upload and upgrade transactions, a contract id or blob id can be
   created only once (with the exact code, storage slots or data), uploaded bytecode is accepted only in
   consecutive subsection order and becomes complete exactly when the last subsection arrives holding the
   concatenation of all parts, and each consensus-parameter or state-transition upgrade installs its value
   under the version one higher than the current one, failing if that version is already taken or, for
   state transitions, if the bytecode is not completely uploaded. Failed transactions leave these tables
   unchanged."

`restore` is the translator-extracted fact whether `upgrade_inner` puts the previous entry back before it
fails on a taken version (`Gen.UpgradeOrder.restoresPrevOnConflict`, `false` for the code as it is today:
the entry is inserted first and the conflict detected afterwards). The last sentence of the property is
therefore proved for every transaction kind except that case, proved in full for `restore = true`, and
REFUTED with a concrete witness for `restore = false` (finding F7, replayed on the real `Transactor` by
stream `c35`, fingerprints `failed-upgrade-cp-changed-tables` / `failed-upgrade-st-changed-tables`).
-/
import FuelVerif.Lemmas.Tables
namespace FuelVerif.Tables
open FuelVerif

/-! ## 1. contracts and blobs are created once, with the exact content -/

/-- a fresh id is created with exactly the submitted code; other contracts and other contracts' slots are untouched;
an existing id is rejected and nothing changes -/
theorem create_once (t : T) (id code : Bytes) (slots : List (Bytes × Bytes)) :
    (t.contracts id = none → (deploy t id code slots).2 = .ok () ∧
        (deploy t id code slots).1.contracts id = some code ∧
        (∀ id', id' ≠ id → (deploy t id code slots).1.contracts id' = t.contracts id') ∧
        (∀ q, q.1 ≠ id → (deploy t id code slots).1.slots q = t.slots q)) ∧
    ((t.contracts id).isSome → deploy t id code slots = (t, .error .ContractIdAlreadyDeployed)) := by
  constructor
  · intro h
    simp only [deploy, h, Option.isSome_none, Bool.false_eq_true, if_false]
    refine ⟨by trivial, by simp [updB], fun id' hne => by simp [updB, hne], fun q hq => insertSlots_other _ _ _ _ hq⟩
  · intro h
    simp [deploy, h]

/-- the storage slots of a fresh contract are exactly the submitted ones (distinct keys, as `Create` validity requires) -/
theorem create_slots (t : T) (id code : Bytes) (slots : List (Bytes × Bytes)) (h : t.contracts id = none)
    (hnd : (slots.map (·.1)).Nodup) (k v : Bytes) (hm : (k, v) ∈ slots) :
    (deploy t id code slots).1.slots (id, k) = some v := by
  simp only [deploy, h, Option.isSome_none, Bool.false_eq_true, if_false]
  exact insertSlots_mem _ _ _ hnd _ _ hm

/-- over any history a created contract keeps its code for ever (it can never be created again or overwritten) -/
theorem create_once_history (restore : Bool) (ops : List Op) (t : T) (id code : Bytes) (h : t.contracts id = some code) :
    (run restore t ops).1.contracts id = some code := by
  induction ops generalizing t with
  | nil => exact h
  | cons op rest ih =>
    simp only [run]
    apply ih
    exact step_keeps_contract restore t op id code h

/-- blob: a fresh id stores exactly the data; an existing id fails -/
theorem blob_once (t : T) (id data : Bytes) :
    (t.blobs id = none → (blob t id data).2 = .ok () ∧ (blob t id data).1.blobs id = some data ∧
        ∀ id', id' ≠ id → (blob t id data).1.blobs id' = t.blobs id') ∧
    ((t.blobs id).isSome → (blob t id data).2 = .error .BlobIdAlreadyUploaded) := by
  constructor
  · intro h
    simp only [blob, h, Option.isSome_none, Bool.false_eq_true, if_false]
    exact ⟨by trivial, by simp [updB], fun id' hne => by simp [updB, hne]⟩
  · intro h
    simp [blob, h]

/-- the failing blob transaction re-stores the data under the id (`replace` precedes the check); the table is
unchanged exactly when the stored data is the submitted data — which the blob id (a hash of the data)
guarantees unless the hash collides (`H` injective on the data submitted) -/
theorem blob_failed_unchanged (t : T) (id data old : Bytes) (h : t.blobs id = some old) :
    ((blob t id data).1 = t ↔ old = data) := by
  simp only [blob, h, Option.isSome_some, if_true]
  constructor
  · intro e
    have := congrArg (fun x => x.blobs id) e
    simp [updB, h] at this
    exact this.symm
  · intro e
    subst e
    exact T_ext_blobs t _ (funext fun id' => by
      by_cases c : id' = id
      · subst c; simp [updB, h]
      · simp [updB, c])

/-! ## 2. uploads: consecutive order, completion, concatenation — refinement to a per-root list of parts -/

/-- **accepted only in consecutive subsection order**: an upload is accepted iff the root is not complete, the
subsection index equals the number of subsections uploaded so far, and that number + 1 does not exceed the
announced total (nor `u16::MAX`) -/
theorem upload_order (t : T) (root : Bytes) (i total : Nat) (part : Bytes) :
    (upload t root i total part).2 = .ok () ↔
      ∃ bc k, (t.uploaded root).getD (.uncompleted [] 0) = .uncompleted bc k ∧ i = k ∧ k + 1 ≤ total ∧ k + 1 ≤ 65535 := by
  unfold upload
  cases hc : (t.uploaded root).getD (.uncompleted [] 0) with
  | completed bc => simp
  | uncompleted bc k =>
    simp only [uploadSubsection]
    constructor
    · intro h
      refine ⟨bc, k, rfl, ?_⟩
      by_cases h1 : i ≠ k
      · simp [h1] at h
      · by_cases h2 : k + 1 > 65535
        · simp [h1, h2] at h
        · by_cases h3 : k + 1 > total
          · simp [h1, h2, h3] at h
          · omega
    · rintro ⟨bc', k', e, hi, h3, h2⟩
      cases e
      have a1 : ¬ i ≠ k := by omega
      have a2 : ¬ k + 1 > 65535 := by omega
      have a3 : ¬ k + 1 > total := by omega
      simp only [a1, a2, a3, if_false]
      by_cases h4 : total = k + 1 <;> simp [h4]

/-- every history of transactions, started from tables that agree with a specification state, keeps agreeing:
the table entry of every root is the encoding of (parts accepted in order, complete?) — in particular
interleaved uploads of other roots, and all other transactions, do not disturb a root -/
theorem upload_history_refines (restore : Bool) (ops : List Op) (t : T) (sp : USpec) (h : URel t sp) :
    URel (run restore t ops).1 (specRun sp ops) := by
  induction ops generalizing t sp with
  | nil => exact h
  | cons op rest ih =>
    simp only [run, specRun]
    exact ih _ _ (step_urel restore t sp op h)

/-- **complete exactly when the last subsection arrives, holding the concatenation of all parts**: after any
history from the empty tables, a root is `Completed bs` iff the specification has seen its last part, and
then `bs` is the concatenation of the accepted parts in order; it is `Uncompleted bs n` iff `n ≥ 1` parts
were accepted, not yet all, and `bs` is their concatenation -/
theorem upload_complete_iff (restore : Bool) (ops : List Op) (root bs : Bytes) :
    let t := (run restore T.empty ops).1
    let sp := specRun specEmpty ops
    (t.uploaded root = some (.completed bs) ↔ (sp root).2 = true ∧ bs = (sp root).1.flatten) ∧
    (∀ n, t.uploaded root = some (.uncompleted bs n) ↔
        (sp root).2 = false ∧ (sp root).1 ≠ [] ∧ n = (sp root).1.length ∧ bs = (sp root).1.flatten) := by
  intro t sp
  have h : URel t sp := upload_history_refines restore ops T.empty specEmpty urel_empty
  have hr := h root
  constructor
  · rw [hr]; exact enc_completed_iff _ _
  · intro n; rw [hr]; exact enc_uncompleted_iff _ _ _

/-- the specification's own completion rule, for reading the theorem above: a part is accepted iff the root is
not complete and the index is the number of parts so far (within the total); it completes iff it is the last -/
theorem spec_rule (sp : USpec) (root : Bytes) (i total : Nat) (part : Bytes) :
    specUpload sp root i total part =
      if (sp root).2 = false ∧ i = (sp root).1.length ∧ (sp root).1.length + 1 ≤ total ∧ (sp root).1.length + 1 ≤ 65535
      then updB sp root ((sp root).1 ++ [part], decide (total = (sp root).1.length + 1)) else sp := rfl

/-! ## 3. upgrades -/

/-- **installs its value under the version one higher than the current one**; success is possible only when that
version is free -/
theorem upgrade_version (restore : Bool) (t : T) (params : Bytes) :
    (t.cpVersions (nextVersion t.curCp) = none →
        (upgradeCp restore t params).2 = .ok () ∧
        (upgradeCp restore t params).1.cpVersions = updN t.cpVersions (nextVersion t.curCp) (some params) ∧
        (upgradeCp restore t params).1.stVersions = t.stVersions ∧ (upgradeCp restore t params).1.curCp = t.curCp) ∧
    ((t.cpVersions (nextVersion t.curCp)).isSome → (upgradeCp restore t params).2 = .error .OverridingConsensusParameters) := by
  constructor
  · intro h; simp [upgradeCp, h]
  · intro h
    cases hp : t.cpVersions (nextVersion t.curCp) with
    | none => simp [hp] at h
    | some p => simp [upgradeCp, hp]

/-- state-transition upgrades: **fail if the bytecode is not completely uploaded**, fail if the version is taken,
otherwise install the root at `current + 1` -/
theorem upgrade_requires_complete (restore : Bool) (t : T) (root : Bytes) :
    (containsRoot t root = false → upgradeSt restore t root = (t, .error .UnknownStateTransactionBytecodeRoot)) ∧
    (containsRoot t root = true → (t.stVersions (nextVersion t.curSt)).isSome →
        (upgradeSt restore t root).2 = .error .OverridingStateTransactionBytecode) ∧
    (containsRoot t root = true → t.stVersions (nextVersion t.curSt) = none →
        (upgradeSt restore t root).2 = .ok () ∧
        (upgradeSt restore t root).1.stVersions = updN t.stVersions (nextVersion t.curSt) (some root) ∧
        (upgradeSt restore t root).1.cpVersions = t.cpVersions) := by
  refine ⟨fun h => by simp [upgradeSt, h], fun h h2 => ?_, fun h h2 => by simp [upgradeSt, h, h2]⟩
  cases hp : t.stVersions (nextVersion t.curSt) with
  | none => simp [hp] at h2
  | some p => simp [upgradeSt, h, hp]

/-- `containsRoot` is "completely uploaded" -/
theorem containsRoot_iff (t : T) (root : Bytes) : containsRoot t root = true ↔ ∃ bs, t.uploaded root = some (.completed bs) := by
  unfold containsRoot
  cases h : t.uploaded root with
  | none => simp
  | some u => cases u <;> simp

/-! ## 4. failed transactions leave the tables unchanged -/

/- `OpOk t op` (Lemmas/Tables): a blob transaction whose id is already stored carries the stored data (same id ⇒
same data: the id is the hash of the data). -/

/-- FULL statement of the last sentence of the property -/
def FailedUnchanged (restore : Bool) : Prop :=
  ∀ (t : T) (op : Op), OpOk t op → ∀ e, (step restore t op).2 = .error e → (step restore t op).1 = t

/-- it holds for every transaction kind except an upgrade against a taken version … -/
theorem failed_unchanged_partial (restore : Bool) (t : T) (op : Op) (hok : OpOk t op) (e : Err)
    (hne : e ≠ .OverridingConsensusParameters ∧ e ≠ .OverridingStateTransactionBytecode)
    (h : (step restore t op).2 = .error e) : (step restore t op).1 = t :=
  step_failed_unchanged_partial restore t op hok e hne h

/-- … it holds in full once `upgrade_inner` restores the previous entry … -/
theorem failed_unchanged_of_restore : FailedUnchanged true := by
  intro t op hok e h
  by_cases hne : e ≠ .OverridingConsensusParameters ∧ e ≠ .OverridingStateTransactionBytecode
  · exact step_failed_unchanged_partial true t op hok e hne h
  · exact step_failed_unchanged_restore t op e h (by
      by_cases a : e = .OverridingConsensusParameters
      · exact Or.inl a
      · right
        by_cases b : e = .OverridingStateTransactionBytecode
        · exact b
        · exact absurd ⟨a, b⟩ hne)

/-- … and it is FALSE for the insert-then-check order: with version 1 taken by parameters `[1]`, a second
consensus-parameter upgrade `[2]` fails with `OverridingConsensusParameters` and leaves `[2]` stored under
version 1 (same for state-transition roots). This is finding F7. -/
theorem failed_unchanged_false_as_is : ¬ FailedUnchanged false := by
  intro h
  have := h f7Tables (.upgradeCp [2]) trivial .OverridingConsensusParameters (by rfl)
  have e := congrArg (fun x => x.cpVersions 1) this
  revert e
  decide

/-- on the code as extracted today: the full statement holds iff the translator found the restoring form -/
theorem failed_unchanged_current :
    FailedUnchanged Gen.UpgradeOrder.restoresPrevOnConflict ↔ Gen.UpgradeOrder.restoresPrevOnConflict = true := by
  cases h : Gen.UpgradeOrder.restoresPrevOnConflict with
  | true => exact ⟨fun _ => rfl, fun _ => failed_unchanged_of_restore⟩
  | false => exact ⟨fun x => absurd x failed_unchanged_false_as_is, fun x => by cases x⟩

/-! ## non-vacuity -/

private def rootA : Bytes := [0xAA]
private def hist : List Op :=
  [.upload rootA 1 3 [2], .upload rootA 0 3 [1], .upload [0xBB] 0 1 [9], .upload rootA 1 3 [2], .upgradeSt rootA, .upload rootA 2 3 [3],
   .upload rootA 0 3 [1], .upgradeSt rootA, .upgradeSt [0xBB], .upgradeCp [1], .upgradeCp [2], .setVersions 1 1, .upgradeCp [3],
   .deploy [1] [5, 5] [([1], [2])], .deploy [1] [6] [], .blob [7] [8], .blob [7] [8]]

example : (run false T.empty hist).2 =
    [.error .ThePartIsNotSequentiallyConnected, .ok (), .ok (), .ok (), .error .UnknownStateTransactionBytecodeRoot, .ok (),
     .error .BytecodeAlreadyUploaded, .ok (), .error .OverridingStateTransactionBytecode, .ok (), .error .OverridingConsensusParameters,
     .ok (), .ok (), .ok (), .error .ContractIdAlreadyDeployed, .ok (), .error .BlobIdAlreadyUploaded] := by rfl
example : (run false T.empty hist).1.uploaded rootA = some (.completed [1, 2, 3]) := by decide
example : (specRun specEmpty hist) rootA = ([[1], [2], [3]], true) := by decide
-- F7 on the model: the failed upgrades overwrote version 1 (as-is) / did not (restoring form)
example : (run false T.empty hist).1.cpVersions 1 = some [2] ∧ (run true T.empty hist).1.cpVersions 1 = some [1] := by decide
example : (run false T.empty hist).1.stVersions 1 = some [0xBB] ∧ (run true T.empty hist).1.stVersions 1 = some rootA := by decide
example : OpOk (run false T.empty hist).1 (.blob [7] [8]) := by
  intro old h
  have e : (run false T.empty hist).1.blobs [7] = some [8] := by decide
  rw [e] at h; cases h; rfl

end FuelVerif.Tables
