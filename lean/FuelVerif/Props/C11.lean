/-
C11 — Binary Merkle trees behave like fresh trees across reset and reload.

  "After any history of pushes, resets and reloads from storage at a recorded leaf count, a binary
   Merkle tree reports the same root, leaf count and proofs as a freshly built tree holding exactly
   the leaves pushed since the last reset (or the leaves recorded up to the reload point). In
   particular, proofs are refused for indices at or beyond the current leaf count."

The abstract state of a history is `absRun`: the leaves pushed since the last reset, truncated to `k`
by `load k`. `MerkleTree::reset` is modelled as the source states it: `Tree.reset` follows
`Gen.BinaryMerkle.resetZeroesLeavesCount`, regenerated from merkle_tree.rs on every run. On the
code WITHOUT the one-line fix (repo-patches/fix-C11-reset-leaves-count.diff) the property is false:
`reset_without_fix_breaks_*` below are the kernel-checked negative witnesses (DESIGN §6 F4), replayed
on the real code by stream c11. `reset_fixed_in_source` (Props/C11Fix.lean) is the proof obligation that the fix is present.
-/
import FuelVerif.Lemmas.BinaryMerkleStore
namespace FuelVerif.BMT
open FuelVerif

/-- abstract effect of one operation on "the leaves the tree holds" -/
def absStep (L : List Bytes) : Op → List Bytes
  | .push d => L ++ [d]
  | .reset => []
  | .load k => L.take k

def absRun : List Bytes → List Op → List Bytes
  | L, [] => L
  | L, op :: ops => absRun (absStep L op) ops

def Op.isLoad : Op → Bool
  | .load _ => true
  | _ => false

/-- every `load k` of the history reloads at a count the storage has recorded (`k ≤` current count) -/
def LoadsRecorded : List Bytes → List Op → Prop
  | _, [] => True
  | L, .load k :: ops => k ≤ L.length ∧ LoadsRecorded (L.take k) ops
  | L, op :: ops => LoadsRecorded (absStep L op) ops

/-- what a freshly built tree over `leaves` reports: root, count, and for every index the proof or the refusal -/
structure FreshLike (H : HashFn) (leaves : List Bytes) (t : Tree) : Prop where
  root : t.root H = .ok (mth H leaves)
  count : t.leavesCount = leaves.length
  refuse : ∀ i, leaves.length ≤ i → t.prove H i = .error (.invalidProofIndex i)
  prove : ∀ i, i < leaves.length → t.prove H i = .ok (mth H leaves, auditPath H i leaves)

/-- **the property, in full**: after any history (loads at recorded counts) the tree is
indistinguishable from a fresh tree over the abstract leaves. -/
def C11Statement : Prop :=
  ∀ (H : HashFn), H [] = emptySum → ∀ (storage0 : Storage) (ops : List Op),
    ops.length < 2 ^ 63 → LoadsRecorded [] ops →
    ∃ t, Tree.runWith true H (Tree.new storage0) ops = .ok t ∧ FreshLike H (absRun [] ops) t

theorem absRun_length_le : ∀ (ops : List Op) (L : List Bytes), (absRun L ops).length ≤ L.length + ops.length
  | [], L => by simp [absRun]
  | op :: ops, L => by
    have := absRun_length_le ops (absStep L op)
    cases op <;> simp only [absRun, absStep, List.length_append, List.length_cons, List.length_nil, List.length_take] at * <;> omega

/-- the invariant `TreeInv` (stack = MMR peaks, count, storage records every complete aligned block)
is preserved by every operation of a history whose reloads are at recorded counts -/
theorem run_treeInv (H : HashFn) : ∀ (ops : List Op) (L : List Bytes) (t : Tree),
    TreeInv H L t → L.length + ops.length < 2 ^ 63 → LoadsRecorded L ops →
    ∃ t', Tree.runWith true H t ops = .ok t' ∧ TreeInv H (absRun L ops) t'
  | [], L, t, inv, _, _ => ⟨t, rfl, inv⟩
  | .push d :: ops, L, t, inv, hb, hl => by
    simp only [List.length_cons] at hb
    obtain ⟨t1, h1, inv1⟩ := inv.push d (by omega)
    obtain ⟨t2, h2, inv2⟩ := run_treeInv H ops (L ++ [d]) t1 inv1
      (by simp only [List.length_append, List.length_singleton]; omega) hl
    exact ⟨t2, by simp only [Tree.runWith, Tree.stepWith, h1, h2], inv2⟩
  | .reset :: ops, L, t, inv, hb, hl => by
    simp only [List.length_cons] at hb
    obtain ⟨t2, h2, inv2⟩ := run_treeInv H ops [] (t.resetWith true) inv.reset
      (by simp only [List.length_nil]; omega) hl
    exact ⟨t2, by simp only [Tree.runWith, Tree.stepWith, h2], inv2⟩
  | .load k :: ops, L, t, inv, hb, hl => by
    simp only [List.length_cons] at hb
    obtain ⟨hk, hl'⟩ := hl
    obtain ⟨t1, h1, inv1⟩ := inv.load (by omega) k hk
    obtain ⟨t2, h2, inv2⟩ := run_treeInv H ops (L.take k) t1 inv1
      (by simp only [List.length_take]; omega) hl'
    exact ⟨t2, by simp only [Tree.runWith, Tree.stepWith, h1, h2], inv2⟩

/-- a tree satisfying the invariant is indistinguishable from a fresh tree over the same leaves -/
theorem freshLike_of_inv (H : HashFn) (hE : H [] = emptySum) {D : List Bytes} {t : Tree} (inv : TreeInv H D t)
    (hb : D.length < 2 ^ 63) : FreshLike H D t :=
  ⟨inv.root hE hb, inv.count, inv.prove_refuses, inv.prove hb⟩

/-- the in-memory wrapper (`in_memory::MerkleTree::prove` = `.ok()` of the tree's answer): `Some` of the
fresh tree's proof below the count, `None` at or beyond it -/
theorem inmem_prove_of_inv (H : HashFn) {D : List Bytes} {t : Tree} (inv : TreeInv H D t) (hb : D.length < 2 ^ 63)
    (i : Nat) : t.proveOpt H i = .ok (if i < D.length then some (mth H D, auditPath H i D) else none) := by
  unfold Tree.proveOpt
  by_cases hi : i < D.length
  · rw [inv.prove hb i hi, if_pos hi]
  · rw [inv.prove_refuses i (by omega), if_neg hi]

/-- **C11, in full**: after ANY history of pushes, resets and reloads at recorded counts (unbounded
length; `reset` as fixed), over ANY initial storage contents, the tree reports the root, the leaf
count and — for every index — the proof or the refusal of a fresh tree over the abstract leaves;
root = RFC 6962 tree hash, proofs = RFC 6962 audit paths. -/
theorem c11_holds : C11Statement := by
  intro H hE storage0 ops hlen hl
  obtain ⟨t, hrun, inv⟩ := run_treeInv H ops [] (Tree.new storage0) (TreeInv.new H storage0) (by simpa using hlen) hl
  have hn : (absRun [] ops).length < 2 ^ 63 := by
    have := absRun_length_le ops []
    simp only [List.length_nil] at this
    omega
  exact ⟨t, hrun, freshLike_of_inv H hE inv hn⟩

/-- the literal reading "same as a freshly built tree": a fresh tree is the history of pushes only -/
theorem fresh_tree_is_freshLike (H : HashFn) (hE : H [] = emptySum) (D : List Bytes) (hn : D.length < 2 ^ 63) :
    ∃ t, Tree.runWith true H (Tree.new []) (D.map Op.push) = .ok t ∧ FreshLike H D t := by
  have hl : ∀ (D L : List Bytes), LoadsRecorded L (D.map Op.push) := by
    intro D; induction D with
    | nil => intro L; trivial
    | cons d D ih => intro L; exact ih _
  have habs : ∀ (D L : List Bytes), absRun L (D.map Op.push) = L ++ D := by
    intro D; induction D with
    | nil => intro L; simp [absRun]
    | cons d D ih => intro L; simp [absRun, absStep, ih]
  obtain ⟨t, hrun, hf⟩ := c11_holds H hE [] (D.map Op.push) (by simpa using hn) (hl D [])
  rw [habs D []] at hf
  exact ⟨t, hrun, by simpa using hf⟩

/-! ### negative witnesses on the code without the fix (F4) -/

def f4History : List Op := [.push [1], .push [2], .push [3], .reset, .push [4]]

def countOf : Except Err Tree → Option Nat
  | .ok t => some t.leavesCount
  | .error _ => none

def proveShape (H : HashFn) (i : Nat) : Except Err Tree → String
  | .ok t => match t.prove H i with
    | .ok (_, p) => s!"ok {p.length}"
    | .error e => e.name
  | .error e => e.name

/-- WITHOUT the fix (`resetWith false`): after push×3, reset, push×1 the tree holds one leaf but
reports `leaves_count = 4` … -/
theorem reset_without_fix_breaks_count :
    absRun [] f4History = [[4]] ∧
    countOf (Tree.runWith false toyHash (Tree.new []) f4History) = some 4 := by
  decide

/-- … refuses the proof for the only valid index 0 (`LoadError`) and ACCEPTS index 3 ≥ 1 -/
theorem reset_without_fix_breaks_proofs :
    proveShape toyHash 0 (Tree.runWith false toyHash (Tree.new []) f4History) = "LoadError" ∧
    proveShape toyHash 3 (Tree.runWith false toyHash (Tree.new []) f4History) = "ok 2" := by
  decide

/-- … and after push, reset the next `prove(0)` hits the `expect` panic -/
theorem reset_without_fix_panics :
    proveShape toyHash 0 (Tree.runWith false toyHash (Tree.new []) [.push [1], .reset]) = "panic-root-node-must-be-present" := by
  decide

/-- WITH the fix the same histories behave like fresh trees -/
theorem reset_with_fix_witness :
    countOf (Tree.runWith true toyHash (Tree.new []) f4History) = some 1 ∧
    proveShape toyHash 0 (Tree.runWith true toyHash (Tree.new []) f4History) = "ok 0" ∧
    proveShape toyHash 3 (Tree.runWith true toyHash (Tree.new []) f4History) = "InvalidProofIndex" ∧
    proveShape toyHash 0 (Tree.runWith true toyHash (Tree.new []) [.push [1], .reset]) = "InvalidProofIndex" := by
  decide

/-! ### non-vacuity -/

def sampleHistory : List Op :=
  [.push [1], .push [2], .push [3], .load 2, .push [5], .reset, .push [6], .push [7], .push [8], .load 3, .load 1, .push [9]]

example : LoadsRecorded [] sampleHistory := by
  simp [sampleHistory, LoadsRecorded, absStep]

example : absRun [] sampleHistory = [[6], [9]] := by decide

example : ∃ t, Tree.runWith true toyHash (Tree.new []) sampleHistory = .ok t ∧ FreshLike toyHash [[6], [9]] t := by
  have := c11_holds toyHash rfl [] sampleHistory (by decide) (by simp [sampleHistory, LoadsRecorded, absStep])
  simpa [sampleHistory, absRun, absStep] using this

/-- kernel-evaluated: the model really computes the proof `[leaf hash of 6]` for index 1 after that history -/
example : proveShape toyHash 1 (Tree.runWith true toyHash (Tree.new []) sampleHistory) = "ok 1" ∧
    proveShape toyHash 2 (Tree.runWith true toyHash (Tree.new []) sampleHistory) = "InvalidProofIndex" := by
  decide

end FuelVerif.BMT
