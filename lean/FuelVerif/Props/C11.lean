/-
C11 — Binary Merkle trees behave like fresh trees across reset and reload.

  "After any history of pushes, resets and reloads from storage at a recorded leaf count, a binary
   Merkle tree reports the same root, leaf count and proofs as a freshly built tree holding exactly
   the leaves pushed since the last reset (or the leaves recorded up to the reload point). In
   particular, proofs are refused for indices at or beyond the current leaf count."

The abstract state of a history is `absRun`: the leaves pushed since the last reset, truncated to `k`
by `load k`. `MerkleTree::reset` is modelled as the source states it: `Tree.reset` follows
`Gen.BinaryMerkle.resetZeroesLeavesCount`, regenerated from merkle_tree.rs on every run. On the
code WITHOUT the one-line fix (repo-patches/fix-C11-reset-leaves-count.diff) the property is false:
`reset_without_fix_breaks_*` below are the kernel-checked negative witnesses (DESIGN §6 F4), replayed
on the real code by stream c11. `reset_fixed_in_source` (Props/C11Fix.lean) is the proof obligation that the fix is present.
-/
import FuelVerif.Lemmas.BinaryMerkle
namespace FuelVerif.BMT
open FuelVerif

/-- abstract effect of one operation on "the leaves the tree holds" -/
def absStep (L : List Bytes) : Op → List Bytes
  | .push d => L ++ [d]
  | .reset => []
  | .load k => L.take k

def absRun : List Bytes → List Op → List Bytes
  | L, [] => L
  | L, op :: ops => absRun (absStep L op) ops

def Op.isLoad : Op → Bool
  | .load _ => true
  | _ => false

/-- every `load k` of the history reloads at a count the storage has recorded (`k ≤` current count) -/
def LoadsRecorded : List Bytes → List Op → Prop
  | _, [] => True
  | L, .load k :: ops => k ≤ L.length ∧ LoadsRecorded (L.take k) ops
  | L, op :: ops => LoadsRecorded (absStep L op) ops

/-- what a freshly built tree over `leaves` reports: root, count, and for every index the proof or the refusal -/
structure FreshLike (H : HashFn) (leaves : List Bytes) (t : Tree) : Prop where
  root : t.root H = .ok (mth H leaves)
  count : t.leavesCount = leaves.length
  refuse : ∀ i, leaves.length ≤ i → t.prove H i = .error (.invalidProofIndex i)
  prove : ∀ i, i < leaves.length → t.prove H i = .ok (mth H leaves, auditPath H i leaves)

/-- **the property, in full**: after any history (loads at recorded counts) the tree is
indistinguishable from a fresh tree over the abstract leaves. -/
def C11Statement : Prop :=
  ∀ (H : HashFn), H [] = emptySum → ∀ (storage0 : Storage) (ops : List Op),
    ops.length < 2 ^ 63 → LoadsRecorded [] ops →
    ∃ t, Tree.runWith true H (Tree.new storage0) ops = .ok t ∧ FreshLike H (absRun [] ops) t

/-- invariant of histories without reload: stack = MMR peaks of the abstract leaves, count = their number -/
theorem run_inv (H : HashFn) : ∀ (ops : List Op) (L : List Bytes) (t : Tree),
    (∀ op ∈ ops, op.isLoad = false) →
    Stk (mth H) 1 0 L t.nodes → t.leavesCount = L.length → L.length + ops.length < 2 ^ 63 →
    ∃ t', Tree.runWith true H t ops = .ok t' ∧ Stk (mth H) 1 0 (absRun L ops) t'.nodes ∧
      t'.leavesCount = (absRun L ops).length
  | [], L, t, _, hst, hc, _ => ⟨t, rfl, hst, hc⟩
  | .push d :: ops, L, t, hno, hst, hc, hb => by
    simp only [List.length_cons] at hb
    obtain ⟨t1, h1, hst1, hc1⟩ := treePush_stk H d hst hc (by omega)
    obtain ⟨t2, h2, hst2, hc2⟩ := run_inv H ops (L ++ [d]) t1 (fun op hop => hno op (List.mem_cons_of_mem _ hop)) hst1 hc1
      (by simp only [List.length_append, List.length_singleton]; omega)
    exact ⟨t2, by simp only [Tree.runWith, Tree.stepWith, h1, h2], hst2, hc2⟩
  | .reset :: ops, L, t, hno, _, _, hb => by
    simp only [List.length_cons] at hb
    obtain ⟨t2, h2, hst2, hc2⟩ := run_inv H ops [] (t.resetWith true) (fun op hop => hno op (List.mem_cons_of_mem _ hop))
      (.nil 0) rfl (by simp only [List.length_nil]; omega)
    exact ⟨t2, by simp only [Tree.runWith, Tree.stepWith, h2], hst2, hc2⟩
  | .load k :: ops, _, _, hno, _, _, _ => by
    have := hno (.load k) (List.mem_cons_self)
    simp [Op.isLoad] at this

/-- **root, leaf count and refusal of out-of-range proofs after ANY history of pushes and resets**
(unbounded length; reset as fixed): the tree reports the root of a fresh tree over the leaves pushed
since the last reset, their number as leaf count, and refuses every proof index ≥ that number.
(Partial with respect to `C11Statement`: histories containing `load`, and equality of the proofs for
in-range indices, are in `…_partial`/bounded theorems below and in stream c11.) -/
theorem history_root_count_refusal_partial (H : HashFn) (hE : H [] = emptySum) (storage0 : Storage) (ops : List Op)
    (hlen : ops.length < 2 ^ 63) (hno : ∀ op ∈ ops, op.isLoad = false) :
    ∃ t, Tree.runWith true H (Tree.new storage0) ops = .ok t ∧
      t.root H = .ok (mth H (absRun [] ops)) ∧
      t.leavesCount = (absRun [] ops).length ∧
      ∀ i, (absRun [] ops).length ≤ i → t.prove H i = .error (.invalidProofIndex i) := by
  obtain ⟨t, hrun, hst, hc⟩ := run_inv H ops [] (Tree.new storage0) hno (.nil 0) rfl (by simpa using hlen)
  have hn : (absRun [] ops).length < 2 ^ 63 := by
    have : ∀ (ops : List Op) (L : List Bytes), (absRun L ops).length ≤ L.length + ops.length := by
      intro ops
      induction ops with
      | nil => intro L; simp [absRun]
      | cons op ops ih =>
        intro L
        have := ih (absStep L op)
        cases op <;> simp only [absRun, absStep, List.length_append, List.length_cons, List.length_nil, List.length_take] at * <;> omega
    have := this ops []
    simp only [List.length_nil] at this
    omega
  refine ⟨t, hrun, ?_, hc, ?_⟩
  · rw [treeRoot_stk (segOk_mth H) (Nat.le_refl 1) hst hn]
    by_cases h : absRun [] ops = []
    · rw [h, if_pos rfl, mth, hE]
    · rw [if_neg h]
  · intro i hi
    unfold Tree.prove
    rw [if_pos (by omega)]

/-! ### negative witnesses on the code without the fix (F4) -/

def f4History : List Op := [.push [1], .push [2], .push [3], .reset, .push [4]]

def countOf : Except Err Tree → Option Nat
  | .ok t => some t.leavesCount
  | .error _ => none

def proveShape (H : HashFn) (i : Nat) : Except Err Tree → String
  | .ok t => match t.prove H i with
    | .ok (_, p) => s!"ok {p.length}"
    | .error e => e.name
  | .error e => e.name

/-- WITHOUT the fix (`resetWith false`): after push×3, reset, push×1 the tree holds one leaf but
reports `leaves_count = 4` … -/
theorem reset_without_fix_breaks_count :
    absRun [] f4History = [[4]] ∧
    countOf (Tree.runWith false toyHash (Tree.new []) f4History) = some 4 := by
  decide

/-- … refuses the proof for the only valid index 0 (`LoadError`) and ACCEPTS index 3 ≥ 1 -/
theorem reset_without_fix_breaks_proofs :
    proveShape toyHash 0 (Tree.runWith false toyHash (Tree.new []) f4History) = "LoadError" ∧
    proveShape toyHash 3 (Tree.runWith false toyHash (Tree.new []) f4History) = "ok 2" := by
  decide

/-- … and after push, reset the next `prove(0)` hits the `expect` panic -/
theorem reset_without_fix_panics :
    proveShape toyHash 0 (Tree.runWith false toyHash (Tree.new []) [.push [1], .reset]) = "panic-root-node-must-be-present" := by
  decide

/-- WITH the fix the same histories behave like fresh trees -/
theorem reset_with_fix_witness :
    countOf (Tree.runWith true toyHash (Tree.new []) f4History) = some 1 ∧
    proveShape toyHash 0 (Tree.runWith true toyHash (Tree.new []) f4History) = "ok 0" ∧
    proveShape toyHash 3 (Tree.runWith true toyHash (Tree.new []) f4History) = "InvalidProofIndex" ∧
    proveShape toyHash 0 (Tree.runWith true toyHash (Tree.new []) [.push [1], .reset]) = "InvalidProofIndex" := by
  decide

/-! ### non-vacuity -/

example : ∃ t, Tree.runWith true toyHash (Tree.new []) f4History = .ok t ∧
    t.root toyHash = .ok (mth toyHash [[4]]) ∧ t.leavesCount = 1 ∧
    ∀ i, 1 ≤ i → t.prove toyHash i = .error (.invalidProofIndex i) := by
  have := history_root_count_refusal_partial toyHash rfl [] f4History (by decide) (by decide)
  simpa [absRun, absStep, f4History] using this

end FuelVerif.BMT
