/-
C08 — Instruction encoding is a bijection on valid 32-bit words.

  "For every 32-bit word, decoding succeeds exactly when the top byte is a defined opcode and every
   bit not used by that opcode's arguments is zero, and re-encoding a decoded instruction gives back
   the same word. For every opcode and every in-range argument tuple, the constructed instruction
   decodes to that opcode and those arguments, and the interpreter's per-opcode argument parser
   agrees with the general decoder."

The table `Gen.instrTable`, the shifts/masks and the reserved-part rules are regenerated from the
Rust sources on every run; the theorems below are re-checked against them.
-/
import FuelVerif.Lemmas.Instr
namespace FuelVerif.Instr
open FuelVerif.Gen FuelVerif.Bits

/-- obligation on the generated table: opcodes are distinct bytes, every shape is one of the nine
the macro supports (complete finite check, kernel-evaluated) -/
theorem table_wf : tableWf instrTable = true := by decide +kernel

theorem table_shapes {row : InstrRow} (h : row ∈ instrTable) :
    row.opcode < 256 ∧ row.args ∈ supportedShapes := by
  have := table_wf
  simp only [tableWf, Bool.and_eq_true, List.all_eq_true, decide_eq_true_eq] at this
  have h2 := this.1 row h
  simp only [List.contains_iff_mem] at h2
  exact h2

theorem table_nodup : (instrTable.map (·.opcode)).Nodup := by
  have := table_wf
  simp only [tableWf, Bool.and_eq_true, decide_eq_true_eq] at this
  exact this.2

/-- **decoding succeeds exactly when** the top byte is a defined opcode and the unused bits are zero -/
theorem decode_isSome_iff (w : Nat) (_hw : w < 2 ^ 32) :
    (decode w).isSome ↔ ∃ row ∈ instrTable, row.opcode = w / 2 ^ 24 ∧ specReservedZero row.args w := by
  have hu : w % 2 ^ 24 < 2 ^ 24 := Nat.mod_lt _ (by decide)
  unfold decode lookup specReservedZero
  simp only [Nat.shiftRight_eq_div_pow]
  cases hf : instrTable.find? (fun r => r.opcode == w / 2 ^ 24) with
  | none =>
    simp only [Option.isSome_none, Bool.false_eq_true, false_iff, not_exists, not_and]
    intro row hm heq
    exact absurd heq (find_opcode_none hf row hm)
  | some row =>
    obtain ⟨hm, hop⟩ := find_opcode_some hf
    obtain ⟨b, hb, hbz⟩ := reservedOk_spec row.args (table_shapes hm).2 _ hu
    simp only [hb]
    constructor
    · intro h
      cases b with
      | true => exact ⟨row, hm, hop, hbz.mp rfl⟩
      | false => simp at h
    · rintro ⟨row', hm', hop', hz⟩
      have : row' = row := by
        have h1 := find_opcode_of_nodup table_nodup hm'
        rw [hop'] at h1
        rw [hf] at h1
        exact (Option.some.inj h1).symm
      subst this
      rw [hbz.mpr hz]; rfl

/-- decoded arguments are in range and the decoded instruction **re-encodes to the same word** -/
theorem encode_decode (w : Nat) (_hw : w < 2 ^ 32) (i : Instr) (h : decode w = some i) :
    encode i = some w ∧ ∃ row ∈ instrTable, row.opcode = i.op ∧ ArgsInRange row.args i.args := by
  have hu : w % 2 ^ 24 < 2 ^ 24 := Nat.mod_lt _ (by decide)
  unfold decode lookup at h
  simp only [Nat.shiftRight_eq_div_pow] at h
  cases hf : instrTable.find? (fun r => r.opcode == w / 2 ^ 24) with
  | none => simp [hf] at h
  | some row =>
    obtain ⟨hm, hop⟩ := find_opcode_some hf
    obtain ⟨b, hb, hbz⟩ := reservedOk_spec row.args (table_shapes hm).2 _ hu
    simp only [hf, hb] at h
    cases b with
    | false => simp at h
    | true =>
      simp only [Option.some.injEq] at h
      subst h
      have hz := hbz.mp rfl
      obtain ⟨hr, hsum⟩ := unpack_spec row.args (table_shapes hm).2 _ hu
      obtain ⟨hp, hlt, -, -⟩ := pack_spec row.args (table_shapes hm).2 _ hr
      refine ⟨?_, row, hm, rfl, hr⟩
      unfold encode lookup
      simp only [find_opcode_of_nodup table_nodup hm, encodeRow, hp, Nat.shiftLeft_eq]
      rw [hz, Nat.add_zero] at hsum
      rw [mul_or _ _ 24 hlt, hsum, hop]
      congr 1
      omega

theorem decode_of_parts (w : Nat) (row : InstrRow) (hm : row ∈ instrTable) (hop : w / 2 ^ 24 = row.opcode)
    (hz : reservedOk (w % 2 ^ 24) row.args = some true) :
    decode w = some ⟨row.opcode, unpackArgs (w % 2 ^ 24) row.args⟩ := by
  unfold decode lookup
  simp only [Nat.shiftRight_eq_div_pow, hop, find_opcode_of_nodup table_nodup hm, hz]

/-- **every opcode × every in-range argument tuple**: the constructed word is the specified one
(opcode byte, then the arguments MSB-first), and it decodes to that opcode and those arguments -/
theorem decode_encode (row : InstrRow) (hm : row ∈ instrTable) (args : List Nat)
    (hr : ArgsInRange row.args args) :
    encodeRow row args = specWord row args ∧ encodeRow row args < 2 ^ 32 ∧
    decode (encodeRow row args) = some ⟨row.opcode, args⟩ := by
  obtain ⟨hop, hs⟩ := table_shapes hm
  obtain ⟨hp, hlt, hz, hun⟩ := pack_spec row.args hs args hr
  have henc : encodeRow row args = row.opcode * 2 ^ 24 + specPack 0 row.args args := by
    simp only [encodeRow, hp, Nat.shiftLeft_eq]
    exact mul_or _ _ 24 hlt
  have hspec : specWord row args = row.opcode * 2 ^ 24 + specPack 0 row.args args := rfl
  rw [hspec]
  generalize hW : encodeRow row args = W at henc ⊢
  generalize hP : specPack 0 row.args args = P at *
  have hdiv : W / 2 ^ 24 = row.opcode := by omega
  have hmod : W % 2 ^ 24 = P := by omega
  refine ⟨henc, by omega, ?_⟩
  obtain ⟨b, hb, hbz⟩ := reservedOk_spec row.args hs P hlt
  have hb' : reservedOk (W % 2 ^ 24) row.args = some true := by rw [hmod, hb, hbz.mpr hz]
  rw [decode_of_parts W row hm hdiv hb', hmod, hun]

/-- the interpreter's per-opcode parser (`Opcode::try_from(raw[0])` then `op::X::from_raw_args(raw[1..])`)
agrees with the general decoder on every word. In the model both are the same function of the
generated table (the Rust macro generates both from the same rows); that the two Rust code paths
really are that function is what the correspondence stream `c08` checks. -/
theorem from_raw_args_agrees (w : Nat) : fromRawArgs (w >>> 24) (w % 2 ^ 24) = decode w := rfl

/-- encoding is injective on valid instructions (the "bijection" reading of the title) -/
theorem encodeRow_injective (r₁ r₂ : InstrRow) (h₁ : r₁ ∈ instrTable) (h₂ : r₂ ∈ instrTable)
    (a₁ a₂ : List Nat) (hr₁ : ArgsInRange r₁.args a₁) (hr₂ : ArgsInRange r₂.args a₂)
    (h : encodeRow r₁ a₁ = encodeRow r₂ a₂) : r₁.opcode = r₂.opcode ∧ a₁ = a₂ := by
  have d₁ := (decode_encode r₁ h₁ a₁ hr₁).2.2
  have d₂ := (decode_encode r₂ h₂ a₂ hr₂).2.2
  rw [h, d₂] at d₁
  simp only [Option.some.injEq, Instr.mk.injEq] at d₁
  exact ⟨d₁.1.symm, d₁.2.symm⟩

/-! non-vacuity: concrete instances of the hypotheses -/
example : (⟨0x10, "ADD", [.reg, .reg, .reg]⟩ : InstrRow) ∈ instrTable := by decide
example : ArgsInRange [.reg, .reg, .reg] [16, 17, 63] := by simp [ArgsInRange, argBits]
example : decode 0x10411FC0 = some ⟨0x10, [16, 17, 63]⟩ := by decide
example : decode 0x10411FC1 = none := by decide          -- reserved low bit set
example : decode 0x0F000000 = none := by decide          -- undefined opcode
example : decode 0x47000000 = some ⟨0x47, []⟩ := by decide -- NOOP

end FuelVerif.Instr
