/-
C19 — Transaction checking accepts exactly the specification-valid transactions.

  "A transaction passes the basic checks exactly when it satisfies the specification's validity rules (size,
   policy, maturity/expiration, gas limit, input/output/witness counts, owner index, spendable input, duplicate
   UTXO/contract/nonce, per-input and per-output rules, change/coin asset presence, kind-specific rules), and
   the free balances it records equal, per asset, the sum of spendable input amounts minus coin outputs, minus
   the fee limit for the base asset. A transaction whose coin outputs or fee limit exceed its inputs is always
   rejected."

The theorems are about `FuelVerif.Validity.check` (Model/Validity.lean: `IntoChecked::into_checked_basic` =
precompute; check_common_part; check_unique_rules; initial_free_balances, transcribed in source order) for ALL
validity summaries, consensus parameters and block heights.
-/
import FuelVerif.Lemmas.ValidityCheck
import FuelVerif.Gen.ConsensusDefaults
namespace FuelVerif.Validity
open FuelVerif.Fee

/-! ## the recorded free balances -/

/-- **balances formula**: if the checks pass, then for EVERY asset `a`
`recorded(a) + Σ coin outputs(a) + (fee limit if a is the base asset) = Σ spendable inputs(a)` over the naturals
(no truncation: this is the statement's `inputs − outputs − fee` over the integers, with a non-negative result);
an asset has a recorded entry iff it is the base asset or the asset of a coin / message-coin input; the retryable
balance is the sum of the message-data inputs; and every sum involved fits `u64` -/
theorem check_balances {p : Params} {h : Nat} {tx : Tx} {c : Checked} (hc : check p h tx = .ok c) :
    (∀ a, (mget c.balances.nonRetryable a).getD 0 + coinOut tx.outputs a + feeOf p tx a = sumIn p.baseAsset tx.inputs a) ∧
    (∀ a, mget c.balances.nonRetryable a ≠ none ↔ HasEntry p tx a) ∧
    c.balances.retryable = sumRetry tx.inputs ∧
    (∀ a, sumIn p.baseAsset tx.inputs a ≤ u64Max) ∧ sumRetry tx.inputs ≤ u64Max := by
  have hb := ((check_ok_iff_stages p h tx c).mp hc).2.2.2.1
  obtain ⟨h1, h2, h3, h4, h5, _⟩ := initialFreeBalances_ok hb
  exact ⟨h1, h3, h2, h4, h5⟩

/-- the same as an integer equation, in the words of the statement -/
theorem check_balances_int {p : Params} {h : Nat} {tx : Tx} {c : Checked} (hc : check p h tx = .ok c) (a : Nat) :
    (((mget c.balances.nonRetryable a).getD 0 : Nat) : Int) =
      (sumIn p.baseAsset tx.inputs a : Int) - (coinOut tx.outputs a : Int) - (feeOf p tx a : Int) := by
  have := (check_balances hc).1 a
  omega

/-- **overspending is always rejected**: if for some asset the coin outputs plus the fee limit (base asset)
exceed the spendable inputs, `check` returns an error -/
theorem overspend_rejected {p : Params} {h : Nat} {tx : Tx}
    (hover : ∃ a, coinOut tx.outputs a + feeOf p tx a > sumIn p.baseAsset tx.inputs a) :
    ∃ e, check p h tx = .error e := by
  cases hc : check p h tx with
  | error e => exact ⟨e, rfl⟩
  | ok c =>
    obtain ⟨a, ha⟩ := hover
    have := (check_balances hc).1 a
    omega

/-- in particular a fee limit above the base-asset inputs, or a single coin output above its asset's inputs -/
theorem fee_limit_above_inputs_rejected {p : Params} {h : Nat} {tx : Tx} {fee : Nat}
    (hfee : tx.policies.maxFee = some fee) (hover : fee > sumIn p.baseAsset tx.inputs p.baseAsset) :
    ∃ e, check p h tx = .error e := by
  apply overspend_rejected
  refine ⟨p.baseAsset, ?_⟩
  unfold feeOf
  simp only [if_true, hfee, Option.getD_some]
  omega

/-! ## non-vacuity -/

/-- `ConsensusParameters::standard()` as the translator reads it from the Rust sources (base asset 0, a privileged
address 77); the examples below are therefore re-checked against the repository's own default limits and gas costs -/
def exParams : Params :=
  { maxInputs := Gen.defaultMaxInputs, maxOutputs := Gen.defaultMaxOutputs, maxWitnesses := Gen.defaultMaxWitnesses,
    maxGasPerTx := Gen.defaultMaxGasPerTx, maxSize := Gen.defaultMaxSize,
    maxBytecodeSubsections := Gen.defaultMaxBytecodeSubsections, maxPredicateLength := Gen.defaultMaxPredicateLength,
    maxPredicateDataLength := Gen.defaultMaxPredicateDataLength, maxMessageDataLength := Gen.defaultMaxMessageDataLength,
    maxScriptLength := Gen.defaultMaxScriptLength, maxScriptDataLength := Gen.defaultMaxScriptDataLength,
    contractMaxSize := Gen.defaultContractMaxSize, maxStorageSlots := Gen.defaultMaxStorageSlots,
    fee := Gen.defaultFeeParams, gas := Gen.defaultGasCosts, baseAsset := 0, privileged := 77 }

/-- a script spending two assets, with a contract, a message-data input, change and coin outputs -/
def exTx : Tx :=
  { body := .script 10000 24 8, size := 1200,
    policies := { tip := some 1, witnessLimit := some 1000, maturity := some 5, maxFee := some 300, expiration := none, owner := some 0 },
    inputs := [.coinSigned 11 77 1000 0 0, .coinPredicate 12 5 500 9 40 8 1000, .contract 13 400,
               .messageCoinSigned 21 6 50 0, .messageDataSigned 22 6 70 0 16],
    outputs := [.coin 0 200, .contract 2, .change 0, .coin 9 500, .change 9, .variable],
    witnesses := [64] }

/-- the standard parameters accept the example and record these balances and gas bounds (an obligation on the
generated default tables: it is re-proved whenever a default limit or gas cost changes in the Rust sources) -/
theorem standard_params_accept_example : check exParams 10 exTx =
    .ok { balances := { nonRetryable := [(0, 550), (9, 0)], retryable := 70 }, minGas := 10873, maxGas := 24585 } := by
  decide +kernel
-- overspending by one: the coin output of asset 9 is 501 with 500 available
example : check exParams 10 { exTx with outputs := [.coin 0 200, .contract 2, .change 0, .coin 9 501] } =
    .error (.validity .InsufficientInputAmount) := by decide +kernel
example : check exParams 10 { exTx with policies := { exTx.policies with maxFee := some 1051 } } =
    .error (.validity .InsufficientFeeAmount) := by decide +kernel
example : check exParams 4 exTx = .error (.validity .TransactionMaturity) := by decide +kernel

end FuelVerif.Validity
