/-
C19 — Transaction checking accepts exactly the specification-valid transactions.

  "A transaction passes the basic checks exactly when it satisfies the specification's validity rules (size,
   policy, maturity/expiration, gas limit, input/output/witness counts, owner index, spendable input, duplicate
   UTXO/contract/nonce, per-input and per-output rules, change/coin asset presence, kind-specific rules), and
   the free balances it records equal, per asset, the sum of spendable input amounts minus coin outputs, minus
   the fee limit for the base asset. A transaction whose coin outputs or fee limit exceed its inputs is always
   rejected."

The theorems are about `FuelVerif.Validity.check` (Model/Validity.lean: `IntoChecked::into_checked_basic` =
precompute; check_common_part; check_unique_rules; initial_free_balances, transcribed in source order) for ALL
validity summaries, consensus parameters and block heights.
-/
import FuelVerif.Lemmas.ValidityRules
import FuelVerif.Gen.ConsensusDefaults
namespace FuelVerif.Validity
open FuelVerif.Fee

/-! ## the recorded free balances -/

/-- **balances formula**: if the checks pass, then for EVERY asset `a`
`recorded(a) + Σ coin outputs(a) + (fee limit if a is the base asset) = Σ spendable inputs(a)` over the naturals
(no truncation: this is the statement's `inputs − outputs − fee` over the integers, with a non-negative result);
an asset has a recorded entry iff it is the base asset or the asset of a coin / message-coin input; the retryable
balance is the sum of the message-data inputs; and every sum involved fits `u64` -/
theorem check_balances {p : Params} {h : Nat} {tx : Tx} {c : Checked} (hc : check p h tx = .ok c) :
    (∀ a, (mget c.balances.nonRetryable a).getD 0 + coinOut tx.outputs a + feeOf p tx a = sumIn p.baseAsset tx.inputs a) ∧
    (∀ a, mget c.balances.nonRetryable a ≠ none ↔ HasEntry p tx a) ∧
    c.balances.retryable = sumRetry tx.inputs ∧
    (∀ a, sumIn p.baseAsset tx.inputs a ≤ u64Max) ∧ sumRetry tx.inputs ≤ u64Max := by
  have hb := ((check_ok_iff_stages p h tx c).mp hc).2.2.2.1
  obtain ⟨h1, h2, h3, h4, h5, _⟩ := initialFreeBalances_ok hb
  exact ⟨h1, h3, h2, h4, h5⟩

/-- the same as an integer equation, in the words of the statement -/
theorem check_balances_int {p : Params} {h : Nat} {tx : Tx} {c : Checked} (hc : check p h tx = .ok c) (a : Nat) :
    (((mget c.balances.nonRetryable a).getD 0 : Nat) : Int) =
      (sumIn p.baseAsset tx.inputs a : Int) - (coinOut tx.outputs a : Int) - (feeOf p tx a : Int) := by
  have := (check_balances hc).1 a
  omega

/-- **overspending is always rejected**: if for some asset the coin outputs plus the fee limit (base asset)
exceed the spendable inputs, `check` returns an error -/
theorem overspend_rejected {p : Params} {h : Nat} {tx : Tx}
    (hover : ∃ a, coinOut tx.outputs a + feeOf p tx a > sumIn p.baseAsset tx.inputs a) :
    ∃ e, check p h tx = .error e := by
  cases hc : check p h tx with
  | error e => exact ⟨e, rfl⟩
  | ok c =>
    obtain ⟨a, ha⟩ := hover
    have := (check_balances hc).1 a
    omega

/-- in particular a fee limit above the base-asset inputs, or a single coin output above its asset's inputs -/
theorem fee_limit_above_inputs_rejected {p : Params} {h : Nat} {tx : Tx} {fee : Nat}
    (hfee : tx.policies.maxFee = some fee) (hover : fee > sumIn p.baseAsset tx.inputs p.baseAsset) :
    ∃ e, check p h tx = .error e := by
  apply overspend_rejected
  refine ⟨p.baseAsset, ?_⟩
  unfold feeOf
  simp only [if_true, hfee, Option.getD_some]
  omega

/-! ## accepted exactly when valid -/

/-- **the specification's validity rules**, declaratively and order-free (each field is one rule of the statement):
size; policies (maturity / expiration / owner fit u32; witness limit; fee limit set; maturity ≤ height ≤ expiration);
gas limit (`max_gas ≤ max_gas_per_tx`); input / output / witness counts; owner index; a spendable input; at most one
change output per input asset; no duplicate UTXO id (coins) / contract id / nonce; the per-input rules (`InputOk`),
the per-output rules incl. change / coin asset presence (`OutputOk`); the kind-specific rules (`MetadataOk`, `KindOk`);
and the balance rules: no per-asset sum of inputs overflows `u64`, and per asset the coin outputs plus the fee limit
(base asset) are covered by the spendable inputs -/
structure Valid (p : Params) (h : Nat) (tx : Tx) : Prop where
  metadata : MetadataOk tx
  size : tx.size ≤ p.maxSize
  policyBounds : PolicyBounds tx.policies
  witnessLimit : ∀ l, tx.policies.witnessLimit = some l → witnessesDyn tx.witnesses ≤ l
  maxGas : maxGasT p.gas p.fee (feeView tx) ≤ p.maxGasPerTx
  feeLimitSet : tx.policies.maxFee.isSome = true
  maturity : ∀ m, tx.policies.maturity = some m → m ≤ h
  expiration : ∀ e, tx.policies.expiration = some e → h ≤ e
  inputsMax : tx.inputs.length ≤ p.maxInputs
  outputsMax : tx.outputs.length ≤ p.maxOutputs
  witnessesMax : tx.witnesses.length ≤ p.maxWitnesses
  owner : ∀ o, tx.policies.owner = some o → ∃ i, tx.inputs[o]? = some i ∧ i.owner?.isSome = true
  spendable : ∃ i ∈ tx.inputs, i.isSpendable = true
  changeUnique : ∀ a ∈ inputAssetIds p.baseAsset tx.inputs, changeCount tx.outputs a ≤ 1
  utxoUnique : (tx.inputs.filterMap Input.coinUtxo?).Nodup
  contractUnique : (tx.inputs.filterMap Input.contractId?).Nodup
  nonceUnique : (tx.inputs.filterMap Input.nonce?).Nodup
  inputs : ∀ (idx : Nat) (i : Input), tx.inputs[idx]? = some i → InputOk p tx idx i
  outputs : ∀ (idx : Nat) (o : Output), tx.outputs[idx]? = some o → OutputOk p tx o
  kind : KindOk p tx
  noOverflow : ∀ a, sumIn p.baseAsset tx.inputs a ≤ u64Max
  retryNoOverflow : sumRetry tx.inputs ≤ u64Max
  covered : ∀ a, coinOut tx.outputs a + feeOf p tx a ≤ sumIn p.baseAsset tx.inputs a

theorem valid_iff_stages {p : Params} {h : Nat} (hh : h ≤ u32Max) (tx : Tx) :
    Valid p h tx ↔ (MetadataOk tx ∧ CommonOk p h tx ∧ KindOk p tx ∧
      (∀ a, sumIn p.baseAsset tx.inputs a ≤ u64Max) ∧ sumRetry tx.inputs ≤ u64Max ∧
      (∀ a, coinOut tx.outputs a + feeOf p tx a ≤ sumIn p.baseAsset tx.inputs a)) := by
  constructor
  · intro v
    refine ⟨v.metadata, ?_, v.kind, v.noOverflow, v.retryNoOverflow, v.covered⟩
    refine ⟨v.size, (isValid_iff _).mpr v.policyBounds, v.witnessLimit, v.maxGas, v.feeLimitSet,
      (maturityHeight_le_iff v.policyBounds h).mpr v.maturity, (le_expirationHeight_iff v.policyBounds hh).mpr v.expiration,
      v.inputsMax, v.outputsMax, v.witnessesMax, ?_, v.spendable, v.changeUnique, v.utxoUnique, v.contractUnique,
      v.nonceUnique, v.inputs, v.outputs⟩
    intro o ho
    exact ⟨v.policyBounds.2.2 o ho, v.owner o ho⟩
  · rintro ⟨hm, ⟨c1, c2, c3, c4, c5, c6, c7, c8, c9, c10, c11, c12, c13, c14, c15, c16, c17, c18⟩, hk, b1, b2, b3⟩
    have pb := (isValid_iff _).mp c2
    exact { metadata := hm, size := c1, policyBounds := pb, witnessLimit := c3, maxGas := c4, feeLimitSet := c5,
            maturity := (maturityHeight_le_iff pb h).mp c6, expiration := (le_expirationHeight_iff pb hh).mp c7,
            inputsMax := c8, outputsMax := c9, witnessesMax := c10, owner := fun o ho => (c11 o ho).2,
            spendable := c12, changeUnique := c13, utxoUnique := c14, contractUnique := c15, nonceUnique := c16,
            inputs := c17, outputs := c18, kind := hk, noOverflow := b1, retryNoOverflow := b2, covered := b3 }

/-- **accepted exactly when valid**: for every summary, every consensus parameters whose gas costs are well formed
(the fee code does not panic), and every block height (a `u32`), `into_checked_basic` succeeds iff `Valid` -/
theorem check_ok_iff {p : Params} (hg : p.gas.Ok) {h : Nat} (hh : h ≤ u32Max) (tx : Tx) :
    (∃ c, check p h tx = .ok c) ↔ Valid p h tx := by
  rw [valid_iff_stages hh]
  constructor
  · rintro ⟨c, hc⟩
    obtain ⟨s1, s2, s3, s4, _, _⟩ := (check_ok_iff_stages p h tx c).mp hc
    obtain ⟨b1, b2, b3, b4, b5⟩ := (initialFreeBalances_isOk_iff p tx).mp ⟨_, s4⟩
    exact ⟨(precompute_ok_iff tx ()).mp s1, (checkCommonPart_ok_iff hg h tx ()).mp s2,
      (checkUniqueRules_ok_iff p tx ()).mp s3, b1, b2, b4⟩
  · rintro ⟨hm, hc, hk, b1, b2, b3⟩
    have hfee : tx.policies.maxFee.isSome = true := hc.2.2.2.2.1
    have hout := hc.2.2.2.2.2.2.2.2.2.2.2.2.2.2.2.2.2
    have hentry : ∀ o ∈ tx.outputs, ∀ a, o.coinAsset? = some a → HasEntry p tx a := by
      intro o ho a ha
      obtain ⟨idx, hidx⟩ := List.mem_iff_getElem?.mp ho
      have := hout idx o hidx
      cases o <;> simp only [Output.coinAsset?, Option.some.injEq, reduceCtorEq] at ha
      subst ha
      exact hasEntry_of_mem_inputAssetIds this
    obtain ⟨b, hb⟩ := (initialFreeBalances_isOk_iff p tx).mpr ⟨b1, b2, hfee, b3, hentry⟩
    refine ⟨⟨b, minGasT p.gas p.fee (feeView tx), maxGasT p.gas p.fee (feeView tx)⟩, ?_⟩
    exact (check_ok_iff_stages p h tx _).mpr
      ⟨(precompute_ok_iff tx ()).mpr hm, (checkCommonPart_ok_iff hg h tx ()).mpr hc,
       (checkUniqueRules_ok_iff p tx ()).mpr hk, hb, minGas_ok hg _ _, maxGas_ok hg _ _⟩

/-- consequently: a transaction violating any single rule is rejected, and which stage rejects is decided by the
first failing stage in source order (`check_ok_iff_stages`); without the gas-cost guard the only other outcome is
the panic of `max_gas` (C18) -/
theorem not_valid_rejected {p : Params} (hg : p.gas.Ok) {h : Nat} (hh : h ≤ u32Max) (tx : Tx) (hv : ¬ Valid p h tx) :
    ∃ e, check p h tx = .error e := by
  cases hc : check p h tx with
  | error e => exact ⟨e, rfl⟩
  | ok c => exact absurd ((check_ok_iff hg hh tx).mp ⟨c, hc⟩) hv

/-- Mint: accepted iff size, block height, output index and asset rules hold -/
theorem checkMint_ok_iff (p : Params) (h : Nat) (tx : MintTx) :
    checkMint p h tx = .ok () ↔
      (tx.size ≤ p.maxSize ∧ tx.txPointerHeight = h ∧ tx.outputInputIndex = 0 ∧ tx.mintAsset = p.baseAsset) := by
  unfold checkMint
  simp only [bind_ok_iff, rejectIf_ok_iff, exists_const, decide_eq_false_iff_not, Nat.not_lt, gt_iff_lt, ne_eq,
    Decidable.not_not]

/-! ## non-vacuity -/

/-- `ConsensusParameters::standard()` as the translator reads it from the Rust sources (base asset 0, a privileged
address 77); the examples below are therefore re-checked against the repository's own default limits and gas costs -/
def exParams : Params :=
  { maxInputs := Gen.defaultMaxInputs, maxOutputs := Gen.defaultMaxOutputs, maxWitnesses := Gen.defaultMaxWitnesses,
    maxGasPerTx := Gen.defaultMaxGasPerTx, maxSize := Gen.defaultMaxSize,
    maxBytecodeSubsections := Gen.defaultMaxBytecodeSubsections, maxPredicateLength := Gen.defaultMaxPredicateLength,
    maxPredicateDataLength := Gen.defaultMaxPredicateDataLength, maxMessageDataLength := Gen.defaultMaxMessageDataLength,
    maxScriptLength := Gen.defaultMaxScriptLength, maxScriptDataLength := Gen.defaultMaxScriptDataLength,
    contractMaxSize := Gen.defaultContractMaxSize, maxStorageSlots := Gen.defaultMaxStorageSlots,
    fee := Gen.defaultFeeParams, gas := Gen.defaultGasCosts, baseAsset := 0, privileged := 77 }

/-- a script spending two assets, with a contract, a message-data input, change and coin outputs -/
def exTx : Tx :=
  { body := .script 10000 24 8, size := 1200,
    policies := { tip := some 1, witnessLimit := some 1000, maturity := some 5, maxFee := some 300, expiration := none, owner := some 0 },
    inputs := [.coinSigned 11 77 1000 0 0, .coinPredicate 12 5 500 9 40 8 1000, .contract 13 400,
               .messageCoinSigned 21 6 50 0, .messageDataSigned 22 6 70 0 16],
    outputs := [.coin 0 200, .contract 2, .change 0, .coin 9 500, .change 9, .variable],
    witnesses := [64] }

/-- the standard parameters accept the example and record these balances and gas bounds (an obligation on the
generated default tables: it is re-proved whenever a default limit or gas cost changes in the Rust sources) -/
theorem standard_params_accept_example : check exParams 10 exTx =
    .ok { balances := { nonRetryable := [(0, 550), (9, 0)], retryable := 70 }, minGas := 10873, maxGas := 24585 } := by
  decide +kernel
/-- the example satisfies `Valid` (through the equivalence) — the hypotheses of `check_ok_iff` are satisfiable by a
non-trivial transaction, and `exParams.gas.Ok` holds for the repository's default gas costs -/
example : Valid exParams 10 exTx :=
  (check_ok_iff (p := exParams) (by decide) (by decide) exTx).mp ⟨_, standard_params_accept_example⟩
-- overspending by one: the coin output of asset 9 is 501 with 500 available
example : check exParams 10 { exTx with outputs := [.coin 0 200, .contract 2, .change 0, .coin 9 501] } =
    .error (.validity .InsufficientInputAmount) := by decide +kernel
example : check exParams 10 { exTx with policies := { exTx.policies with maxFee := some 1051 } } =
    .error (.validity .InsufficientFeeAmount) := by decide +kernel
example : check exParams 4 exTx = .error (.validity .TransactionMaturity) := by decide +kernel

end FuelVerif.Validity
