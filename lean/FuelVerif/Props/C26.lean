/-
C26 — Gas is charged monotonically and never exceeds the limit.

  "Throughout execution the context gas never exceeds the global gas, the global gas never increases,
   and each instruction consumes exactly the gas the gas schedule prescribes for its arguments
   (panicking with out-of-gas, and leaving the context gas at zero, exactly when that cost exceeds the
   available context gas). The gas reported in the script result equals the script gas limit minus the
   remaining global gas, forwarded call gas is bounded by the caller's context gas and returned unspent
   gas is credited back on return."

Model: `Model/Gas.lean` (gas.rs `gas_charge`, flow.rs call forwarding / return credit, run_program
`gas_used`, DependentCost::resolve). The schedule tables `Gen.defaultFixed/defaultDep` and the per-opcode
charge sites `Gen.opcodeCharge` are regenerated from the Rust sources on every run.
All theorems quantify over every state / every list of gas operations / every schedule.
-/
import FuelVerif.Lemmas.Gas
import FuelVerif.Gen.Instructions
namespace FuelVerif.Gas
open FuelVerif.Gen

/-! ### one charge: exact amount, or OutOfGas with `$cgas = 0`, exactly when the cost exceeds `$cgas` -/

/-- `gas_charge` on a state satisfying the invariant: if the cost fits, both registers decrease by exactly
the cost; otherwise OutOfGas, `$cgas = 0` and `$ggas` decreases by the former `$cgas`; never another error. -/
theorem charge_spec (s : GasState) (g : Nat) (h : Inv s) :
    (g ≤ s.cgas → gasCharge s g = ({ s with cgas := s.cgas - g, ggas := s.ggas - g }, none)) ∧
    (g > s.cgas → gasCharge s g = ({ s with cgas := 0, ggas := s.ggas - s.cgas }, some .outOfGas)) := by
  unfold Inv at h
  constructor
  · intro hg
    unfold gasCharge
    rw [if_neg (by omega), if_neg (by omega)]
  · intro hg
    unfold gasCharge
    rw [if_pos hg]

/-- out-of-gas **exactly when** the cost exceeds the available context gas -/
theorem charge_oog_iff (s : GasState) (g : Nat) (h : Inv s) :
    (gasCharge s g).2 = some .outOfGas ↔ g > s.cgas := by
  obtain ⟨h1, h2⟩ := charge_spec s g h
  constructor
  · intro he
    by_cases hg : g > s.cgas
    · exact hg
    · rw [h1 (by omega)] at he; simp at he
  · intro hg; rw [h2 hg]

example : Inv ⟨70, 100, [20, 10]⟩ ∧ gasCharge ⟨70, 100, [20, 10]⟩ 30 = (⟨40, 70, [20, 10]⟩, none)
    ∧ gasCharge ⟨70, 100, [20, 10]⟩ 71 = (⟨0, 30, [20, 10]⟩, some .outOfGas) := by decide

/-- a whole instruction (its charges in order): consumes exactly the prescribed total, or runs out of
gas — exactly when the total exceeds `$cgas` — leaving `$cgas = 0` and `$ggas` reduced by the former `$cgas`. -/
theorem instr_charges_exact (s : GasState) (charges : List Nat) (h : Inv s) :
    (charges.sum ≤ s.cgas →
        chargeAll s charges = ({ s with cgas := s.cgas - charges.sum, ggas := s.ggas - charges.sum }, none)) ∧
    (charges.sum > s.cgas →
        (chargeAll s charges).2 = some .outOfGas ∧ (chargeAll s charges).1.cgas = 0 ∧
        (chargeAll s charges).1.ggas = s.ggas - s.cgas) :=
  ⟨chargeAll_ok charges h, chargeAll_oog charges h⟩

example : chargeAll ⟨200, 300, []⟩ [144, 3, 40] = (⟨13, 113, []⟩, none)
    ∧ chargeAll ⟨150, 300, []⟩ [144, 3, 40] = (⟨0, 150, []⟩, some .outOfGas) := by decide

/-! ### the invariant over unbounded histories -/

/-- `$cgas + Σ saved ≤ $ggas` holds in every state of every execution (any list of charges, call
forwardings — completed or aborted — and returns), starting from any state that satisfies it. -/
theorem inv_trace (s : GasState) (ops : List GasOp) (h : Inv s) : ∀ t ∈ trace s ops, Inv t := by
  induction ops generalizing s with
  | nil => intro t ht; simp [trace] at ht; subst ht; exact h
  | cons op ops ih =>
    intro t ht
    unfold trace at ht
    have hi := applyOp_inv op h
    split at ht
    · rename_i s' heq
      rw [heq] at hi
      simp only [List.mem_cons] at ht
      rcases ht with rfl | ht
      · exact h
      · exact ih s' hi t ht
    · rename_i s' e heq
      rw [heq] at hi
      simp only [List.mem_cons, List.mem_nil_iff, or_false] at ht
      rcases ht with rfl | rfl
      · exact h
      · exact hi

/-- throughout execution the context gas never exceeds the global gas -/
theorem cgas_le_ggas (limit : Nat) (ops : List GasOp) :
    ∀ t ∈ trace (GasState.init limit) ops, t.cgas ≤ t.ggas := by
  intro t ht
  have := inv_trace _ ops (inv_init limit) t ht
  unfold Inv at this
  omega

/-- the global gas never increases: along every execution each later state has `$ggas` ≤ each earlier one -/
theorem ggas_antitone (s : GasState) (ops : List GasOp) :
    (trace s ops).Pairwise (fun a b => b.ggas ≤ a.ggas) := by
  have key : ∀ (ops : List GasOp) (s : GasState), ∀ t ∈ trace s ops, t.ggas ≤ s.ggas := by
    intro ops
    induction ops with
    | nil => intro s t ht; simp [trace] at ht; subst ht; exact Nat.le_refl _
    | cons op ops ih =>
      intro s t ht
      unfold trace at ht
      have hg := applyOp_ggas_le s op
      split at ht
      · rename_i s' heq
        rw [heq] at hg
        simp only [List.mem_cons] at ht
        rcases ht with rfl | ht
        · exact Nat.le_refl _
        · exact Nat.le_trans (ih s' t ht) hg
      · rename_i s' e heq
        rw [heq] at hg
        simp only [List.mem_cons, List.mem_nil_iff, or_false] at ht
        rcases ht with rfl | rfl
        · exact Nat.le_refl _
        · exact hg
  induction ops generalizing s with
  | nil => simp [trace]
  | cons op ops ih =>
    unfold trace
    have hg := applyOp_ggas_le s op
    split
    · rename_i s' heq
      rw [heq] at hg
      rw [List.pairwise_cons]
      exact ⟨fun t ht => Nat.le_trans (key ops s' t ht) hg, ih s'⟩
    · rename_i s' e heq
      rw [heq] at hg
      simp [hg]

/-- every state of an execution started with `set_gas(limit)` has `$ggas ≤ limit`, so `run_program`'s
`gas_limit.checked_sub($ggas)` cannot fail and **gas_used = limit − remaining global gas ≤ limit** -/
theorem gasUsed_eq (limit : Nat) (ops : List GasOp) :
    ∀ t ∈ trace (GasState.init limit) ops, gasUsed limit t = .ok (limit - t.ggas) ∧ limit - t.ggas ≤ limit := by
  intro t ht
  have hp := ggas_antitone (GasState.init limit) ops
  have hle : t.ggas ≤ limit := by
    cases ops with
    | nil => simp [trace] at ht; subst ht; simp [GasState.init]
    | cons op ops =>
      unfold trace at hp ht
      split at hp
      · rename_i s' heq
        simp only [heq] at ht
        rw [List.pairwise_cons] at hp
        simp only [List.mem_cons] at ht
        rcases ht with rfl | ht
        · simp [GasState.init]
        · exact hp.1 t ht
      · rename_i s' e heq
        simp only [heq] at ht
        simp only [List.mem_cons, List.mem_nil_iff, or_false] at ht
        rcases ht with rfl | rfl
        · simp [GasState.init]
        · simpa [GasState.init] using hp
  unfold gasUsed
  rw [if_neg (by omega)]
  exact ⟨rfl, Nat.sub_le _ _⟩

/-- under the invariant (and `$ggas` a machine word) the only error any gas operation can produce is
OutOfGas: the `Bug` variants ContextGasOverflow / ContextGasUnderflow and the unchecked subtraction
in `gas_charge` are unreachable. -/
theorem only_out_of_gas (s : GasState) (op : GasOp) (h : Inv s) (hb : s.ggas ≤ wordMax) :
    (applyOp s op).2 = none ∨ (applyOp s op).2 = some .outOfGas := by
  cases op with
  | charge g => exact gasCharge_err g h
  | forward f => left; exact forwardGas_err s f
  | forwardAbort f => left; rfl
  | ret => left; exact returnGas_err h hb

/-! ### calls: forwarded gas bounded, unspent gas credited back -/

/-- CALL forwards `min($cgas, $rD)`: at most the caller's context gas; the remainder is saved in the frame;
global gas is untouched. -/
theorem forward_bounded (s : GasState) (fwd : Nat) :
    (forwardGas s fwd).1.cgas ≤ s.cgas ∧ (forwardGas s fwd).1.cgas ≤ fwd ∧
    (forwardGas s fwd).1.ggas = s.ggas ∧
    (forwardGas s fwd).1.saved = (s.cgas - (forwardGas s fwd).1.cgas) :: s.saved ∧
    (forwardGas s fwd).2 = none := by
  have h1 : min s.cgas fwd ≤ s.cgas := Nat.min_le_left _ _
  have h2 : min s.cgas fwd ≤ fwd := Nat.min_le_right _ _
  unfold forwardGas
  simp only
  rw [if_neg (by omega)]
  exact ⟨h1, h2, rfl, rfl, rfl⟩

/-- CALL … callee charges … RET: after the return the caller's context gas is what it kept back plus
what the callee left unspent; i.e. the caller's `$cgas` and `$ggas` both dropped by exactly the gas the
callee consumed, and the frame stack is as before. -/
theorem call_ret_conserves (s : GasState) (fwd : Nat) (callee : List Nat) (h : Inv s)
    (hb : s.ggas ≤ wordMax) (hfit : callee.sum ≤ min s.cgas fwd) :
    let s1 := (forwardGas s fwd).1
    let s2 := (chargeAll s1 callee).1
    let s3 := (returnGas s2).1
    (returnGas s2).2 = none ∧
    s3.cgas = (s.cgas - min s.cgas fwd) + s2.cgas ∧
    s3.cgas = s.cgas - callee.sum ∧ s3.ggas = s.ggas - callee.sum ∧ s3.saved = s.saved := by
  have hm : min s.cgas fwd ≤ s.cgas := Nat.min_le_left _ _
  have hf : forwardGas s fwd = ({ s with cgas := min s.cgas fwd, saved := (s.cgas - min s.cgas fwd) :: s.saved }, none) := by
    unfold forwardGas; simp only; rw [if_neg (by omega)]
  have hi1 : Inv (forwardGas s fwd).1 := forwardGas_inv fwd h
  have hc := chargeAll_ok callee hi1 (by rw [hf]; exact hfit)
  simp only
  rw [hc, hf]
  simp only
  unfold Inv at h
  unfold returnGas
  simp only
  rw [if_neg (by omega)]
  simp only
  and_intros <;> first | rfl | trivial | omega

example : (forwardGas ⟨100, 150, [50]⟩ 30).1 = ⟨30, 150, [70, 50]⟩
    ∧ (returnGas (chargeAll (forwardGas ⟨100, 150, [50]⟩ 30).1 [12]).1).1 = ⟨88, 138, [50]⟩ := by decide

/-! ### instructions: any opcode, any schedule -/

/-- the gas effect of a whole instruction is the effect of its abstract op list, so every theorem above
about op lists applies to programs -/
theorem trace_cons (s : GasState) (op : GasOp) (ops : List GasOp) :
    trace s (op :: ops) = (match applyOp s op with
      | (s', none) => s :: trace s' ops
      | (s', some _) => [s, s']) := rfl

theorem instrGas_eq_ops (s : GasState) (mn : String) (args charges : List Nat) :
    (instrGas s mn args charges).1 ∈ trace s (instrOps mn args charges) := by
  have hcharges : ∀ (cs : List Nat) (s : GasState) (tail : List GasOp),
      (match chargeAll s cs with
        | (s', some _) => s' ∈ trace s (cs.map GasOp.charge ++ tail)
        | (s', none) => ∀ t ∈ trace s' tail, t ∈ trace s (cs.map GasOp.charge ++ tail)) := by
    intro cs
    induction cs with
    | nil => intro s tail; simp [chargeAll]
    | cons c cs ih =>
      intro s tail
      unfold chargeAll
      cases hg : gasCharge s c with
      | mk s' e =>
        cases e with
        | some e =>
          simp only [List.map_cons, List.cons_append]
          rw [trace_cons]
          simp [applyOp, hg]
        | none =>
          simp only [List.map_cons, List.cons_append]
          have := ih s' tail
          rw [trace_cons]
          simp only [applyOp, hg]
          split
          · rename_i s'' e' heq
            rw [heq] at this
            simp only at this
            exact List.mem_cons_of_mem _ this
          · rename_i s'' heq
            rw [heq] at this
            simp only at this
            intro t ht
            exact List.mem_cons_of_mem _ (this t ht)
  unfold instrGas instrOps
  have := hcharges charges s
    (if mn = "CALL" then [GasOp.forward (args.getD 3 0)]
     else if mn = "RET" ∨ mn = "RETD" then [GasOp.ret] else [])
  cases hc : chargeAll s charges with
  | mk s' e =>
    rw [hc] at this
    cases e with
    | some e => simpa using this
    | none =>
      simp only at this ⊢
      apply this
      by_cases h1 : mn = "CALL"
      · simp only [h1, if_true]
        rw [trace_cons]
        simp only [applyOp]
        cases hf : forwardGas s' (args.getD 3 0) with
        | mk s'' e => cases e <;> simp [trace]
      · simp only [h1, if_false]
        by_cases h2 : mn = "RET" ∨ mn = "RETD"
        · simp only [h2, if_true]
          rw [trace_cons]
          simp only [applyOp]
          cases hf : returnGas s' with
          | mk s'' e => cases e <;> simp [trace]
        · simp only [h2, if_false]
          simp [trace]

/-- for every opcode, operands, run-time sizes and schedule: executing the instruction keeps the
invariant, never raises `$ggas`, and (machine-word `$ggas`) fails only with OutOfGas. -/
theorem instr_inv (sch : Schedule) (s : GasState) (mn : String) (args sizes charges : List Nat) (ex : Bool)
    (_hc : chargeList sch mn args sizes = .ok (charges, ex)) (h : Inv s) :
    Inv (instrGas s mn args charges).1 ∧ (instrGas s mn args charges).1.ggas ≤ s.ggas := by
  have hm := instrGas_eq_ops s mn args charges
  refine ⟨inv_trace s _ h _ hm, ?_⟩
  have hp := ggas_antitone s (instrOps mn args charges)
  cases hops : instrOps mn args charges with
  | nil => rw [hops] at hm; simp [trace] at hm; rw [hm]; exact Nat.le_refl _
  | cons op ops =>
    rw [hops] at hm hp
    unfold trace at hm hp
    split at hp
    · rename_i s' heq
      simp only [heq] at hm
      rw [List.pairwise_cons] at hp
      simp only [List.mem_cons] at hm
      rcases hm with hm | hm
      · rw [hm]; exact Nat.le_refl _
      · exact hp.1 _ hm
    · rename_i s' e heq
      simp only [heq] at hm
      simp only [List.mem_cons, List.mem_nil_iff, or_false] at hm
      rcases hm with hm | hm
      · rw [hm]; exact Nat.le_refl _
      · rw [hm]; simpa using hp

/-- states in which an instruction may stop when it panics for a reason other than gas (between two
charges, or in CALL after the forwarded amount was deducted) also satisfy the invariant -/
theorem panic_states_inv (s : GasState) (mn : String) (args charges : List Nat) (h : Inv s) :
    ∀ t ∈ panicStates s mn args charges, Inv t ∧ t.ggas ≤ s.ggas := by
  intro t ht
  unfold panicStates at ht
  simp only at ht
  have hp := prefixStates_inv charges h
  have hl : (prefixStates s charges).getLastD s ∈ prefixStates s charges ∨
      (prefixStates s charges).getLastD s = s := by
    cases hps : prefixStates s charges with
    | nil => right; rfl
    | cons a l =>
      left
      rw [List.getLastD_cons]
      exact List.getLastD_mem_cons
  have hl' : Inv ((prefixStates s charges).getLastD s) ∧ ((prefixStates s charges).getLastD s).ggas ≤ s.ggas := by
    rcases hl with hl | hl
    · exact ⟨(hp _ hl).1, (hp _ hl).2.1⟩
    · rw [hl]; exact ⟨h, Nat.le_refl _⟩
  split at ht
  · split at ht
    · simp only [List.mem_append, List.mem_cons, List.mem_nil_iff, or_false] at ht
      rcases ht with ht | ht
      · exact ⟨(hp t ht).1, (hp t ht).2.1⟩
      · subst ht
        exact ⟨forwardAbort_inv _ hl'.1, by simpa [forwardAbort] using hl'.2⟩
    · split at ht
      · simp only [List.mem_append, List.mem_cons, List.mem_nil_iff, or_false] at ht
        rcases ht with ht | ht
        · exact ⟨(hp t ht).1, (hp t ht).2.1⟩
        · subst ht
          exact ⟨returnGas_inv hl'.1, by rw [returnGas_ggas]; exact hl'.2⟩
      · exact ⟨(hp t ht).1, (hp t ht).2.1⟩
  · exact ⟨(hp t ht).1, (hp t ht).2.1⟩

/-! ### the schedule tables generated from the Rust sources -/

/-- `DependentCost::resolve` is at least the base cost and monotone in the number of units -/
theorem resolve_ge_base (c : DepCost) (u r : Nat) (hbase : c.base ≤ wordMax) (h : c.resolve u = .ok r) : c.base ≤ r := by
  unfold DepCost.resolve at h
  split at h
  · cases h
  · rename_i d hd
    cases h
    unfold satAdd
    split <;> omega

theorem satAdd_mono (c a b : Nat) (h : a ≤ b) : satAdd c a ≤ satAdd c b := by
  unfold satAdd; split <;> split <;> omega

theorem satMul_mono (a b c : Nat) (h : a ≤ b) : satMul a c ≤ satMul b c := by
  have : a * c ≤ b * c := Nat.mul_le_mul_right _ h
  unfold satMul; split <;> split <;> omega

theorem resolve_mono (c : DepCost) (u u' r r' : Nat) (huu : u ≤ u')
    (h : c.resolve u = .ok r) (h' : c.resolve u' = .ok r') : r ≤ r' := by
  unfold DepCost.resolve at h h'
  cases c with
  | light b upg =>
    simp only [DepCost.resolveWithoutBase] at h h'
    by_cases hz : upg = 0
    · simp [hz] at h
    · simp only [hz, if_false] at h h'
      cases h; cases h'
      exact satAdd_mono _ _ _ (Nat.div_le_div_right huu)
  | heavy b gpu =>
    simp only [DepCost.resolveWithoutBase] at h h'
    cases h; cases h'
    exact satAdd_mono _ _ _ (satMul_mono _ _ _ huu)

/-- lower bound of the first charge of an opcode under a schedule (fixed cost, or the base of the dependent cost) -/
def firstChargeBound (sch : Schedule) (mn : String) : Option Nat :=
  match opcodeCharge.lookup mn with
  | some (.fixed f) | some (.fixedOpt f) => sch.fixed.lookup f
  | some (.dep f _) | some (.depOpt f _) | some (.baseThenDep f) | some (.baseThenDepOpt f) =>
    (sch.dep.lookup f).map DepCost.base
  | some .none => some 0
  | none => none

/-- obligation on the generated tables (complete finite check): every opcode of the instruction table has a
charge site, its cost entry exists in the default schedule, and — except ECAL, which the VM itself does not
charge — its first charge under the default schedule is at least 1 and fits a word; no default light
operation has `units_per_gas = 0`. -/
theorem default_costs_positive :
    (instrTable.all fun row =>
      match firstChargeBound defaultSchedule row.name with
      | some b => (row.name == "ECAL" || decide (1 ≤ b)) && decide (b ≤ wordMax)
      | none => false) = true ∧
    (defaultDep.all fun p => match p.2 with | .light _ upg => decide (0 < upg) | .heavy _ _ => true) = true := by
  constructor <;> decide +kernel

/-- the default table has exactly the fields of `GasCostsValuesV7`, in order -/
theorem default_tables_complete :
    defaultFixed.map (·.1) = gasFixedFields ∧ defaultDep.map (·.1) = gasDepFields := by
  constructor <;> decide +kernel

/-- the schedule entry an opcode is priced with: its own lower-case mnemonic, except these aliases
(the storage opcodes charge `noop` and then storage micro-operations) -/
def expectedField (mn : String) : String :=
  if storageOps.contains mn then "noop" else
  match mn with
  | "MOD" => "mod_op" | "MOVE" => "move_op" | "JAL" => "jmp" | "CFS" => "cfsi"
  | "LQW" => "lw" | "LHW" => "lw" | "SQW" => "sw" | "SHW" => "sw"
  | _ => mn.toLower

/-- operand (position in `unpack()`) that carries the unit count of the dependent-cost opcodes -/
def expectedUnitArg : List (String × Nat) :=
  [("RETD", 1), ("SMO", 2), ("ALOC", 0), ("CFEI", 0), ("CFE", 0), ("MCL", 1), ("MCLI", 1), ("MCP", 2), ("MCPI", 2),
   ("MEQ", 3), ("LOGD", 3), ("ED19", 3), ("K256", 2), ("S256", 2), ("EPAR", 2)]

/-- obligation on the generated charge sites (complete finite check): every opcode is priced with its own
schedule entry (or the listed alias), dependent costs take their units from the expected operand, only ECAL
is not charged by the VM, and the table covers exactly the opcodes of the instruction table. An opcode that
starts charging another opcode's entry breaks this proof. -/
theorem charge_sites_follow_mnemonics :
    (opcodeCharge.all fun p =>
      match p.2 with
      | .none => p.1 == "ECAL"
      | .fixed f | .fixedOpt f | .baseThenDep f | .baseThenDepOpt f => f == expectedField p.1
      | .dep f i | .depOpt f i => f == expectedField p.1 && expectedUnitArg.lookup p.1 == some i) = true ∧
    (opcodeCharge.all (fun p => instrTable.any (·.name == p.1)) && instrTable.all (fun r => opcodeCharge.any (·.1 == r.name))
      && opcodeCharge.length == instrTable.length) = true := by
  constructor <;> decide +kernel

example : (chargeList defaultSchedule "CALL" [0, 0, 0, 1000] [4280, 1]).toOption = some ([144, 20, 40], true) := by decide +kernel
example : (chargeList defaultSchedule "RETD" [0, 6200] []).toOption = some ([129], true) := by decide +kernel
example : (chargeList defaultSchedule "ADD" [1, 2, 3] []).toOption = some ([1], true) := by decide +kernel

end FuelVerif.Gas
