/-
C26 — Gas is charged monotonically and never exceeds the limit.

  "Throughout execution the context gas never exceeds the global gas, the global gas never increases,
   and each instruction consumes exactly the gas the gas schedule prescribes for its arguments
   (panicking with out-of-gas, and leaving the context gas at zero, exactly when that cost exceeds the
   available context gas). The gas reported in the script result equals the script gas limit minus the
   remaining global gas, forwarded call gas is bounded by the caller's context gas and returned unspent
   gas is credited back on return."

Model: `Model/Gas.lean` (gas.rs `gas_charge`, flow.rs call forwarding / return credit, run_program
`gas_used`, DependentCost::resolve). The schedule tables `Gen.defaultFixed/defaultDep` and the per-opcode
charge sites `Gen.opcodeCharge` are regenerated from the Rust sources on every run.
All theorems quantify over every state / every list of gas operations / every schedule.
-/
import FuelVerif.Lemmas.Gas
import FuelVerif.Gen.Instructions
namespace FuelVerif.Gas
open FuelVerif.Gen

/-! ### one charge: exact amount, or OutOfGas with `$cgas = 0`, exactly when the cost exceeds `$cgas` -/

/-- `gas_charge` on a state satisfying the invariant: if the cost fits, both registers decrease by exactly
the cost; otherwise OutOfGas, `$cgas = 0` and `$ggas` decreases by the former `$cgas`; never another error. -/
theorem charge_spec (s : GasState) (g : Nat) (h : Inv s) :
    (g ≤ s.cgas → gasCharge s g = ({ s with cgas := s.cgas - g, ggas := s.ggas - g }, none)) ∧
    (g > s.cgas → gasCharge s g = ({ s with cgas := 0, ggas := s.ggas - s.cgas }, some .outOfGas)) := by
  unfold Inv at h
  constructor
  · intro hg
    unfold gasCharge
    rw [if_neg (by omega), if_neg (by omega)]
  · intro hg
    unfold gasCharge
    rw [if_pos hg]

/-- out-of-gas **exactly when** the cost exceeds the available context gas -/
theorem charge_oog_iff (s : GasState) (g : Nat) (h : Inv s) :
    (gasCharge s g).2 = some .outOfGas ↔ g > s.cgas := by
  obtain ⟨h1, h2⟩ := charge_spec s g h
  constructor
  · intro he
    by_cases hg : g > s.cgas
    · exact hg
    · rw [h1 (by omega)] at he; simp at he
  · intro hg; rw [h2 hg]

example : Inv ⟨70, 100, [20, 10]⟩ ∧ gasCharge ⟨70, 100, [20, 10]⟩ 30 = (⟨40, 70, [20, 10]⟩, none)
    ∧ gasCharge ⟨70, 100, [20, 10]⟩ 71 = (⟨0, 30, [20, 10]⟩, some .outOfGas) := by decide

/-- a whole instruction (its charges in order): consumes exactly the prescribed total, or runs out of
gas — exactly when the total exceeds `$cgas` — leaving `$cgas = 0` and `$ggas` reduced by the former `$cgas`. -/
theorem instr_charges_exact (s : GasState) (charges : List Nat) (h : Inv s) :
    (charges.sum ≤ s.cgas →
        chargeAll s charges = ({ s with cgas := s.cgas - charges.sum, ggas := s.ggas - charges.sum }, none)) ∧
    (charges.sum > s.cgas →
        (chargeAll s charges).2 = some .outOfGas ∧ (chargeAll s charges).1.cgas = 0 ∧
        (chargeAll s charges).1.ggas = s.ggas - s.cgas) :=
  ⟨chargeAll_ok charges h, chargeAll_oog charges h⟩

example : chargeAll ⟨200, 300, []⟩ [144, 3, 40] = (⟨13, 113, []⟩, none)
    ∧ chargeAll ⟨150, 300, []⟩ [144, 3, 40] = (⟨0, 150, []⟩, some .outOfGas) := by decide

/-! ### the invariant over unbounded histories -/

/-- `$cgas + Σ saved ≤ $ggas` holds in every state of every execution (any list of charges, call
forwardings — completed or aborted — and returns), starting from any state that satisfies it. -/
theorem inv_trace (s : GasState) (ops : List GasOp) (h : Inv s) : ∀ t ∈ trace s ops, Inv t := by
  induction ops generalizing s with
  | nil => intro t ht; simp [trace] at ht; subst ht; exact h
  | cons op ops ih =>
    intro t ht
    unfold trace at ht
    have hi := applyOp_inv op h
    split at ht
    · rename_i s' heq
      rw [heq] at hi
      simp only [List.mem_cons] at ht
      rcases ht with rfl | ht
      · exact h
      · exact ih s' hi t ht
    · rename_i s' e heq
      rw [heq] at hi
      simp only [List.mem_cons, List.mem_nil_iff, or_false] at ht
      rcases ht with rfl | rfl
      · exact h
      · exact hi

/-- throughout execution the context gas never exceeds the global gas -/
theorem cgas_le_ggas (limit : Nat) (ops : List GasOp) :
    ∀ t ∈ trace (GasState.init limit) ops, t.cgas ≤ t.ggas := by
  intro t ht
  have := inv_trace _ ops (inv_init limit) t ht
  unfold Inv at this
  omega

/-- the global gas never increases: along every execution each later state has `$ggas` ≤ each earlier one -/
theorem ggas_antitone (s : GasState) (ops : List GasOp) :
    (trace s ops).Pairwise (fun a b => b.ggas ≤ a.ggas) := by
  have key : ∀ (ops : List GasOp) (s : GasState), ∀ t ∈ trace s ops, t.ggas ≤ s.ggas := by
    intro ops
    induction ops with
    | nil => intro s t ht; simp [trace] at ht; subst ht; exact Nat.le_refl _
    | cons op ops ih =>
      intro s t ht
      unfold trace at ht
      have hg := applyOp_ggas_le s op
      split at ht
      · rename_i s' heq
        rw [heq] at hg
        simp only [List.mem_cons] at ht
        rcases ht with rfl | ht
        · exact Nat.le_refl _
        · exact Nat.le_trans (ih s' t ht) hg
      · rename_i s' e heq
        rw [heq] at hg
        simp only [List.mem_cons, List.mem_nil_iff, or_false] at ht
        rcases ht with rfl | rfl
        · exact Nat.le_refl _
        · exact hg
  induction ops generalizing s with
  | nil => simp [trace]
  | cons op ops ih =>
    unfold trace
    have hg := applyOp_ggas_le s op
    split
    · rename_i s' heq
      rw [heq] at hg
      rw [List.pairwise_cons]
      exact ⟨fun t ht => Nat.le_trans (key ops s' t ht) hg, ih s'⟩
    · rename_i s' e heq
      rw [heq] at hg
      simp [hg]

/-- every state of an execution started with `set_gas(limit)` has `$ggas ≤ limit`, so `run_program`'s
`gas_limit.checked_sub($ggas)` cannot fail and **gas_used = limit − remaining global gas ≤ limit** -/
theorem gasUsed_eq (limit : Nat) (ops : List GasOp) :
    ∀ t ∈ trace (GasState.init limit) ops, gasUsed limit t = .ok (limit - t.ggas) ∧ limit - t.ggas ≤ limit := by
  intro t ht
  have hp := ggas_antitone (GasState.init limit) ops
  have hle : t.ggas ≤ limit := by
    cases ops with
    | nil => simp [trace] at ht; subst ht; simp [GasState.init]
    | cons op ops =>
      unfold trace at hp ht
      split at hp
      · rename_i s' heq
        simp only [heq] at ht
        rw [List.pairwise_cons] at hp
        simp only [List.mem_cons] at ht
        rcases ht with rfl | ht
        · simp [GasState.init]
        · exact hp.1 t ht
      · rename_i s' e heq
        simp only [heq] at ht
        simp only [List.mem_cons, List.mem_nil_iff, or_false] at ht
        rcases ht with rfl | rfl
        · simp [GasState.init]
        · simpa [GasState.init] using hp
  unfold gasUsed
  rw [if_neg (by omega)]
  exact ⟨rfl, Nat.sub_le _ _⟩

/-- under the invariant (and `$ggas` a machine word) the only error any gas operation can produce is
OutOfGas: the `Bug` variants ContextGasOverflow / ContextGasUnderflow and the unchecked subtraction
in `gas_charge` are unreachable. -/
theorem only_out_of_gas (s : GasState) (op : GasOp) (h : Inv s) (hb : s.ggas ≤ wordMax) :
    (applyOp s op).2 = none ∨ (applyOp s op).2 = some .outOfGas := by
  cases op with
  | charge g => exact gasCharge_err g h
  | forward f => left; exact forwardGas_err s f
  | forwardAbort f => left; rfl
  | ret => left; exact returnGas_err h hb

/-! ### calls: forwarded gas bounded, unspent gas credited back -/

/-- CALL forwards `min($cgas, $rD)`: at most the caller's context gas; the remainder is saved in the frame;
global gas is untouched. -/
theorem forward_bounded (s : GasState) (fwd : Nat) :
    (forwardGas s fwd).1.cgas ≤ s.cgas ∧ (forwardGas s fwd).1.cgas ≤ fwd ∧
    (forwardGas s fwd).1.ggas = s.ggas ∧
    (forwardGas s fwd).1.saved = (s.cgas - (forwardGas s fwd).1.cgas) :: s.saved ∧
    (forwardGas s fwd).2 = none := by
  have h1 : min s.cgas fwd ≤ s.cgas := Nat.min_le_left _ _
  have h2 : min s.cgas fwd ≤ fwd := Nat.min_le_right _ _
  unfold forwardGas
  simp only
  rw [if_neg (by omega)]
  exact ⟨h1, h2, rfl, rfl, rfl⟩

/-- CALL … callee charges … RET: after the return the caller's context gas is what it kept back plus
what the callee left unspent; i.e. the caller's `$cgas` and `$ggas` both dropped by exactly the gas the
callee consumed, and the frame stack is as before. -/
theorem call_ret_conserves (s : GasState) (fwd : Nat) (callee : List Nat) (h : Inv s)
    (hb : s.ggas ≤ wordMax) (hfit : callee.sum ≤ min s.cgas fwd) :
    let s1 := (forwardGas s fwd).1
    let s2 := (chargeAll s1 callee).1
    let s3 := (returnGas s2).1
    (returnGas s2).2 = none ∧
    s3.cgas = (s.cgas - min s.cgas fwd) + s2.cgas ∧
    s3.cgas = s.cgas - callee.sum ∧ s3.ggas = s.ggas - callee.sum ∧ s3.saved = s.saved := by
  have hm : min s.cgas fwd ≤ s.cgas := Nat.min_le_left _ _
  have hf : forwardGas s fwd = ({ s with cgas := min s.cgas fwd, saved := (s.cgas - min s.cgas fwd) :: s.saved }, none) := by
    unfold forwardGas; simp only; rw [if_neg (by omega)]
  have hi1 : Inv (forwardGas s fwd).1 := forwardGas_inv fwd h
  have hc := chargeAll_ok callee hi1 (by rw [hf]; exact hfit)
  simp only
  rw [hc, hf]
  simp only
  unfold Inv at h
  unfold returnGas
  simp only
  rw [if_neg (by omega)]
  simp only
  and_intros <;> first | rfl | trivial | omega

example : (forwardGas ⟨100, 150, [50]⟩ 30).1 = ⟨30, 150, [70, 50]⟩
    ∧ (returnGas (chargeAll (forwardGas ⟨100, 150, [50]⟩ 30).1 [12]).1).1 = ⟨88, 138, [50]⟩ := by decide

/-! ### instructions: any opcode, any schedule -/

/-- the gas effect of a whole instruction is the effect of its abstract op list, so every theorem above
about op lists applies to programs -/
theorem trace_cons (s : GasState) (op : GasOp) (ops : List GasOp) :
    trace s (op :: ops) = (match applyOp s op with
      | (s', none) => s :: trace s' ops
      | (s', some _) => [s, s']) := rfl

theorem instrGas_eq_ops (s : GasState) (mn : String) (args charges : List Nat) :
    (instrGas s mn args charges).1 ∈ trace s (instrOps mn args charges) := by
  have hcharges : ∀ (cs : List Nat) (s : GasState) (tail : List GasOp),
      (match chargeAll s cs with
        | (s', some _) => s' ∈ trace s (cs.map GasOp.charge ++ tail)
        | (s', none) => ∀ t ∈ trace s' tail, t ∈ trace s (cs.map GasOp.charge ++ tail)) := by
    intro cs
    induction cs with
    | nil => intro s tail; simp [chargeAll]
    | cons c cs ih =>
      intro s tail
      unfold chargeAll
      cases hg : gasCharge s c with
      | mk s' e =>
        cases e with
        | some e =>
          simp only [List.map_cons, List.cons_append]
          rw [trace_cons]
          simp [applyOp, hg]
        | none =>
          simp only [List.map_cons, List.cons_append]
          have := ih s' tail
          rw [trace_cons]
          simp only [applyOp, hg]
          split
          · rename_i s'' e' heq
            rw [heq] at this
            simp only at this
            exact List.mem_cons_of_mem _ this
          · rename_i s'' heq
            rw [heq] at this
            simp only at this
            intro t ht
            exact List.mem_cons_of_mem _ (this t ht)
  unfold instrGas instrOps
  have := hcharges charges s
    (if mn = "CALL" then [GasOp.forward (args.getD 3 0)]
     else if mn = "RET" ∨ mn = "RETD" then [GasOp.ret] else [])
  cases hc : chargeAll s charges with
  | mk s' e =>
    rw [hc] at this
    cases e with
    | some e => simpa using this
    | none =>
      simp only at this ⊢
      apply this
      by_cases h1 : mn = "CALL"
      · simp only [h1, if_true]
        rw [trace_cons]
        simp only [applyOp]
        cases hf : forwardGas s' (args.getD 3 0) with
        | mk s'' e => cases e <;> simp [trace]
      · simp only [h1, if_false]
        by_cases h2 : mn = "RET" ∨ mn = "RETD"
        · simp only [h2, if_true]
          rw [trace_cons]
          simp only [applyOp]
          cases hf : returnGas s' with
          | mk s'' e => cases e <;> simp [trace]
        · simp only [h2, if_false]
          simp [trace]

/-- for every opcode, operands, run-time sizes and schedule: executing the instruction keeps the
invariant, never raises `$ggas`, and (machine-word `$ggas`) fails only with OutOfGas. -/
theorem instr_inv (sch : Schedule) (s : GasState) (mn : String) (args sizes charges : List Nat) (ex : Bool)
    (_hc : chargeList sch mn args sizes = .ok (charges, ex)) (h : Inv s) :
    Inv (instrGas s mn args charges).1 ∧ (instrGas s mn args charges).1.ggas ≤ s.ggas := by
  have hm := instrGas_eq_ops s mn args charges
  refine ⟨inv_trace s _ h _ hm, ?_⟩
  have hp := ggas_antitone s (instrOps mn args charges)
  cases hops : instrOps mn args charges with
  | nil => rw [hops] at hm; simp [trace] at hm; rw [hm]; exact Nat.le_refl _
  | cons op ops =>
    rw [hops] at hm hp
    unfold trace at hm hp
    split at hp
    · rename_i s' heq
      simp only [heq] at hm
      rw [List.pairwise_cons] at hp
      simp only [List.mem_cons] at hm
      rcases hm with hm | hm
      · rw [hm]; exact Nat.le_refl _
      · exact hp.1 _ hm
    · rename_i s' e heq
      simp only [heq] at hm
      simp only [List.mem_cons, List.mem_nil_iff, or_false] at hm
      rcases hm with hm | hm
      · rw [hm]; exact Nat.le_refl _
      · rw [hm]; simpa using hp

/-- states in which an instruction may stop when it panics for a reason other than gas (between two
charges, or in CALL after the forwarded amount was deducted) also satisfy the invariant -/
theorem panic_states_inv (s : GasState) (mn : String) (args charges : List Nat) (h : Inv s) :
    ∀ t ∈ panicStates s mn args charges, Inv t ∧ t.ggas ≤ s.ggas := by
  intro t ht
  unfold panicStates at ht
  simp only at ht
  have hp := prefixStates_inv charges h
  have hl : (prefixStates s charges).getLastD s ∈ prefixStates s charges ∨
      (prefixStates s charges).getLastD s = s := by
    cases hps : prefixStates s charges with
    | nil => right; rfl
    | cons a l =>
      left
      rw [List.getLastD_cons]
      exact List.getLastD_mem_cons
  have hl' : Inv ((prefixStates s charges).getLastD s) ∧ ((prefixStates s charges).getLastD s).ggas ≤ s.ggas := by
    rcases hl with hl | hl
    · exact ⟨(hp _ hl).1, (hp _ hl).2.1⟩
    · rw [hl]; exact ⟨h, Nat.le_refl _⟩
  split at ht
  · split at ht
    · simp only [List.mem_append, List.mem_cons, List.mem_nil_iff, or_false] at ht
      rcases ht with ht | ht
      · exact ⟨(hp t ht).1, (hp t ht).2.1⟩
      · subst ht
        exact ⟨forwardAbort_inv _ hl'.1, by simpa [forwardAbort] using hl'.2⟩
    · split at ht
      · simp only [List.mem_append, List.mem_cons, List.mem_nil_iff, or_false] at ht
        rcases ht with ht | ht
        · exact ⟨(hp t ht).1, (hp t ht).2.1⟩
        · subst ht
          exact ⟨returnGas_inv hl'.1, by rw [returnGas_ggas]; exact hl'.2⟩
      · exact ⟨(hp t ht).1, (hp t ht).2.1⟩
  · exact ⟨(hp t ht).1, (hp t ht).2.1⟩

/-! ### the schedule tables generated from the Rust sources -/

/-- `DependentCost::resolve` is at least the base cost and monotone in the number of units -/
theorem resolve_ge_base (c : DepCost) (u r : Nat) (hbase : c.base ≤ wordMax) (h : c.resolve u = .ok r) : c.base ≤ r := by
  unfold DepCost.resolve at h
  split at h
  · cases h
  · rename_i d hd
    cases h
    unfold satAdd
    split <;> omega

theorem satAdd_mono (c a b : Nat) (h : a ≤ b) : satAdd c a ≤ satAdd c b := by
  unfold satAdd; split <;> split <;> omega

theorem satMul_mono (a b c : Nat) (h : a ≤ b) : satMul a c ≤ satMul b c := by
  have : a * c ≤ b * c := Nat.mul_le_mul_right _ h
  unfold satMul; split <;> split <;> omega

theorem resolve_mono (c : DepCost) (u u' r r' : Nat) (huu : u ≤ u')
    (h : c.resolve u = .ok r) (h' : c.resolve u' = .ok r') : r ≤ r' := by
  unfold DepCost.resolve at h h'
  cases c with
  | light b upg =>
    simp only [DepCost.resolveWithoutBase] at h h'
    by_cases hz : upg = 0
    · simp [hz] at h
    · simp only [hz, if_false] at h h'
      cases h; cases h'
      exact satAdd_mono _ _ _ (Nat.div_le_div_right huu)
  | heavy b gpu =>
    simp only [DepCost.resolveWithoutBase] at h h'
    cases h; cases h'
    exact satAdd_mono _ _ _ (satMul_mono _ _ _ huu)

/-- lower bound of the first charge of an opcode under a schedule (fixed cost, or the base of the dependent cost) -/
def firstChargeBound (sch : Schedule) (mn : String) : Option Nat :=
  match opcodeCharge.lookup mn with
  | some (.fixed g) | some (.fixedOpt g) => (sch.word g).toOption
  | some (.dep g _) | some (.depOpt g _) | some (.baseThenDep g) | some (.baseThenDepOpt g) => (sch.depBase g).toOption
  | some .none => some 0
  | none => none

/-- obligation on the generated tables (complete finite check): every opcode of the instruction table has a
charge site, its cost entry exists in the default schedule, and — except ECAL, which the VM itself does not
charge — its first charge under the default schedule is at least 1 and fits a word; no default light
operation has `units_per_gas = 0`. -/
theorem default_costs_positive :
    (instrTable.all fun row =>
      match firstChargeBound defaultSchedule row.name with
      | some b => (row.name == "ECAL" || decide (1 ≤ b)) && decide (b ≤ wordMax)
      | none => false) = true ∧
    (defaultDep.all fun p => match p.2 with | .light _ upg => decide (0 < upg) | .heavy _ _ => true) = true := by
  constructor <;> decide +kernel

/-- the default table has exactly the fields of `GasCostsValuesV7`, in order -/
theorem default_tables_complete :
    defaultFixed.map (·.1) = gasFixedFields ∧ defaultDep.map (·.1) = gasDepFields := by
  constructor <;> decide +kernel

/-- the schedule entry an opcode is priced with: its own lower-case mnemonic, except these aliases
(the storage opcodes charge `noop` and then storage micro-operations) -/
def expectedField (mn : String) : String :=
  if storageOps.contains mn then "noop" else
  match mn with
  | "MOD" => "mod_op" | "MOVE" => "move_op" | "JAL" => "jmp" | "CFS" => "cfsi"
  | "LQW" => "lw" | "LHW" => "lw" | "SQW" => "sw" | "SHW" => "sw"
  | _ => mn.toLower

/-- operand (position in `unpack()`) that carries the unit count of the dependent-cost opcodes -/
def expectedUnitArg : List (String × Nat) :=
  [("RETD", 1), ("SMO", 2), ("ALOC", 0), ("CFEI", 0), ("CFE", 0), ("MCL", 1), ("MCLI", 1), ("MCP", 2), ("MCPI", 2),
   ("MEQ", 3), ("LOGD", 3), ("ED19", 3), ("K256", 2), ("S256", 2), ("EPAR", 2)]

/-- the `GasCostsValuesV7` field a getter of `impl GasCostsValues` returns -/
def v7Field (g : String) : Option String :=
  match gasGetters.lookup g with
  | some (_, _, arms) =>
    match arms[6]? with
    | some (GetterArm.field f) => some f
    | _ => none
  | none => none

/-- obligation on the generated charge sites (complete finite check): every opcode is priced with its own
schedule entry (or the listed alias) — the getter its `execute` calls returns that `GasCostsValuesV7` field —,
dependent costs take their units from the expected operand, only ECAL is not charged by the VM, and the table
covers exactly the opcodes of the instruction table. An opcode that starts charging another opcode's entry, or
a getter that starts returning another field, breaks this proof. -/
theorem charge_sites_follow_mnemonics :
    (opcodeCharge.all fun p =>
      match p.2 with
      | .none => p.1 == "ECAL"
      | .fixed g | .fixedOpt g | .baseThenDep g | .baseThenDepOpt g => v7Field g == some (expectedField p.1)
      | .dep g i | .depOpt g i => v7Field g == some (expectedField p.1) && expectedUnitArg.lookup p.1 == some i) = true ∧
    (opcodeCharge.all (fun p => instrTable.any (·.name == p.1)) && instrTable.all (fun r => opcodeCharge.any (·.1 == r.name))
      && opcodeCharge.length == instrTable.length) = true := by
  constructor <;> decide +kernel

example : (chargeList defaultSchedule "CALL" [0, 0, 0, 1000] [1, 4277, 1]).toOption = some ([144, 20, 40], true) := by decide +kernel
example : (chargeList defaultSchedule "RETD" [0, 6200] []).toOption = some ([129], true) := by decide +kernel
example : (chargeList defaultSchedule "ADD" [1, 2, 3] []).toOption = some ([1], true) := by decide +kernel

/-! ### every charge of every opcode is enumerated (only ECAL, which the VM does not charge, is inexact) -/

/-- for every schedule (any version), opcode, operands and run-time sizes the plan lists all charges the VM
makes: it is inexact exactly for the opcode whose charge site is `none` (ECAL). In particular the storage
opcodes have no unenumerated tail. -/
theorem plan_exact (sch : Schedule) (mn : String) (args sizes : List Nat) :
    (chargePlan sch mn args sizes).exact = false ↔ opcodeCharge.lookup mn = some .none := by
  unfold chargePlan
  cases hl : opcodeCharge.lookup mn with
  | none => simp
  | some k =>
    cases k with
    | none => simp
    | fixed g =>
      simp only
      split
      · rw [storagePlan_exact, Plan.add_exact]; simp
      · split
        · rw [Plan.addNewEntry_exact, Plan.add_exact]; simp
        · rw [Plan.add_exact]; simp
    | fixedOpt g =>
      simp only
      split
      · rw [storagePlan_exact, Plan.add_exact]; simp
      · split
        · rw [Plan.addNewEntry_exact, Plan.add_exact]; simp
        · rw [Plan.add_exact]; simp
    | dep g i => simp only; rw [Plan.add_exact]; simp
    | depOpt g i => simp only; rw [Plan.add_exact]; simp
    | baseThenDep g =>
      simp only
      split
      · rw [Plan.add_exact]; simp
      · split
        · rw [Plan.addNewEntry_exact, Plan.baseThen_exact]; simp
        · rw [Plan.baseThen_exact]; simp
    | baseThenDepOpt g =>
      simp only
      split
      · rw [Plan.add_exact]; simp
      · split
        · rw [Plan.addNewEntry_exact, Plan.baseThen_exact]; simp
        · rw [Plan.baseThen_exact]; simp

/-- the generated micro-operation table of the storage opcodes (from opcodes_impl.rs / storage.rs) is the specified
one: SRW, SRDD, SRDI, SPLD read the slot; SWW reads then writes 32 bytes; SRWQ / SWWQ / SCWQ do so per slot of the
range (SCWQ then clears the range); SWRD / SWRI write `$rC` / imm bytes; SUPD / SUPI read then write the updated
value; SCLR clears. A storage opcode that drops, adds or reorders a charged access breaks this proof. -/
theorem storage_ops_as_specified :
    storageOpTable =
      [("SCWQ", ⟨0, some 2, [.read], [.clear 2]⟩), ("SRW", ⟨2, none, [], [.read]⟩), ("SRWQ", ⟨2, some 3, [.read], []⟩),
       ("SWW", ⟨0, none, [], [.read, .write (.const 32)]⟩), ("SWWQ", ⟨0, some 3, [.read, .write (.const 32)], []⟩),
       ("SCLR", ⟨0, none, [], [.clear 1]⟩), ("SRDD", ⟨1, none, [], [.read]⟩), ("SRDI", ⟨1, none, [], [.read]⟩),
       ("SWRD", ⟨0, none, [], [.write (.arg 2)]⟩), ("SWRI", ⟨0, none, [], [.write (.arg 2)]⟩),
       ("SUPD", ⟨0, none, [], [.read, .write (.update 2 3)]⟩), ("SUPI", ⟨0, none, [], [.read, .write (.update 2 3)]⟩),
       ("SPLD", ⟨1, none, [], [.read]⟩)] ∧
    (storageReadHotGetter, storageReadColdGetter, storageWriteGetter, storageNewBytesGetter, storageClearGetter)
      = ("storage_read_hot", "storage_read_cold", "storage_write", "new_storage_per_byte", "storage_clear") ∧
    (newEntryGetter, balanceEntryBytes) = ("new_storage_per_byte", 40) := by
  refine ⟨by decide +kernel, by decide +kernel, by decide +kernel⟩

/-- one slot read is one charge: the hot entry if the slot is in the cache, the cold entry otherwise, over the
byte length of the value -/
theorem read_charge (sch : Schedule) (args : List Nat) (hot len c : Nat) (p : Plan)
    (hp : p.stop = none) (hc : p.complete = true)
    (h : sch.depTotal (if hot = 0 then storageReadColdGetter else storageReadHotGetter) len = .ok c) :
    (slotStep sch args hot len p .read).charges = p.charges ++ [c] ∧
    (slotStep sch args hot len p .read).stop = none := by
  simp only [slotStep, Plan.add, hp, hc, h]
  exact ⟨trivial, trivial⟩

/-- one slot write of `n` bytes over a value of `len` bytes is two charges: `storage_write` over the new length,
then `new_storage_per_byte` for exactly the bytes the value grows by — zero when it shrinks or keeps its size -/
theorem write_charges (sch : Schedule) (args : List Nat) (hot len n w c : Nat) (l : SLen) (p : Plan)
    (hp : p.stop = none) (hc : p.complete = true) (hl : slenEval args len l = some n)
    (hw : sch.depTotal storageWriteGetter n = .ok w) (hb : sch.word storageNewBytesGetter = .ok c) :
    (slotStep sch args hot len p (.write l)).charges = p.charges ++ [w, satMul c (n - len)] ∧
    (n ≤ len → satMul c (n - len) = 0) := by
  constructor
  · simp only [slotStep, hl, Plan.add, hp, hc, hw, hb, List.append_assoc, List.cons_append, List.nil_append]
  · intro hle
    have : n - len = 0 := by omega
    rw [this]; simp [satMul]

/-- word padding: the next multiple of 8, within 7 bytes, or `none` when it does not fit a word -/
theorem paddedLen_spec (n : Nat) :
    (∀ p, paddedLen n = some p → p % 8 = 0 ∧ n ≤ p ∧ p < n + 8 ∧ (n % 8 = 0 → p = n)) ∧
    (paddedLen n = none → n + 7 > wordMax) := by
  unfold paddedLen
  constructor
  · intro p hp
    split at hp
    · cases hp; omega
    · split at hp
      · cases hp
      · cases hp; omega
  · intro hn
    split at hn
    · cases hn
    · split at hn
      · omega
      · cases hn

/-- CALL's dependent charge is over the word-PADDED code length of the callee (CSIZ / CROO: the stored length;
CCP / BLDD: the larger of stored and requested length; LDC: by mode, the requested length padded) -/
theorem dependent_units_spec (args : List Nat) (len e : Nat) :
    dependentUnits "CALL" args [1, len, e] = some (paddedLen len) ∧
    dependentUnits "CSIZ" args [1, len] = some (some len) ∧ dependentUnits "CROO" args [1, len] = some (some len) ∧
    dependentUnits "BSIZ" args [1, len] = some (some len) ∧
    dependentUnits "CCP" args [1, len] = some (some (max len (args.getD 3 0))) ∧
    dependentUnits "BLDD" args [1, len] = some (some (max len (args.getD 3 0))) ∧
    (args.getD 3 0 = 2 → args.getD 2 0 = 0 → dependentUnits "LDC" args [] = none) := by
  refine ⟨by simp [dependentUnits, storedLen], by simp [dependentUnits, storedLen], by simp [dependentUnits, storedLen],
    by simp [dependentUnits, storedLen], by simp [dependentUnits, storedLen], by simp [dependentUnits, storedLen], ?_⟩
  intro h3 h2
  have h3' : args[3]?.getD 0 = 2 := by simpa using h3
  have h2' : args[2]?.getD 0 = 0 := by simpa using h2
  simp [dependentUnits, h3', h2']

/-! ### the other `GasCostsValues` versions -/

/-- obligation on the generated getter table (complete finite check): every getter of `impl GasCostsValues` has an
arm for each of V1 … V7; a field arm names a field of that version's struct of the getter's type; an old version's
`Word` field is wrapped as a heavy operation only by `DependentCost` getters; `Err(GasCostNotDefined)` arms occur
only in getters returning `Result`. -/
theorem getters_wellformed :
    (gasGetters.all fun g =>
      g.2.2.2.length == 7 &&
      (List.range 7).all fun k =>
        match g.2.2.2[k]?, gasVersionFields[k]? with
        | some (.field f), some fs => fs.lookup f == some g.2.1
        | some (.heavy0 f), some fs => g.2.1 && fs.lookup f == some false
        | some .undef, some _ => g.2.2.1
        | _, _ => false) = true := by
  decide +kernel

/-- the getters the VM charges through: one per opcode, the storage micro-operations, the new-entry surcharge -/
def chargedGetters : List (String × Bool) :=
  (opcodeCharge.filterMap fun p =>
    match p.2 with
    | .none => none
    | .fixed g | .fixedOpt g => some (g, false)
    | .dep g _ | .depOpt g _ | .baseThenDep g | .baseThenDepOpt g => some (g, true)) ++
  [(storageReadHotGetter, true), (storageReadColdGetter, true), (storageWriteGetter, true), (storageClearGetter, true),
   (storageNewBytesGetter, false), (newEntryGetter, false)]

/-- under `GasCostsValues::V7` every getter the VM charges through is defined — no instruction can fail with
GasCostNotDefined —, and each is of the kind (`Word` / `DependentCost`) its charge site uses, in every version -/
theorem v7_charged_getters_defined :
    (chargedGetters.all fun g =>
      (v7Field g.1).isSome && ((gasGetters.lookup g.1).map (·.1) == some g.2)) = true := by
  decide +kernel

/-- with the complete V7 default table every getter resolves: no plan under the default schedule stops -/
theorem default_schedule_resolves :
    (chargedGetters.all fun g =>
      if g.2 then (defaultSchedule.depc g.1).toOption.isSome else (defaultSchedule.word g.1).toOption.isSome) = true := by
  decide +kernel

-- V6 has no `storage_read_*` entries: a storage read under an old schedule charges `noop` and then fails GasCostNotDefined
example : let p := chargePlan { defaultSchedule with version := 6 } "SRW" [0, 0, 0, 0] [0, 8]
    p.charges = [1] ∧ p.stop = some .gasCostNotDefined := by decide +kernel
-- V1: `aloc` is a `Word`, served as `HeavyOperation { base, gas_per_unit: 0 }`
example : (({ fixed := [("aloc", 5)], dep := [], version := 1 } : Schedule).depc "aloc").toOption = some (.heavy 5 0) := by decide +kernel
-- storage plans: SWW on a cold unset slot = noop, cold read over 0 bytes, write over 32, 32 new bytes
example : (chargePlan defaultSchedule "SWW" [0, 0, 0] [0, 0]).charges.length = 4 := by decide +kernel
-- SWWQ over 2 slots of a range of 3 whose third key would pass 2^256: incomplete
example : (chargePlan defaultSchedule "SWWQ" [0, 0, 0, 3] [0, 0, 1, 32]).complete = false := by decide +kernel

end FuelVerif.Gas
