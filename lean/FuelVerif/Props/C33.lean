/-
C33 — Contract storage instructions behave like a key-value map.

  "For every sequence of storage instructions (word and 32-byte-slot reads and writes, range clears,
   dynamic-length reads, writes, updates and size queries) executed by contracts, each read returns the
   value a plain key-value map would hold after the preceding writes and clears of the same contract
   (zero-filled and flagged when absent), each write or clear is reflected in persistent storage exactly,
   out-of-bounds slices panic as specified, and the in-transaction read cache never changes any result,
   only the gas charged."

Shape of the proof. `St` carries the persistent table, the slot cache and a switch `cacheOn`; with
`cacheOn = false` every lookup misses, i.e. the same instruction code runs directly on the persistent
table: that is the plain key-value map (its primitive reads/writes/clears are characterised in closed
form below). `Rel s t` relates a state with a coherent cache to a cache-less state with the same tables.
Every instruction, and hence every history of instructions and transaction boundaries (commit / revert,
cache reset) of any length, over any number of contracts, preserves `Rel` and produces the same
observable results on both sides (`history_refines`).
-/
import FuelVerif.Lemmas.Storage
namespace FuelVerif.Storage
open FuelVerif

/-! ## 1. the plain map: closed forms of the cache-less primitives -/

/-- a read returns the persistent value and changes nothing -/
theorem read_refines {t : St} (ht : t.cacheOn = false) (k : Slot) :
    (readSlot t k).2 = t.store k ∧ (readSlot t k).1.store = t.store := by
  obtain ⟨a, b, -⟩ := readSlot_plain ht k
  exact ⟨a, b⟩

/-- with a coherent cache a read returns the persistent value too (hit or miss) -/
theorem read_coherent {s : St} (hc : Coherent s) (k : Slot) :
    (readSlot s k).2 = s.store k ∧ (readSlot s k).1.store = s.store ∧ Coherent (readSlot s k).1 := by
  have hr : Rel s { s with cacheOn := false } := ⟨hc, rfl, rfl, rfl⟩
  obtain ⟨e, hc', hs', -, -⟩ := readSlot_sim hr k
  obtain ⟨p1, p2, -⟩ := readSlot_plain (t := { s with cacheOn := false }) rfl k
  exact ⟨by rw [e, p1], by rw [hs', p2], hc'⟩

/-- **each write is reflected in persistent storage exactly**: slot `k` becomes `v`, every other slot keeps its
value; a value longer than the maximum slot length panics `StorageOutOfBounds` and stores nothing -/
theorem write_refines (maxLen : Nat) {t : St} (ht : t.cacheOn = false) (k : Slot) (v : Bytes) :
    (v.length ≤ maxLen → (writeSlot maxLen t k v).2 = .ok () ∧
        ∀ k', (writeSlot maxLen t k v).1.store k' = if k' = k then some v else t.store k') ∧
    (maxLen < v.length → (writeSlot maxLen t k v).2 = .error .StorageOutOfBounds ∧ (writeSlot maxLen t k v).1.store = t.store) := by
  obtain ⟨h1, h2⟩ := writeSlot_plain maxLen ht k v
  refine ⟨fun h => ?_, h2⟩
  obtain ⟨a, b⟩ := h1 h
  exact ⟨a, fun k' => by rw [b]; rfl⟩

/-- **range clear, including the 2^256 boundary**: `TooManySlots` exactly when more than one slot is requested and
the last key would pass `2^256 - 1`; otherwise exactly the slots `key … key+range-1` of that contract are
removed (and recorded as absent in the cache), everything else is untouched -/
theorem range_clear_spec (s : St) (cid : Bytes) (key range : Nat) (hk : key < U256) :
    (range > 1 ∧ key + (range - 1) ≥ U256 → clearRange s cid key range = (s, .error .TooManySlots)) ∧
    (¬ (range > 1 ∧ key + (range - 1) ≥ U256) → ∃ s', clearRange s cid key range = (s', .ok ()) ∧
      (∀ k', s'.store k' = if k'.1 = cid ∧ key ≤ k'.2 ∧ k'.2 < key + range then none else s.store k') ∧
      (∀ k', s'.cache k' = if k'.1 = cid ∧ key ≤ k'.2 ∧ k'.2 < key + range then some none else s.cache k')) := by
  refine ⟨clearRange_err s cid key range, fun h => ?_⟩
  obtain ⟨s', e, h1, h2, -, -⟩ := clearRange_ok s cid key range hk h
  exact ⟨s', e, h1, h2⟩

/-- **out-of-bounds slices panic as specified** (SRDD/SRDI on a present slot, operands below 2^32):
`StorageOutOfBounds` iff `offset + len` exceeds the stored length, otherwise exactly the slice -/
theorem slice_oob_iff {t : St} (ht : t.cacheOn = false) (cid : Bytes) (key off len : Nat) (value : Bytes)
    (ho : off < 2 ^ 32) (hl : len < 2 ^ 32) (hv : t.store (cid, key) = some value) :
    (value.length < off + len → (srdd t cid key off len).2 = .error .StorageOutOfBounds) ∧
    (off + len ≤ value.length → (srdd t cid key off len).2 = .ok (some ((value.drop off).take len))) := by
  unfold srdd toUsize readSlot
  rw [cacheGet_off ht]
  have hb : Gen.StorageSites.toUsizeBits = 32 := rfl
  simp only [hb, ho, hl, if_true, hv]
  have hs : satAdd off len = off + len := by
    unfold satAdd U64_MAX
    have : ¬ off + len > 2 ^ 64 - 1 := by omega
    simp [this]
  rw [hs]
  constructor
  · intro h
    have : ¬ off + len ≤ value.length := by omega
    simp [this]
  · intro h
    simp [h]

/-- absent slots: SRDD sets `$err` and stores nothing, SRW gives `(0, 0)`, SPLD gives `(0, 1)`, SRWQ zero-fills
and clears the flag -/
theorem absent_reads {t : St} (ht : t.cacheOn = false) (cid : Bytes) (key off len : Nat)
    (ho : off < 2 ^ 32) (hl : len < 2 ^ 32) (hk : key < U256) (hv : t.store (cid, key) = none) :
    (srdd t cid key off len).2 = .ok none ∧ (srw t cid key off).2 = .ok (0, 0) ∧ (spld t cid key).2 = (0, 1) ∧
    (srwq t cid key 1).2 = .ok (zeros 32, 0) := by
  refine ⟨?_, ?_, ?_, ?_⟩
  · unfold srdd toUsize readSlot; rw [cacheGet_off ht]
    have hb : Gen.StorageSites.toUsizeBits = 32 := rfl
    simp [hb, ho, hl, hv]
  · unfold srw readSlot; rw [cacheGet_off ht]; simp [hv]
  · unfold spld readSlot; rw [cacheGet_off ht]; simp [hv]
  · have h1 : keyRange key 1 = [some key] := by simp [keyRange, hk]
    have hu : toUsize 1 = some 1 := by decide
    unfold srwq
    rw [hu]
    simp only [h1, srwqLoop, readSlot]
    rw [cacheGet_off ht]
    simp only [hv]
    rfl

/-! ## 2. every instruction preserves the simulation -/

theorem srw_sim {s t : St} (h : Rel s t) (cid : Bytes) (key off : Nat) : Sim (srw s cid key off) (srw t cid key off) := by
  obtain ⟨s1, t1, v, e1, e2, h1⟩ := (readSlot_sim h (cid, key)).elim
  unfold srw
  rw [e1, e2]
  cases v with
  | none => exact ⟨rfl, h1⟩
  | some bytes =>
    simp only
    split <;> exact ⟨rfl, h1⟩

theorem srwqLoop_sim (cid : Bytes) (keys : List (Option Nat)) : ∀ {s t : St}, Rel s t → ∀ (acc : Bytes) (flag : Bool),
    Sim (srwqLoop s cid keys acc flag) (srwqLoop t cid keys acc flag) := by
  induction keys with
  | nil => intro s t h acc flag; exact ⟨rfl, h⟩
  | cons k rest ih =>
    intro s t h acc flag
    cases k with
    | none => exact ⟨rfl, h⟩
    | some k =>
      obtain ⟨s1, t1, v, e1, e2, h1⟩ := (readSlot_sim h (cid, k)).elim
      simp only [srwqLoop]
      rw [e1, e2]
      cases v with
      | none => exact ih h1 _ _
      | some bytes =>
        simp only
        split
        · exact ⟨rfl, h1⟩
        · exact ih h1 _ _

theorem srwq_sim {s t : St} (h : Rel s t) (cid : Bytes) (key range : Nat) : Sim (srwq s cid key range) (srwq t cid key range) := by
  unfold srwq
  cases toUsize range with
  | none => exact ⟨rfl, h⟩
  | some r => exact srwqLoop_sim cid _ h _ _

theorem sww_sim (maxLen : Nat) {s t : St} (h : Rel s t) (cid : Bytes) (key w : Nat) :
    Sim (sww maxLen s cid key w) (sww maxLen t cid key w) := by
  obtain ⟨s1, t1, v, e1, e2, h1⟩ := (readSlot_sim h (cid, key)).elim
  obtain ⟨s2, t2, r, f1, f2, h2⟩ := (writeSlot_sim maxLen h1 (cid, key) (natBE 8 w ++ zeros 24)).elim
  unfold sww
  rw [e1, e2]
  simp only
  rw [f1, f2]
  cases r with
  | error e => exact ⟨rfl, h2⟩
  | ok u => exact ⟨rfl, h2⟩

theorem swwqLoop_sim (maxLen : Nat) (cid : Bytes) (keys : List (Option Nat)) : ∀ {s t : St}, Rel s t → ∀ (vals : List Bytes) (n : Nat),
    Sim (swwqLoop maxLen s cid keys vals n) (swwqLoop maxLen t cid keys vals n) := by
  induction keys with
  | nil => intro s t h vals n; exact ⟨rfl, h⟩
  | cons k rest ih =>
    intro s t h vals n
    cases k with
    | none => exact ⟨rfl, h⟩
    | some k =>
      obtain ⟨s1, t1, v, e1, e2, h1⟩ := (readSlot_sim h (cid, k)).elim
      obtain ⟨s2, t2, r, f1, f2, h2⟩ := (writeSlot_sim maxLen h1 (cid, k) (vals.headD [])).elim
      simp only [swwqLoop]
      rw [e1, e2]
      simp only
      rw [f1, f2]
      cases r with
      | error e => exact ⟨rfl, h2⟩
      | ok u => exact ih h2 _ _

theorem swwq_sim (maxLen : Nat) {s t : St} (h : Rel s t) (cid : Bytes) (key range : Nat) (vals : List Bytes) :
    Sim (swwq maxLen s cid key range vals) (swwq maxLen t cid key range vals) := by
  unfold swwq
  cases toUsize range with
  | none => exact ⟨rfl, h⟩
  | some r => exact swwqLoop_sim maxLen cid _ h _ _

theorem scwqLoop_sim (cid : Bytes) (keys : List (Option Nat)) : ∀ {s t : St}, Rel s t → ∀ (flag : Bool),
    Sim (scwqLoop s cid keys flag) (scwqLoop t cid keys flag) := by
  induction keys with
  | nil => intro s t h flag; exact ⟨rfl, h⟩
  | cons k rest ih =>
    intro s t h flag
    cases k with
    | none => exact ⟨rfl, h⟩
    | some k =>
      obtain ⟨s1, t1, v, e1, e2, h1⟩ := (readSlot_sim h (cid, k)).elim
      simp only [scwqLoop]
      rw [e1, e2]
      exact ih h1 _

theorem scwq_sim {s t : St} (h : Rel s t) (cid : Bytes) (key range : Nat) (hk : key < U256) :
    Sim (scwq s cid key range) (scwq t cid key range) := by
  unfold scwq
  cases toUsize range with
  | none => exact ⟨rfl, h⟩
  | some r =>
    simp only
    obtain ⟨s1, t1, fl, e1, e2, h1⟩ := (scwqLoop_sim cid (keyRange key r) h true).elim
    rw [e1, e2]
    cases fl with
    | error e => exact ⟨rfl, h1⟩
    | ok flag =>
      simp only
      obtain ⟨s2, t2, r2, f1, f2, h2⟩ := (clearRange_sim h1 cid key r hk).elim
      rw [f1, f2]
      cases r2 with
      | error e => exact ⟨rfl, h2⟩
      | ok u => exact ⟨rfl, h2⟩

theorem sclr_sim {s t : St} (h : Rel s t) (cid : Bytes) (key range : Nat) (hk : key < U256) :
    Sim (sclr s cid key range) (sclr t cid key range) := by
  unfold sclr
  cases toUsize range with
  | none => exact ⟨rfl, h⟩
  | some r => exact clearRange_sim h cid key r hk

theorem srdd_sim {s t : St} (h : Rel s t) (cid : Bytes) (key off len : Nat) :
    Sim (srdd s cid key off len) (srdd t cid key off len) := by
  unfold srdd
  cases toUsize off with
  | none => exact ⟨rfl, h⟩
  | some o =>
    cases toUsize len with
    | none => exact ⟨rfl, h⟩
    | some l =>
      simp only
      obtain ⟨s1, t1, v, e1, e2, h1⟩ := (readSlot_sim h (cid, key)).elim
      rw [e1, e2]
      cases v with
      | none => exact ⟨rfl, h1⟩
      | some value =>
        simp only
        split <;> exact ⟨rfl, h1⟩

theorem supd_sim (maxLen : Nat) {s t : St} (h : Rel s t) (cid : Bytes) (key off : Nat) (src : Bytes) :
    Sim (supd maxLen s cid key off src) (supd maxLen t cid key off src) := by
  obtain ⟨s1, t1, v, e1, e2, h1⟩ := (readSlot_sim h (cid, key)).elim
  unfold supd
  rw [e1, e2]
  simp only
  split
  · exact ⟨rfl, h1⟩
  · split
    · exact ⟨rfl, h1⟩
    · split
      · exact ⟨rfl, h1⟩
      · exact writeSlot_sim maxLen h1 _ _

theorem spld_sim {s t : St} (h : Rel s t) (cid : Bytes) (key : Nat) : Sim (spld s cid key) (spld t cid key) := by
  obtain ⟨s1, t1, v, e1, e2, h1⟩ := (readSlot_sim h (cid, key)).elim
  unfold spld
  rw [e1, e2]
  cases v <;> exact ⟨rfl, h1⟩

/-- slot keys come from 32 bytes of memory: they are below 2^256 -/
def Op.WF : Op → Prop
  | .scwq _ key _ => key < U256
  | .sclr _ key _ => key < U256
  | _ => True

instance (op : Op) : Decidable op.WF := by
  cases op <;> simp only [Op.WF] <;> infer_instance

theorem sim_map {α β : Type} {x y : St × α} (h : Sim x y) (f : α → β) : Sim (x.1, f x.2) (y.1, f y.2) :=
  ⟨by rw [h.1], h.2⟩

/-- **one instruction (or transaction boundary)**: same observable result with and without the cache, and the
cache stays coherent -/
theorem step_sim (maxLen : Nat) {s t : St} (h : Rel s t) (op : Op) (hw : op.WF) :
    Sim (step maxLen s op) (step maxLen t op) := by
  cases op with
  | srw cid key off => exact sim_map (srw_sim h cid key off) _
  | srwq cid key range => exact sim_map (srwq_sim h cid key range) _
  | sww cid key w => exact sim_map (sww_sim maxLen h cid key w) _
  | swwq cid key range vals => exact sim_map (swwq_sim maxLen h cid key range vals) _
  | scwq cid key range => exact sim_map (scwq_sim h cid key range hw) _
  | sclr cid key range => exact sim_map (sclr_sim h cid key range hw) _
  | srdd cid key off len => exact sim_map (srdd_sim h cid key off len) _
  | swrd cid key v => exact sim_map (writeSlot_sim maxLen h (cid, key) v) _
  | supd cid key off src => exact sim_map (supd_sim maxLen h cid key off src) _
  | spld cid key => exact sim_map (spld_sim h cid key) (fun r => Out.regs r.1 r.2)
  | tx revert =>
    obtain ⟨hc, hs, hm, ht⟩ := h
    cases revert with
    | true =>
      refine ⟨rfl, ?_, ?_, hm, ht⟩
      · intro k v hv; simp [step] at hv
      · simp [step, hm]
    | false =>
      refine ⟨rfl, ?_, ?_, ?_, ht⟩
      · intro k v hv; simp [step] at hv
      · simp [step, hs]
      · simp [step, hs]

/-- **coherence invariant**: every instruction keeps every cached entry equal to the persistent value -/
theorem coherent_step (maxLen : Nat) {s : St} (hc : Coherent s) (op : Op) (hw : op.WF) :
    Coherent (step maxLen s op).1 :=
  (step_sim maxLen (t := { s with cacheOn := false }) ⟨hc, rfl, rfl, rfl⟩ op hw).2.1

/-- **histories of any length**: the cached interpreter and the plain map produce the same list of results and
end with the same persistent (and committed) tables -/
theorem history_refines (maxLen : Nat) (ops : List Op) : ∀ {s t : St}, Rel s t → (∀ op ∈ ops, op.WF) →
    (run maxLen s ops).2 = (run maxLen t ops).2 ∧ Rel (run maxLen s ops).1 (run maxLen t ops).1 := by
  induction ops with
  | nil => intro s t h _; exact ⟨rfl, h⟩
  | cons op rest ih =>
    intro s t h hw
    obtain ⟨s1, t1, o, e1, e2, h1⟩ := (step_sim maxLen h op (hw op (List.mem_cons_self))).elim
    obtain ⟨r1, r2⟩ := ih h1 (fun o ho => hw o (List.mem_cons_of_mem _ ho))
    simp only [run, e1, e2]
    exact ⟨by rw [r1], r2⟩

/-- **the in-transaction read cache never changes any result**: from the same tables, any history gives the same
results and the same final persistent storage whether the cache is used, not used, or (coherently)
pre-populated in any way -/
theorem cache_affects_only_gas (maxLen : Nat) (ops : List Op) (s : St) (hc : Coherent s) (hw : ∀ op ∈ ops, op.WF) :
    (run maxLen s ops).2 = (run maxLen { s with cacheOn := false } ops).2 ∧
    (run maxLen s ops).1.store = (run maxLen { s with cacheOn := false } ops).1.store ∧
    Coherent (run maxLen s ops).1 := by
  obtain ⟨a, b, c, -, -⟩ := history_refines maxLen ops (s := s) (t := { s with cacheOn := false }) ⟨hc, rfl, rfl, rfl⟩ hw
  exact ⟨a, c, b⟩

/-- the empty cache is coherent (state at the start of every transaction) -/
theorem coherent_empty (b : Bool) : Coherent (St.empty b) := by
  intro k v hv; simp [St.empty] at hv

/-! ## 3. static obligation on the source (regenerated on every run) -/

/-- the functions the model transcribes (plus the two facilities that are not instruction semantics: contract
deployment, which initialises slots before any script runs, and the `diff` / bench accessors) -/
def modelledWriters : List (String × String) :=
  [("interpreter/storage.rs", "storage_read_slot"), ("interpreter/storage.rs", "storage_slot_len_no_gas"),
   ("interpreter/storage.rs", "storage_write_slot"), ("interpreter/storage.rs", "storage_clear_slot_range"),
   ("interpreter/initialization.rs", "init_inner"),
   ("storage/interpreter.rs", "contract_state_remove_range"), ("storage/interpreter.rs", "deploy_contract_with_id"),
   ("interpreter/diff/storage.rs", "contract_state_remove_range"), ("interpreter/diff/storage.rs", "reset_vm_state"),
   ("interpreter.rs", "bench_storage_slot_cache_mut")]

/-- **every write to the contract-state table or the slot cache in fuel-vm/src happens inside a modelled function**
(complete list extracted from the Rust text by the translator `storagesites`) -/
theorem write_sites_closed :
    Gen.StorageSites.sites.all (fun s => modelledWriters.contains (s.1, s.2.1)) = true ∧
    (Gen.StorageSites.sites.filter (fun s => s.1 == "interpreter/storage.rs")).length = 6 := by decide

/-! ## non-vacuity -/

private def cA : Bytes := [0xA0]
private def topKey : Nat := U256 - 2
private def h1 : List Op :=
  [.sww cA 5 7, .srw cA 5 0, .swrd cA 6 [1, 2, 3], .srdd cA 6 1 2, .srdd cA 6 2 2, .supd cA 6 U64_MAX [9],
   .srdd cA 6 0 4, .sclr cA 5 2, .srw cA 5 0, .spld cA 6, .tx true, .srw cA 5 0, .scwq cA topKey 3, .srwq cA topKey 2]

example : ∀ op ∈ h1, op.WF := by decide
example : (run 72 (St.empty true) h1).2 =
    [.flag 1, .regs 7 1, .unit, .dyn (some [2, 3]), .panic .StorageOutOfBounds, .unit, .dyn (some [1, 2, 3, 9]), .unit,
     .regs 0 0, .regs 0 1, .unit, .regs 0 0, .panic .TooManySlots, .mem (zeros 64) 0] := by decide
example : (run 72 (St.empty true) h1).2 = (run 72 (St.empty false) h1).2 := by decide
/-- an incoherent cache DOES change results (so `Coherent` is a real hypothesis) -/
example : (run 72 { St.empty true with cache := fun _ => some (some [1, 1, 1, 1, 1, 1, 1, 1]) } [.srw cA 5 0]).2 ≠
    (run 72 (St.empty false) [.srw cA 5 0]).2 := by decide

end FuelVerif.Storage
