/-
C11, the obligation that needs repo-patches/fix-C11-reset-leaves-count.diff: on the code without it
the `decide` fails ⇒ this module does not build ⇒ the check reports the broken obligation together
with the failing history found by stream c11 (DESIGN §6 F4).
-/
import FuelVerif.Props.C11
namespace FuelVerif.BMT
open FuelVerif

/-- `MerkleTree::reset` zeroes `leaves_count` in the source (regenerated flag) -/
theorem reset_fixed_in_source : Gen.BinaryMerkle.resetZeroesLeavesCount = true := by decide

/-- the model's `reset` (which follows the source) is the fixed one the C11 theorems are about -/
theorem reset_is_fixed (t : Tree) : t.reset = t.resetWith true := by
  unfold Tree.reset; rw [reset_fixed_in_source]

end FuelVerif.BMT
