/-
C12 — Sparse Merkle root depends only on the final key-value map.

  "For any history of inserts, overwrites and deletes, the sparse Merkle tree's root equals the compact
   sparse Merkle root (leaf = H(0x00, key, H(value)), node = H(0x01, left, right), empty subtree = 32
   zero bytes, single-leaf subtrees not expanded) of the key-value map the history leaves behind.
   Building from a set, computing the root from a set, and computing nodes from a set give that same
   root."

Proved here on the structural layer (`Model/SparseTree.lean`: the compact tree with `insert`/`delete`
by descent on the key bits), for every key width `n`, every key type whose keys are determined by
their `n` bits, every hash function and every history. The storage-level transcription of the Rust code
(`Model/SparseStore.lean`: `path_set`, `update_with_path_set`, `delete_with_path_set`, `from_set`,
`merge_branches` over a node store) is PROVED to refine this layer for every history
(`Props/C12Store.lean`: `store_history_rep`, `store_root_history`; the from_set clause in
`Props/C12FromSet.lean`), and is tied to the Rust code by the correspondence stream `c12` (root after every
operation, node store digest, `specRoot` of the final map, from_set / root_from_set / nodes_from_set).
-/
import FuelVerif.Lemmas.SparseTree
import FuelVerif.Lemmas.SparseBytes
namespace FuelVerif.Smt
open Tree

variable {K V Hh : Type} [DecidableEq K] (bit : K → Nat → Bool) (n : Nat)

/-- invariant of a history, generalised over the start state: the tree stays canonical and `get`
follows the abstract map -/
theorem foldl_invariant (hext : KeyExt bit n) :
    ∀ (ops : List (Op K V)) (t : Tree K V) (m : K → Option V),
      Canon bit n 0 t → (∀ q, get bit 0 q t = m q) →
      Canon bit n 0 (ops.foldl (applyOp bit n) t) ∧
        ∀ q, get bit 0 q (ops.foldl (applyOp bit n) t) = ops.foldl mapStep m q
  | [], _, _, hc, hg => ⟨hc, hg⟩
  | op :: ops, t, m, hc, hg => by
    simp only [List.foldl_cons]
    have hall : ∀ k : K, t.All (AgreeBelow bit 0 k) :=
      fun k => All.of_forall (fun _ i hi => absurd hi (Nat.not_lt_zero i)) t
    apply foldl_invariant hext ops
    · cases op with
      | ins k v => exact (canon_insert bit n hext v 0 t (Nat.zero_le n) hc (hall k)).1
      | del k => exact canon_delete bit n k 0 t hc
    · intro q
      cases op with
      | ins k v =>
        simp only [applyOp, mapStep]
        rw [get_insert bit n hext v q 0 t (Nat.zero_le n) hc (hall k), hg q]
        by_cases e : k = q
        · subst e; simp
        · have e' : q ≠ k := fun h => e h.symm
          simp [e, e']
      | del k =>
        simp only [applyOp, mapStep]
        rw [get_delete bit n k q 0 t hc, hg q]
        by_cases e : k = q
        · subst e; simp
        · have e' : q ≠ k := fun h => e h.symm
          simp [e, e']

/-- after any history the tree is in canonical (compact) form -/
theorem run_canon (hext : KeyExt bit n) (ops : List (Op K V)) : Canon bit n 0 (run bit n ops) :=
  (foldl_invariant bit n hext ops .empty (fun _ => none) trivial (fun _ => rfl)).1

/-- after any history the tree holds exactly the key-value map the history leaves behind -/
theorem run_get (hext : KeyExt bit n) (ops : List (Op K V)) (q : K) :
    get bit 0 q (run bit n ops) = finalMap ops q :=
  (foldl_invariant bit n hext ops .empty (fun _ => none) trivial (fun _ => rfl)).2 q

/-- **C12, history clause.** For every history, every hash function and EVERY duplicate-free listing
`S` of the key-value map the history leaves behind (in any order), the root of the tree equals the
compact sparse Merkle root of `S`. -/
theorem root_history (hext : KeyExt bit n) (P : Hashes K V Hh) (ops : List (Op K V))
    (S : List (K × V)) (hS : KeysNodup S) (hag : ∀ q, lookup q S = finalMap ops q) :
    specRoot bit P n 0 S = some ((run bit n ops).hash P) := by
  have := spec_of_agree bit n P (run bit n ops) 0 S (Nat.zero_le n) (run_canon bit n hext ops) hS
    (fun q => by rw [hag q, run_get bit n hext ops q])
  simpa using this

/-- the association list computed alongside a history is a duplicate-free listing of its final map -/
theorem finalList_spec :
    ∀ (ops : List (Op K V)) (S : List (K × V)) (m : K → Option V),
      KeysNodup S → (∀ q, lookup q S = m q) →
      KeysNodup (ops.foldl (fun S op => match op with
        | .ins k v => alInsert k v S
        | .del k => alErase k S) S) ∧
      ∀ q, lookup q (ops.foldl (fun S op => match op with
        | .ins k v => alInsert k v S
        | .del k => alErase k S) S) = ops.foldl mapStep m q
  | [], _, _, h1, h2 => ⟨h1, h2⟩
  | op :: ops, S, m, h1, h2 => by
    simp only [List.foldl_cons]
    apply finalList_spec ops
    · cases op with
      | ins k v => exact keysNodup_alInsert k v S h1
      | del k => exact keysNodup_alErase k S h1
    · intro q
      cases op with
      | ins k v =>
        simp only [alInsert, lookup, mapStep, lookup_alErase, h2 q]
        by_cases e : k = q
        · subst e; simp
        · have e' : q ≠ k := fun h => e h.symm
          simp [e, e']
      | del k =>
        simp only [mapStep, lookup_alErase, h2 q]
        by_cases e : k = q
        · subst e; simp
        · have e' : q ≠ k := fun h => e h.symm
          simp [e, e']

/-- concrete form: the root equals the compact root of the association list the history leaves -/
theorem root_finalList (hext : KeyExt bit n) (P : Hashes K V Hh) (ops : List (Op K V)) :
    specRoot bit P n 0 (finalList ops) = some ((run bit n ops).hash P) := by
  have h := finalList_spec ops [] (fun _ => none) (by simp [KeysNodup]) (fun _ => rfl)
  exact root_history bit n hext P ops (finalList ops) h.1 h.2

/-- the free hash: trees themselves -/
def freeHashes : Hashes K V (Tree K V) := ⟨.empty, .leaf, .node⟩

theorem hash_free : ∀ t : Tree K V, t.hash freeHashes = t
  | .empty => rfl
  | .leaf _ _ => rfl
  | .node l r => by
    have hl := hash_free l
    have hr := hash_free r
    simp only [Tree.hash, freeHashes] at hl hr ⊢
    rw [hl, hr]

/-- **the tree (hence the root, for every hash function) depends only on the final map**: two
histories that leave the same key-value map behind produce the identical tree -/
theorem tree_depends_only_on_map (hext : KeyExt bit n) (ops₁ ops₂ : List (Op K V))
    (h : ∀ q, finalMap ops₁ q = finalMap ops₂ q) : run bit n ops₁ = run bit n ops₂ := by
  have l := finalList_spec ops₁ [] (fun _ => none) (by simp [KeysNodup]) (fun _ => rfl)
  have h1 := root_history bit n hext (freeHashes (K := K) (V := V)) ops₁ (finalList ops₁) l.1 l.2
  have h2 := root_history bit n hext (freeHashes (K := K) (V := V)) ops₂ (finalList ops₁) l.1
    (fun q => by rw [← h q]; exact l.2 q)
  rw [h1] at h2
  simpa [hash_free] using h2

theorem root_depends_only_on_map (hext : KeyExt bit n) (P : Hashes K V Hh)
    (ops₁ ops₂ : List (Op K V)) (h : ∀ q, finalMap ops₁ q = finalMap ops₂ q) :
    (run bit n ops₁).hash P = (run bit n ops₂).hash P := by
  rw [tree_depends_only_on_map bit n hext ops₁ ops₂ h]

/-! ### at fuel-merkle's concrete types (32-byte keys MSB first, the statement's hash constructors) -/

open FuelVerif.SmtBytes FuelVerif.Gen.Sparse in
/-- **C12 for 32-byte keys and the statement's hashes** (`SmtBytes.hashes_match_statement`: leaf =
H(0x00‖key‖H(value)), node = H(0x01‖l‖r), empty = 32 zero bytes; `SmtBytes.keyExt_bytes`): for every
hash function with 32-byte output, every history over 32-byte keys and every duplicate-free listing `S`
of its final map, the root is the compact sparse Merkle root of `S` over the 256 key bits. -/
theorem root_history_bytes (H : Bytes → Bytes) (hl : ∀ x, (H x).length = keyBytes)
    (ops : List (Op Key32 Hash32)) (S : List (Key32 × Hash32)) (hS : KeysNodup S)
    (hag : ∀ q, lookup q S = finalMap ops q) :
    specRoot bit32 (hashes32 H hl) 256 0 S = some ((run bit32 256 ops).hash (hashes32 H hl)) := by
  have := root_history bit32 width keyExt_bytes (hashes32 H hl) ops S hS hag
  rw [width_eq] at this
  exact this

/-- FULL STATEMENT of the from_set clause, on the storage-level transcription (`SmtStore.fromSet`,
`rootFromSet`, `nodesFromSet`); proved as `fromSetStatement_holds` in `Props/C12FromSet.lean` (and compared with
the real code, the reference root and `specRoot` by stream `c12`, `fromset` lines, on clustered sets, shuffled
and with duplicate keys). -/
def FromSetStatement (H : Bytes → Bytes) : Prop :=
  ∀ (set : List (Bytes × Bytes)), (∀ kv ∈ set, kv.1.length = FuelVerif.Gen.Sparse.keyBytes) →
    let m := set.foldl (fun m kv => alInsert kv.1 (H kv.2) m) []
    ∃ r, specRoot FuelVerif.SmtBytes.bitOf (FuelVerif.SmtBytes.hashes H) 256 0 m = some r ∧
      FuelVerif.SmtStore.rootFromSet H set = .ok r ∧
      (∃ nodes, FuelVerif.SmtStore.nodesFromSet H set = .ok (r, nodes))

end FuelVerif.Smt
