/-
Non-vacuity of the byte-level sparse Merkle theorems (C12, C13, C14) in their `NoCollisionOn` form: a concrete
toy hash function with 32-byte output (XOR of the 32-byte chunks of the input — certainly NOT collision-free in
general), a concrete lawful node table, and a concrete 3-operation history (insert, insert, delete) for which the
hypothesis `NoCollisionOn toyH (hashedInputs …)` is DECIDED true by the kernel; the theorems then apply as stated.
(`HashOK toyH` is false, as it is for every function with 32-byte output.)
-/
import FuelVerif.Props.C13
import FuelVerif.Props.C14
namespace FuelVerif.Smt.Toy
open FuelVerif FuelVerif.SmtStore FuelVerif.SmtBytes FuelVerif.SmtRefine FuelVerif.Gen.Sparse FuelVerif.Smt

/-- the `i`-th 32-byte chunk of `x`, zero padded -/
def chunk (x : Bytes) (i : Nat) : Bytes := ((x.drop (32 * i)) ++ List.replicate 32 0).take 32

/-- toy hash: XOR of the first three 32-byte chunks and the constant 0x5A -/
def toyH (x : Bytes) : Bytes :=
  List.zipWith (fun a b => a ^^^ b)
    (List.zipWith (fun a b => a ^^^ b ^^^ 0x5A) (chunk x 0) (chunk x 1)) (chunk x 2)

theorem chunk_len (x : Bytes) (i : Nat) : (chunk x i).length = 32 := by simp [chunk]

theorem toyH_len : ∀ x, (toyH x).length = keyBytes := by
  intro x; simp [toyH, chunk_len]; rfl

def k1 : Key32 := ⟨List.replicate 32 0, by decide⟩
def k2 : Key32 := ⟨0x80 :: List.replicate 31 0, by decide⟩

/-- insert the all-zero key, insert a key differing in the first bit, delete the first key (orphan-leaf
collapse) -/
def toyOps : List (Op Key32 Bytes) := [.ins k1 [1], .ins k2 [2], .del k1]

/-- **the hypothesis of the `_nc` theorems holds** for the toy hash on the toy history (kernel-checked) -/
theorem toy_noCollision : NoCollisionOn toyH (hashedInputs toyH toyH_len toyOps) := by decide +kernel

/-- C12 instance: all calls `Ok`, and `root()` of the transcribed algorithm is the compact sparse Merkle root of
the final map -/
theorem toy_root_history :
    AllOk toyH funStore (SMT.new (fun _ => none)) toyOps ∧
      (specRoot bit32 (hashes32 toyH toyH_len) 256 0
          (finalList (toyOps.map (hashOp toyH toyH_len)))).map Subtype.val =
        some (storeRun toyH funStore (fun _ => none) toyOps).rootHash :=
  have h := finalList_spec (toyOps.map (hashOp toyH toyH_len)) [] (fun _ => none) (by simp [KeysNodup])
    (fun _ => rfl)
  store_root_history_nc toyH funStore toyH_len funStore_laws _ toyOps toy_noCollision _ h.1 h.2

/-- C13 instance: the reached state is persisted, closed and reloads to itself -/
theorem toy_persist :
    RootPersisted toyH funStore (storeRun toyH funStore (fun _ => none) toyOps) ∧
      Closed toyH funStore (storeRun toyH funStore (fun _ => none) toyOps) ∧
      load toyH funStore (storeRun toyH funStore (fun _ => none) toyOps).storage
        (storeRun toyH funStore (fun _ => none) toyOps).rootHash =
          .ok (storeRun toyH funStore (fun _ => none) toyOps) :=
  store_persist_nc toyH funStore toyH_len funStore_laws _ toyOps toy_noCollision

/-- the hypothesis of the C14 soundness clause holds for the empty proof set, key `k2`, data `[2]` -/
theorem toy_noCollision_verify :
    NoCollisionOn toyH (hashedInputs toyH toyH_len toyOps ++
      inclusionInputs toyH toyH_len k2 ⟨toyH [2], toyH_len _⟩ []) := by decide +kernel

/-- C14 instance: acceptance of the (empty) inclusion proof for `k2` with data `[2]` implies the final map holds
`sum([2])` at `k2` -/
theorem toy_inclusion_sound
    (hacc : SmtStore.verifyInclusion toyH [] (storeRun toyH funStore (fun _ => none) toyOps).rootHash
      k2.val [2] = .ok true) :
    finalMap (toyOps.map (hashOp toyH toyH_len)) k2 = some ⟨toyH [2], toyH_len _⟩ :=
  (store_history_proofs_nc funStore toyH toyH_len funStore_laws (fun _ => none) toyOps k2
    toy_noCollision).choose_spec.2.2.2.2.1 [] [2] toy_noCollision_verify hacc

end FuelVerif.Smt.Toy
