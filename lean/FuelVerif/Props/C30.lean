/-
C30 — Execution touches only the state of contracts listed as inputs.

  "With the default verifier, executing a transaction reads or writes contract code, contract storage slots
   and contract balances only for contracts that appear among the transaction's contract inputs, and the
   contract whose context is active is always one of them. Predicate execution never reads or writes any
   contract state."

FINDING (F8, confirmed through the recording storage of stream `c30`): read strictly, the first sentence is FALSE
for CALL — `prepare_call` reads the code size of the callee (`contract_size`) before
`check_contract_in_inputs`, so a CALL to an unlisted contract reads that contract's code table (and reports
ContractNotFound instead of ContractNotInInputs when it does not exist). `strict_statement_false` proves the
negation on the model with a concrete witness; `access_in_inputs_partial` is the statement with exactly that
exception; every other site checks first (`only_call_accesses_before_check`, over the regenerated table).
-/
import FuelVerif.Model.Access
namespace FuelVerif.Access
open FuelVerif.Gen

/-- the model's site table is the order of accesses the translator extracted from the Rust text -/
theorem sites_match_code : sites.map (fun s => (s.fn, s.before, s.after)) = checkSites.map (fun x => (x.1, x.2.2.1, x.2.2.2)) := by
  decide

/-- every token the translator reports has a meaning in the model (no unknown access helper) -/
theorem tokens_known : (checkSites.all fun x => (x.2.2.1 ++ x.2.2.2).all fun t =>
    (tokenAccess t).isSome || t == "external_asset_id_balance_sub") = true := by decide

/-- every site of the model has a check that the translator verified (fail-closed) to be an UNCONDITIONAL top-level
statement `self.verifier.check_contract_in_inputs(self.panic_context, self.input_contracts, <id>)?;` whose `<id>` is
the very expression every access to the target contract takes — which is what `runSite` assumes when it checks and
accesses the same `target` on every path -/
theorem checks_unconditional_on_accessed_id :
    checkedIds.map (·.1) = sites.map (·.fn) ∧ (checkedIds.all fun x => !x.2.isEmpty) = true := by decide

/-- CALL is the only site with contract-state accesses before the check -/
theorem only_call_accesses_before_check :
    (sites.filter fun s => !(s.before.flatMap (fun t => (tokenAccess t).toList)).isEmpty).map (·.opcode) = ["CALL"] := by decide

/-- the strict statement for one checked instruction -/
def StrictStatement : Prop :=
  ∀ (s : Site), s ∈ sites → ∀ (inputs : List ContractId) (current : Option ContractId) (target : ContractId),
    (∀ c, current = some c → c ∈ inputs) →
    ∀ a ∈ (runSite s inputs current target).1, a.contract ∈ inputs

/-- **Finding**: the strict statement fails — CALL to an unlisted contract reads that contract's code size -/
theorem strict_statement_false : ¬ StrictStatement := by
  intro h
  have := h ⟨"prepare_call", "CALL", ["contract_size", "balance_decrease", "external_asset_id_balance_sub"], ["balance_increase", "read_exact"]⟩
    (by decide) [] none [1] (by intro c hc; cases hc) ⟨.code, [1]⟩ (by decide)
  simp at this

theorem resolve_mem {target : ContractId} {current : Option ContractId} {tok : String} {a : Access}
    (h : a ∈ resolve target current tok) : a.contract = target ∨ current = some a.contract := by
  unfold resolve at h
  split at h
  · cases h
  · simp only [List.mem_singleton] at h; left; rw [h]
  · split at h
    · simp only [List.mem_singleton] at h; right; rw [h]
    · cases h

/-- **The statement with its exception.** With the Normal verifier and the active contract among the inputs,
every contract-state access of a checked instruction goes to a listed contract — unless the instruction is a
CALL whose target is not listed, in which case the only foreign access is the read of the target's code size,
and the instruction then panics (ContractNotInInputs, or ContractNotFound from that very read). -/
theorem access_in_inputs_partial (s : Site) (hs : s ∈ sites) (inputs : List ContractId) (current : Option ContractId)
    (target : ContractId) (hcur : ∀ c, current = some c → c ∈ inputs) :
    ∀ a ∈ (runSite s inputs current target).1,
      a.contract ∈ inputs ∨
      (s.opcode = "CALL" ∧ target ∉ inputs ∧ a = ⟨.code, target⟩ ∧ (runSite s inputs current target).2 = true) := by
  intro a ha
  unfold runSite at ha ⊢
  by_cases hc : checkNormal inputs target = true
  · -- check passed: target is listed; everything resolves to target or current
    simp only [hc, if_true] at ha ⊢
    have ht : target ∈ inputs := by simpa [checkNormal] using hc
    left
    rw [List.mem_append] at ha
    rcases ha with ha | ha <;>
      (obtain ⟨tok, _, hm⟩ := List.mem_flatMap.mp ha
       rcases resolve_mem hm with h | h
       · rw [h]; exact ht
       · exact hcur _ h)
  · simp only [hc, Bool.false_eq_true, if_false] at ha ⊢
    have ht : target ∉ inputs := by simpa [checkNormal] using hc
    -- only CALL has anything before the check
    simp only [sites, List.mem_cons, List.not_mem_nil, or_false] at hs
    rcases hs with rfl | rfl | rfl | rfl | rfl | rfl | rfl
    · cases ha
    · cases ha
    · cases ha
    · cases ha
    · cases ha
    · -- CALL: contract_size (target), balance_decrease (current), external sub (nothing)
      simp only [List.flatMap_cons, List.flatMap_nil, List.append_nil, List.mem_append] at ha
      rcases ha with ha | ha | ha
      · right
        simp only [resolve, tokenAccess, List.mem_singleton] at ha
        exact ⟨rfl, ht, ha, trivial⟩
      · left
        rcases resolve_mem ha with h | h
        · simp only [resolve, tokenAccess] at ha
          cases current with
          | none => cases ha
          | some c => simp only [List.mem_singleton] at ha; rw [ha]; exact hcur c rfl
        · exact hcur _ h
      · simp [resolve, tokenAccess] at ha
    · cases ha

/-- **The active contract is always listed**: starting in the script (no frame) — or in any state whose frames
are all listed — every history of calls, returns and other instructions keeps every frame's contract among the
inputs (a CALL pushes its frame only after the check passed). -/
theorem current_in_inputs (inputs : List ContractId) :
    ∀ (evs : List Event) (frames : List ContractId), (∀ c ∈ frames, c ∈ inputs) →
      ∀ c ∈ evs.foldl (stepFrames inputs) frames, c ∈ inputs := by
  intro evs
  induction evs with
  | nil => intro frames h; exact h
  | cons e rest ih =>
    intro frames h
    apply ih
    cases e with
    | call t =>
      simp only [stepFrames]
      split
      · rename_i hc
        intro c hcm
        rcases List.mem_cons.mp hcm with rfl | h'
        · simpa [checkNormal] using hc
        · exact h c h'
      · exact h
    | ret => intro c hc; exact h c (List.mem_of_mem_tail hc)
    | other => exact h

/-- obligation on the Rust text: `init_inner` assigns `self.input_contracts` from the new transaction's contract inputs
(a `collect()` into the field, not an `extend`), and no other interpreter code writes the field -/
theorem input_contracts_reassigned : inputContractsInit = "assigned-from-contract-inputs" := by decide

/-- **A reused instance consults the CURRENT transaction's inputs only**: after any history of earlier transactions
on the same interpreter, the verifier's answer for the next transaction is the answer a fresh instance gives —
contracts listed by earlier transactions are not reachable unless listed again. -/
theorem reuse_does_not_widen_inputs (history : List (List ContractId)) (tx : List ContractId) (c : ContractId) :
    checkNormal (initInputContracts (history.foldl initInputContracts []) tx) c = checkNormal tx c := rfl

/-- opcodes whose implementation can touch contract state (the checked sites, the current-contract sites and
the contract-creating / message / output opcodes) -/
def contractStateOpcodes : List String :=
  ["CALL", "TR", "BAL", "CCP", "CROO", "CSIZ", "BURN", "MINT", "SCWQ", "SRW", "SRWQ", "SWW", "SWWQ", "TRO", "SMO",
   "SCLR", "SRDD", "SRDI", "SWRD", "SWRI", "SUPD", "SUPI", "SPLD", "LOG", "LOGD", "RETD", "RVRT", "TIME", "BHSH", "BHEI", "CB"]

/-- **Predicates cannot touch contract state**: none of the contract-state opcodes is predicate-allowed (LDC is
allowed, but `load_contract_code` refuses the contract mode in a predicate context), and `PredicateStorage`
refuses every access to the contract tables (each method of the refusing impls was checked by the translator to
be `Err(UnsupportedStorageOperation)`). -/
theorem predicate_no_contract_state :
    (["CALL", "TR", "BAL", "CCP", "CROO", "CSIZ", "BURN", "MINT", "SCWQ", "SRW", "SRWQ", "SWW", "SWWQ", "TRO", "SMO",
      "SCLR", "SRDD", "SRDI", "SWRD", "SWRI", "SUPD", "SUPI", "SPLD"].all fun o => !(predicateAllowed.contains o)) = true
    ∧ (["ContractsState", "ContractsRawCode", "ContractsAssets"].all fun t => predicateRefusedTables.contains t) = true
    ∧ 7 ≤ predicateRefusingImpls := by decide

/-! ### non-vacuity -/

/-- a listed callee from a listed contract: code and both balances are touched, all listed -/
example : (runSite ⟨"prepare_call", "CALL", ["contract_size", "balance_decrease", "external_asset_id_balance_sub"], ["balance_increase", "read_exact"]⟩
    [[1], [2]] (some [1]) [2]).1.map (·.contract) = [[2], [1], [2], [2]] := by decide

/-- an unlisted callee: one access (its code size), then the panic -/
example : runSite ⟨"prepare_call", "CALL", ["contract_size", "balance_decrease", "external_asset_id_balance_sub"], ["balance_increase", "read_exact"]⟩
    [[1]] none [9] = ([⟨.code, [9]⟩], true) := by decide

/-- BAL of an unlisted contract: no access at all -/
example : runSite ⟨"contract_balance", "BAL", [], ["balance"]⟩ [[1]] none [9] = ([], true) := by decide

example : [Event.call [1], .call [9], .other, .ret].foldl (stepFrames [[1]]) [] = [] := by decide

end FuelVerif.Access
