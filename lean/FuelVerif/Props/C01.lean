/-
C01 — Canonical encoding round-trips and reports its own size.

  "Every transaction of every kind, and every input, output, witness, policy set, storage slot, UTXO id,
   transaction pointer and receipt, encodes to a word-aligned byte string whose length equals the size
   the value reports, and decoding that string consumes exactly those bytes and returns a value equal to
   the original. Only the fields the format deliberately leaves out (receipt payload bytes, the panic
   reason, the panic contract id, cached metadata) are exempt from equality."

Model: Model/Canonical.lean (traits, primitives, vectors, derive output), Model/Policies.lean,
Model/InputCodec.lean, Model/TxDesc.lean. The descriptors of the protocol types are *computed* from the
tables `Gen/Canonical.lean` that tools/gen/canonical.py regenerates from the Rust sources on every run
(Model/Resolve.lean), so the obligations below are re-checked against the current field lists, skip flags,
prefixes and discriminants.

`erase` replaces exactly the `#[canonical(skip)]` fields by their default — the exemption list of the
statement (receipt `data`, panic `reason`, panic `contract_id`, `metadata`), see `exempt_fields`.
-/
import FuelVerif.Lemmas.TxLaws
namespace FuelVerif.C01
open FuelVerif FuelVerif.Canonical FuelVerif.Canonical.TxDesc

/-! ### obligations on the regenerated tables -/

/-- every protocol type resolves to a well-formed descriptor: field types known, prefixes and
discriminants fit a word, `Empty<T>` only around plain types, the discriminants of each enum distinct -/
theorem descriptors_wf : registry.all (fun p => p.2.wf && p.2.nodup) = true := by decide +kernel

/-- the same for the structs behind the hand-written `Input` codec (`Coin<Full>`, `Message<Full>`,
`input::contract::Contract` and the seven variant payloads) -/
theorem input_descriptors_wf :
    (InputCodec.encDesc.wf && InputCodec.coinFull.wf && InputCodec.coinFull.nodup &&
     InputCodec.messageFull.wf && InputCodec.messageFull.nodup && InputCodec.contract.wf && InputCodec.contract.nodup &&
     InputCodec.variantDescs.all (fun p => p.2.wf && p.2.nodup) && decide (InputCodec.variantDescs.length = 7)) = true := by
  decide +kernel

/-- the policy flag table is the one the `Policies` model is written for: i-th declared flag = bit i = value index i -/
theorem policy_table_contiguous : Policies.tableContiguous = true := by decide

/-- `Transaction::decode_static` dispatches discriminant `i` to the `i`-th variant of `enum Transaction`,
and there are six of them -/
theorem transaction_table :
    (txDescs.length == 6 && (List.range 6).all (fun i => (txOfDisc i).map (·.1) == some i) && (txOfDisc 6).isNone) = true := by
  decide +kernel

/-- the exempt fields are exactly the skipped ones of the generated tables -/
theorem exempt_fields :
    (Gen.Canonical.structs.flatMap (fun s => (s.fields.filter (·.skip)).map (fun f => (s.name, f.name)))) =
      [("ChargeableTransaction", "metadata"), ("Mint", "metadata"), ("PanicInstruction", "reason")] ∧
    ((Gen.Canonical.enums.flatMap (fun e => e.variants.flatMap (fun v => (v.fields.filter (·.skip)).map (fun f => (e.name, v.name, f.name))))) =
      [("Receipt", "ReturnData", "data"), ("Receipt", "Panic", "contract_id"), ("Receipt", "LogData", "data"), ("Receipt", "MessageOut", "data")]) := by
  decide +kernel

/-! ### the generic theorems (every descriptor, every value, every environment of hand-written codecs
that satisfies `EnvLaws`) -/

/-- **length equals the reported size** -/
theorem encoding_length_is_size (env : Env) (L : EnvLaws env) (d : Desc) (hd : d.wf = true) (v : Val)
    (hv : wt env d v = true) : (encode env d v).length = size env d v := enc_length env L d hd v hv

/-- **word aligned** (static and dynamic part separately, hence the total) -/
theorem size_word_aligned (env : Env) (L : EnvLaws env) (d : Desc) (hd : d.wf = true) (v : Val)
    (hv : wt env d v = true) : 8 ∣ sizeS env d v ∧ 8 ∣ sizeD env d v ∧ 8 ∣ size env d v := by
  obtain ⟨a, b⟩ := size_aligned env L d hd v hv
  exact ⟨a, b, Nat.dvd_add a b⟩

/-- **decoding the encoding consumes exactly those bytes and returns the value** (skipped fields at
their default), whatever follows the encoding in the buffer -/
theorem roundtrip (env : Env) (L : EnvLaws env) (d : Desc) (hd : d.wf = true) (hn : d.nodup = true) (v : Val)
    (rest : Bytes) (hv : wt env d v = true) :
    decode env d (encode env d v ++ rest) = .ok (erase env d v, rest) := dec_enc env L d hd hn v rest hv

/-- the encoding determines the value up to the exempt fields -/
theorem encoding_injective (env : Env) (L : EnvLaws env) (d : Desc) (hd : d.wf = true) (hn : d.nodup = true)
    (v w : Val) (hv : wt env d v = true) (hw : wt env d w = true) (h : encode env d v = encode env d w) :
    erase env d v = erase env d w := encode_injective env L d hd hn v w hv hw h

/-! ### the protocol types -/

/-- the full statement for the named protocol types (inputs, outputs, witnesses, policy sets, storage
slots, UTXO ids, transaction pointers, receipts, upgrade purposes and the six transaction structs) -/
def ProtocolTypesStatement : Prop :=
  ∀ p ∈ registry, ∀ v rest, wt env p.2 v = true →
    (encode env p.2 v).length = size env p.2 v ∧ 8 ∣ size env p.2 v ∧
    decode env p.2 (encode env p.2 v ++ rest) = .ok (erase env p.2 v, rest)

theorem registry_wf {p : String × Desc} (h : p ∈ registry) : p.2.wf = true ∧ p.2.nodup = true := by
  have := descriptors_wf
  simp only [List.all_eq_true, Bool.and_eq_true] at this
  exact this p h

/-- the two hand-written codecs (`Policies`: every bit mask and all values; `Input`: all seven variants)
satisfy the laws the generic theorems need — proved in Lemmas/PoliciesLaws.lean, Lemmas/InputLaws.lean -/
theorem hand_written_codecs_lawful : EnvLaws env := envLaws

/-- **C01 for every named protocol type**: for every well-typed value, length = reported size, the size
is a multiple of 8, and decoding the encoding (followed by anything) returns the value with only the exempt
fields defaulted, leaving exactly what followed.
`wt` is the type's value set restricted, for policy sets, to `Policies.wt` (only declared bits, unset values
zero, maturity / expiration ≤ u32::MAX) and, for inputs, to `InputCodec.wt` (non-empty predicate where the
variant has one, non-empty data for message-data variants). Outside these restrictions the statement is
false on the current code: `policies_not_roundtrip_maturity`, `input_not_roundtrip_empty_predicate`,
`input_not_roundtrip_empty_data` below (findings F1–F3). -/
theorem protocol_types : ProtocolTypesStatement := by
  intro p hp v rest hv
  obtain ⟨hd, hn⟩ := registry_wf hp
  exact ⟨enc_length env envLaws p.2 hd v hv, (size_word_aligned env envLaws p.2 hd v hv).2.2, dec_enc env envLaws p.2 hd hn v rest hv⟩

/-- **C01 for `Transaction`** (the enum with the hand-written peek-the-discriminant decoder), all six kinds -/
theorem transaction_roundtrip (v : Val) (rest : Bytes) (hv : txWt v = true) :
    txDecode (txEncode v ++ rest) = .ok (txErase txDescs v, rest) ∧
    (txEncode v).length = txSize v ∧ 8 ∣ txSize v := tx_roundtrip v rest hv

/-- every policy mask: for each of the 64 masks there are well-typed policy sets, so `protocol_types`
is not vacuous on any of them -/
theorem all_masks_inhabited : ∀ bits, bits < 64 →
    wt env policies (Policies.mk bits ((List.range 6).map (fun i => if Policies.hasBit bits i then i + 1 else 0))) = true := by
  decide +kernel

/-! ### the statement is FALSE for some values the public constructors accept (findings F1–F3):
concrete witnesses, evaluated by the kernel; the harness replays the same inputs on the real code -/

def b32 : Val := Val.ofList [.bytes (zeros 32)]
def utxo0 : Val := Val.ofList [b32, .int 0]
def txp0 : Val := Val.ofList [Val.ofList [.int 0], .int 0]
def code (bs : Bytes) : Val := Val.ofList [Val.ofList [.bytes bs]]
def bytesV (bs : Bytes) : Val := Val.ofList [.bytes bs]

/-- `Input::coin_predicate(.., predicate = [], predicate_data = [1,2,3])` -/
def coinPredicateEmptyPredicate : Val :=
  Val.variant 1 (Val.ofList [utxo0, b32, .int 1, b32, txp0, .unit, .int 7, code [], bytesV [1, 2, 3]])
/-- `Input::message_data_signed(.., data = [])` -/
def messageDataSignedEmptyData : Val :=
  Val.variant 5 (Val.ofList [b32, b32, .int 1, b32, .int 3, .unit, bytesV [], .unit, .unit])
/-- `Policies::new()` then `set(Maturity, 1 << 32)` -/
def policiesMaturityAboveU32 : Val := Policies.mk 4 [0, 0, 2 ^ 32, 0, 0, 0]

/-- F2: a coin-predicate input with an empty predicate is a value of the type, encodes to 176 bytes =
its size, but decodes as a *signed* coin after 168 bytes -/
theorem input_not_roundtrip_empty_predicate :
    (wt InputCodec.env0 InputCodec.encDesc coinPredicateEmptyPredicate,
     (encode env input coinPredicateEmptyPredicate).length,
     (decode env input (encode env input coinPredicateEmptyPredicate)).map (fun p => (p.1 == coinPredicateEmptyPredicate, p.2.length))) =
    (true, 176, .ok (false, 8)) := by decide +kernel

/-- F3: a message-data input with empty data decodes as a message-coin input -/
theorem input_not_roundtrip_empty_data :
    (wt InputCodec.env0 InputCodec.encDesc messageDataSignedEmptyData,
     (decode env input (encode env input messageDataSignedEmptyData)).map (fun p => (p.1 == messageDataSignedEmptyData, p.2.length))) =
    (true, .ok (false, 0)) := by decide +kernel

/-- F1: a maturity above `u32::MAX` (accepted by `Policies::set`) encodes to 16 bytes that the decoder rejects -/
theorem policies_not_roundtrip_maturity :
    ((encode env policies policiesMaturityAboveU32).length,
     decode env policies (encode env policies policiesMaturityAboveU32)) = (16, .error .unknown) := by decide +kernel

/-! ### non-vacuity: concrete well-typed values of the hypotheses above -/

example : wt env utxoId utxo0 = true := by decide +kernel
example : encode env utxoId (Val.ofList [b32, .int 513]) = zeros 32 ++ [0, 0, 0, 0, 0, 0, 2, 1] := by decide +kernel
example : wt env policies (Policies.mk 5 [7, 0, 9, 0, 0, 0]) = true := by decide +kernel
example : decode env policies (encode env policies (Policies.mk 5 [7, 0, 9, 0, 0, 0]) ++ [0xff]) = .ok (Policies.mk 5 [7, 0, 9, 0, 0, 0], [0xff]) := by
  decide +kernel
/-- a well-formed coin-predicate input (non-empty predicate) does round-trip -/
example : (InputCodec.wt (Val.variant 1 (Val.ofList [utxo0, b32, .int 1, b32, txp0, .unit, .int 7, code [0x24], bytesV [1, 2, 3]])),
    decode env input (encode env input (Val.variant 1 (Val.ofList [utxo0, b32, .int 1, b32, txp0, .unit, .int 7, code [0x24], bytesV [1, 2, 3]])) ++ [9])) =
    (true, .ok (Val.variant 1 (Val.ofList [utxo0, b32, .int 1, b32, txp0, .unit, .int 7, code [0x24], bytesV [1, 2, 3]]), [9])) := by
  decide +kernel
/-- a script transaction with one input, one output, one witness is a well-typed transaction value -/
example : txWt (Val.variant 0 (Val.ofList [Val.ofList [.int 5, b32, code [0x24, 0, 0, 0], bytesV [1]], Policies.mk 1 [3, 0, 0, 0, 0, 0],
    Val.ofList [Val.variant 1 (Val.ofList [utxo0, b32, .int 1, b32, txp0, .unit, .int 7, code [0x24], bytesV [1, 2, 3]])],
    Val.ofList [Val.variant 0 (Val.ofList [b32, .int 9, b32])], Val.ofList [Val.ofList [bytesV [1, 2, 3, 4, 5]]], .unit])) = true := by
  decide +kernel
/-- a receipt with a payload: the payload is erased by the round trip, everything else is kept -/
example : erase env receipt (Val.variant 2 (Val.ofList [b32, .int 1, .int 2, b32, .int 3, .int 4, bytesV [1, 2]])) =
    Val.variant 2 (Val.ofList [b32, .int 1, .int 2, b32, .int 3, .int 4, .unit]) := by decide +kernel

end FuelVerif.C01
