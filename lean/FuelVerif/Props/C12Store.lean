/-
C12 on the storage-level transcription of the Rust code (`Model/SparseStore.lean`).

  "For any history of inserts, overwrites and deletes, the sparse Merkle tree's root equals the compact
   sparse Merkle root (...) of the key-value map the history leaves behind."

`Props/C12.lean` proves this for the structural tree. Here the refinement is closed: the transcribed
`MerkleTree::insert` / `MerkleTree::delete` (with `path_set`, `update_with_path_set`, `delete_with_path_set`,
the merge-side-nodes loops and `set_root_node` over a node store) keep, for EVERY history from
`MerkleTree::new` over ANY initial storage content, the state a representation of the structural tree
(`SmtRefine.Rep`: the root node is the node of the tree and every node of the tree is stored under its hash —
unreachable garbage allowed), never fail, and therefore have the compact sparse Merkle root of the final map as
their root.

Hypotheses: `HashOK H` (32-byte output, no collision among the 65-byte tagged inputs, never the zero sum — what
is assumed of SHA-256) and `StoreLaws S` (the node table behaves as a finite map). Keys are 32 bytes (the Rust
type `MerkleTreeKey`).
-/
import FuelVerif.Props.C12
import FuelVerif.Lemmas.SparseRefineDelete
import FuelVerif.Lemmas.SparseCollision
namespace FuelVerif.Smt
open FuelVerif FuelVerif.SmtStore FuelVerif.SmtBytes FuelVerif.SmtRefine FuelVerif.Gen.Sparse

variable (H : Bytes → Bytes) {σ : Type} (S : StoreOps σ)

/-- the operation as the structural layer sees it: the value is its hash (`Node::create_leaf` stores
`sum(data)`) -/
def hashOp (hl : ∀ x, (H x).length = keyBytes) : Op Key32 Bytes → Op Key32 Hash32
  | .ins k d => .ins k ⟨H d, hl d⟩
  | .del k => .del k

/-- one call of the transcribed `MerkleTree::insert` / `MerkleTree::delete`: the state it leaves -/
def storeStep (s : SMT σ) : Op Key32 Bytes → SMT σ
  | .ins k d => (SmtStore.insert H S s k.val d).1
  | .del k => (SmtStore.delete H S s k.val).1

/-- ... and its `Result` -/
def storeResult (s : SMT σ) : Op Key32 Bytes → Except Err Unit
  | .ins k d => (SmtStore.insert H S s k.val d).2
  | .del k => (SmtStore.delete H S s k.val).2

/-- the state after a history run on the transcribed code from `MerkleTree::new(storage)` -/
def storeRun (st0 : σ) (ops : List (Op Key32 Bytes)) : SMT σ := ops.foldl (storeStep H S) (SMT.new st0)

/-- every call of the history returned `Ok(())` -/
def AllOk : SMT σ → List (Op Key32 Bytes) → Prop
  | _, [] => True
  | s, op :: ops => storeResult H S s op = .ok () ∧ AllOk (storeStep H S s op) ops

/-- all trees the structural layer goes through during a history started at `t` (the start, every intermediate
tree, the end) -/
def treesOf (t : SmtRefine.T) : List (Op Key32 Hash32) → List SmtRefine.T
  | [] => [t]
  | op :: ops => t :: treesOf (applyOp bit32 width t op) ops

theorem head_mem_treesOf (t : SmtRefine.T) : ∀ ops, t ∈ treesOf t ops
  | [] => List.mem_cons_self
  | _ :: _ => List.mem_cons_self

/-- the class of trees of a history: the non-empty subtrees of the trees it goes through -/
def histU (hops : List (Op Key32 Hash32)) : SmtRefine.T → Prop :=
  fun u => ∃ t ∈ treesOf .empty hops, IsSub u t

/-- **the finite list of preimages a history hashes**: for every tree the history goes through, the tagged
65-byte input `prefix ‖ lo ‖ hi` of each of its nodes (computed with `H` itself). These are exactly the inputs
on which `H` must not collide for the theorems below; nothing is assumed about `H` elsewhere. -/
def hashedInputs (hl : ∀ x, (H x).length = keyBytes) (ops : List (Op Key32 Bytes)) : List Bytes :=
  (treesOf .empty (ops.map (hashOp H hl))).flatMap (treeInputs H hl)

/-- no collision among the hashed inputs of a history ⇒ the tree hash is injective and non-zero on the
history's class of trees -/
theorem histHashOn (hl : ∀ x, (H x).length = keyBytes) (ops : List (Op Key32 Bytes))
    (hnc : NoCollisionOn H (hashedInputs H hl ops)) : HashOn H (histU (ops.map (hashOp H hl))) :=
  hashOn_of_noCollision H hl _ (hashedInputs H hl ops)
    (fun _ ⟨_, _, hu⟩ => IsSub.ne_empty hu)
    (fun _ _ ⟨t', ht', ht⟩ hu => ⟨t', ht', IsSub.trans hu ht⟩)
    (fun _ ⟨t', ht', hu⟩ => List.mem_flatMap.mpr ⟨t', ht', mem_treeInputs H hl hu⟩)
    hnc

variable {U : SmtRefine.T → Prop}

/-- **one operation refines**: on a represented state, the transcribed operation returns `Ok` and leaves a
state representing the structural operation's tree -/
theorem storeStep_rep (hok : HashOn H U) (laws : StoreLaws S) {s : SMT σ} {t : SmtRefine.T}
    (hr : Rep H hok S s t) (op : Op Key32 Bytes)
    (hUn : ∀ u, IsSub u (applyOp bit32 width t (hashOp H hok.len op)) → U u) :
    storeResult H S s op = .ok () ∧
      Rep H hok S (storeStep H S s op) (applyOp bit32 width t (hashOp H hok.len op)) := by
  cases op with
  | ins k d =>
    obtain ⟨s', h1, h2⟩ := insert_rep H hok S laws hr k d ⟨H d, hok.len d⟩ rfl hUn
    simp only [storeResult, storeStep, h1]
    exact ⟨trivial, h2⟩
  | del k =>
    obtain ⟨s', h1, h2⟩ := delete_rep H hok S laws hr k hUn
    simp only [storeResult, storeStep, h1]
    exact ⟨trivial, h2⟩

theorem storeFold_rep (hok : HashOn H U) (laws : StoreLaws S) :
    ∀ (ops : List (Op Key32 Bytes)) (s : SMT σ) (t : SmtRefine.T), Rep H hok S s t →
      (∀ t' ∈ treesOf t (ops.map (hashOp H hok.len)), ∀ u, IsSub u t' → U u) →
      AllOk H S s ops ∧
        Rep H hok S (ops.foldl (storeStep H S) s)
          ((ops.map (hashOp H hok.len)).foldl (applyOp bit32 width) t)
  | [], _, _, hr, _ => ⟨trivial, hr⟩
  | op :: ops, s, t, hr, hU => by
    have hU' : ∀ t' ∈ treesOf (applyOp bit32 width t (hashOp H hok.len op)) (ops.map (hashOp H hok.len)),
        ∀ u, IsSub u t' → U u := fun t' ht' => hU t' (List.mem_cons_of_mem _ ht')
    obtain ⟨h1, h2⟩ := storeStep_rep H S hok laws hr op (hU' _ (head_mem_treesOf _ _))
    obtain ⟨h3, h4⟩ := storeFold_rep hok laws ops _ _ h2 hU'
    exact ⟨⟨h1, h3⟩, h4⟩

/-- `MerkleTree::new` represents the empty tree, whatever the storage holds -/
theorem new_rep (hok : HashOn H U) (st0 : σ) : Rep H hok S (SMT.new st0) .empty :=
  ⟨trivial, rfl, trivial, fun _ h => absurd h id⟩

/-- refinement for every history, relative to a class `U` of trees containing the history's trees -/
theorem store_history_rep_on (hok : HashOn H U) (laws : StoreLaws S) (st0 : σ) (ops : List (Op Key32 Bytes))
    (hU : ∀ t' ∈ treesOf .empty (ops.map (hashOp H hok.len)), ∀ u, IsSub u t' → U u) :
    AllOk H S (SMT.new st0) ops ∧
      Rep H hok S (storeRun H S st0 ops) (run bit32 width (ops.map (hashOp H hok.len))) :=
  storeFold_rep H S hok laws ops _ _ (new_rep H S hok st0) hU

/-- **refinement for every history, assuming only that `H` does not collide on the history's own hashed
inputs**: for ANY `H` with 32-byte output, if there is no collision (and no zero-sum preimage) among
`hashedInputs H ops`, the state the transcribed code reaches represents the structural tree of the same
history and no call failed -/
theorem store_history_rep_nc (hl : ∀ x, (H x).length = keyBytes) (laws : StoreLaws S) (st0 : σ)
    (ops : List (Op Key32 Bytes)) (hnc : NoCollisionOn H (hashedInputs H hl ops)) :
    AllOk H S (SMT.new st0) ops ∧
      Rep H (histHashOn H hl ops hnc) S (storeRun H S st0 ops) (run bit32 width (ops.map (hashOp H hl))) :=
  store_history_rep_on H S (histHashOn H hl ops hnc) laws st0 ops (fun t' ht' u hu => ⟨t', ht', hu⟩)

/-- the idealised form (`HashOK`: no collision anywhere) as a corollary -/
theorem store_history_rep (hok : HashOK H) (laws : StoreLaws S) (st0 : σ) (ops : List (Op Key32 Bytes)) :
    AllOk H S (SMT.new st0) ops ∧
      Rep H hok.toOn S (storeRun H S st0 ops) (run bit32 width (ops.map (hashOp H hok.len))) :=
  store_history_rep_on H S hok.toOn laws st0 ops (fun _ _ _ _ => trivial)

/-- the root of a represented state is the structural root -/
theorem rep_rootHash (hok : HashOn H U) {s : SMT σ} {t : SmtRefine.T} (hr : Rep H hok S s t) :
    s.rootHash = (t.hash (hashes32 H hok.len)).val := by
  rw [SMT.rootHash, hr.root, nodeOf_hash]
  rfl

/-- **C12, history clause, on the transcribed Rust algorithm, NON-VACUOUS form.** For ANY function `H` with
32-byte output (no injectivity assumed), any lawful node table, any initial storage and any history run by the
transcribed `MerkleTree::insert` / `delete`: if `H` has no collision and no zero-sum preimage among the finitely
many tagged inputs the history itself hashes (`hashedInputs H ops`), then every call returns `Ok` and, for EVERY
duplicate-free listing `L` of the key ↦ `sum(value)` map the history leaves behind, `MerkleTree::root()` is the
compact sparse Merkle root of `L`. -/
theorem store_root_history_nc (hl : ∀ x, (H x).length = keyBytes) (laws : StoreLaws S) (st0 : σ)
    (ops : List (Op Key32 Bytes)) (hnc : NoCollisionOn H (hashedInputs H hl ops))
    (L : List (Key32 × Hash32)) (hL : KeysNodup L)
    (hag : ∀ q, lookup q L = finalMap (ops.map (hashOp H hl)) q) :
    AllOk H S (SMT.new st0) ops ∧
      (specRoot bit32 (hashes32 H hl) 256 0 L).map Subtype.val =
        some (storeRun H S st0 ops).rootHash := by
  obtain ⟨h1, h2⟩ := store_history_rep_nc H S hl laws st0 ops hnc
  refine ⟨h1, ?_⟩
  have h3 := root_history bit32 width keyExt_bytes (hashes32 H hl) _ L hL hag
  rw [width_eq] at h3
  rw [h3, rep_rootHash H S _ h2]
  rfl

/-- **collision-extraction form**: EITHER the root of the transcribed algorithm is the compact sparse Merkle
root of the final map (and all calls returned `Ok`), OR there is an explicit collision among the inputs the
history hashed: two different members of `hashedInputs H ops` with the same hash, or one hashing to the zero
sum -/
theorem store_root_history_or_collision (hl : ∀ x, (H x).length = keyBytes) (laws : StoreLaws S) (st0 : σ)
    (ops : List (Op Key32 Bytes)) (L : List (Key32 × Hash32)) (hL : KeysNodup L)
    (hag : ∀ q, lookup q L = finalMap (ops.map (hashOp H hl)) q) :
    (AllOk H S (SMT.new st0) ops ∧
      (specRoot bit32 (hashes32 H hl) 256 0 L).map Subtype.val = some (storeRun H S st0 ops).rootHash) ∨
    Collision H (hashedInputs H hl ops) :=
  or_collision (fun hnc => store_root_history_nc H S hl laws st0 ops hnc L hL hag)

/-- `HashOK` excludes every collision, in particular on the hashed inputs (all of them are tagged 65-byte
strings) -/
theorem noCollision_of_hashOK (hok : HashOK H) (ops : List (Op Key32 Bytes)) :
    NoCollisionOn H (hashedInputs H hok.len ops) := by
  have hlen : ∀ x ∈ hashedInputs H hok.len ops, x.length = 1 + 2 * keyBytes := by
    intro x hx
    obtain ⟨t, _, hx⟩ := List.mem_flatMap.mp hx
    obtain ⟨u, hu, e⟩ := List.mem_map.mp hx
    rw [← e]
    exact inputOf_length H hok.len (IsSub.ne_empty (mem_subtrees.mp hu))
  exact ⟨fun x hx y hy e => hok.inj x y (hlen x hx) (hlen y hy) e, fun x hx => hok.nonzero x (hlen x hx)⟩

/-- **C12, history clause, idealised form** (corollary of `store_root_history_nc`: `HashOK` ⇒ no collision on
the hashed inputs). -/
theorem store_root_history (hok : HashOK H) (laws : StoreLaws S) (st0 : σ) (ops : List (Op Key32 Bytes))
    (L : List (Key32 × Hash32)) (hL : KeysNodup L)
    (hag : ∀ q, lookup q L = finalMap (ops.map (hashOp H hok.len)) q) :
    AllOk H S (SMT.new st0) ops ∧
      (specRoot bit32 (hashes32 H hok.len) 256 0 L).map Subtype.val =
        some (storeRun H S st0 ops).rootHash :=
  store_root_history_nc H S hok.len laws st0 ops (noCollision_of_hashOK H hok ops) L hL hag

/-- the root computed by the transcribed code depends only on the final key ↦ `sum(value)` map (no collision on
the hashed inputs of either history) -/
theorem store_root_depends_only_on_map_nc (hl : ∀ x, (H x).length = keyBytes) (laws : StoreLaws S)
    (st0 st0' : σ) (ops₁ ops₂ : List (Op Key32 Bytes))
    (h1 : NoCollisionOn H (hashedInputs H hl ops₁)) (h2 : NoCollisionOn H (hashedInputs H hl ops₂))
    (h : ∀ q, finalMap (ops₁.map (hashOp H hl)) q = finalMap (ops₂.map (hashOp H hl)) q) :
    (storeRun H S st0 ops₁).rootHash = (storeRun H S st0' ops₂).rootHash := by
  rw [rep_rootHash H S _ (store_history_rep_nc H S hl laws st0 ops₁ h1).2,
    rep_rootHash H S _ (store_history_rep_nc H S hl laws st0' ops₂ h2).2,
    tree_depends_only_on_map bit32 width keyExt_bytes _ _ h]

theorem store_root_depends_only_on_map (hok : HashOK H) (laws : StoreLaws S) (st0 st0' : σ)
    (ops₁ ops₂ : List (Op Key32 Bytes))
    (h : ∀ q, finalMap (ops₁.map (hashOp H hok.len)) q = finalMap (ops₂.map (hashOp H hok.len)) q) :
    (storeRun H S st0 ops₁).rootHash = (storeRun H S st0' ops₂).rootHash :=
  store_root_depends_only_on_map_nc H S hok.len laws st0 st0' ops₁ ops₂
    (noCollision_of_hashOK H hok ops₁) (noCollision_of_hashOK H hok ops₂) h

/-! ### the order of effects the refinement relies on (extracted from the Rust text by `tools/gen/sparse.py`)

`Model/SparseStore.lean` transcribes `update_with_path_set` / `delete_with_path_set` in the order of effects
of the Rust code and the proofs `SmtRefine.update_rep` / `SmtRefine.deletePath_rep` depend on that order. The
translator extracts the sequence of storage calls, loops, early return and root assignment from
`sparse/merkle_tree.rs` (failing when a storage call has an unknown shape); the theorems below pin the
extracted sequences to the transcribed ones, so an edit of the order in the Rust code breaks a proof
obligation here (and not only the correspondence stream). -/

open FuelVerif.Gen.Sparse in
/-- `update_with_path_set`: early return on an identical leaf; "merge leaves" (join with the actual leaf, write),
"merge placeholders" (loop: join with a placeholder, write) or else removal of the overwritten leaf; the
merge-side-nodes loop WRITES the new parent and then REMOVES the old one; the root is assigned last.
(`SparseStore.updateWithPathSet`, `SmtRefine.updateR`, `SmtRefine.mergeStore true`) -/
theorem update_effect_order :
    updateEffects = [.returnIfSame, .ifKeysDiffer, .joinActual, .insertCurrent, .loopPlaceholders,
      .joinPlaceholder, .insertCurrent, .removeActual, .loopMerge, .insertCurrent, .removeOldParent,
      .setRoot] := by decide

open FuelVerif.Gen.Sparse in
/-- `delete_with_path_set`: ALL old path nodes are removed first; then the first side node is read; then the
orphaned leaf is re-attached (find side, find parent, write); the merge-side-nodes loop only writes; the root
is assigned last. (`SparseStore.deleteWithPathSet`, `SmtRefine.deleteR`, `SmtRefine.mergeStore false`) -/
theorem delete_effect_order :
    deleteEffects = [.loopPathNodes, .removePathNode, .getFirstSide, .ifFirstSideLeaf, .findSide, .findParent,
      .insertCurrent, .loopMerge, .insertCurrent, .setRoot] := by decide

open FuelVerif.Gen.Sparse in
/-- the two facts `deletePath_rep` needs, stated on the extracted sequence alone: nothing but the removal loop
happens before the first side node is read, and nothing is removed afterwards (new path nodes may coincide with
old ones — deleting the absent all-zero key re-creates the same path — so a later removal would lose them) -/
theorem delete_removes_before_writes :
    deleteEffects.takeWhile (fun e => e != .getFirstSide) = [.loopPathNodes, .removePathNode] ∧
    (deleteEffects.dropWhile (fun e => e != .getFirstSide)).all
      (fun e => e != .removePathNode && e != .removeActual && e != .removeOldParent) = true := by decide

open FuelVerif.Gen.Sparse in
/-- the facts `update_rep` needs: the early return comes before any storage effect, and inside the
merge-side-nodes loop the new parent is written before the old one is removed -/
theorem update_writes_before_removes :
    updateEffects.head? = some .returnIfSame ∧
    updateEffects.dropWhile (fun e => e != .loopMerge) =
      [.loopMerge, .insertCurrent, .removeOldParent, .setRoot] := by decide

/-! ### non-vacuity -/

/-- a lawful node table exists, and `AllOk` / `storeRun` are meaningful on it; `HashOK` itself is an
idealisation (total injectivity on the 65-byte tagged inputs) and has no concrete instance -/
example : StoreLaws funStore ∧ AllOk H funStore (SMT.new (fun _ => none)) [] := ⟨funStore_laws, trivial⟩

end FuelVerif.Smt
