/-
C24 — `EveryInstructionStatement` PROVED for the opcode families whose implementations are modelled in this repository.

  "During execution, an instruction changes VM memory only inside the current frame's stack region … or its heap
   region …, except for the VM's own writes of call frames, loaded code, balance entries and transaction outputs."

`Props/C24.lean` keeps the statement about every instruction as `EveryInstructionStatement step`, parametric in the
step relation `step : StepObs → List (Nat × Nat) → Prop` (observation of one instruction, reported changed ranges).
Here `step` is instantiated with the EXECUTION MODELS of

  * the 14 wide-integer opcodes          `execWide` (Model/Wide.lean, through `execWide_spec` of C22)
  * ECK1, ECR1, ED19                      `ecRecover`, `ed19` (Model/CryptoOps.lean)
  * CCP, BLDD                             `codeCopy`, `blobLoadData` (Model/StorageRead.lean, through C36's specs)
  * the 33 ALU and 12 jump opcodes        `execAlu`, `execJump` (Model/Alu.lean, Model/Jump.lean): models whose state
                                          has no memory component at all — the transcribed helpers only take registers

and the statement is proved for each (`…_holds`) and for their union (`every_modelled_instruction_holds`): whatever such a
modelled instruction changes is accepted by `verdict`, i.e. lies in ranges owned by the frame (class `owned`) or is
nothing (class `none`) — `verdict_owned_sound`'s premise holds by construction. 64 of the 127 opcodes. The opcodes that
remain correspondence-only are listed in `correspondenceOnlyOpcodes` (proved to be exactly the rest of the table).
-/
import FuelVerif.Props.C24
import FuelVerif.Props.C08
import FuelVerif.Props.C22
import FuelVerif.Props.C36
import FuelVerif.Model.WriteMonitor
import FuelVerif.Model.CryptoOps
namespace FuelVerif.Memory.C24
open FuelVerif FuelVerif.Memory FuelVerif.Gen FuelVerif.Instr

/-- `MEM_SIZE` of the C24 memory model (`Gen/MemConsts.lean`); the other models carry their own generated copy -/
abbrev M24 : Nat := FuelVerif.Gen.memSize

/-! ### generic: from "what changed" to the verdict -/

theorem classOfOpcode_row {row : InstrRow} (hm : row ∈ instrTable) : classOfOpcode row.opcode = writeClassOf row.name := by
  unfold classOfOpcode
  rw [find_opcode_of_nodup table_nodup hm]

/-- an instruction that changes nothing is accepted whatever its class -/
theorem verdict_ok_of_unchanged {o : StepObs} {changes : List (Nat × Nat)} {changed : Nat → Prop} {c : WriteClass}
    (hcls : classOfOpcode o.opcode = some c) (hrep : Reports changed changes) (hno : ∀ x, ¬ changed x) :
    verdict memSize o changes = .ok () := by
  have hnil : changes = [] := by
    cases changes with
    | nil => rfl
    | cons r rs =>
      have := hrep r (List.mem_cons_self ..)
      exact absurd (this.2 r.1 (Nat.le_refl _) this.1) (hno _)
  subst hnil
  simp [verdict, hcls]

/-- a non-empty sub-range of an owned non-empty range is owned -/
theorem owns_sub (o : Ownership) {a e s t : Nat} (h : o.owns memSize a e) (hae : a < e) (h1 : a ≤ s) (h2 : s < t) (h3 : t ≤ e) :
    o.owns memSize s t := by
  unfold Ownership.owns at h ⊢
  rcases h with ⟨_, h | h⟩ | ⟨h, _⟩
  · left; exact ⟨h2, Or.inl ⟨by omega, by omega, by omega⟩⟩
  · left; exact ⟨h2, Or.inr ⟨by omega, by omega, h.2.2⟩⟩
  · omega

/-- **class `owned`**: if every changed address lies in `[a, a+n)` and that range passed the frame's ownership check
(with the registers as they were BEFORE the instruction), the monitor's report is accepted -/
theorem verdict_ok_of_owned_region {o : StepObs} {changes : List (Nat × Nat)} {changed : Nat → Prop}
    (hcls : classOfOpcode o.opcode = some .owned) (hrep : Reports changed changes) (a n : Nat)
    (hreg : ∀ x, changed x → a ≤ x ∧ x < a + n) (hown : o.own.hasRange memSize a (a + n) = true) :
    verdict memSize o changes = .ok () := by
  unfold verdict
  rw [hcls]
  dsimp only
  have hnone : changes.find? (fun r => !(allowedChange memSize .owned o r.1 r.2)) = none := by
    apply List.find?_eq_none.mpr
    intro r hr
    obtain ⟨hlt, hall⟩ := hrep r hr
    have hlo := (hreg r.1 (hall r.1 (Nat.le_refl _) hlt)).1
    have hhi := (hreg (r.2 - 1) (hall (r.2 - 1) (by omega) (by omega))).2
    have hown' := (hasRange_iff_owns memSize o.own (by omega : a ≤ a + n)).mp hown
    have := owns_sub o.own hown' (by omega) hlo hlt (by omega)
    have := (hasRange_iff_owns memSize o.own (by omega : r.1 ≤ r.2)).mpr this
    simp only [allowedChange, Bool.not_eq_true', Bool.not_eq_false]
    simpa [StepObs.own] using this
  rw [hnone]

/-! ### the 14 wide-integer opcodes -/

open FuelVerif.Alu FuelVerif.Gen.AluArgs in
/-- the memory after a wide instruction (specification form): untouched, or the result stored at an owned destination -/
theorem wideSpec_mem (op : WideOp) (a b c d : Nat) (s : VmSt) :
    (wideSpec op a b c d s).1.mem = s.mem ∨
    (∃ res, (wideSpec op a b c d s).1.mem = s.mem.store (s.regs a) (natBE op.bytes res) ∧
      ownsRange s (s.regs a) op.bytes = true ∧ op ≠ .WDCM ∧ op ≠ .WQCM) := by
  unfold wideSpec
  cases hpl : widePlan op d with
  | none => exact Or.inl rfl
  | some p =>
    simp only [wideSpecBody]
    by_cases h0 : p.kind.isCmp = true ∧ a < 16
    · simp [h0]
    · simp only [h0, if_false]
      generalize firstSome [operandFail s.mem p.indB (s.regs b) op.bytes, operandFail s.mem p.indC (s.regs c) op.bytes,
        operandFail s.mem p.third (s.regs d) op.bytes] = F
      cases F with
      | some e => exact Or.inl rfl
      | none =>
        simp only []
        generalize wideMath (8 * op.bytes) p.kind (operandVal s.mem p.indB (s.regs b) op.bytes)
          (operandVal s.mem p.indC (s.regs c) op.bytes) (operandVal s.mem p.third (s.regs d) op.bytes)
          (isWrapping (s.regs regFLAG)) (isUnsafeMath (s.regs regFLAG)) = R
        cases R with
        | error e => exact Or.inl rfl
        | ok v =>
          simp only []
          by_cases hc : p.kind.isCmp = true
          · simp [hc]
          · simp only [hc, if_false]
            cases hw : writeFail s (s.regs a) op.bytes with
            | some e => exact Or.inl rfl
            | none =>
              right
              refine ⟨v.res, rfl, ?_, ?_, ?_⟩
              · unfold writeFail at hw
                cases hacc : accessFail s.mem (s.regs a) op.bytes with
                | some e => simp [hacc, firstSome] at hw
                | none =>
                  by_cases ho : ownsRange s (s.regs a) op.bytes = true
                  · exact ho
                  · simp [hacc, ho, firstSome] at hw
              · intro hop; subst hop
                simp only [widePlan] at hpl
                split at hpl
                · cases hpl; exact hc rfl
                · cases hpl
              · intro hop; subst hop
                simp only [widePlan] at hpl
                split at hpl
                · cases hpl; exact hc rfl
                · cases hpl

open FuelVerif.Alu FuelVerif.Gen.AluArgs in
/-- `OwnershipRegisters` of the wide model = the C24 ownership predicate on the same four numbers -/
theorem wide_owns_bridge (s : VmSt) (a n : Nat) :
    ownsRange s a n = ({ sp := s.regs regSP, ssp := s.regs regSSP, hp := s.regs regHP, prevHp := s.prevHp } : Ownership).hasRange Gen.memSize a (a + n) := by
  have hM : Gen.AluArgs.vmMaxRam = Gen.memSize := by decide
  simp only [ownsRange, VmSt.owner, Owner.hasStack, Owner.hasHeap, Ownership.hasRange, Ownership.hasStack, Ownership.hasHeap, hM]
  first | rfl | (congr 1 <;> (repeat' split) <;> simp_all)

open FuelVerif.Alu FuelVerif.Gen.AluArgs in
/-- write class the table assigns to each wide opcode -/
def wideClass (op : WideOp) : WriteClass := if op = .WDCM ∨ op = .WQCM then .none else .owned

open FuelVerif.Alu FuelVerif.Gen.AluArgs in
theorem wide_rows_class :
    instrTable.all (fun row => match WideOp.ofName row.name with
      | some op => writeClassOf row.name == some (wideClass op)
      | none => true) = true := by
  decide +kernel

open FuelVerif.Alu FuelVerif.Gen.AluArgs in
/-- one modelled execution of a wide-integer instruction, as the monitor sees it -/
def wideStep (o : StepObs) (changes : List (Nat × Nat)) : Prop :=
  ∃ (row : InstrRow) (op : WideOp) (a b c d : Nat) (s : VmSt),
    row ∈ instrTable ∧ WideOp.ofName row.name = some op ∧ o.opcode = row.opcode ∧
    (op.shape = [.reg, .reg, .reg, .imm06] → d < 64) ∧ (∀ i, s.regs i < 2 ^ 64) ∧
    o.hasOwn (s.regs regSSP) (s.regs regSP) (s.regs regHP) s.prevHp ∧
    Reports (fun x => (execWide op [a, b, c, d] s).1.mem.bytes x ≠ s.mem.bytes x) changes

open FuelVerif.Alu FuelVerif.Gen.AluArgs in
/-- **WDCM WQCM WDOP WQOP WDML WQML WDDV WQDV WDMD WQMD WDAM WQAM WDMM WQMM**: whatever the modelled instruction
changes in memory is accepted by the verdict — the compares change nothing, the others change only bytes of the
destination range, and only after that range passed `verify_ownership` with the frame's registers -/
theorem wide_instructions_hold : EveryInstructionStatement wideStep := by
  intro o changes ⟨row, op, a, b, c, d, s, hm, hname, hopc, himm, hregs, ⟨h1, h2, h3, h4⟩, hrep⟩
  have hcls0 := wide_rows_class
  rw [List.all_eq_true] at hcls0
  have hcls1 := hcls0 row hm
  rw [hname] at hcls1
  have hcls : classOfOpcode o.opcode = some (wideClass op) := by
    rw [hopc, classOfOpcode_row hm]; simpa using hcls1
  rw [execWide_spec op a b c d s himm hregs] at hrep
  rcases wideSpec_mem op a b c d s with hmem | ⟨res, hmem, hown, hn1, hn2⟩
  · exact verdict_ok_of_unchanged hcls hrep (fun x hx => hx (by rw [hmem]))
  · have hcls' : classOfOpcode o.opcode = some .owned := by
      rw [hcls]; simp [wideClass, hn1, hn2]
    refine verdict_ok_of_owned_region hcls' hrep (s.regs a) op.bytes (fun x hx => ?_) ?_
    · rw [hmem] at hx
      by_cases hin : s.regs a ≤ x ∧ x < s.regs a + op.bytes
      · exact hin
      · exact absurd (store_other s.mem (s.regs a) _ x (by rw [natBE_length]; omega)) hx
    · rw [wide_owns_bridge] at hown
      simpa [StepObs.own, h1, h2, h3, h4] using hown

/-! ### ECK1, ECR1, ED19 -/

open FuelVerif.CryptoOps in
theorem crypto_owns_bridge (m : MemView) (s e : Nat) :
    (ownsStack m s e || ownsHeap m s e) = ({ sp := m.sp, ssp := m.ssp, hp := m.hp, prevHp := m.prevHp } : Ownership).hasRange memSize s e := by
  have hM : Gen.SigFormat.memSize = memSize := by decide
  simp only [ownsStack, ownsHeap, Ownership.hasRange, Ownership.hasStack, Ownership.hasHeap, hM, ge_iff_le]

open FuelVerif.CryptoOps in
theorem writeCheck_ok {m : MemView} {a n : Nat} (h : writeCheck m a n = .ok ()) :
    (ownsStack m a (a + n) || ownsHeap m a (a + n)) = true := by
  unfold writeCheck at h
  cases hv : CryptoOps.verify m a n with
  | error e => rw [hv] at h; cases h
  | ok r =>
    obtain ⟨s, t⟩ := r
    rw [hv] at h
    simp only at h
    unfold CryptoOps.verify at hv
    split at hv
    · cases hv
    · split at hv
      · cases hv
      · simp only at hv
        split at hv
        · cases hv
        · split at hv
          · simp only [Except.ok.injEq, Prod.mk.injEq] at hv
            obtain ⟨rfl, rfl⟩ := hv
            split at h
            · assumption
            · cases h
          · cases hv

open FuelVerif.CryptoOps in
/-- one modelled ECK1 / ECR1 (`recover` = the library, any function returning 64-byte keys) or ED19 -/
def cryptoStep (o : StepObs) (changes : List (Nat × Nat)) : Prop :=
  ∃ (row : InstrRow) (m : MemView) (read : Nat → Nat → Bytes) (a b c : Nat) (out : Outcome),
    row ∈ instrTable ∧ o.opcode = row.opcode ∧ o.hasOwn m.ssp m.sp m.hp m.prevHp ∧
    (((row.name = "ECK1" ∨ row.name = "ECR1") ∧
        ∃ recover : Bytes → Bytes → Except Ecdsa.Error Bytes,
          (∀ sg ms k, recover sg ms = .ok k → k.length = Gen.SigFormat.lenPublicKey) ∧ ecRecover recover m read a b c = .ok out) ∨
     (row.name = "ED19" ∧ ∃ (edVerify : Bytes → Bytes → Bytes → Bool) (len : Nat), ed19 edVerify m read a b c len = .ok out)) ∧
    Reports (fun x => ∃ bs, out.written = some bs ∧ a ≤ x ∧ x < a + bs.length) changes

open FuelVerif.CryptoOps in
theorem ecRecover_written {recover : Bytes → Bytes → Except Ecdsa.Error Bytes} {m : MemView} {read : Nat → Nat → Bytes}
    {a b c : Nat} {out : Outcome} (hlen : ∀ sg ms k, recover sg ms = .ok k → k.length = Gen.SigFormat.lenPublicKey)
    (h : ecRecover recover m read a b c = .ok out) :
    writeCheck m a Gen.SigFormat.lenPublicKey = .ok () ∧ ∃ bs, out.written = some bs ∧ bs.length = Gen.SigFormat.lenPublicKey := by
  unfold ecRecover at h
  cases hv1 : CryptoOps.verify m b Gen.SigFormat.lenBytes64 with
  | error e => simp [hv1] at h
  | ok r1 =>
    cases hv2 : CryptoOps.verify m c Gen.SigFormat.lenBytes32 with
    | error e => simp [hv1, hv2] at h
    | ok r2 =>
      cases hw : writeCheck m a Gen.SigFormat.lenPublicKey with
      | error e =>
        cases hr : recover (read b Gen.SigFormat.lenBytes64) (read c Gen.SigFormat.lenBytes32) <;> simp [hv1, hv2, hw, hr] at h
      | ok u =>
        cases u
        refine ⟨rfl, ?_⟩
        cases hr : recover (read b Gen.SigFormat.lenBytes64) (read c Gen.SigFormat.lenBytes32) with
        | ok key =>
          simp only [hv1, hv2, hw, hr, Except.ok.injEq] at h
          subst h
          exact ⟨key, rfl, hlen _ _ _ hr⟩
        | error e =>
          simp only [hv1, hv2, hw, hr, Except.ok.injEq] at h
          subst h
          exact ⟨_, rfl, by simp [zeros]⟩

open FuelVerif.CryptoOps in
theorem ed19_written {edVerify : Bytes → Bytes → Bytes → Bool} {m : MemView} {read : Nat → Nat → Bytes}
    {a b c len : Nat} {out : Outcome} (h : ed19 edVerify m read a b c len = .ok out) : out.written = none := by
  unfold ed19 at h
  simp only at h
  cases hv1 : CryptoOps.verify m a Gen.SigFormat.lenBytes32 with
  | error e => simp [hv1] at h
  | ok r1 =>
    cases hv2 : CryptoOps.verify m b Gen.SigFormat.lenBytes64 with
    | error e => simp [hv1, hv2] at h
    | ok r2 =>
      generalize (if len = Gen.SigFormat.ed19ZeroLen then Gen.SigFormat.ed19DefaultLen else len) = L at h
      cases hv3 : CryptoOps.verify m c L with
      | error e => simp [hv1, hv2, hv3] at h
      | ok r3 =>
        simp only [hv1, hv2, hv3] at h
        split at h <;> (simp only [Except.ok.injEq] at h; subst h; rfl)

open FuelVerif.CryptoOps in
/-- **ECK1 ECR1 ED19**: the recovered key (or 64 zero bytes) is written at `$a` only after `write(owner, a, 64)` accepted
the range; ED19 writes nothing -/
theorem crypto_instructions_hold : EveryInstructionStatement cryptoStep := by
  intro o changes ⟨row, m, read, a, b, c, out, hm, hopc, ⟨h1, h2, h3, h4⟩, hkind, hrep⟩
  rcases hkind with ⟨hn, recover, hlen, hex⟩ | ⟨hn, edVerify, len, hex⟩
  · have hcls : classOfOpcode o.opcode = some .owned := by
      rw [hopc, classOfOpcode_row hm]
      rcases hn with hn | hn <;> rw [hn] <;> decide
    obtain ⟨hw, bs, hbs, hl⟩ := ecRecover_written hlen hex
    refine verdict_ok_of_owned_region hcls hrep a Gen.SigFormat.lenPublicKey (fun x ⟨bs', hb', hx1, hx2⟩ => ?_) ?_
    · rw [hbs] at hb'; cases hb'; rw [hl] at hx2; exact ⟨hx1, hx2⟩
    · have := writeCheck_ok hw
      rw [crypto_owns_bridge] at this
      simpa [StepObs.own, h1, h2, h3, h4] using this
  · have hcls : classOfOpcode o.opcode = some .none := by
      rw [hopc, classOfOpcode_row hm, hn]; decide
    have hnone := ed19_written hex
    exact verdict_ok_of_unchanged hcls hrep (fun x ⟨bs, hb, _⟩ => by rw [hnone] at hb; cases hb)

/-! ### CCP, BLDD -/

open FuelVerif.StorageRead in
theorem storeread_owns_bridge (o : StorageRead.Owner) (s e : Nat) :
    (o.ownsStack s e || o.ownsHeap s e) = ({ sp := o.sp, ssp := o.ssp, hp := o.hp, prevHp := o.prevHp } : Ownership).hasRange memSize s e := by
  have hM : Gen.StoreRead.vmMaxRam = memSize := by decide
  simp only [StorageRead.Owner.ownsStack, StorageRead.Owner.ownsHeap, Ownership.hasRange, Ownership.hasStack, Ownership.hasHeap, hM, Nat.not_lt]

open FuelVerif.StorageRead in
/-- one modelled CCP (`codeCopy`) or BLDD (`blobLoadData`) that succeeds (a panicking one changes nothing: the
models return no state) -/
def copyStep (o : StepObs) (changes : List (Nat × Nat)) : Prop :=
  ∃ (row : InstrRow) (v v' : Vm) (env : Env) (a b c d : Nat),
    row ∈ instrTable ∧ o.opcode = row.opcode ∧ o.hasOwn v.ssp v.sp v.hp v.prevHp ∧
    ((row.name = "CCP" ∧ codeCopy v env a b c d = .ok v') ∨ (row.name = "BLDD" ∧ blobLoadData v env a b c d = .ok v')) ∧
    Reports (fun x => v'.mem.get x ≠ v.mem.get x) changes

open FuelVerif.StorageRead in
/-- **CCP BLDD**: only `[a, a+d)` changes, and `write(owner, a, d)` accepted that range -/
theorem copy_instructions_hold : EveryInstructionStatement copyStep := by
  intro o changes ⟨row, v, v', env, a, b, c, d, hm, hopc, ⟨h1, h2, h3, h4⟩, hkind, hrep⟩
  have hcls : classOfOpcode o.opcode = some .owned := by
    rw [hopc, classOfOpcode_row hm]
    rcases hkind with ⟨hn, _⟩ | ⟨hn, _⟩ <;> rw [hn] <;> decide
  have hfacts : (∀ p, p < a ∨ a + d ≤ p → v'.mem.get p = v.mem.get p) ∧
      (v.owner.ownsStack a (a + d) || v.owner.ownsHeap a (a + d)) = true := by
    rcases hkind with ⟨_, hex⟩ | ⟨_, hex⟩
    · obtain ⟨_, _, _, _, _, _, hfr, _, _, _, _, hown⟩ := ccp_spec v v' env a b c d hex
      exact ⟨hfr, hown⟩
    · obtain ⟨_, _, _, _, _, hfr, _, _, _, _, hown⟩ := bldd_spec v v' env a b c d hex
      exact ⟨hfr, hown⟩
  refine verdict_ok_of_owned_region hcls hrep a d (fun x hx => ?_) ?_
  · by_cases hin : a ≤ x ∧ x < a + d
    · exact hin
    · exact absurd (hfacts.1 x (by omega)) hx
  · have := hfacts.2
    rw [storeread_owns_bridge] at this
    simpa [StepObs.own, Vm.owner, h1, h2, h3, h4] using this

/-! ### the 33 ALU and 12 jump opcodes: register-only models -/

open FuelVerif.Alu FuelVerif.Gen.AluArgs in
/-- the ALU and jump families are modelled as functions `Regs → Regs × Option Panic` (`execAlu`, `execJump`): the
helpers they transcribe (`alu_set`, `alu_capture_overflow`, …, `JumpArgs::jump`, `write_user_register`) receive
register handles only. Their modelled executions therefore have an empty set of changed addresses. -/
def regOnlyStep (o : StepObs) (changes : List (Nat × Nat)) : Prop :=
  ∃ (row : InstrRow), row ∈ instrTable ∧ o.opcode = row.opcode ∧
    ((AluOp.ofName row.name).isSome = true ∨ (JumpOp.ofName row.name).isSome = true) ∧
    Reports (fun _ => False) changes

open FuelVerif.Alu FuelVerif.Gen.AluArgs in
/-- the table classifies every opcode of these two families as `none` -/
theorem regonly_rows_class :
    instrTable.all (fun row => ((AluOp.ofName row.name).isSome || (JumpOp.ofName row.name).isSome) →
      writeClassOf row.name == some .none) = true := by
  decide +kernel

open FuelVerif.Alu FuelVerif.Gen.AluArgs in
theorem regonly_instructions_hold : EveryInstructionStatement regOnlyStep := by
  intro o changes ⟨row, hm, hopc, hfam, hrep⟩
  have h0 := regonly_rows_class
  rw [List.all_eq_true] at h0
  have h1 := of_decide_eq_true (h0 row hm)
  have hcls : classOfOpcode o.opcode = some .none := by
    rw [hopc, classOfOpcode_row hm]
    have : ((AluOp.ofName row.name).isSome || (JumpOp.ofName row.name).isSome) = true := by
      rcases hfam with h | h <;> simp [h]
    simpa using h1 this
  exact verdict_ok_of_unchanged hcls hrep (fun _ h => h)

/-! ### union, and what remains -/

/-- a modelled instruction of any of the families above -/
def modelledStep (o : StepObs) (changes : List (Nat × Nat)) : Prop :=
  wideStep o changes ∨ cryptoStep o changes ∨ copyStep o changes ∨ regOnlyStep o changes

/-- **`EveryInstructionStatement` holds for the modelled opcode families** (64 opcodes) -/
theorem every_modelled_instruction_holds : EveryInstructionStatement modelledStep := by
  intro o changes h
  rcases h with h | h | h | h
  · exact wide_instructions_hold o changes h
  · exact crypto_instructions_hold o changes h
  · exact copy_instructions_hold o changes h
  · exact regonly_instructions_hold o changes h

open FuelVerif.Alu FuelVerif.Gen.AluArgs in
/-- mnemonics covered by `every_modelled_instruction_holds` -/
def isModelledOpcode (name : String) : Bool :=
  (WideOp.ofName name).isSome || (AluOp.ofName name).isSome || (JumpOp.ofName name).isSome ||
  name == "ECK1" || name == "ECR1" || name == "ED19" || name == "CCP" || name == "BLDD"

/-- the opcodes for which "writes only what its class allows" still rests on the correspondence streams `c24`/`c24b`,
the classification table (`write_class_total`) and the write-site obligation (`noownercheck_sites`) -/
def correspondenceOnlyOpcodes : List String :=
  ["RET", "RETD", "ALOC", "MCL", "MCP", "MEQ", "BHSH", "BHEI", "BURN", "CALL", "CROO", "CSIZ", "CB", "LDC", "LOG", "LOGD",
   "MINT", "RVRT", "SCWQ", "SRW", "SRWQ", "SWW", "SWWQ", "TR", "TRO", "K256", "S256", "TIME", "FLAG", "BAL", "SMO",
   "LB", "LW", "SB", "SW", "MCPI", "GTF", "LQW", "LHW", "SQW", "SHW", "MCLI", "GM", "CFEI", "CFSI", "CFE", "CFS",
   "PSHL", "PSHH", "POPL", "POPH", "ECAL", "BSIZ", "ECOP", "EPAR", "SCLR", "SRDD", "SRDI", "SWRD", "SWRI", "SUPD", "SUPI", "SPLD"]

/-- the split is exact: 64 modelled + 63 correspondence-only = the 127 opcodes of the generated table -/
theorem modelled_split :
    (instrTable.filter (fun r => !isModelledOpcode r.name)).map (·.name) = correspondenceOnlyOpcodes ∧
    (instrTable.filter (fun r => isModelledOpcode r.name)).length = 64 ∧ instrTable.length = 127 := by
  decide +kernel

/-! ### non-vacuity -/

open FuelVerif.Alu FuelVerif.Gen.AluArgs in
/-- a concrete wide step: WDOP `[16,17,18,0x20]` on `exSt` (C22) stores 16 bytes at address 64 inside `[$ssp,$sp) = [32,128)` -/
example : ((execWide .WDOP [16, 17, 18, 0x20] exSt).1.mem.bytes 79 == exSt.mem.bytes 79) = false := by decide
example : (instrTable.filter (fun r => r.name == "WDOP")).map (·.opcode) = [0xa2] := by decide +kernel
example : (verdict Gen.memSize ⟨0xa2, 32, 128, Gen.memSize, Gen.memSize, 0, 32, 128, 0, 0, 0, 0, 0, 0⟩ [(79, 80)]).isOk = true := by decide +kernel
example : (verdict Gen.memSize ⟨0xa2, 32, 128, Gen.memSize, Gen.memSize, 0, 32, 128, 0, 0, 0, 0, 0, 0⟩ [(16, 32)]).isOk = false := by decide +kernel

end FuelVerif.Memory.C24
