/-
C09, receipts clause — "…and a transaction's receipts root is that tree hash over the receipts'
canonical encodings": for EVERY history of pushes (accepted or rejected — full context, reserved tail
slots) and clears, the root `ReceiptsCtx` reports is the RFC 6962 tree hash of the canonical encodings of
exactly the receipts it holds. Proved over the statement order of `push` regenerated from receipts.rs.
-/
import FuelVerif.Model.ReceiptsCtx
import FuelVerif.Props.C09
namespace FuelVerif.RCtx
open FuelVerif.BMT FuelVerif.Gen.ReceiptsCtx

/-- obligation on the regenerated source facts: the tree is updated only after both guards, directly
with the list; `clear` resets both; the limit is `u16::MAX` -/
theorem source_order : pushOrder = ["full", "tail", "tree", "list"] ∧ clearResetsTreeAndList = true ∧
    maxReceipts = 65535 := by decide

/-- the tail-slot rule of `push` -/
def TailRejects (s : RState) (r : Rc) : Prop :=
  (s.receipts.length = maxReceipts - 1 ∧ r.kind ≠ .scriptResult) ∨
  (s.receipts.length = maxReceipts - 2 ∧ r.kind ≠ .scriptResult ∧ r.kind ≠ .panic)

instance (s : RState) (r : Rc) : Decidable (TailRejects s r) := by unfold TailRejects; infer_instance

/-- `push` in closed form, for the statement order the source has today -/
theorem push_eq (s : RState) (r : Rc) : push s r =
    if s.receipts.length = maxReceipts then (s, some .bugReceiptsCtxFull)
    else if TailRejects s r then (s, some .tooManyReceipts)
    else ({ receipts := s.receipts ++ [r], leaves := s.leaves ++ [r.enc] }, none) := by
  unfold push
  rw [source_order.1]
  by_cases h1 : s.receipts.length = maxReceipts
  · simp [runStmts, pushStmt, h1]
  · by_cases h2 : TailRejects s r
    · have h2' := h2
      unfold TailRejects at h2'
      simp [runStmts, pushStmt, h1, h2, h2']
    · have h2' := h2
      unfold TailRejects at h2'
      simp [runStmts, pushStmt, h1, h2, h2']

theorem push_inv (s : RState) (r : Rc) (h : Inv s) : Inv (push s r).1 := by
  obtain ⟨hl, hn⟩ := h
  rw [push_eq]
  by_cases h1 : s.receipts.length = maxReceipts
  · simp [h1, Inv, hl]
  · by_cases h2 : TailRejects s r
    · simp [h1, h2, Inv, hl, hn]
    · simp only [h1, h2, if_false, Inv, List.map_append, List.map_cons, List.map_nil, hl, true_and,
        List.length_append, List.length_cons, List.length_nil]
      omega

/-- a rejected push changes nothing (neither the list nor the tree) -/
theorem push_rejected_unchanged (s : RState) (r : Rc) (e : RErr) (h : (push s r).2 = some e) :
    (push s r).1 = s := by
  rw [push_eq] at *
  by_cases h1 : s.receipts.length = maxReceipts
  · simp [h1]
  · by_cases h2 : TailRejects s r
    · simp [h1, h2]
    · simp [h1, h2] at h

/-- an accepted push appends exactly that receipt -/
theorem push_accepted (s : RState) (r : Rc) (h : (push s r).2 = none) :
    (push s r).1.receipts = s.receipts ++ [r] := by
  rw [push_eq] at *
  by_cases h1 : s.receipts.length = maxReceipts
  · simp [h1] at h
  · by_cases h2 : TailRejects s r
    · simp [h1, h2] at h
    · simp [h1, h2]

/-- the driver's closed form of repeated pushes is the model's `fill` -/
theorem fillFast_eq (s : RState) (r : Rc) (n : Nat) : fillFast s r n = fill s r n := by
  have hmax : maxReceipts = 65535 := by decide
  unfold fillFast
  by_cases h : pushOrder = ["full", "tail", "tree", "list"] ∧ s.receipts.length + n ≤ maxReceipts - 2
  · rw [if_pos h]
    obtain ⟨-, hn⟩ := h
    rw [hmax] at hn
    induction n generalizing s with
    | zero => simp [fill]
    | succ k ih =>
      have h1 : ¬ s.receipts.length = maxReceipts := by rw [hmax]; omega
      have h2 : ¬ TailRejects s r := by unfold TailRejects; rw [hmax]; omega
      have hp : push s r = ({ receipts := s.receipts ++ [r], leaves := s.leaves ++ [r.enc] }, none) := by
        rw [push_eq]; simp [h1, h2]
      simp only [fill, hp]
      rw [← ih]
      · simp [List.replicate_succ, List.append_assoc]
      · simp only [List.length_append, List.length_cons, List.length_nil]; omega
  · rw [if_neg h]

theorem clear_inv (s : RState) : Inv (clear s) := by
  unfold clear; rw [source_order.2.1]; simp [Inv]

theorem run_inv (ops : List Op) : Inv (run ops) := by
  unfold run
  suffices ∀ s, Inv s → Inv (ops.foldl step s) from this {} (by simp [Inv])
  induction ops with
  | nil => intro s h; exact h
  | cons op ops ih =>
    intro s h
    apply ih
    cases op with
    | push r => exact push_inv s r h
    | clear => exact clear_inv s

/-- **receipts root, every history**: after any sequence of pushes (including rejected ones at the
limit) and clears, `root` is the RFC 6962 tree hash of the encodings of the receipts held -/
theorem receipts_ctx_root_eq_mth (H : HashFn) (hE : H [] = emptySum) (ops : List Op) :
    root H (run ops) = .ok (mth H ((run ops).receipts.map (·.enc))) := by
  obtain ⟨hl, hn⟩ := run_inv ops
  unfold root
  rw [hl]
  apply receipts_root_eq_mth H hE
  simp only [List.length_map]
  have : maxReceipts < 2 ^ 63 := by decide
  omega

/-- the two tail slots stay reserved: no history ever holds more than `MAX_RECEIPTS` receipts, a
non-ScriptResult is never in the last slot and only Panic/ScriptResult in the one before -/
theorem receipts_le_max (ops : List Op) : (run ops).receipts.length ≤ maxReceipts := (run_inv ops).2

/-! non-vacuity -/
example : (push {} ⟨.other, [1, 2, 3]⟩).1.leaves = [[1, 2, 3]] := by decide
example (rs : List Rc) (ls : List Bytes) (h : rs.length = 65533) :
    (push { receipts := rs, leaves := ls } ⟨.other, [9]⟩) = ({ receipts := rs, leaves := ls }, some .tooManyReceipts) := by
  rw [push_eq]; simp [TailRejects, maxReceipts, h]

end FuelVerif.RCtx
