/-
C28 (continued) — "the committed receipts root equals the binary Merkle root of the encoded receipts".

`Props/C28.lean` proves that the root committed by `run_program` is the root of the Merkle calculator fed with the
encodings of exactly the final receipt list, in order (`root_eq_mth_receipts_partial`), and keeps the full clause as
`RootEqMthStatement`. Here the clause is proved by composing with C09: the calculator of `Model/Outcome.lean` is
simulated by the calculator C09's theorems are about (`Lemmas/OutcomeMerkle.lean`, over C09's MMR invariant `Stk`,
`calcPush_stk`, `calcRoot_stk`), whose root is the RFC 6962 tree hash `BMT.mth` (`0x00`-prefixed leaves, `0x01`-prefixed
nodes, split at the largest power of two below `n`; `BMT.mth_equations`). The bound C09 needs (fewer than 2^63 leaves)
is supplied by `receipts_le_max` (at most 65 535 receipts). For every hash function `H`.
-/
import FuelVerif.Props.C28
import FuelVerif.Props.C09
import FuelVerif.Lemmas.OutcomeMerkle
namespace FuelVerif.Outcome
open FuelVerif

/-- **the committed receipts root is the RFC 6962 binary Merkle root of the encoded receipts** — the full statement -/
theorem root_eq_mth_holds : RootEqMthStatement BMT.mth := by
  intro H sr tmr evs o hsr htmr hw h
  rw [root_eq_mth_receipts_partial H sr tmr hsr htmr evs hw o h]
  apply OutcomeMerkle.outcome_root_eq_mth
  rcases run_wellformed H sr tmr hsr htmr evs hw RCtx.empty 0 good_empty (sync_empty H) with h' | ⟨o', ho, ⟨sh⟩, _⟩
  · rw [h'] at h; cases h
  · rw [ho] at h; cases h
    have := receipts_le_max sh
    simp only [List.length_map]
    omega

/-- the same, spelled out (and with the root as `run_program` reads it: `receipts.root()`) -/
theorem root_eq_mth_receipts (H : Bytes → Bytes) (sr : Final → Rcpt) (tmr : Rcpt)
    (hsr : ∀ f, (sr f).kind = .scriptResult) (htmr : tmr.kind = .panic) (evs : List Ev) (hw : ∀ e ∈ evs, e.wf)
    (o : Outcome) (h : runEvents H sr tmr RCtx.empty 0 evs = .ok o) :
    o.rc.root H = BMT.mth H (o.rc.receipts.map (·.enc)) :=
  root_eq_mth_holds H sr tmr evs o hsr htmr hw h

/-- it is the same value C09 proves for its model of `ReceiptsCtx::root` (`BMT.receiptsRoot`, streams c09 / c09b — `RCtx.receipts_ctx_root_eq_mth` reduces to it): the models of the receipts
root agree on the final receipt list (C09's own statements need the literal `EMPTY_SUM` to be `H []`) -/
theorem root_agrees_with_c09 (H : Bytes → Bytes) (hE : H [] = BMT.emptySum) (sr : Final → Rcpt) (tmr : Rcpt)
    (hsr : ∀ f, (sr f).kind = .scriptResult) (htmr : tmr.kind = .panic) (evs : List Ev) (hw : ∀ e ∈ evs, e.wf)
    (o : Outcome) (h : runEvents H sr tmr RCtx.empty 0 evs = .ok o) :
    BMT.receiptsRoot H (o.rc.receipts.map (·.enc)) = .ok (o.rc.root H) := by
  rw [root_eq_mth_receipts H sr tmr hsr htmr evs hw o h]
  apply BMT.receipts_root_eq_mth H hE
  rcases run_wellformed H sr tmr hsr htmr evs hw RCtx.empty 0 good_empty (sync_empty H) with h' | ⟨o', ho, ⟨sh⟩, _⟩
  · rw [h'] at h; cases h
  · rw [ho] at h; cases h
    have := receipts_le_max sh
    simp only [List.length_map]
    omega

/-! non-vacuity: a concrete run (LOG, LOG, RET at top level ⇒ three program receipts + ScriptResult) meets the hypotheses;
its committed root is the tree hash of the four encodings: H(0x01 ‖ H(0x01 ‖ l₀ ‖ l₁) ‖ H(0x01 ‖ l₂ ‖ l₃)) -/
example : ∃ o, runEvents exH exSr exTmr RCtx.empty 0 [.emit ⟨.log, [1]⟩, .emit ⟨.log, [2, 2]⟩, .ret ⟨.ret, [3]⟩] = .ok o ∧
    o.rc.receipts.map (·.enc) = [[1], [2, 2], [3], [0]] ∧
    o.rc.root exH = BMT.mth exH [[1], [2, 2], [3], [0]] := by
  refine ⟨_, rfl, by decide, ?_⟩
  exact root_eq_mth_receipts exH exSr exTmr (fun f => rfl) rfl
    [.emit ⟨.log, [1]⟩, .emit ⟨.log, [2, 2]⟩, .ret ⟨.ret, [3]⟩]
    (by intro e he; simp only [List.mem_cons, List.mem_nil_iff, or_false] at he
        rcases he with rfl | rfl | rfl <;> simp [Ev.wf, Rcpt.quiet]) _ rfl

end FuelVerif.Outcome
