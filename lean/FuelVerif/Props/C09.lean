/-
C09 — Binary Merkle roots equal the RFC 6962 tree hash.

  "For every sequence of leaves, the root produced by the streaming root calculator, the in-memory
   binary tree and the storage-backed binary tree equals the RFC 6962 Merkle tree hash with 0x00/0x01
   domain prefixes (and SHA-256 of the empty string for no leaves). The same holds for roots rebuilt
   from leaf hashes, for transaction receipts roots, and for the ephemeral root helper."

`mth` (Model/BinaryMerkle.lean) is RFC 6962 §2.1 verbatim; `splitPoint_is_rfc_k` below shows its split
is "the largest power of two smaller than n". All theorems hold for EVERY hash function `H`; the
only fact about SHA-256 used is `hE : H [] = emptySum`, i.e. that the literal `EMPTY_SUM` of
fuel-merkle/src/common.rs (regenerated into `Gen.BinaryMerkle.emptySum`) is the hash of the empty
string — checked on every run against both the `sha2` crate and the driver's SHA-256 (stream c09, line `K`).
The bound `leaves.length < 2^63` is where the u64 position arithmetic of the code stops
(`Position::from_leaf_index` = `checked_mul(2)`; beyond it `push` answers `TooLarge`).
-/
import FuelVerif.Lemmas.BinaryMerkle
namespace FuelVerif.BMT
open FuelVerif

/-- the domain-separation prefixes regenerated from common/prefix.rs are RFC 6962's 0x00 / 0x01 -/
theorem prefixes_are_rfc6962 :
    Gen.BinaryMerkle.leafPrefix = 0x00 ∧ Gen.BinaryMerkle.nodePrefix = 0x01 ∧
    Gen.BinaryMerkle.leafPrefix ≠ Gen.BinaryMerkle.nodePrefix ∧ Gen.BinaryMerkle.emptySum.length = 32 := by
  decide

/-- the split point used by `mth` is RFC 6962's `k`: a power of two with `k < n ≤ 2k` -/
theorem splitPoint_is_rfc_k (n : Nat) (hn : 2 ≤ n) :
    (∃ t, splitPoint n = 2 ^ t) ∧ splitPoint n < n ∧ n ≤ 2 * splitPoint n :=
  splitPoint_spec hn

/-- the reference is RFC 6962 §2.1: the three defining equations -/
theorem mth_equations (H : HashFn) :
    mth H [] = H [] ∧ (∀ d, mth H [d] = H (0x00 :: d)) ∧
    (∀ D : List Bytes, 2 ≤ D.length →
      mth H D = H (0x01 :: (mth H (D.take (splitPoint D.length)) ++ mth H (D.drop (splitPoint D.length))))) := by
  refine ⟨by rw [mth], fun d => by rw [mth]; rfl, fun D hD => ?_⟩
  rw [mth_unfold H D hD]; rfl

/-- **streaming root calculator** (`MerkleRootCalculator::{push*, root}`, `root_from_iterator`,
`crypto::ephemeral_merkle_root`): for every leaf sequence the root is the RFC 6962 tree hash -/
theorem calculator_root_eq_mth (H : HashFn) (hE : H [] = emptySum) (leaves : List Bytes)
    (hn : leaves.length < 2 ^ 63) :
    ephemeralMerkleRoot H leaves = .ok (mth H leaves) := by
  obtain ⟨st, hrun, hst⟩ := calcPushAll_stk H leaves [] [] (.nil 0) (by simpa using hn)
  simp only [List.nil_append] at hst
  simp only [ephemeralMerkleRoot, hrun, calcRoot_stk (segOk_mth H) (Nat.zero_le 1) hst hn]
  by_cases h : leaves = []
  · subst h; rw [if_pos rfl, mth, hE]
  · rw [if_neg h]

/-- the calculator's state after ANY number of pushes is the MMR of the pushed leaves, so the root can
be taken at every intermediate point (push more, take the root again, …) -/
theorem calculator_invariant (H : HashFn) (leaves : List Bytes) (hn : leaves.length < 2 ^ 63) :
    ∃ st, calcPushAll H [] leaves = .ok st ∧ Stk (mth H) 0 0 leaves st := by
  obtain ⟨st, hrun, hst⟩ := calcPushAll_stk H leaves [] [] (.nil 0) (by simpa using hn)
  exact ⟨st, hrun, by simpa using hst⟩

/-- **roots rebuilt from leaf hashes** (`new_from_existing_leaves(hashes).root()`): the tree hash over
the given leaf hashes — for any hash list, and in particular `mth` when they are the leaves' hashes -/
theorem from_leaf_hashes_root (H : HashFn) (hE : H [] = emptySum) (hashes : List Bytes)
    (hn : hashes.length < 2 ^ 63) :
    rootFromLeafHashes H hashes = .ok (mthHashes H hashes) := by
  obtain ⟨st, hrun, hst⟩ := calcPushAllHashes_stk H hashes [] [] (.nil 0) (by simpa using hn)
  simp only [List.nil_append] at hst
  simp only [rootFromLeafHashes, hrun, calcRoot_stk (segOk_mthHashes H) (Nat.zero_le 1) hst hn]
  by_cases h : hashes = []
  · subst h; rw [if_pos rfl, mthHashes, hE]
  · rw [if_neg h]

theorem from_leaf_hashes_root_eq_mth (H : HashFn) (hE : H [] = emptySum) (leaves : List Bytes)
    (hn : leaves.length < 2 ^ 63) :
    rootFromLeafHashes H (leaves.map (leafSum H)) = .ok (mth H leaves) := by
  rw [from_leaf_hashes_root H hE _ (by simpa using hn)]
  by_cases h : leaves = []
  · subst h; simp only [List.map_nil]; rw [mth, mthHashes]
  · rw [mth_eq_mthHashes H leaves h]

/-- **transaction receipts root** (`ReceiptsCtx::root`, `Interpreter::compute_receipts_root`): the tree
hash over the receipts' canonical encodings -/
theorem receipts_root_eq_mth (H : HashFn) (hE : H [] = emptySum) (encoded : List Bytes)
    (hn : encoded.length < 2 ^ 63) :
    receiptsRoot H encoded = .ok (mth H encoded) :=
  calculator_root_eq_mth H hE encoded hn

theorem treePushAll_stk (H : HashFn) : ∀ (ds L : List Bytes) (t : Tree),
    Stk (mth H) 1 0 L t.nodes → t.leavesCount = L.length → L.length + ds.length < 2 ^ 63 →
    ∃ t', treePushAll H t ds = .ok t' ∧ Stk (mth H) 1 0 (L ++ ds) t'.nodes ∧ t'.leavesCount = (L ++ ds).length
  | [], L, t, hst, hc, _ => ⟨t, rfl, by simpa using hst, by simpa using hc⟩
  | d :: ds, L, t, hst, hc, hb => by
    simp only [List.length_cons] at hb
    obtain ⟨t1, h1, hst1, hc1⟩ := treePush_stk H d hst hc (by omega)
    obtain ⟨t2, h2, hst2, hc2⟩ := treePushAll_stk H ds (L ++ [d]) t1 hst1 hc1
      (by simp only [List.length_append, List.length_singleton]; omega)
    exact ⟨t2, by simp only [treePushAll, h1, h2], by simpa using hst2, by simpa using hc2⟩

/-- **storage-backed and in-memory binary tree** (`binary::MerkleTree::{push, root, leaves_count}`;
`in_memory::MerkleTree` is the same tree over a `StorageMap`): for every leaf sequence pushed into a
new tree over ANY initial storage, every push succeeds, the root is the RFC 6962 tree hash and the
leaf count is the number of leaves -/
theorem tree_root_eq_mth (H : HashFn) (hE : H [] = emptySum) (storage : Storage) (leaves : List Bytes)
    (hn : leaves.length < 2 ^ 63) :
    ∃ t, treePushAll H (Tree.new storage) leaves = .ok t ∧ t.root H = .ok (mth H leaves) ∧
      t.leavesCount = leaves.length := by
  obtain ⟨t, hrun, hst, hc⟩ := treePushAll_stk H leaves [] (Tree.new storage) (.nil 0) rfl (by simpa using hn)
  simp only [List.nil_append] at hst hc
  refine ⟨t, hrun, ?_, hc⟩
  rw [treeRoot_stk (segOk_mth H) (Nat.le_refl 1) hst hn]
  by_cases h : leaves = []
  · subst h; rw [if_pos rfl, mth, hE]
  · rw [if_neg h]

/-- the in-memory wrapper drops `push` errors; below 2^63 leaves there are none, so it is the same tree -/
theorem inmem_push_eq (H : HashFn) (storage : Storage) (leaves : List Bytes) (hn : leaves.length < 2 ^ 63) :
    ∃ t, treePushAll H (Tree.new storage) leaves = .ok t ∧
      leaves.foldl (Tree.pushIgnore H) (Tree.new storage) = t := by
  have key : ∀ (ds L : List Bytes) (t : Tree), Stk (mth H) 1 0 L t.nodes → t.leavesCount = L.length →
      L.length + ds.length < 2 ^ 63 → ∃ t', treePushAll H t ds = .ok t' ∧ ds.foldl (Tree.pushIgnore H) t = t' := by
    intro ds
    induction ds with
    | nil => intro L t _ _ _; exact ⟨t, rfl, rfl⟩
    | cons d ds ih =>
      intro L t hst hc hb
      simp only [List.length_cons] at hb
      obtain ⟨t1, h1, hst1, hc1⟩ := treePush_stk H d hst hc (by omega)
      obtain ⟨t2, h2, h3⟩ := ih (L ++ [d]) t1 hst1 hc1 (by simp only [List.length_append, List.length_singleton]; omega)
      refine ⟨t2, by simp only [treePushAll, h1, h2], ?_⟩
      simp only [List.foldl_cons, Tree.pushIgnore, h1, h3]
  exact key leaves [] (Tree.new storage) (.nil 0) rfl (by simpa using hn)

/-! ### non-vacuity: a concrete hash function meeting `hE`, five leaves including an empty one -/

/-- a toy injective-on-short-inputs "hash" that satisfies `hE` (so the hypotheses are satisfiable by a
concrete function; SHA-256 satisfies it by the `K` line of stream c09) -/
def toyH : HashFn := toyHash

example : toyH [] = emptySum := rfl

def fiveLeaves : List Bytes := [[1], [], [2, 2], [3], [4]]

example : ephemeralMerkleRoot toyH fiveLeaves = .ok (mth toyH fiveLeaves) :=
  calculator_root_eq_mth toyH rfl fiveLeaves (by decide)

/-- the value is the RFC 6962 shape `N(N(N(l0,l1),N(l2,l3)),l4)` (computed by the model, kernel-checked) -/
example : ephemeralMerkleRoot toyH fiveLeaves =
    .ok [1, 1, 1, 0, 1, 0, 1, 0, 2, 2, 0, 3, 0, 4] := by rfl

example : ∃ t, treePushAll toyH (Tree.new []) fiveLeaves = .ok t ∧ t.root toyH = .ok (mth toyH fiveLeaves) ∧
    t.leavesCount = 5 :=
  tree_root_eq_mth toyH rfl [] fiveLeaves (by decide)

example : rootFromLeafHashes toyH (fiveLeaves.map (leafSum toyH)) = .ok (mth toyH fiveLeaves) :=
  from_leaf_hashes_root_eq_mth toyH rfl fiveLeaves (by decide)

end FuelVerif.BMT
