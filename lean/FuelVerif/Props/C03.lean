/-
C03 — Transaction id commits to exactly the non-malleable content.

  "A transaction's id equals SHA-256 of the big-endian chain id followed by the canonical encoding of the
   transaction with its malleable fields zeroed and its witnesses removed. Changing witnesses or any malleable
   field (receipts root, change and variable output amounts/recipients/assets, contract input and output roots
   and UTXO data, coin tx pointers, predicate gas used) never changes the id, while changing any other field or
   the chain id does; the id cached by precomputation always equals the freshly computed one."

Model: Model/TxId.lean. Signing preparation is a `Mask` (keep / default / clear, per position) *computed* from
the regenerated tables: which fields every `prepare_sign` body assigns (Gen/PrepareSign.lean, from the Rust
function bodies) and where they are (Gen/Canonical.lean, the derive tables). `stripTx k v = (maskOf k).apply v`,
`freshId H chain k v = H (chain.to_be_bytes ++ encode (stripTx k v))`, `txId` looks at the cache first.
`(maskOf k).agree v w` is the explicit relation "v and w are equal except at the zeroed / cleared positions".

The hash `H` is a parameter; collision-freedom is the named hypothesis of `id_commits`. The driver runs SHA-256.
All theorems are for all transactions of the six kinds (`wt`: C01's value set), all chain ids below 2^64.
-/
import FuelVerif.Lemmas.TxIdHistory
namespace FuelVerif.C03
open FuelVerif FuelVerif.Canonical FuelVerif.Offsets FuelVerif.TxId
open FuelVerif.Canonical.TxDesc (env)

/-! ### obligation on the regenerated tables: what `prepare_sign` zeroes is the property's list -/

/-- the fields the `prepare_sign` bodies assign are exactly: receipts root; coin tx pointer and predicate gas used;
contract-input utxo id, balance root, state root, tx pointer; message predicate gas used; contract-output roots;
change amount; variable to / amount / asset id — every one of them a field of its struct; every input variant
delegates to its struct. A field added to / removed from any `prepare_sign` breaks this equality. -/
theorem zeroed_fields_are_the_malleable_list :
    Gen.PrepareSign.structs = [("Coin", ["tx_pointer", "predicate_gas_used"]), ("InputContract", ["utxo_id", "balance_root", "state_root", "tx_pointer"]),
      ("Message", ["predicate_gas_used"]), ("OutputContract", ["balance_root", "state_root"]), ("ScriptBody", ["receipts_root"]),
      ("CreateBody", []), ("UploadBody", []), ("BlobBody", []), ("UpgradeBody", [])] ∧
    Gen.PrepareSign.outputs = [("Contract", none), ("Change", some ["amount"]), ("Variable", some ["to", "amount", "asset_id"])] ∧
    Gen.PrepareSign.inputVariants = Gen.Canonical.inputVariants.map (·.1) ∧
    Gen.PrepareSign.structs.all (fun r => r.2.all (fun f => (Resolve.fieldIndex r.1 f).isSome)) = true ∧
    Gen.PrepareSign.outputs.all (fun r => match r.2 with
      | some fs => fs.all (fun f => (enumFieldIndex "Output" r.1 f).isSome)
      | none => (enumFieldIndex "Output" r.1 "0").isSome) = true := by decide +kernel

/-- the masks fit the descriptors of the six kinds (defaults are values of the field types; only vectors and
skipped slots are cleared; the skipped `metadata` is cleared), and those descriptors are well-formed -/
theorem masks_fit : Kind.all.all (fun k => maskOk env okCustom (maskOf k) k.desc && eraseOk (maskOf k) k.desc && k.desc.wf && k.desc.nodup) = true :=
  masks_ok

/-! ### the statement -/

/-- **id = H(chain id big-endian ++ encoding of the prepared clone)** (no cache) -/
theorem id_is_hash_of_prepared_encoding (H : Bytes → Bytes) (chain : Nat) (k : Kind) (v : Val) :
    txId H chain { kind := k, val := v, metadata := none } = H (natBE 8 chain ++ encode env k.desc (stripTx k v)) ∧
    MintTx.id H chain { val := v, metadata := none } = H (natBE 8 chain ++ encode env Kind.mint.desc (stripTx .mint v)) := ⟨rfl, rfl⟩

/-- preparing twice is preparing once; the prepared clone is a transaction of the same kind -/
theorem prepared_idempotent_and_well_typed (k : Kind) (v : Val) :
    stripTx k (stripTx k v) = stripTx k v ∧ (wt env k.desc v = true → wt env k.desc (stripTx k v) = true) :=
  ⟨apply_idem v (maskOf k), strip_wt k v⟩

/-- **changing witnesses or any malleable field never changes the id**: transactions that are equal outside the
zeroed / cleared positions have the same prepared clone, hence the same id — for every hash function -/
theorem id_invariant_under_malleable (H : Bytes → Bytes) (chain : Nat) (k : Kind) (v w : Val) (h : (maskOf k).agree v w) :
    stripTx k v = stripTx k w ∧ freshId H chain k v = freshId H chain k w := by
  have := (apply_eq_iff v (maskOf k) w).mpr h
  exact ⟨this, by simp [freshId, preimage, stripTx, this]⟩

/-- **changing any other field or the chain id does**: for a collision-free `H`, equal ids force equal chain ids
and transactions equal outside the malleable positions. (Without the hypothesis: the hashed byte strings differ,
`preimage_inj`.) -/
theorem id_commits (H : Bytes → Bytes) (hH : ∀ x y, H x = H y → x = y) (c c' : Nat) (hc : c < 2 ^ 64) (hc' : c' < 2 ^ 64)
    (k : Kind) (v w : Val) (hv : wt env k.desc v = true) (hw : wt env k.desc w = true)
    (h : freshId H c k v = freshId H c' k w) : c = c' ∧ (maskOf k).agree v w :=
  preimage_inj c c' hc hc' k v w hv hw (hH _ _ h)

/-- the same without any assumption on `H`: the preimages are equal iff chain ids are equal and the transactions
agree outside the malleable positions -/
theorem preimage_eq_iff (c c' : Nat) (hc : c < 2 ^ 64) (hc' : c' < 2 ^ 64) (k : Kind) (v w : Val)
    (hv : wt env k.desc v = true) (hw : wt env k.desc w = true) :
    preimage c k v = preimage c' k w ↔ (c = c' ∧ (maskOf k).agree v w) := by
  refine ⟨preimage_inj c c' hc hc' k v w hv hw, ?_⟩
  rintro ⟨rfl, h⟩
  simp [preimage, stripTx, (apply_eq_iff v (maskOf k) w).mpr h]

/-- the order of effects of the six `precompute` bodies, regenerated from the Rust sources on every run: the metadata is reset
BEFORE the id (and everything else) is read from the object, and stored last. Dropping a reset or hoisting a read breaks this. -/
theorem precompute_resets_first : Tx.stepsOf .script = [.reset, .common, .script, .store] ∧ Tx.stepsOf .create = [.reset, .common, .other, .store] ∧
    Tx.stepsOf .upgrade = [.reset, .common, .other, .store] ∧ Tx.stepsOf .upload = [.reset, .common, .store] ∧
    Tx.stepsOf .blob = [.reset, .common, .store] ∧ mintSteps = [.reset, .id, .store] :=
  ⟨precompute_order.1, precompute_order.2.1, precompute_order.2.2.1, precompute_order.2.2.2.1, precompute_order.2.2.2.2, mint_precompute_order⟩

/-- **the id cached by precomputation equals the freshly computed one** (chargeable kinds: `CommonMetadata.id`; Mint:
`MintMetadata.id`), and `id()` then returns it — for an object `t` that may ALREADY carry a cache (of older content, or of
another chain id) when `precompute` is called -/
theorem cached_id_eq_fresh (H : Bytes → Bytes) (chain : Nat) (t t' : Tx) (hk : t.kind.chargeable = true) (h : TxId.precompute H chain t = .ok t') :
    cachedId t' = some (freshId H chain t.kind t.val) ∧ txId H chain t' = freshId H chain t.kind t.val ∧ t'.val = t.val ∧ t'.kind = t.kind :=
  precompute_cached_id H chain t t' hk h

theorem mint_cached_id_eq_fresh (H : Bytes → Bytes) (chain : Nat) (t : MintTx) :
    (t.precompute H chain).cachedId = some (freshId H chain .mint t.val) ∧ (t.precompute H chain).id H chain = freshId H chain .mint t.val ∧
    (t.precompute H chain).val = t.val := mint_precompute_cached_id H chain t

/-- **any history**: after ANY sequence of edits through the public mutators (which keep the cache) and precomputes under any chain
ids, ending with `precompute(chain)`, the cached id and `id()` are the fresh id of the CURRENT content under `chain` -/
theorem cached_id_current_after_any_history (H : Bytes → Bytes) (ops : List TxOp) (chain : Nat) (t t' : Tx) (hk : t.kind.chargeable = true)
    (h : runTxOps H t (ops ++ [.precompute chain]) = .ok t') :
    cachedId t' = some (freshId H chain t'.kind t'.val) ∧ txId H chain t' = freshId H chain t'.kind t'.val :=
  cached_id_after_history H ops chain t t' hk h

theorem mint_cached_id_current_after_any_history (H : Bytes → Bytes) (ops : List MintOp) (chain : Nat) (t : MintTx) :
    let t' := (ops ++ [MintOp.precompute chain]).foldl (applyMintOp H) t
    t'.cachedId = some (freshId H chain .mint t'.val) ∧ t'.id H chain = freshId H chain .mint t'.val :=
  mint_cached_id_after_history H ops chain t

def chargeableShape : Mask → Bool
  | .pair _ (.pair .keep (.pair _ (.pair _ (.pair .clear (.pair .clear .keep))))) => true
  | _ => false

theorem chargeable_shapes : Kind.all.all (fun k => !k.chargeable || chargeableShape (maskOf k)) = true := by decide +kernel

/-- witnesses (and the cache slot) are irrelevant: any two chargeable transactions with the same body, policies,
inputs, outputs have the same id -/
theorem witnesses_irrelevant (H : Bytes → Bytes) (chain : Nat) (k : Kind) (hk : k.chargeable = true) (b p i o w w' m m' : Val) :
    freshId H chain k (Val.ofList [b, p, i, o, w, m]) = freshId H chain k (Val.ofList [b, p, i, o, w', m']) := by
  have hs : chargeableShape (maskOf k) = true := by
    have := chargeable_shapes
    simp only [List.all_eq_true] at this
    simpa [hk] using this k (by cases k <;> simp [Kind.all])
  refine (id_invariant_under_malleable H chain k _ _ ?_).2
  generalize maskOf k = mk at hs
  match mk, hs with
  | .pair bm (.pair .keep (.pair im (.pair om (.pair .clear (.pair .clear .keep))))), _ =>
    simp [Val.ofList, Mask.agree, agree_refl]

/-! ### non-vacuity -/

def b32 : Val := Val.ofList [.bytes (zeros 32)]
def b32' (x : UInt8) : Val := Val.ofList [.bytes (List.replicate 32 x)]
def utxo (x : UInt8) (n : Nat) : Val := Val.ofList [b32' x, .int n]
def txp (h i : Nat) : Val := Val.ofList [Val.ofList [.int h], .int i]
def code (bs : Bytes) : Val := Val.ofList [Val.ofList [.bytes bs]]
def bytesV (bs : Bytes) : Val := Val.ofList [.bytes bs]

/-- a script with a coin-predicate input, a contract input, a change and a variable output, one witness -/
def exTx (root : UInt8) (ptr gas amount : Nat) (wit : Bytes) (limit : Nat) : Val :=
  Val.ofList [Val.ofList [.int limit, b32' root, code [0x24, 0, 0, 0], bytesV [1]], Policies.mk 1 [3, 0, 0, 0, 0, 0],
    Val.ofList [Val.variant 1 (Val.ofList [utxo 1 2, b32' 3, .int 10, b32' 4, txp ptr 5, .unit, .int gas, code [0x24], bytesV [1, 2, 3]]),
                Val.variant 2 (Val.ofList [utxo root 7, b32' root, b32' 9, txp 1 ptr, b32' 5])],
    Val.ofList [Val.variant 2 (Val.ofList [b32' 6, .int amount, b32' 7]), Val.variant 3 (Val.ofList [b32' root, .int amount, b32' 8])],
    Val.ofList [Val.ofList [bytesV wit]], .unit]

example : wt env Kind.script.desc (exTx 1 2 3 4 [5] 6) = true := by decide +kernel
/-- all malleable fields and the witness changed at once: the relation holds (so the ids are equal, for any `H`) … -/
example : (maskOf .script).agree (exTx 1 2 3 4 [5] 6) (exTx 9 8 7 6 [5, 4] 6) := (apply_eq_iff _ _ _).mp (by decide +kernel)
/-- … while a different script gas limit, or chain id, gives different bytes to hash -/
example : (preimage 0 .script (exTx 1 2 3 4 [5] 6) == preimage 0 .script (exTx 1 2 3 4 [5] 7)) = false := by decide +kernel
example : (preimage 0 .script (exTx 1 2 3 4 [5] 6) == preimage 1 .script (exTx 1 2 3 4 [5] 6)) = false := by decide +kernel
/-- the prepared clone: receipts root, tx pointers, gas used, contract utxo / roots, change amount, variable output zeroed, witnesses gone -/
example : stripTx .script (exTx 1 2 3 4 [5] 6) =
    Val.ofList [Val.ofList [.int 6, b32, code [0x24, 0, 0, 0], bytesV [1]], Policies.mk 1 [3, 0, 0, 0, 0, 0],
      Val.ofList [Val.variant 1 (Val.ofList [utxo 1 2, b32' 3, .int 10, b32' 4, txp 0 0, .unit, .int 0, code [0x24], bytesV [1, 2, 3]]),
                  Val.variant 2 (Val.ofList [utxo 0 0, b32, b32, txp 0 0, b32' 5])],
      Val.ofList [Val.variant 2 (Val.ofList [b32' 6, .int 0, b32' 7]), Val.variant 3 (Val.ofList [b32, .int 0, b32])],
      .unit, .unit] := by decide +kernel
example : (match TxId.precompute (fun x => x.take 4) 7 { kind := .script, val := exTx 1 2 3 4 [5] 6, metadata := none } with
    | .ok t => cachedId t == some (freshId (fun x => x.take 4) 7 .script (exTx 1 2 3 4 [5] 6))
    | .error _ => false) = true := by decide +kernel

/-- precompute under chain 7, edit the gas limit, precompute under chain 9 on the SAME object: the cache is that of the new content and chain -/
example : (match runTxOps (fun x => x) { kind := .script, val := exTx 1 2 3 4 [5] 6, metadata := none }
      [.precompute 7, .edit (exTx 1 2 3 4 [5] 99), .precompute 9] with
    | .ok t => cachedId t == some (freshId (fun x => x) 9 .script (exTx 1 2 3 4 [5] 99)) &&
               cachedId t != some (freshId (fun x => x) 7 .script (exTx 1 2 3 4 [5] 6))
    | .error _ => false) = true := by decide +kernel

end FuelVerif.C03
