/-
C13 — Sparse Merkle state persists completely in its node storage.

  "After any history of operations, loading a sparse Merkle tree from its node storage at its current
   root (or from the nodes returned for a set) yields a tree that produces the same proofs and, under any
   further operations, the same roots as the original. Loading at the empty root yields an empty tree,
   and loading at a root whose nodes are missing fails rather than producing a wrong tree."

Stated on the storage-level model (`Model/SparseStore.lean`, the transcription of `merkle_tree.rs`),
for every hash function `H` and every node store satisfying the finite-map laws (`StoreLaws`); the invariant
over all histories (`persistStatement_holds`, `reachable_load_roundtrip`, `reload_mid_history`) additionally
needs `HashOK H` (collision-free on the tagged 65-byte inputs, never the zero sum) and 32-byte keys.
-/
import FuelVerif.Lemmas.SparseStore
import FuelVerif.Lemmas.SparseRefine
import FuelVerif.Lemmas.SparseRefineDelete
import FuelVerif.Props.C12Store
namespace FuelVerif.SmtStore
open FuelVerif FuelVerif.Gen.Sparse

variable {σ : Type} (H : Bytes → Bytes) (S : StoreOps σ)

/-- **loading at the empty root yields an empty tree** (whatever the storage holds) -/
theorem load_empty (st : σ) : load H S st zeroSum = .ok (SMT.new st) := by
  simp [load]

/-- **loading at a root whose node is missing fails** with `LoadError`; it never produces a tree -/
theorem load_missing (st : σ) (root : Bytes) (hz : root ≠ zeroSum) (hm : S.get st root = none) :
    load H S st root = .error .LoadError := by
  simp [load, hz, hm]

/-- a successful load at a non-empty root returns exactly the node stored under that root -/
theorem load_ok_inv (st : σ) (root : Bytes) (t : SMT σ) (hz : root ≠ zeroSum)
    (h : load H S st root = .ok t) :
    t.storage = st ∧ ∃ p pf, S.get st root = some p ∧ Prefix.ofByte p.pfx = some pf ∧
      t.root = Node.new H p.height pf p.lo p.hi := by
  unfold load at h
  simp only [hz, ↓reduceIte] at h
  cases hg : S.get st root with
  | none => simp [hg] at h
  | some p =>
    simp only [hg] at h
    unfold Node.ofPrim at h
    cases hp : Prefix.ofByte p.pfx with
    | none => simp [hp] at h
    | some pf =>
      simp only [hp] at h
      cases h
      exact ⟨rfl, p, pf, rfl, hp, rfl⟩

/-- **reload is the identity on persisted states**: if the root is recoverable from the storage
(`RootPersisted`), `MerkleTree::load(storage, root)` returns the very same state — same root node, same
storage. Consequently every further operation and every proof of the reloaded tree coincides with the
original's (they are functions of the state). -/
theorem load_roundtrip (t : SMT σ) (hp : RootPersisted H S t) :
    load H S t.storage t.rootHash = .ok t := by
  rcases hp with hp | ⟨hw, hz, hs⟩
  · cases t with
    | mk root st =>
      simp only at hp
      subst hp
      simp [load, SMT.rootHash, Node.hash, SMT.new]
  · cases t with
    | mk root st =>
      have hne : root ≠ .placeholder := by
        intro e; subst e; exact hz rfl
      simp only [SMT.rootHash] at *
      unfold load
      simp only [hz, ↓reduceIte, hs, Node.ofPrim_toPrim H hw hne]

/-- consequence spelled out for operations: after a reload, `insert`, `delete` and `generate_proof`
give exactly what they give on the original -/
theorem reload_same_behaviour (t t' : SMT σ) (hp : RootPersisted H S t)
    (hl : load H S t.storage t.rootHash = .ok t') :
    (∀ k d, insert H S t' k d = insert H S t k d) ∧
    (∀ k, delete H S t' k = delete H S t k) ∧
    (∀ k, generateProof H S t' k = generateProof H S t k) := by
  rw [load_roundtrip H S t hp] at hl
  cases hl
  exact ⟨fun _ _ => rfl, fun _ => rfl, fun _ => rfl⟩

/-- the empty tree is persisted -/
theorem new_persisted (st : σ) : RootPersisted H S (SMT.new st) := .inl rfl

/-- the first insert (into the empty tree) leaves a persisted state, provided the leaf hash is not the
zero sum -/
theorem first_insert_persisted (hl : StoreLaws S) (st : σ) (k d : Bytes)
    (hnz : calculateLeafHash H k (H d) ≠ zeroSum) :
    RootPersisted H S (insert H S (SMT.new st) k d).1 := by
  right
  simp only [insert, SMT.new, Node.isPlaceholder, beq_self_eq_true, ↓reduceIte, putNode]
  refine ⟨createLeaf_wf H k d, ?_, ?_⟩
  · simpa [Node.createLeaf, Node.hash] using hnz
  · rw [hl.get_insert]; simp

/-- the persistence invariant as first written: every state reachable from the empty tree by `insert`/`delete`
over a lawful store is `RootPersisted` — for EVERY function `H` and keys of any length. In this generality it is
FALSE (`persistStatement_needs_hash`: a hash function that returns the zero sum makes the first leaf look like
a placeholder). The true full statement, for a collision-free never-zero hash and 32-byte keys (the Rust type
`MerkleTreeKey`), is `PersistStatementOK`, proved as `persistStatement_holds`. -/
def PersistStatement : Prop :=
  ∀ (hl : StoreLaws S) (st : σ) (ops : List (Bool × Bytes × Bytes)),
    RootPersisted H S (ops.foldl (fun t op =>
      if op.1 then (insert H S t op.2.1 op.2.2).1 else (delete H S t op.2.1).1) (SMT.new st))

/-- **every state that represents a structural tree is persisted**: if the in-memory root is the node of
a canonical tree `t` and all nodes of `t` are in the store (`SmtRefine.Rep`, garbage allowed), then
reloading from the store at the current root returns the identical state. (`Rep` is established by
`new` and preserved by `insert`/`delete`: `SmtRefine.insert_rep`, `SmtRefine.delete_rep`.) -/
theorem rep_reload {U : FuelVerif.SmtRefine.T → Prop} (hok : FuelVerif.SmtRefine.HashOn H U) (s : SMT σ)
    (t : FuelVerif.SmtRefine.T) (hr : FuelVerif.SmtRefine.Rep H hok S s t) : load H S s.storage s.rootHash = .ok s :=
  load_roundtrip H S s (FuelVerif.SmtRefine.rep_rootPersisted H hok S hr)

/-! ### the persistence invariant over all histories -/

open FuelVerif.SmtBytes FuelVerif.SmtRefine in
/-- hashes reachable from `root` through the node table: the root, and the two child hashes of every stored
internal node reached under a non-zero hash (what `StorageNode::left_child` / `right_child` follow) -/
inductive Reach (st : σ) (root : Bytes) : Bytes → Prop
  | root : Reach st root root
  | lo {h : Bytes} {p : Prim} : Reach st root h → h ≠ zeroSum → S.get st h = some p →
      p.pfx = Prefix.node.byte → Reach st root p.lo
  | hi {h : Bytes} {p : Prim} : Reach st root h → h ≠ zeroSum → S.get st h = some p →
      p.pfx = Prefix.node.byte → Reach st root p.hi

/-- the storage is CLOSED under the tree: every non-placeholder hash reachable from the root is stored, and
what is stored under it is a well-formed node with exactly that hash (so it deserialises, and `load` /
`left_child` / `right_child` on it succeed) -/
def Closed (t : SMT σ) : Prop :=
  ∀ h, Reach S t.storage t.rootHash h → h ≠ zeroSum →
    ∃ nd : Node, nd.Wf H ∧ nd ≠ .placeholder ∧ nd.hash = h ∧ S.get t.storage h = some nd.toPrim

/-- one call of `MerkleTree::insert` (`true`) / `MerkleTree::delete` (`false`): the state it leaves -/
def opStep (t : SMT σ) (op : Bool × Bytes × Bytes) : SMT σ :=
  if op.1 then (insert H S t op.2.1 op.2.2).1 else (delete H S t op.2.1).1

/-- FULL STATEMENT of the persistence clause: for a collision-free, never-zero hash (`HashOK`), a lawful node
table and any initial storage content, every state reachable from `MerkleTree::new` by `insert` / `delete` with
32-byte keys has its root node stored under its hash (`RootPersisted`) and its storage closed under the tree
(`Closed`). -/
def PersistStatementOK : Prop :=
  ∀ (_ : FuelVerif.SmtBytes.HashOK H) (_ : StoreLaws S) (st : σ) (ops : List (Bool × Bytes × Bytes)),
    (∀ op ∈ ops, op.2.1.length = keyBytes) →
    RootPersisted H S (ops.foldl (opStep H S) (SMT.new st)) ∧ Closed H S (ops.foldl (opStep H S) (SMT.new st))

open FuelVerif.SmtBytes FuelVerif.SmtRefine in
/-- every reachable state represents a canonical structural tree -/
theorem reachable_rep (hok : HashOK H) (laws : StoreLaws S) :
    ∀ (ops : List (Bool × Bytes × Bytes)) (s : SMT σ), (∃ t, Rep H hok.toOn S s t) →
      (∀ op ∈ ops, op.2.1.length = keyBytes) → ∃ t, Rep H hok.toOn S (ops.foldl (opStep H S) s) t
  | [], _, h, _ => h
  | op :: ops, s, ⟨t, hr⟩, hk => by
    have hk0 := hk op List.mem_cons_self
    refine reachable_rep hok laws ops _ ?_ (fun o ho => hk o (List.mem_cons_of_mem _ ho))
    unfold opStep
    by_cases hb : op.1 = true
    · obtain ⟨s', h1, h2⟩ := insert_rep H hok.toOn S laws hr ⟨op.2.1, hk0⟩ op.2.2 ⟨H op.2.2, hok.len _⟩ rfl
        (fun _ _ => trivial)
      simp only at h1
      rw [if_pos hb, h1]
      exact ⟨_, h2⟩
    · obtain ⟨s', h1, h2⟩ := delete_rep H hok.toOn S laws hr ⟨op.2.1, hk0⟩ (fun _ _ => trivial)
      simp only at h1
      rw [if_neg hb, h1]
      exact ⟨_, h2⟩

open FuelVerif.SmtBytes FuelVerif.SmtRefine in
/-- in a represented state everything reachable through the node table is a node of the tree -/
theorem rep_reach {U : T → Prop} (hok : HashOn H U) {s : SMT σ} {t : T} (hr : Rep H hok S s t) :
    ∀ h, Reach S s.storage s.rootHash h →
      h = zeroSum ∨ ∃ (u : T) (d : Nat), u ≠ .empty ∧ Stored H hok S s.storage d u ∧ hb H hok u = h := by
  intro h hreach
  induction hreach with
  | root =>
    by_cases e : t = .empty
    · left; rw [SMT.rootHash, hr.root, e]; rfl
    · right; exact ⟨t, 0, e, hr.stored, by rw [SMT.rootHash, hr.root, nodeOf_hash]⟩
  | @lo h p _ hz hg hp ih =>
    rcases ih with e | ⟨u, d, hne, hs, e⟩
    · exact absurd e hz
    · subst e
      rw [Stored.top H hok S hs hne] at hg
      cases hg
      cases u with
      | empty => exact absurd rfl hne
      | leaf k v => exact absurd (prefix_byte_injective Prefix.leaf Prefix.node hp) (by decide)
      | node l r =>
        by_cases el : l = .empty
        · left; subst el; rfl
        · right; exact ⟨l, d + 1, el, hs.2.1, rfl⟩
  | @hi h p _ hz hg hp ih =>
    rcases ih with e | ⟨u, d, hne, hs, e⟩
    · exact absurd e hz
    · subst e
      rw [Stored.top H hok S hs hne] at hg
      cases hg
      cases u with
      | empty => exact absurd rfl hne
      | leaf k v => exact absurd (prefix_byte_injective Prefix.leaf Prefix.node hp) (by decide)
      | node l r =>
        by_cases er : r = .empty
        · left; subst er; rfl
        · right; exact ⟨r, d + 1, er, hs.2.2, rfl⟩

open FuelVerif.SmtBytes FuelVerif.SmtRefine in
/-- a represented state is closed -/
theorem rep_closed {U : T → Prop} (hok : HashOn H U) {s : SMT σ} {t : T} (hr : Rep H hok S s t) :
    Closed H S s := by
  intro h hreach hz
  rcases rep_reach H S hok hr h hreach with e | ⟨u, d, hne, hs, e⟩
  · exact absurd e hz
  · exact ⟨nodeOf H hok d u, nodeOf_wf H hok d u, nodeOf_ne_placeholder H hok hne,
      by rw [nodeOf_hash]; exact e, by rw [← e]; exact Stored.top H hok S hs hne⟩

/-- **C13, persistence clause, for every history** (`PersistStatementOK`): every reachable state has its root
node stored under its hash and a storage closed under the tree -/
theorem persistStatement_holds : PersistStatementOK H S := by
  intro hok laws st ops hk
  obtain ⟨t, hr⟩ := reachable_rep H S hok laws ops (SMT.new st)
    ⟨.empty, trivial, rfl, trivial, fun _ h => absurd h id⟩ hk
  exact ⟨FuelVerif.SmtRefine.rep_rootPersisted H hok.toOn S hr, rep_closed H S hok.toOn hr⟩

/-- **reload at ANY point of ANY history is the identity**: for every reachable state, `MerkleTree::load`
from its storage at its current root returns the very same state — hence (`reload_same_behaviour`) the same
proofs and the same results and roots under all further operations -/
theorem reachable_load_roundtrip (hok : FuelVerif.SmtBytes.HashOK H) (laws : StoreLaws S) (st : σ)
    (ops : List (Bool × Bytes × Bytes)) (hk : ∀ op ∈ ops, op.2.1.length = keyBytes) :
    load H S (ops.foldl (opStep H S) (SMT.new st)).storage (ops.foldl (opStep H S) (SMT.new st)).rootHash =
      .ok (ops.foldl (opStep H S) (SMT.new st)) :=
  load_roundtrip H S _ (persistStatement_holds H S hok laws st ops hk).1

/-- crash-point form: run a prefix, reload from the storage, run the suffix — the same state as without the
reload -/
theorem reload_mid_history (hok : FuelVerif.SmtBytes.HashOK H) (laws : StoreLaws S) (st : σ)
    (pre suf : List (Bool × Bytes × Bytes)) (hk : ∀ op ∈ pre ++ suf, op.2.1.length = keyBytes) :
    ∃ s, load H S (pre.foldl (opStep H S) (SMT.new st)).storage
        (pre.foldl (opStep H S) (SMT.new st)).rootHash = .ok s ∧
      suf.foldl (opStep H S) s = (pre ++ suf).foldl (opStep H S) (SMT.new st) := by
  refine ⟨_, reachable_load_roundtrip H S hok laws st pre
    (fun op ho => hk op (List.mem_append_left _ ho)), ?_⟩
  rw [List.foldl_append]

/-! ### non-vacuous form: no collision among the inputs the history itself hashes -/

open FuelVerif.Smt FuelVerif.SmtBytes FuelVerif.SmtRefine in
/-- **C13, persistence clause, NON-VACUOUS form.** For ANY `H` with 32-byte output (no injectivity assumed), a
lawful node table, any initial storage and any history run by the transcribed `insert` / `delete`: if `H` has no
collision and no zero-sum preimage among the finitely many tagged inputs the history hashes
(`Smt.hashedInputs H ops`), the reached state has its root node stored under its hash (`RootPersisted`), its
storage is closed under the tree (`Closed`), and `MerkleTree::load` at its root returns the identical state. -/
theorem store_persist_nc (hl : ∀ x, (H x).length = keyBytes) (laws : StoreLaws S) (st0 : σ)
    (ops : List (Op Key32 Bytes)) (hnc : NoCollisionOn H (hashedInputs H hl ops)) :
    RootPersisted H S (storeRun H S st0 ops) ∧ Closed H S (storeRun H S st0 ops) ∧
      load H S (storeRun H S st0 ops).storage (storeRun H S st0 ops).rootHash = .ok (storeRun H S st0 ops) := by
  have hr := (store_history_rep_nc H S hl laws st0 ops hnc).2
  have hp := rep_rootPersisted H _ S hr
  exact ⟨hp, rep_closed H S _ hr, load_roundtrip H S _ hp⟩

open FuelVerif.Smt FuelVerif.SmtBytes FuelVerif.SmtRefine in
/-- **collision-extraction form**: EITHER the reached state is persisted, closed and reloads to itself, OR there
is an explicit collision (two different hashed inputs with the same hash, or one hashing to the zero sum) among
`Smt.hashedInputs H ops` -/
theorem store_persist_or_collision (hl : ∀ x, (H x).length = keyBytes) (laws : StoreLaws S) (st0 : σ)
    (ops : List (Op Key32 Bytes)) :
    (RootPersisted H S (storeRun H S st0 ops) ∧ Closed H S (storeRun H S st0 ops) ∧
      load H S (storeRun H S st0 ops).storage (storeRun H S st0 ops).rootHash = .ok (storeRun H S st0 ops)) ∨
    Collision H (hashedInputs H hl ops) :=
  or_collision (store_persist_nc H S hl laws st0 ops)

open FuelVerif.Smt FuelVerif.SmtBytes FuelVerif.SmtRefine in
/-- crash-point form, non-vacuous: reload after a prefix, then run the suffix — the same state as without the
reload, provided `H` does not collide on the inputs the PREFIX hashes -/
theorem store_reload_mid_history_nc (hl : ∀ x, (H x).length = keyBytes) (laws : StoreLaws S) (st0 : σ)
    (pre suf : List (Op Key32 Bytes)) (hnc : NoCollisionOn H (hashedInputs H hl pre)) :
    ∃ s, load H S (storeRun H S st0 pre).storage (storeRun H S st0 pre).rootHash = .ok s ∧
      suf.foldl (storeStep H S) s = storeRun H S st0 (pre ++ suf) := by
  refine ⟨_, (store_persist_nc H S hl laws st0 pre hnc).2.2, ?_⟩
  simp [storeRun, List.foldl_append]

/-- the hypothesis on the hash function cannot be dropped: with a hash function that returns the zero sum the
first inserted leaf is indistinguishable from a placeholder, and `PersistStatement` as first written fails -/
theorem persistStatement_needs_hash :
    ¬ PersistStatement (fun _ => zeroSum) funStore := by
  intro h
  have h1 := h funStore_laws (fun _ => none) [(true, [], [])]
  rcases h1 with h1 | ⟨_, h2, _⟩
  · simp [insert, SMT.new, Node.isPlaceholder, Node.createLeaf] at h1
  · exact h2 rfl

end FuelVerif.SmtStore
