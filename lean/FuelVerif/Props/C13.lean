/-
C13 — Sparse Merkle state persists completely in its node storage.

  "After any history of operations, loading a sparse Merkle tree from its node storage at its current
   root (or from the nodes returned for a set) yields a tree that produces the same proofs and, under any
   further operations, the same roots as the original. Loading at the empty root yields an empty tree,
   and loading at a root whose nodes are missing fails rather than producing a wrong tree."

Stated on the storage-level model (`Model/SparseStore.lean`, the transcription of `merkle_tree.rs`),
for every hash function `H` and every node store satisfying the finite-map laws (`StoreLaws`).
-/
import FuelVerif.Lemmas.SparseStore
import FuelVerif.Lemmas.SparseRefine
namespace FuelVerif.SmtStore
open FuelVerif FuelVerif.Gen.Sparse

variable {σ : Type} (H : Bytes → Bytes) (S : StoreOps σ)

/-- **loading at the empty root yields an empty tree** (whatever the storage holds) -/
theorem load_empty (st : σ) : load H S st zeroSum = .ok (SMT.new st) := by
  simp [load]

/-- **loading at a root whose node is missing fails** with `LoadError`; it never produces a tree -/
theorem load_missing (st : σ) (root : Bytes) (hz : root ≠ zeroSum) (hm : S.get st root = none) :
    load H S st root = .error .LoadError := by
  simp [load, hz, hm]

/-- a successful load at a non-empty root returns exactly the node stored under that root -/
theorem load_ok_inv (st : σ) (root : Bytes) (t : SMT σ) (hz : root ≠ zeroSum)
    (h : load H S st root = .ok t) :
    t.storage = st ∧ ∃ p pf, S.get st root = some p ∧ Prefix.ofByte p.pfx = some pf ∧
      t.root = Node.new H p.height pf p.lo p.hi := by
  unfold load at h
  simp only [hz, ↓reduceIte] at h
  cases hg : S.get st root with
  | none => simp [hg] at h
  | some p =>
    simp only [hg] at h
    unfold Node.ofPrim at h
    cases hp : Prefix.ofByte p.pfx with
    | none => simp [hp] at h
    | some pf =>
      simp only [hp] at h
      cases h
      exact ⟨rfl, p, pf, rfl, hp, rfl⟩

/-- **reload is the identity on persisted states**: if the root is recoverable from the storage
(`RootPersisted`), `MerkleTree::load(storage, root)` returns the very same state — same root node, same
storage. Consequently every further operation and every proof of the reloaded tree coincides with the
original's (they are functions of the state). -/
theorem load_roundtrip (t : SMT σ) (hp : RootPersisted H S t) :
    load H S t.storage t.rootHash = .ok t := by
  rcases hp with hp | ⟨hw, hz, hs⟩
  · cases t with
    | mk root st =>
      simp only at hp
      subst hp
      simp [load, SMT.rootHash, Node.hash, SMT.new]
  · cases t with
    | mk root st =>
      have hne : root ≠ .placeholder := by
        intro e; subst e; exact hz rfl
      simp only [SMT.rootHash] at *
      unfold load
      simp only [hz, ↓reduceIte, hs, Node.ofPrim_toPrim H hw hne]

/-- consequence spelled out for operations: after a reload, `insert`, `delete` and `generate_proof`
give exactly what they give on the original -/
theorem reload_same_behaviour (t t' : SMT σ) (hp : RootPersisted H S t)
    (hl : load H S t.storage t.rootHash = .ok t') :
    (∀ k d, insert H S t' k d = insert H S t k d) ∧
    (∀ k, delete H S t' k = delete H S t k) ∧
    (∀ k, generateProof H S t' k = generateProof H S t k) := by
  rw [load_roundtrip H S t hp] at hl
  cases hl
  exact ⟨fun _ _ => rfl, fun _ => rfl, fun _ => rfl⟩

/-- the empty tree is persisted -/
theorem new_persisted (st : σ) : RootPersisted H S (SMT.new st) := .inl rfl

/-- the first insert (into the empty tree) leaves a persisted state, provided the leaf hash is not the
zero sum -/
theorem first_insert_persisted (hl : StoreLaws S) (st : σ) (k d : Bytes)
    (hnz : calculateLeafHash H k (H d) ≠ zeroSum) :
    RootPersisted H S (insert H S (SMT.new st) k d).1 := by
  right
  simp only [insert, SMT.new, Node.isPlaceholder, beq_self_eq_true, ↓reduceIte, putNode]
  refine ⟨createLeaf_wf H k d, ?_, ?_⟩
  · simpa [Node.createLeaf, Node.hash] using hnz
  · rw [hl.get_insert]; simp

/-- FULL STATEMENT of the persistence clause (the invariant over all histories; proved so far only for the
cases above, checked for all generated histories by stream `c13` with a reload at EVERY position):
every state reachable from the empty tree by `insert`/`delete` over a lawful store is `RootPersisted`. -/
def PersistStatement : Prop :=
  ∀ (hl : StoreLaws S) (st : σ) (ops : List (Bool × Bytes × Bytes)),
    RootPersisted H S (ops.foldl (fun t op =>
      if op.1 then (insert H S t op.2.1 op.2.2).1 else (delete H S t op.2.1).1) (SMT.new st))

/-- **every state that represents a structural tree is persisted**: if the in-memory root is the node of
a canonical tree `t` and all nodes of `t` are in the store (`SmtRefine.Rep`, garbage allowed), then
reloading from the store at the current root returns the identical state. (`Rep` is established by
`new`; its preservation by `insert`/`delete` is the refinement that is checked by the streams and only
partly proved — `SmtRefine.mergeSides_replace` is the proved core of the path rebuild.) -/
theorem rep_reload (hok : FuelVerif.SmtBytes.HashOK H) (s : SMT σ) (t : FuelVerif.SmtRefine.T)
    (hr : FuelVerif.SmtRefine.Rep H hok S s t) : load H S s.storage s.rootHash = .ok s :=
  load_roundtrip H S s (FuelVerif.SmtRefine.rep_rootPersisted H hok S hr)

end FuelVerif.SmtStore
