/-
C14 — Sparse Merkle proofs prove membership and non-membership exactly.

  "For any tree and any key, the generated proof is an inclusion proof exactly when the key is present;
   an inclusion proof verifies for that key only with the stored value, and an exclusion proof verifies
   for that key exactly when the key is absent. A verifier given an altered proof set, a different key,
   or a leaf claiming the queried key accepts only if the compact-tree recomputation reaches the root."

Proved on the structural layer for every key width, hash function and tree (the trees reachable by
histories are the canonical ones: `run_canon`, `run_get` in `Props/C12.lean`). The soundness theorems
quantify over EVERY proof set and exclusion leaf (not only generated ones) and need collision freedom of
the hash (`CollisionFree`). The byte-level verifiers of `sparse/proof.rs` (`Model/SparseStore.lean`) are
shown to compute exactly these structural verifiers for 32-byte keys (`verifyInclusion_bytes`,
`verifyExclusion_bytes`); `generate_proof` of the storage-level model is PROVED to return the structural proof on
every storage state reachable by a history of the transcribed `insert` / `delete`
(`store_generateProof_refines`), and all clauses are restated on the transcribed functions alone
(`store_history_proofs`). The stream `c14` ties the transcription to the Rust code.
-/
import FuelVerif.Lemmas.SparseProof
import FuelVerif.Props.C12
import FuelVerif.Lemmas.SparseBytes
import FuelVerif.Lemmas.SparseRefine
import FuelVerif.Lemmas.SparseBytes32
import FuelVerif.Props.C12Store
import FuelVerif.Lemmas.SparseSoundRel
namespace FuelVerif.Smt
open Tree

variable {K V Hh : Type} [DecidableEq K] [DecidableEq Hh] (bit : K → Nat → Bool) (n : Nat)
variable (P : Hashes K V Hh)

/-- **the generated proof is an inclusion proof exactly when the key is present** -/
theorem proof_kind (k : K) (t : Tree K V) :
    (generateProof bit P k t).isInclusion = true ↔ (get bit 0 k t).isSome = true := by
  unfold generateProof
  rcases pathSet_terminal bit P k 0 t with ⟨h1, h2⟩ | ⟨k', v', h1, h2⟩
  · rw [show pathSet bit P 0 k t = ((pathSet bit P 0 k t).1, (pathSet bit P 0 k t).2) from rfl, h1, h2]
    simp [Proof.isInclusion]
  · rw [show pathSet bit P 0 k t = ((pathSet bit P 0 k t).1, (pathSet bit P 0 k t).2) from rfl, h1, h2]
    by_cases e : k' = k <;> simp [e, Proof.isInclusion]

/-- **inclusion proofs are complete**: for a present key the generated proof is an inclusion proof that
verifies against the root with the stored value -/
theorem inclusion_complete (k : K) (v : V) (t : Tree K V) (hc : Canon bit n 0 t)
    (hg : get bit 0 k t = some v) :
    ∃ s, generateProof bit P k t = .inclusion s ∧ verifyInclusion bit P n (t.hash P) k v s = true := by
  have hf := pathSet_fold bit P k 0 t
  have hl := pathSet_length bit n P k 0 t (Nat.zero_le n) hc
  unfold generateProof
  rcases pathSet_terminal bit P k 0 t with ⟨h1, h2⟩ | ⟨k', v', h1, h2⟩
  · rw [h2] at hg; cases hg
  · rw [h2] at hg
    by_cases e : k' = k
    · subst e
      simp only [↓reduceIte, Option.some.injEq] at hg
      subst hg
      rw [show pathSet bit P 0 k' t = ((pathSet bit P 0 k' t).1, (pathSet bit P 0 k' t).2) from rfl, h1]
      refine ⟨(pathSet bit P 0 k' t).1, by simp, ?_⟩
      rw [h1] at hf
      simp only [Tree.hash] at hf
      unfold verifyInclusion
      have : ¬ (pathSet bit P 0 k' t).1.length > n := by omega
      simp [this, hf]
    · simp [e] at hg

/-- **exclusion proofs are complete**: for an absent key the generated proof is an exclusion proof that
verifies against the root -/
theorem exclusion_complete (k : K) (t : Tree K V) (hc : Canon bit n 0 t)
    (hg : get bit 0 k t = none) :
    ∃ s leaf, generateProof bit P k t = .exclusion s leaf ∧
      verifyExclusion bit P n (t.hash P) k s leaf = true := by
  have hf := pathSet_fold bit P k 0 t
  have hl := pathSet_length bit n P k 0 t (Nat.zero_le n) hc
  have hn : ¬ (pathSet bit P 0 k t).1.length > n := by omega
  unfold generateProof
  rcases pathSet_terminal bit P k 0 t with ⟨h1, h2⟩ | ⟨k', v', h1, h2⟩
  · rw [show pathSet bit P 0 k t = ((pathSet bit P 0 k t).1, (pathSet bit P 0 k t).2) from rfl, h1]
    refine ⟨_, .placeholder, rfl, ?_⟩
    rw [h1] at hf
    simp only [Tree.hash] at hf
    simp [verifyExclusion, hn, hf]
  · rw [h2] at hg
    by_cases e : k' = k
    · simp [e] at hg
    · rw [show pathSet bit P 0 k t = ((pathSet bit P 0 k t).1, (pathSet bit P 0 k t).2) from rfl, h1]
      refine ⟨(pathSet bit P 0 k t).1, .leaf k' v', by simp [e], ?_⟩
      rw [h1] at hf
      simp only [Tree.hash] at hf
      simp [verifyExclusion, e, hn, hf]

/-- **inclusion soundness**: whatever proof set is presented, if `InclusionProof::verify` accepts it for
key `k` and value hash `v` against the root of a tree, then the tree stores exactly `v` at `k`
(so an inclusion proof verifies only with the stored value, and never for an absent key) -/
theorem inclusion_sound (hcf : CollisionFree P) (k : K) (v : V) (t : Tree K V) (s : List Hh)
    (h : verifyInclusion bit P n (t.hash P) k v s = true) : get bit 0 k t = some v := by
  unfold verifyInclusion at h
  split at h
  · cases h
  · have h' := of_decide_eq_true h
    obtain ⟨t', ht', hg⟩ := foldUp_sound bit P hcf k _ s.length s rfl 0 t h'
    rw [hg, hash_leaf_inv P hcf ht']
    simp [get]

/-- **exclusion soundness**: whatever proof set and exclusion leaf are presented, if
`ExclusionProof::verify` accepts them for key `k` against the root of a tree, then `k` is absent -/
theorem exclusion_sound (hcf : CollisionFree P) (k : K) (t : Tree K V) (s : List Hh)
    (leaf : ExLeaf K V) (h : verifyExclusion bit P n (t.hash P) k s leaf = true) :
    get bit 0 k t = none := by
  unfold verifyExclusion at h
  cases leaf with
  | leaf k' v' =>
    simp only at h
    split at h
    · cases h
    · next hne =>
      split at h
      · cases h
      · have h' := of_decide_eq_true h
        obtain ⟨t', ht', hg⟩ := foldUp_sound bit P hcf k _ s.length s rfl 0 t h'
        rw [hg, hash_leaf_inv P hcf ht']
        simp [get, hne]
  | placeholder =>
    simp only at h
    split at h
    · cases h
    · have h' := of_decide_eq_true h
      obtain ⟨t', ht', hg⟩ := foldUp_sound bit P hcf k _ s.length s rfl 0 t h'
      rw [hg, hash_zero_inv P hcf ht']
      simp [get]

/-- **what the verifiers compute** ("accepts only if the compact-tree recomputation reaches the root"):
acceptance = length bound, the leaf does not claim the queried key, and the fold of the proof set along
the key's bits from the leaf hash equals the root -/
theorem verifyInclusion_iff (root : Hh) (k : K) (v : V) (s : List Hh) :
    verifyInclusion bit P n root k v s = true ↔
      s.length ≤ n ∧ foldUp bit P 0 k s (P.leafH k v) = root := by
  unfold verifyInclusion
  split
  · next h => simp; omega
  · next h => simp; omega

theorem verifyExclusion_iff (root : Hh) (k : K) (s : List Hh) (leaf : ExLeaf K V) :
    verifyExclusion bit P n root k s leaf = true ↔
      (∀ v', leaf ≠ .leaf k v') ∧ s.length ≤ n ∧ foldUp bit P 0 k s (leaf.hash P) = root := by
  unfold verifyExclusion
  cases leaf with
  | leaf k' v' =>
    simp only [ExLeaf.hash]
    by_cases e : k' = k
    · subst e; simp
    · have : ∀ v'', ExLeaf.leaf k' v' ≠ ExLeaf.leaf k v'' := by
        intro v'' h; cases h; exact e rfl
      by_cases hl : s.length > n
      · simp [e, hl]; omega
      · simp [e, hl, this]; omega
  | placeholder =>
    simp only [ExLeaf.hash]
    by_cases hl : s.length > n
    · simp [hl]; omega
    · simp [hl]; omega

/-- **C14 on the trees reachable by histories**: after any history, for any key, the generated proof is
an inclusion proof iff the history's final map contains the key; it verifies against the root; and any
accepted inclusion (exclusion) proof — generated, altered or forged — implies the key is present with
that value hash (absent) in the final map. -/
theorem history_proofs (hext : KeyExt bit n) (hcf : CollisionFree P) (ops : List (Op K V)) (k : K) :
    let t := run bit n ops
    ((generateProof bit P k t).isInclusion = true ↔ (finalMap ops k).isSome = true) ∧
    (∀ v, finalMap ops k = some v →
      ∃ s, generateProof bit P k t = .inclusion s ∧ verifyInclusion bit P n (t.hash P) k v s = true) ∧
    (finalMap ops k = none →
      ∃ s leaf, generateProof bit P k t = .exclusion s leaf ∧
        verifyExclusion bit P n (t.hash P) k s leaf = true) ∧
    (∀ v s, verifyInclusion bit P n (t.hash P) k v s = true → finalMap ops k = some v) ∧
    (∀ s leaf, verifyExclusion bit P n (t.hash P) k s leaf = true → finalMap ops k = none) := by
  intro t
  have hc := run_canon bit n hext ops
  have hg := run_get bit n hext ops k
  refine ⟨?_, ?_, ?_, ?_, ?_⟩
  · rw [← hg]; exact proof_kind bit P k t
  · intro v hv; exact inclusion_complete bit n P k v t hc (by rw [hg]; exact hv)
  · intro hv; exact exclusion_complete bit n P k t hc (by rw [hg]; exact hv)
  · intro v s h; rw [← hg]; exact inclusion_sound bit n P hcf k v t s h
  · intro s leaf h; rw [← hg]; exact exclusion_sound bit n P hcf k t s leaf h

/-! ### at fuel-merkle's concrete types -/

open FuelVerif.SmtBytes FuelVerif.Gen.Sparse in
/-- **C14 for 32-byte keys, SHA-like hash functions and the verifiers' real length bound**: with `H`
collision-free on the 65-byte tagged inputs and never zero (`HashOK`), all five clauses of
`history_proofs` hold at `n = maxProofLen = 256` for the statement's hash constructors. The byte-level
verifiers of `sparse/proof.rs` compute exactly these verifiers (`SmtBytes.verifyInclusion_bytes`,
`SmtBytes.verifyExclusion_bytes`). -/
theorem history_proofs_bytes (H : Bytes → Bytes) (hok : HashOK H) (ops : List (Op Key32 Hash32))
    (k : Key32) :
    let P := hashes32 H hok.len
    let t := run bit32 maxProofLen ops
    ((generateProof bit32 P k t).isInclusion = true ↔ (finalMap ops k).isSome = true) ∧
    (∀ v, finalMap ops k = some v →
      ∃ s, generateProof bit32 P k t = .inclusion s ∧
        verifyInclusion bit32 P maxProofLen (t.hash P) k v s = true) ∧
    (finalMap ops k = none →
      ∃ s leaf, generateProof bit32 P k t = .exclusion s leaf ∧
        verifyExclusion bit32 P maxProofLen (t.hash P) k s leaf = true) ∧
    (∀ v s, verifyInclusion bit32 P maxProofLen (t.hash P) k v s = true → finalMap ops k = some v) ∧
    (∀ s leaf, verifyExclusion bit32 P maxProofLen (t.hash P) k s leaf = true → finalMap ops k = none) := by
  have h := history_proofs bit32 width (hashes32 H hok.len) keyExt_bytes (collisionFree_bytes H hok) ops k
  rw [← maxProofLen_eq_width] at h
  exact h

/-! ### the storage-level `generate_proof` -/

open FuelVerif.SmtBytes FuelVerif.SmtRefine in
/-- **`MerkleTree::generate_proof` of the storage-level transcription refines the structural one**: on
every state that represents a structural tree `t` (root node = node of `t`, all nodes of `t` stored),
`path_set` reads exactly the structural path from the node store and `generate_proof` returns the
structural proof (side hashes, inclusion/exclusion, exclusion leaf) — so `proof_kind`,
`inclusion_complete`, `exclusion_complete` transfer to the transcribed Rust algorithm. -/
theorem generateProof_refines {σ : Type} (S : FuelVerif.SmtStore.StoreOps σ) (H : Bytes → Bytes)
    {U : FuelVerif.SmtRefine.T → Prop} (hok : HashOn H U) (s : FuelVerif.SmtStore.SMT σ)
    (t : FuelVerif.SmtRefine.T) (hr : Rep H hok S s t) (k : Key32) :
    FuelVerif.SmtStore.generateProof H S s k.val =
      .ok (proofToBytes (generateProof bit32 (hashes32 H hok.len) k t)) :=
  generateProof_rep H hok S hr k

/-! ### C14 on the transcribed Rust algorithms, for every reachable storage state -/

open FuelVerif.SmtBytes FuelVerif.SmtRefine FuelVerif.Gen.Sparse in
/-- **`generate_proof` of the transcription on every reachable storage state**: after ANY history run by the
transcribed `MerkleTree::insert` / `delete` from `MerkleTree::new` over any storage, the transcribed
`generate_proof` (`path_set` over the node store) succeeds and returns exactly the structural proof of the
structural tree of the same history, and `root()` is that tree's root — so all five clauses of
`history_proofs_bytes` speak about the transcribed algorithm. -/
theorem store_generateProof_refines {σ : Type} (S : FuelVerif.SmtStore.StoreOps σ) (H : Bytes → Bytes)
    (hok : HashOK H) (laws : FuelVerif.SmtStore.StoreLaws S) (st0 : σ) (ops : List (Op Key32 Bytes))
    (k : Key32) :
    FuelVerif.SmtStore.generateProof H S (storeRun H S st0 ops) k.val =
        .ok (proofToBytes (generateProof bit32 (hashes32 H hok.len) k
          (run bit32 maxProofLen (ops.map (hashOp H hok.len))))) ∧
      (storeRun H S st0 ops).rootHash =
        ((run bit32 maxProofLen (ops.map (hashOp H hok.len))).hash (hashes32 H hok.len)).val := by
  have hr := (store_history_rep H S hok laws st0 ops).2
  rw [maxProofLen_eq_width]
  exact ⟨generateProof_rep H hok.toOn S hr k, rep_rootHash H S hok.toOn hr⟩

/-- well-typed exclusion leaf: key and value hash are 32 bytes (the Rust type `ExclusionLeafData`) -/
def LeafOK : FuelVerif.SmtStore.ExclusionLeaf → Prop
  | .leaf k v => k.length = FuelVerif.Gen.Sparse.keyBytes ∧ v.length = FuelVerif.Gen.Sparse.keyBytes
  | .placeholder => True

open FuelVerif.SmtBytes FuelVerif.SmtRefine FuelVerif.Gen.Sparse in
/-- **C14, all clauses, on the transcribed Rust algorithms.** After any history run by the transcribed
`insert` / `delete`, for any 32-byte key: `generate_proof` succeeds; the proof is an inclusion proof exactly
when the key is in the final map; for a present key the transcribed `InclusionProof::verify` accepts the
generated proof against `root()` with the stored data, for an absent key the transcribed
`ExclusionProof::verify` accepts the generated proof; and for EVERY well-typed proof set (entries of 32 bytes —
generated, altered or forged) acceptance by `InclusionProof::verify` with data `d` implies the final map holds
`sum(d)` at the key, acceptance by `ExclusionProof::verify` (any well-typed exclusion leaf) implies the key is
absent. Hypotheses: `HashOK H`, `StoreLaws S`. -/
theorem store_history_proofs {σ : Type} (S : FuelVerif.SmtStore.StoreOps σ) (H : Bytes → Bytes)
    (hok : HashOK H) (laws : FuelVerif.SmtStore.StoreLaws S) (st0 : σ) (ops : List (Op Key32 Bytes))
    (k : Key32) :
    let s := storeRun H S st0 ops
    let m := finalMap (ops.map (hashOp H hok.len))
    ∃ pf, FuelVerif.SmtStore.generateProof H S s k.val = .ok pf ∧
      ((∃ ps, pf = .inclusion ps) ↔ (m k).isSome = true) ∧
      (∀ d, m k = some ⟨H d, hok.len d⟩ →
        ∃ ps, pf = .inclusion ps ∧ FuelVerif.SmtStore.verifyInclusion H ps s.rootHash k.val d = .ok true) ∧
      (m k = none →
        ∃ ps leaf, pf = .exclusion ps leaf ∧
          FuelVerif.SmtStore.verifyExclusion H ps leaf s.rootHash k.val = .ok true) ∧
      (∀ ps d, (∀ x ∈ ps, x.length = keyBytes) →
        FuelVerif.SmtStore.verifyInclusion H ps s.rootHash k.val d = .ok true →
        m k = some ⟨H d, hok.len d⟩) ∧
      (∀ ps leaf, (∀ x ∈ ps, x.length = keyBytes) → LeafOK leaf →
        FuelVerif.SmtStore.verifyExclusion H ps leaf s.rootHash k.val = .ok true → m k = none) := by
  intro s m
  obtain ⟨hgp, hroot⟩ := store_generateProof_refines S H hok laws st0 ops k
  obtain ⟨c1, c2, c3, c4, c5⟩ := history_proofs_bytes H hok (ops.map (hashOp H hok.len)) k
  generalize run bit32 maxProofLen (ops.map (hashOp H hok.len)) = t at hgp hroot c1 c2 c3 c4 c5
  refine ⟨_, hgp, ?_, ?_, ?_, ?_, ?_⟩
  · rw [← c1]
    cases hsp : generateProof bit32 (hashes32 H hok.len) k t with
    | inclusion sp => simp [proofToBytes, Proof.isInclusion]
    | exclusion sp leaf => cases leaf <;> simp [proofToBytes, Proof.isInclusion]
  · intro d hd
    obtain ⟨sp, h1, h2⟩ := c2 _ hd
    refine ⟨sp.map Subtype.val, by rw [h1]; rfl, ?_⟩
    rw [verifyInclusion_bytes H _ _ _ _ k.property, hroot]
    have := verifyInclusion32_eq H hok.len maxProofLen (t.hash (hashes32 H hok.len)) k ⟨H d, hok.len d⟩ sp
    simp only at this
    rw [this, h2]
  · intro hn
    obtain ⟨sp, leaf, h1, h2⟩ := c3 hn
    cases leaf with
    | leaf k' v' =>
      refine ⟨sp.map Subtype.val, .leaf k'.val v'.val, by rw [h1]; rfl, ?_⟩
      rw [verifyExclusion_bytes H _ _ _ _ k.property, hroot]
      have := verifyExclusion32_eq H hok.len maxProofLen (t.hash (hashes32 H hok.len)) k sp (.leaf k' v')
      simp only [exLeafB] at this
      simp only
      rw [this, h2]
    | placeholder =>
      refine ⟨sp.map Subtype.val, .placeholder, by rw [h1]; rfl, ?_⟩
      rw [verifyExclusion_bytes H _ _ _ _ k.property, hroot]
      have := verifyExclusion32_eq H hok.len maxProofLen (t.hash (hashes32 H hok.len)) k sp .placeholder
      simp only [exLeafB] at this
      simp only
      rw [this, h2]
  · intro ps d hps hacc
    obtain ⟨ps', e⟩ := lift32 ps hps
    subst e
    rw [verifyInclusion_bytes H _ _ _ _ k.property, hroot] at hacc
    have := verifyInclusion32_eq H hok.len maxProofLen (t.hash (hashes32 H hok.len)) k ⟨H d, hok.len d⟩ ps'
    simp only at this
    rw [this] at hacc
    exact c4 _ ps' (by injection hacc)
  · intro ps leaf hps hleaf hacc
    obtain ⟨ps', e⟩ := lift32 ps hps
    subst e
    rw [verifyExclusion_bytes H _ _ _ _ k.property, hroot] at hacc
    cases leaf with
    | leaf k' v' =>
      have := verifyExclusion32_eq H hok.len maxProofLen (t.hash (hashes32 H hok.len)) k ps'
        (.leaf ⟨k', hleaf.1⟩ ⟨v', hleaf.2⟩)
      simp only [exLeafB] at this
      simp only at hacc
      rw [this] at hacc
      exact c5 ps' _ (by injection hacc)
    | placeholder =>
      have := verifyExclusion32_eq H hok.len maxProofLen (t.hash (hashes32 H hok.len)) k ps' .placeholder
      simp only [exLeafB] at this
      simp only at hacc
      rw [this] at hacc
      exact c5 ps' _ (by injection hacc)

/-! ### NON-VACUOUS form: no collision among explicitly listed hashed inputs (no `HashOK`) -/

/-- a structural exclusion leaf as the transcribed `ExclusionLeaf` -/
def exLeafStore : ExLeaf FuelVerif.SmtBytes.Key32 FuelVerif.SmtBytes.Hash32 → FuelVerif.SmtStore.ExclusionLeaf
  | .leaf k v => .leaf k.val v.val
  | .placeholder => .placeholder

theorem mem_treesOf_last (t : FuelVerif.SmtRefine.T) :
    ∀ hops : List (Op FuelVerif.SmtBytes.Key32 FuelVerif.SmtBytes.Hash32),
      hops.foldl (applyOp FuelVerif.SmtBytes.bit32 FuelVerif.SmtBytes.width) t ∈ treesOf t hops
  | [] => List.mem_cons_self
  | op :: hops => List.mem_cons_of_mem _ (mem_treesOf_last _ hops)

open FuelVerif.SmtBytes FuelVerif.SmtRefine FuelVerif.Gen.Sparse in
/-- the inputs of the final tree are among the history's hashed inputs -/
theorem treeInputs_final_subset (H : Bytes → Bytes) (hl : ∀ x, (H x).length = keyBytes)
    (ops : List (Op Key32 Bytes)) :
    ∀ y ∈ treeInputs H hl (run bit32 width (ops.map (hashOp H hl))), y ∈ hashedInputs H hl ops :=
  fun _ hy => List.mem_flatMap.mpr ⟨_, mem_treesOf_last .empty _, hy⟩

open FuelVerif.SmtBytes FuelVerif.SmtRefine FuelVerif.Gen.Sparse in
/-- **C14, all clauses, on the transcribed Rust algorithms, NON-VACUOUS form.** For ANY `H` with 32-byte output
(no injectivity assumed), a lawful node table, any initial storage, any history run by the transcribed
`insert` / `delete` and any 32-byte key:

* if `H` has no collision / zero-sum preimage among the inputs the HISTORY hashes (`hashedInputs H ops`), then
  `generate_proof` succeeds, is an inclusion proof exactly when the key is in the final map, and the transcribed
  `InclusionProof::verify` / `ExclusionProof::verify` accept the generated proof against `root()`;
* for EVERY proof set `ps` (generated, altered or forged; entries of 32 bytes) and data `d`: if `H` has no
  collision among the inputs the history hashes AND the inputs the VERIFIER hashes for `(k, d, ps)`
  (`inclusionInputs`), acceptance by the transcribed `InclusionProof::verify` implies the final map holds `sum(d)`
  at the key; likewise for `ExclusionProof::verify`, any exclusion leaf and `exclusionInputs`: acceptance implies
  the key is absent. -/
theorem store_history_proofs_nc {σ : Type} (S : FuelVerif.SmtStore.StoreOps σ) (H : Bytes → Bytes)
    (hl : ∀ x, (H x).length = keyBytes) (laws : FuelVerif.SmtStore.StoreLaws S) (st0 : σ)
    (ops : List (Op Key32 Bytes)) (k : Key32) (hnc : NoCollisionOn H (hashedInputs H hl ops)) :
    let s := storeRun H S st0 ops
    let m := finalMap (ops.map (hashOp H hl))
    ∃ pf, FuelVerif.SmtStore.generateProof H S s k.val = .ok pf ∧
      ((∃ ps, pf = .inclusion ps) ↔ (m k).isSome = true) ∧
      (∀ d, m k = some ⟨H d, hl d⟩ →
        ∃ ps, pf = .inclusion ps ∧ FuelVerif.SmtStore.verifyInclusion H ps s.rootHash k.val d = .ok true) ∧
      (m k = none →
        ∃ ps leaf, pf = .exclusion ps leaf ∧
          FuelVerif.SmtStore.verifyExclusion H ps leaf s.rootHash k.val = .ok true) ∧
      (∀ (ps : List Hash32) d,
        NoCollisionOn H (hashedInputs H hl ops ++ inclusionInputs H hl k ⟨H d, hl d⟩ ps) →
        FuelVerif.SmtStore.verifyInclusion H (ps.map Subtype.val) s.rootHash k.val d = .ok true →
        m k = some ⟨H d, hl d⟩) ∧
      (∀ (ps : List Hash32) (leaf : ExLeaf Key32 Hash32),
        NoCollisionOn H (hashedInputs H hl ops ++ exclusionInputs H hl k ps leaf) →
        FuelVerif.SmtStore.verifyExclusion H (ps.map Subtype.val) (exLeafStore leaf) s.rootHash k.val =
          .ok true → m k = none) := by
  intro s m
  have hr := (store_history_rep_nc H S hl laws st0 ops hnc).2
  have hgp := generateProof_rep H _ S hr k
  have hroot := rep_rootHash H S _ hr
  have hc := run_canon bit32 width keyExt_bytes (ops.map (hashOp H hl))
  have hg := run_get bit32 width keyExt_bytes (ops.map (hashOp H hl)) k
  have hsub := treeInputs_final_subset H hl ops
  generalize run bit32 width (ops.map (hashOp H hl)) = t at hgp hroot hc hg hsub
  have hw := maxProofLen_eq_width
  refine ⟨_, hgp, ?_, ?_, ?_, ?_, ?_⟩
  · show _ ↔ (finalMap (ops.map (hashOp H hl)) k).isSome = true
    rw [← hg, ← proof_kind bit32 (hashes32 H hl) k t]
    cases hsp : generateProof bit32 (hashes32 H hl) k t with
    | inclusion sp => simp [proofToBytes, Proof.isInclusion, PP, hsp]
    | exclusion sp leaf => cases leaf <;> simp [proofToBytes, Proof.isInclusion, PP, hsp]
  · intro d hd
    obtain ⟨sp, h1, h2⟩ := inclusion_complete bit32 width (hashes32 H hl) k ⟨H d, hl d⟩ t hc
      (by rw [hg]; exact hd)
    rw [← hw] at h2
    refine ⟨sp.map Subtype.val, by show proofToBytes _ = _; rw [show PP H _ = hashes32 H hl from rfl, h1]; rfl, ?_⟩
    rw [verifyInclusion_bytes H _ _ _ _ k.property, hroot]
    have := verifyInclusion32_eq H hl maxProofLen (t.hash (hashes32 H hl)) k ⟨H d, hl d⟩ sp
    simp only at this
    rw [this, h2]
  · intro hn
    obtain ⟨sp, leaf, h1, h2⟩ := exclusion_complete bit32 width (hashes32 H hl) k t hc
      (by rw [hg]; exact hn)
    rw [← hw] at h2
    cases leaf with
    | leaf k' v' =>
      refine ⟨sp.map Subtype.val, .leaf k'.val v'.val,
        by show proofToBytes _ = _; rw [show PP H _ = hashes32 H hl from rfl, h1]; rfl, ?_⟩
      rw [verifyExclusion_bytes H _ _ _ _ k.property, hroot]
      have := verifyExclusion32_eq H hl maxProofLen (t.hash (hashes32 H hl)) k sp (.leaf k' v')
      simp only [exLeafB] at this
      simp only
      rw [this, h2]
    | placeholder =>
      refine ⟨sp.map Subtype.val, .placeholder,
        by show proofToBytes _ = _; rw [show PP H _ = hashes32 H hl from rfl, h1]; rfl, ?_⟩
      rw [verifyExclusion_bytes H _ _ _ _ k.property, hroot]
      have := verifyExclusion32_eq H hl maxProofLen (t.hash (hashes32 H hl)) k sp .placeholder
      simp only [exLeafB] at this
      simp only
      rw [this, h2]
  · intro ps d hnc2 hacc
    rw [verifyInclusion_bytes H _ _ _ _ k.property, hroot] at hacc
    have := verifyInclusion32_eq H hl maxProofLen (t.hash (hashes32 H hl)) k ⟨H d, hl d⟩ ps
    simp only at this
    rw [this] at hacc
    show finalMap (ops.map (hashOp H hl)) k = _
    rw [← hg]
    refine inclusion_sound_rel H hl maxProofLen k ⟨H d, hl d⟩ t ps (NoCollisionOn.mono ?_ hnc2)
      (by injection hacc)
    intro y hy
    rcases List.mem_append.mp hy with hy | hy
    · exact List.mem_append_right _ hy
    · exact List.mem_append_left _ (hsub y hy)
  · intro ps leaf hnc2 hacc
    rw [verifyExclusion_bytes H _ _ _ _ k.property, hroot] at hacc
    have hsnd : Smt.verifyExclusion bit32 (hashes32 H hl) maxProofLen (t.hash (hashes32 H hl)) k ps leaf =
        true := by
      have := verifyExclusion32_eq H hl maxProofLen (t.hash (hashes32 H hl)) k ps leaf
      cases leaf with
      | leaf k' v' =>
        simp only [exLeafB] at this
        simp only [exLeafStore] at hacc
        rw [this] at hacc
        injection hacc
      | placeholder =>
        simp only [exLeafB] at this
        simp only [exLeafStore] at hacc
        rw [this] at hacc
        injection hacc
    show finalMap (ops.map (hashOp H hl)) k = _
    rw [← hg]
    refine exclusion_sound_rel H hl maxProofLen k t ps leaf (NoCollisionOn.mono ?_ hnc2) hsnd
    intro y hy
    rcases List.mem_append.mp hy with hy | hy
    · exact List.mem_append_right _ hy
    · exact List.mem_append_left _ (hsub y hy)

open FuelVerif.SmtBytes FuelVerif.SmtRefine FuelVerif.Gen.Sparse in
/-- **inclusion soundness on the transcribed verifier, collision-extraction form**: for ANY `H` with 32-byte
output, any history and ANY proof set: if the transcribed `InclusionProof::verify` accepts `(k, d, ps)` against
the root the transcribed algorithm computed, then EITHER the final map holds `sum(d)` at `k`, OR there is an
explicit collision (two different members with equal hash, or a zero-sum preimage) in the finite list of inputs
hashed by the history and by the verifier -/
theorem store_inclusion_sound_or_collision {σ : Type} (S : FuelVerif.SmtStore.StoreOps σ) (H : Bytes → Bytes)
    (hl : ∀ x, (H x).length = keyBytes) (laws : FuelVerif.SmtStore.StoreLaws S) (st0 : σ)
    (ops : List (Op Key32 Bytes)) (k : Key32) (ps : List Hash32) (d : Bytes)
    (hacc : FuelVerif.SmtStore.verifyInclusion H (ps.map Subtype.val) (storeRun H S st0 ops).rootHash k.val d =
      .ok true) :
    finalMap (ops.map (hashOp H hl)) k = some ⟨H d, hl d⟩ ∨
      Collision H (hashedInputs H hl ops ++ inclusionInputs H hl k ⟨H d, hl d⟩ ps) :=
  or_collision (fun hnc =>
    (store_history_proofs_nc S H hl laws st0 ops k
      (NoCollisionOn.mono (fun _ hy => List.mem_append_left _ hy) hnc)).choose_spec.2.2.2.2.1 ps d hnc hacc)

open FuelVerif.SmtBytes FuelVerif.SmtRefine FuelVerif.Gen.Sparse in
/-- **exclusion soundness on the transcribed verifier, collision-extraction form** -/
theorem store_exclusion_sound_or_collision {σ : Type} (S : FuelVerif.SmtStore.StoreOps σ) (H : Bytes → Bytes)
    (hl : ∀ x, (H x).length = keyBytes) (laws : FuelVerif.SmtStore.StoreLaws S) (st0 : σ)
    (ops : List (Op Key32 Bytes)) (k : Key32) (ps : List Hash32) (leaf : ExLeaf Key32 Hash32)
    (hacc : FuelVerif.SmtStore.verifyExclusion H (ps.map Subtype.val) (exLeafStore leaf)
      (storeRun H S st0 ops).rootHash k.val = .ok true) :
    finalMap (ops.map (hashOp H hl)) k = none ∨
      Collision H (hashedInputs H hl ops ++ exclusionInputs H hl k ps leaf) :=
  or_collision (fun hnc =>
    (store_history_proofs_nc S H hl laws st0 ops k
      (NoCollisionOn.mono (fun _ hy => List.mem_append_left _ hy) hnc)).choose_spec.2.2.2.2.2 ps leaf hnc hacc)

/-! ### non-vacuity of the generic soundness theorems: a collision-free hash exists (the free term algebra) -/

/-- **`CollisionFree` is satisfiable**: the free hashes of `Props/C12.lean` (`hash_free`: the hash of a tree is
the tree itself) are collision-free, so `inclusion_sound`, `exclusion_sound` and `history_proofs` are
instantiable as stated — for every key type, key width and history. (The byte-level idealisation `HashOK`, in
contrast, has no instance; the byte-level results are therefore also given in the `NoCollisionOn` /
`…_or_collision` form above.) -/
theorem collisionFree_freeHashes {K V : Type} : CollisionFree (freeHashes (K := K) (V := V)) :=
  ⟨fun _ _ _ _ h => (by cases h; exact ⟨rfl, rfl⟩), fun _ _ _ _ h => (by cases h; exact ⟨rfl, rfl⟩),
   fun _ _ _ _ h => (by cases h), fun _ _ h => (by cases h), fun _ _ h => (by cases h)⟩

example (ops : List (Op Nat Nat)) (k : Nat) (s : List (Tree Nat Nat)) (leaf : ExLeaf Nat Nat)
    (h : verifyExclusion (fun k i => k.testBit (63 - i)) freeHashes 64
      ((run (fun k i => k.testBit (63 - i)) 64 ops).hash freeHashes) k s leaf = true) :
    get (fun k i => k.testBit (63 - i)) 0 k (run (fun k i => k.testBit (63 - i)) 64 ops) = none :=
  exclusion_sound (fun k i => k.testBit (63 - i)) 64 freeHashes collisionFree_freeHashes k _ s leaf h

end FuelVerif.Smt
