/-
C12, from_set clause — PROVED (this file discharges the statement `Smt.FromSetStatement` that
`Props/C12.lean` keeps as a `def … : Prop`).

  "Building from a set, computing the root from a set, and computing nodes from a set give that same root."

For EVERY hash function `H` and every list of key-value pairs with 32-byte keys (any order, duplicate keys
allowed — the later pair wins, as in the `BTreeMap` collection of the Rust code):
`MerkleTree::from_set` over any node store, `in_memory::MerkleTree::root_from_set` (EmptyStorage) and
`nodes_from_set` (VectorStorage) never fail or panic, and their root is the compact sparse Merkle root
`specRoot` (C12's definition: leaf = H(0x00‖key‖H(value)), node = H(0x01‖l‖r), empty = 32 zero bytes) of the
set seen as a map. No assumption on `H` (not even its output length): the algorithm only compares KEYS.

Proof (`Lemmas/SparseFromSet.lean`, `Lemmas/SparseFromSetBits.lean`): the two stacks of `from_set` satisfy an
invariant (`StackInv`: encoded canonical subtrees, first keys ascending, stored proximities = first differing
bit of neighbouring first keys, strictly decreasing and above both neighbours' depths) preserved by
`merge_branches`, the inner `while`, the push of the next smaller leaf and the final merge; the resulting
structural tree is canonical (`Canon`) and lists the sorted de-duplicated set, so by uniqueness of the canonical
tree (`spec_of_agree`) its hash is `specRoot` of ANY duplicate-free listing of the same map.
-/
import FuelVerif.Lemmas.SparseFromSet
import FuelVerif.Props.C12
namespace FuelVerif.Smt
open FuelVerif FuelVerif.SmtStore FuelVerif.SmtBytes FuelVerif.SmtFromSet FuelVerif.Gen.Sparse

/-- `from_set` on ANY node store: never fails; the root hash is the compact sparse Merkle root of the set seen
as a map (later pair wins) -/
theorem fromSet_root_eq_specRoot (H : Bytes → Bytes) {σ : Type} (S : StoreOps σ) (st : σ)
    (set : List (Bytes × Bytes)) (hk : ∀ kv ∈ set, kv.1.length = keyBytes) :
    ∃ (t : SMT σ), fromSet H S st set = .ok t ∧
      specRoot bitOf (hashes H) 256 0 (set.foldl (fun m kv => alInsert kv.1 (H kv.2) m) []) = some t.rootHash := by
  obtain ⟨t, st', hrun, hcanon, hlist⟩ := fromSet_spec H S st set hk
  refine ⟨⟨enc H 0 t, st'⟩, hrun, ?_⟩
  have hag : ∀ q, lookup q (set.foldl (fun m kv => alInsert kv.1 (H kv.2) m) []) = Smt.get bitOf 0 q t := by
    intro q
    rw [get_eq_lookup q t 0 hcanon, hlist]
    have := lookup_map_val H q (btreeCollect set)
    rw [show (btreeCollect set).map (kvH H) = (btreeCollect set).map (fun kv => (kv.1, H kv.2)) from rfl, this]
    exact fold_agree H set [] [] (fun _ => rfl) q
  have hnd : KeysNodup (set.foldl (fun m kv => alInsert kv.1 (H kv.2) m) []) :=
    fold_nodup H set [] (by simp [KeysNodup])
  have := spec_of_agree bitOf maxHeight (hashes H) t 0 _ (Nat.zero_le _) hcanon hnd hag
  rw [show maxHeight - 0 = 256 from by decide] at this
  rw [this]
  show some (t.hash (hashes H)) = some (enc H 0 t).hash
  rw [enc_hash]

/-- **C12's `FromSetStatement` holds for every hash function.** -/
theorem fromSetStatement_holds (H : Bytes → Bytes) : FromSetStatement H := by
  intro set hk
  obtain ⟨t1, h1, r1⟩ := fromSet_root_eq_specRoot H emptyStorageOps () set hk
  obtain ⟨t2, h2, r2⟩ := fromSet_root_eq_specRoot H vectorStorageOps [] set hk
  refine ⟨t1.rootHash, r1, ?_, ?_⟩
  · simp only [rootFromSet, h1]
  · have : t2.rootHash = t1.rootHash := by
      rw [r1] at r2
      exact (Option.some.inj r2).symm
    refine ⟨t2.storage, ?_⟩
    simp only [nodesFromSet, h2, this]

/-! ### non-vacuity: three keys (two sharing 255 bits), an overwritten duplicate, under a toy hash -/

private def k0 : Bytes := List.replicate 32 0
private def k1 : Bytes := List.replicate 31 0 ++ [1]
private def k2 : Bytes := 0x80 :: List.replicate 31 0

/-- the hypothesis (32-byte keys) is met by a concrete set with a duplicate key given out of order -/
example : ∃ r, rootFromSet id [(k2, [7]), (k0, [1]), (k1, [2]), (k0, [3])] = .ok r ∧
    specRoot bitOf (hashes id) 256 0
      ([(k2, [7]), (k0, [1]), (k1, [2]), (k0, [3])].foldl (fun m kv => alInsert kv.1 (id kv.2) m) []) = some r := by
  obtain ⟨r, h1, h2, _⟩ := fromSetStatement_holds id [(k2, [7]), (k0, [1]), (k1, [2]), (k0, [3])] (by decide)
  exact ⟨r, h2, h1⟩

/-- the map the statement folds from that set: the later `k0` pair has replaced the earlier one -/
example : ([(k2, [7]), (k0, [1]), (k1, [2]), (k0, [3])].foldl
    (fun m (kv : Bytes × Bytes) => alInsert kv.1 (id kv.2) m) []) = [(k0, [3]), (k1, [2]), (k2, [7])] := by decide

end FuelVerif.Smt
