/-
C29 — the STATIC half of "never returns an internal-bug error / never panics the host":

  every construction site of `Bug::new(BugVariant::X)`, every `.expect(`, `.unwrap()`, `unreachable!`, `panic!`,
  `assert!`, `debug_assert!` and every `#[allow(clippy::arithmetic_side_effects)]` in the non-test code of
  fuel-vm/src/*.rs and fuel-vm/src/interpreter/** is listed by the translator `bug_sites` (Gen/BugSites.lean, fail-closed)
  and classified by hand (Model/BugSites.lean):
    (a) unreachable by a theorem of this repository          (b) unreachable by a local argument (Lemmas/BugSites.lean)
    (c) excluded by the property (storage error / invalid VM state / code not on the path)
    (d) not argued — the residual assumption                 (e) REACHABLE — known finding.

* `classification_covers_sites`: the hand table covers exactly the generated list (same sites, same order, same guard
  text) — a new / removed / edited site breaks this theorem until the table is updated.
* the `run_cmd` below: every theorem / lemma the table cites exists (and is a theorem), every key string of the table is
  the key of the generated site with the same id.
* `bug_sites_all_argued`, `no_residual_bug_site`: all 13 sites that construct a `Bug` are of class (a), (b) or (c); the
  class-(d) residue contains no `Bug` site — it consists of host-panic sites only.
* `c29_model_sites` (`C29SitesStatement`): `c29_model` restated with the class table: if every `Bug` an instruction body
  returns was constructed at a listed site (the translator's completeness), the argued sites do not fire and the explicit
  residual list `residualBugSites` does not fire, then the run loop ends with a program state or a storage error. With
  `no_residual_bug_site` the residual hypothesis is empty: `c29_model_no_residual`.
* `next_subsection_le_total`: the local argument for `NextSubsectionIndexIsHigherThanTotalNumberOfParts`, composed with
  C10 `verify_true_iff_recomputes`.
* `to_vm_expect_reachable` (Lemmas/BugSites.lean) is the finding: the `expect("Checked above")` of
  `RuntimeBalances::to_vm` IS reachable (replayed on the real code by stream c29, pass `balances_area`).
What stays informal: that a cited theorem is about the site it is cited for (two different models; by reading, see the
`note` of each entry), and unmarked slice indexing `a[i]` (the crate does not deny `clippy::indexing_slicing`, so no
static marker exists; sampled by the stream).
-/
import Lean
import FuelVerif.Model.BugSites
import FuelVerif.Lemmas.BugSites
import FuelVerif.Props.C29
import FuelVerif.Props.C01
import FuelVerif.Props.C05
import FuelVerif.Props.C10
import FuelVerif.Props.C18
import FuelVerif.Props.C19
import FuelVerif.Props.C19Compose
import FuelVerif.Props.C20
import FuelVerif.Props.C21
import FuelVerif.Props.C23
import FuelVerif.Props.C26
import FuelVerif.Props.C27Checked
import FuelVerif.Props.C28
namespace FuelVerif.Run
open FuelVerif.Debug FuelVerif.BugSites

/-- **the classification covers exactly the generated site list**: same sites (48-bit hash of file | function | kind |
detail | ordinal), same order, same guard text (32-bit hash) -/
theorem classification_covers_sites :
    Gen.BugSites.sites.map (fun s => (s.id, s.fp)) = classification.map (fun e => (e.id, e.fp)) := by
  decide +kernel

/-- the count per class: (a) 40, (b) 36, (c) 18, (d) 21, (e) 2 of 117 -/
theorem class_counts :
    (countOf "a", countOf "b", countOf "c", countOf "d", countOf "e") = (40, 36, 18, 21, 2) ∧ classification.length = 117 := by
  decide +kernel

/-- all sites that construct a `Bug` (13: one per `BugVariant::X` expression) are argued: class (a), (b) or (c) -/
theorem bug_sites_all_argued : bugEntries.length = 13 ∧ bugEntries.all (fun p => p.1.cls.argued) = true := by
  decide +kernel

/-- the class-(d) residue contains no site that constructs a `Bug` -/
theorem no_residual_bug_site : residualBugSites = [] := by decide +kernel

/-- every site that constructs a `Bug` is argued or on the explicit residual list (no class-(e) site constructs a `Bug`);
this is the table fact `c29_model_sites` uses, it stays provable when a `Bug` site is moved to class (d) -/
theorem bug_sites_argued_or_residual :
    bugEntries.all (fun p => p.1.cls.argued || residualBugSites.contains p.1.key) = true := by decide +kernel

/-- every `BugVariant` of error.rs that is constructed anywhere is constructed at a classified site, and the variants
the run-loop model raises itself are among them -/
theorem constructed_variants_exist :
    (bugEntries.all fun p => Gen.bugVariants.contains p.2) = true ∧
    (["GlobalGasUnderflow", "ContextGasOverflow", "ContextGasUnderflow", "ReceiptsCtxFull"].all
      fun v => bugEntries.any fun p => p.2 == v) = true := by
  decide +kernel

/-- upload_bytecode_subsection: `if new_uploaded_subsections_number > *upload.subsections_number() { Bug }` with
`new = uploaded + 1` after `if *upload.subsection_index() != uploaded { return Panic }`; a checked Upload passed
`binary::verify(root, witness, proof_set, subsection_index, subsections_number)`, which C10 shows to imply
`subsection_index < subsections_number` -/
theorem next_subsection_le_total (H : BMT.HashFn) (root data : Bytes) (proof : List Bytes)
    (subsectionIndex subsectionsNumber uploaded : Nat) (hn : subsectionsNumber < 2 ^ 16)
    (hchecked : BMT.verify H root data proof subsectionIndex subsectionsNumber = .ok true)
    (hseq : ¬ (subsectionIndex ≠ uploaded)) :
    ¬ (uploaded + 1 > subsectionsNumber) := by
  have := ((BMT.verify_true_iff_recomputes H root data proof subsectionIndex subsectionsNumber (by omega)).1 hchecked).1
  omega

/-- C29's model statement with the class table in place of the blanket "no instruction body returns Bug":
`fires k raw s` = executing instruction `raw` in state `s` reaches site `k`. -/
def C29SitesStatement : Prop :=
  ∀ (σ : Type) (m : Sem σ), GasLaws m → (∀ raw s, 1 ≤ m.cost raw s) →
  ∀ (fires : String → Nat → σ → Prop),
    -- completeness of the generated list: a `Bug` returned by an instruction body was constructed at a listed site of that variant
    (∀ raw s v, (m.body raw s).2 = .error (.bug v) → ∃ p ∈ bugEntries, p.2 = v ∧ fires p.1.key raw s) →
    -- classes (a), (b), (c): argued unreachable
    (∀ e ∈ classification, e.cls.argued = true → ∀ raw s, ¬ fires e.key raw s) →
    -- the explicit residual: the class-(d) sites that construct a Bug
    (∀ k ∈ residualBugSites, ∀ raw s, ¬ fires k raw s) →
    ∀ s, ∃ s' r tr, plainLoop m.machine (m.ggas s + 1) s = some (s', r, tr) ∧ tr.length ≤ m.ggas s + 1 ∧
      m.ggas s' ≤ m.ggas s ∧ (∀ e, r = .fatal e → e = .storage)

theorem mem_classification_of_mem_bugEntries (p : Entry × String) (h : p ∈ bugEntries) : p.1 ∈ classification := by
  unfold bugEntries at h
  rw [List.mem_filterMap] at h
  obtain ⟨q, hq, hq2⟩ := h
  split at hq2
  · cases hq2
    exact (List.of_mem_zip hq).1
  · cases hq2

theorem c29_model_sites : C29SitesStatement := by
  intro σ m L hpos fires hsrc harg hres
  apply c29_model σ m L hpos
  intro raw s v hb
  obtain ⟨p, hp, _, hf⟩ := hsrc raw s v hb
  have hall := bug_sites_argued_or_residual
  rw [List.all_eq_true] at hall
  have h := hall p hp
  rw [Bool.or_eq_true] at h
  rcases h with h | h
  · exact harg p.1 (mem_classification_of_mem_bugEntries p hp) h raw s hf
  · exact hres p.1.key (by simpa using h) raw s hf

/-- with the table as it is the residual list is empty: the internal-bug half of C29 rests on the completeness of the
site list and on the arguments of classes (a), (b), (c) only -/
theorem c29_model_no_residual (σ : Type) (m : Sem σ) (L : GasLaws m) (hpos : ∀ raw s, 1 ≤ m.cost raw s)
    (fires : String → Nat → σ → Prop)
    (hsrc : ∀ raw s v, (m.body raw s).2 = .error (.bug v) → ∃ p ∈ bugEntries, p.2 = v ∧ fires p.1.key raw s)
    (harg : ∀ e ∈ classification, e.cls.argued = true → ∀ raw s, ¬ fires e.key raw s) (s : σ) :
    ∃ s' r tr, plainLoop m.machine (m.ggas s + 1) s = some (s', r, tr) ∧ tr.length ≤ m.ggas s + 1 ∧
      m.ggas s' ≤ m.ggas s ∧ (∀ e, r = .fatal e → e = .storage) :=
  c29_model_sites σ m L hpos fires hsrc harg (by rw [no_residual_bug_site]; intro k hk; cases hk) s

/-- **the finding, restated at property level**: the host-panic half of C29 is FALSE on the current code — the
`expect("Checked above")` of `RuntimeBalances::to_vm` fires for a transaction whose initial free balances have more
entries than `max_inputs` (the two sites are the only class-(e) entries) -/
theorem host_panic_site_reachable :
    (classification.filter fun e => e.cls.letter == "e").map (·.id) = [201828791861209, 162192739147345] ∧
    Gen.BugSites.entriesCheckedAgainstMaxInputs = false ∧ (assetTable [1] 0).length = 2 ∧
    ¬ (2 ≤ 1) := by
  refine ⟨by decide +kernel, rfl, by decide, by omega⟩

-- every cited theorem exists and is a theorem; every key string of the hand table is the generated key with that id
open Lean Elab Command in
run_cmd do
  let env ← getEnv
  for n in citedNames do
    let nm := n.splitOn "." |>.foldl (fun acc part => Name.str acc part) Name.anonymous
    match env.find? nm with
    | some (.thmInfo _) => pure ()
    | some _ => throwError "Model/BugSites.lean cites {n}, which is not a theorem"
    | none => throwError "Model/BugSites.lean cites {n}, which does not exist"
  for (e, s) in paired do
    unless e.key == s.key do throwError "Model/BugSites.lean: key {e.key} does not match the generated key {s.key}"

/-! non-vacuity: the lawful spinning machine of Props/C29 (`spinLaws`) never returns a Bug, so
`fires := fun _ _ _ => False` meets the hypotheses of `c29_model_no_residual` -/
example : ∃ s' r tr, plainLoop spin.machine 6 ⟨(5, 5), Nat.le_refl 5⟩ = some (s', r, tr) ∧ tr.length ≤ 6 ∧
    spin.ggas s' ≤ 5 ∧ (∀ e, r = .fatal e → e = .storage) :=
  c29_model_no_residual GasPair spin spinLaws (fun _ _ => Nat.le_refl 1) (fun _ _ _ => False)
    (fun raw s v h => by simp [spin] at h) (fun _ _ _ _ _ h => h) ⟨(5, 5), Nat.le_refl 5⟩

end FuelVerif.Run
