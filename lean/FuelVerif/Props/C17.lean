/-
C17 — Signing, recovery and verification are mutually consistent.

  "For every secret key and message, a secp256k1 or secp256r1 signature produced by the library is
   normalized (the recovery bit position is free), recovers exactly the signer's public key and
   verifies against it, and fails to recover that key for any other message. Ed25519 verification
   accepts exactly the signatures the reference implementation accepts under strict verification,
   and the VM's signature instructions report the same outcomes."

Model: `secpSign / secpRecover / secpVerify` = `Signature::{sign, recover, verify}` (std backend),
`r1Sign / r1Recover` = `secp256r1::{sign_prehashed, recover}`, `CryptoOps.{ecRecover, ed19}` = the ECK1 /
ECR1 / ED19 handlers.  The curve is a parameter `E` with `CurveLaws E` (a group of prime order `n` acted
on by `ZMod n`, decompression and coordinate facts) as hypothesis; `k` is the nonce (both libraries
derive it by RFC 6979; any `0 < k < n` is covered).  Size hypotheses `n, p ≤ 2^256` are what makes the
32-byte big-endian encodings faithful.  Ed25519 is a parameter of the VM handler.
-/
import FuelVerif.Lemmas.EcdsaWrappers
import FuelVerif.Model.CryptoOps
import FuelVerif.Lemmas.ToyCurve
namespace FuelVerif.Ecdsa
open FuelVerif

variable {E : Curve} [AddCommGroup E.Pt] [Module (ZMod E.n) E.Pt]

/-- **normalized**: a produced secp256k1 signature is `encode_signature(r ‖ s, v)` with `0 < s ≤ n/2`,
`0 < r < n`; decoding returns exactly `(r ‖ s, v)`, i.e. bit 255 of `s` was free to carry `v`. -/
theorem sign_normalized (L : CurveLaws E) (d k : Nat) (msg sig : Bytes) (hk0 : k ≠ 0) (hn : E.n ≤ 2 ^ 256)
    (h : secpSign E d k msg = .ok sig) :
    ∃ r s v, decodeSignature sig = (compact r s, v) ∧ sigR (compact r s) = r ∧ sigS (compact r s) = s ∧
      0 < r ∧ r < E.n ∧ 0 < s ∧ s ≤ E.n / 2 ∧ s < 2 ^ 255 := by
  have S := CurveLaws.secpSign_ok d k msg sig hk0 h
  obtain ⟨hdec, hR, hS⟩ := L.signed_decode hn S
  have hlow := sNorm_low L.n_odd (L.sVal_lt d k (msgScalar E.n msg) (E.toXY (E.mulG k)).1)
  have hle : sNorm E.n (sVal E.n d k (msgScalar E.n msg) (E.toXY (E.mulG k)).1) ≤ E.n / 2 := by
    unfold isHigh at hlow; simpa using hlow
  refine ⟨_, _, _, hdec, hR, hS, Nat.pos_of_ne_zero S.hr0, S.hx,
    Nat.pos_of_ne_zero (sNorm_ne_zero S.hs0 (L.sVal_lt _ _ _ _)), hle, ?_⟩
  have : E.n / 2 < 2 ^ 255 := by
    have := L.n_odd
    omega
  omega

/-- the assertion `"Non-normalized signature"` of `encode_signature` can never fire in `sign` -/
theorem sign_never_nonnormalized (L : CurveLaws E) (d k : Nat) (msg : Bytes) (hn : E.n ≤ 2 ^ 256) :
    secpSign E d k msg ≠ .error .NonNormalized := by
  intro h
  unfold secpSign at h
  have key : ∀ r s v, scSigSign E d k (msgScalar E.n msg) = some (r, s, v) →
      ∀ b, encodeSignature (compact r s) b ≠ .error .NonNormalized := by
    intro r s v hs b
    have hslow : s ≤ E.n / 2 := L.scSigSign_s_low d k _ r s v hs
    have hlt : s < 2 ^ 255 := by have := L.n_odd; omega
    obtain ⟨e, he⟩ := (encode_ok_iff (compact r s) b).mpr (compact_byte32_lt r s hlt)
    rw [he]; simp
  split at h
  · exact absurd h (by simp)
  · split at h
    · exact absurd h (by simp)
    · rename_i r s recid hs
      split at h
      · exact key r s recid hs _ h
      · split at h
        · exact key r s recid hs _ h
        · exact absurd h (by simp)

/-- **recovers exactly the signer's public key** (secp256k1, `Signature::sign` then `Signature::recover`) -/
theorem recover_sign (L : CurveLaws E) (d k : Nat) (msg sig : Bytes)
    (hk0 : k ≠ 0) (hk : k < E.n) (hd0 : d ≠ 0) (hd : d < E.n) (hn : E.n ≤ 2 ^ 256)
    (h : secpSign E d k msg = .ok sig) : secpRecover E sig msg = .ok (publicKey E d) :=
  L.secpRecover_signed hk0 hk hd0 hd hn (CurveLaws.secpSign_ok d k msg sig hk0 h)

/-- **and verifies against it** -/
theorem verify_sign (L : CurveLaws E) (d k : Nat) (msg sig : Bytes)
    (hk0 : k ≠ 0) (hk : k < E.n) (hd0 : d ≠ 0) (hd : d < E.n) (hn : E.n ≤ 2 ^ 256) (hp : E.p ≤ 2 ^ 256)
    (h : secpSign E d k msg = .ok sig) : secpVerify E sig (publicKey E d) msg = .ok () :=
  L.secpVerify_signed hk0 hk hd0 hd hn hp (CurveLaws.secpSign_ok d k msg sig hk0 h)

/-- the full English clause "fails to recover that key for any other message" -/
def RecoverOtherMessageStatement (E : Curve) : Prop :=
  ∀ d k (msg msg' sig : Bytes), k ≠ 0 → k < E.n → d ≠ 0 → d < E.n → secpSign E d k msg = .ok sig →
    msg' ≠ msg → secpRecover E sig msg' ≠ .ok (publicKey E d)

/-- **fails to recover that key for any other message** — proved for every message whose digest scalar
differs (`beNat msg' mod n ≠ beNat msg mod n`).  The literal statement (any other 32 bytes) is false:
see `recover_congruent_message` and `congruent_messages_exist`. -/
theorem recover_other_message_partial (L : CurveLaws E) (d k : Nat) (msg msg' sig : Bytes)
    (hk0 : k ≠ 0) (hk : k < E.n) (hd0 : d ≠ 0) (hd : d < E.n) (hn : E.n ≤ 2 ^ 256) (hp : E.p ≤ 2 ^ 256)
    (h : secpSign E d k msg = .ok sig) (hz : msgScalar E.n msg' ≠ msgScalar E.n msg) :
    secpRecover E sig msg' ≠ .ok (publicKey E d) :=
  L.secpRecover_other_digest hk0 hk hd0 hd hn hp (CurveLaws.secpSign_ok d k msg sig hk0 h) hz

/-- two messages with the same value mod `n` are indistinguishable to recovery and verification:
the negative half of the "any other message" clause (the code reduces the 32 bytes mod `n`) -/
theorem recover_congruent_message (E : Curve) (sig pk msg msg' : Bytes) (hz : msgScalar E.n msg' = msgScalar E.n msg) :
    secpRecover E sig msg' = secpRecover E sig msg ∧ secpVerify E sig pk msg' = secpVerify E sig pk msg := by
  unfold secpRecover secpVerify
  rw [hz]
  exact ⟨rfl, rfl⟩

/-- such pairs exist for secp256k1: the 32-byte strings `1` and `n + 1` (replayed on the real code by
stream `c17`, fingerprint `other-message-congruent-mod-n`) -/
theorem congruent_messages_exist :
    natBE 32 1 ≠ natBE 32 (Ecc.secp256k1.n + 1) ∧
      msgScalar Ecc.secp256k1.n (natBE 32 (Ecc.secp256k1.n + 1)) = msgScalar Ecc.secp256k1.n (natBE 32 1) := by
  constructor
  · intro h
    have := congrArg beNat h
    rw [beNat_natBE, beNat_natBE] at this
    revert this
    decide
  · unfold msgScalar
    rw [beNat_natBE, beNat_natBE]
    decide

/-- **normalisation does not change the recovered key** (the algebra behind `fix-C16-k256-recover-high-s`) -/
theorem normalize_recover (L : CurveLaws E) (z r s : Nat) (v : Bool)
    (hr0 : r ≠ 0) (hr : r < E.n) (hs0 : s ≠ 0) (hs : s < E.n) :
    scSigRecover E z r (negN E.n s) (!v) = scSigRecover E z r s v :=
  L.scSigRecover_neg z r s v hr0 hr hs0 hs

/-- the flipped recovery bit never recovers the same key -/
theorem recover_flipped_bit (L : CurveLaws E) (z r s : Nat) (v : Bool) (Q : E.Pt)
    (hr0 : r ≠ 0) (hr : r < E.n) (hs0 : s ≠ 0) (hs : s < E.n)
    (h : scSigRecover E z r s v = some Q) : scSigRecover E z r s (!v) ≠ some Q :=
  L.scSigRecover_other_parity z r s v Q hr0 hr hs0 hs h

/-- **secp256r1**: a signature produced by `sign_prehashed` recovers the signer's key.
Hypothesis `hx`: the x-coordinate of `k·G` is below `n` (otherwise the wrapper panics). -/
theorem r1_recover_sign (L : CurveLaws E) (d k : Nat) (msg sig : Bytes)
    (hk0 : k ≠ 0) (hk : k < E.n) (hd0 : d ≠ 0) (hd : d < E.n) (hn : E.n ≤ 2 ^ 256)
    (hx : (E.toXY (E.mulG k)).1 < E.n) (h : r1Sign E d k msg = .ok sig) :
    r1Recover E sig msg = .ok (publicKey E d) :=
  L.r1Recover_signed hk0 hk hd0 hd hn (L.r1Sign_ok d k msg sig hk0 hk hd0 hd hx h)

/-! ### non-vacuity on the lawful toy curve (order 31 over F₄₃): key 7, nonce 2, message 5 -/
section Examples
open FuelVerif.Ecdsa.Toy

def exMsg17 : Bytes := natBE 32 5
/-- the signature `secpSign toy 7 2 exMsg17` produces (checked below) -/
def exSig17 : Bytes := compact 7 4

example : CurveLaws toy := toy_laws
example : secpSign toy 7 2 exMsg17 = .ok exSig17 := by decide +kernel
-- the hypotheses of `recover_sign` / `verify_sign` hold and their conclusions are about real values
example : secpRecover toy exSig17 exMsg17 = .ok (publicKey toy 7) :=
  recover_sign toy_laws 7 2 _ _ (by decide) (by decide) (by decide) (by decide) (by decide) (by decide +kernel)
example : secpVerify toy exSig17 (publicKey toy 7) exMsg17 = .ok () :=
  verify_sign toy_laws 7 2 _ _ (by decide) (by decide) (by decide) (by decide) (by decide) (by decide)
    (by decide +kernel)
example : publicKey toy 7 = compact 25 18 := by decide +kernel
-- another digest (6 ≠ 5 mod 31) recovers a different key; the congruent message 5 + 31 recovers the same key
example : secpRecover toy exSig17 (natBE 32 6) ≠ .ok (publicKey toy 7) :=
  recover_other_message_partial toy_laws 7 2 exMsg17 (natBE 32 6) _ (by decide) (by decide) (by decide) (by decide)
    (by decide) (by decide) (by decide +kernel) (by decide +kernel)
example : natBE 32 36 ≠ exMsg17 ∧ secpRecover toy exSig17 (natBE 32 36) = .ok (publicKey toy 7) := by
  decide +kernel
example : ¬ RecoverOtherMessageStatement toy := by
  intro h
  exact h 7 2 exMsg17 (natBE 32 36) exSig17 (by decide) (by decide) (by decide) (by decide) (by decide +kernel)
    (by decide +kernel) (by decide +kernel)
-- secp256r1 wrappers on the same toy group
example : r1Sign toy 7 2 exMsg17 = .ok exSig17 ∧ r1Recover toy exSig17 exMsg17 = .ok (publicKey toy 7) := by
  decide +kernel
-- the flipped recovery bit recovers another key
example : secpRecover toy (exSig17.set 32 0x80) exMsg17 ≠ .ok (publicKey toy 7) := by decide +kernel

end Examples

end FuelVerif.Ecdsa

namespace FuelVerif.CryptoOps
open FuelVerif FuelVerif.Ecdsa

/-- **ECK1 / ECR1 report what the library reports**: when the instruction does not panic, `$err = 0` and the
64 bytes written are the recovered key iff the library call on the bytes at `$rB`, `$rC` succeeds; otherwise
`$err = 1` and 64 zero bytes are written. -/
theorem ecRecover_reports_library (recover : Bytes → Bytes → Except Error Bytes) (m : MemView)
    (read : Nat → Nat → Bytes) (a b c : Nat) (o : Outcome) (h : ecRecover recover m read a b c = .ok o) :
    (∀ key, recover (read b 64) (read c 32) = .ok key → o = ⟨some key, 0⟩) ∧
    (∀ e, recover (read b 64) (read c 32) = .error e → o = ⟨some (zeros 64), 1⟩) := by
  unfold ecRecover at h
  split at h
  · exact absurd h (by simp)
  · split at h
    · exact absurd h (by simp)
    · split at h
      · rename_i key hk
        split at h
        · exact absurd h (by simp)
        · have := Except.ok.inj h
          subst this
          exact ⟨fun key' hk' => by rw [show Gen.SigFormat.lenBytes64 = 64 from rfl, show Gen.SigFormat.lenBytes32 = 32 from rfl] at hk; rw [hk] at hk'; rw [Except.ok.inj hk'],
                 fun e he => by rw [show Gen.SigFormat.lenBytes64 = 64 from rfl, show Gen.SigFormat.lenBytes32 = 32 from rfl] at hk; rw [hk] at he; exact absurd he (by simp)⟩
      · rename_i e hk
        split at h
        · exact absurd h (by simp)
        · have := Except.ok.inj h
          subst this
          exact ⟨fun key' hk' => by rw [show Gen.SigFormat.lenBytes64 = 64 from rfl, show Gen.SigFormat.lenBytes32 = 32 from rfl] at hk; rw [hk] at hk'; exact absurd hk' (by simp),
                 fun e he => rfl⟩

/-- **ED19 reports what the library reports**: no memory is written, `$err = 0` iff `ed25519::verify` accepts
the key at `$rA`, the signature at `$rB` and the `len` (or 32 when `len = 0`) message bytes at `$rC`. -/
theorem ed19_reports_library (edVerify : Bytes → Bytes → Bytes → Bool) (m : MemView)
    (read : Nat → Nat → Bytes) (a b c len : Nat) (o : Outcome) (h : ed19 edVerify m read a b c len = .ok o) :
    o.written = none ∧
      (o.err = 0 ↔ edVerify (read a 32) (read b 64) (read c (if len = 0 then 32 else len)) = true) ∧ o.err ≤ 1 := by
  unfold ed19 at h
  simp only [show Gen.SigFormat.ed19ZeroLen = 0 from rfl, show Gen.SigFormat.ed19DefaultLen = 32 from rfl,
    show Gen.SigFormat.lenBytes32 = 32 from rfl, show Gen.SigFormat.lenBytes64 = 64 from rfl] at h
  generalize (if len = 0 then 32 else len) = len' at h ⊢
  split at h
  · exact absurd h (by simp)
  · split at h
    · exact absurd h (by simp)
    · split at h
      · exact absurd h (by simp)
      · by_cases hv : edVerify (read a 32) (read b 64) (read c len') = true
        · rw [if_pos hv] at h
          have := Except.ok.inj h
          subst this
          exact ⟨rfl, ⟨fun _ => hv, fun _ => rfl⟩, by decide⟩
        · rw [if_neg hv] at h
          have := Except.ok.inj h
          subst this
          exact ⟨rfl, ⟨fun h0 => absurd h0 (by decide), fun h1 => absurd h1 hv⟩, by decide⟩

/-- **ECK1 on a produced signature** recovers the signer's key with `$err = 0` (composition of the
handler model with `recover_sign`) -/
theorem eck1_recovers_signer {E : Curve} [AddCommGroup E.Pt] [Module (ZMod E.n) E.Pt] (L : CurveLaws E)
    (d k : Nat) (msg sig : Bytes) (hk0 : k ≠ 0) (hk : k < E.n) (hd0 : d ≠ 0) (hd : d < E.n) (hn : E.n ≤ 2 ^ 256)
    (hs : secpSign E d k msg = .ok sig) (m : MemView) (read : Nat → Nat → Bytes) (a b c : Nat) (o : Outcome)
    (hb : read b 64 = sig) (hc : read c 32 = msg)
    (h : ecRecover (secpRecover E) m read a b c = .ok o) : o = ⟨some (publicKey E d), 0⟩ := by
  have := (ecRecover_reports_library (secpRecover E) m read a b c o h).1 (publicKey E d)
  rw [hb, hc] at this
  exact this (recover_sign L d k msg sig hk0 hk hd0 hd hn hs)

/-! ### non-vacuity for the handlers: a 1 KiB stack frame at 10 000, 1 KiB of heap -/
section Examples
def exMem : MemView := ⟨11024, 67107840, 11024, 10000, 67107840, 67108864⟩

-- operands in the owned stack / heap: no panic; an output below `$ssp`: MemoryOwnership; beyond memory: MemoryOverflow
example : ecRecover (fun _ _ => .ok (zeros 64)) exMem (fun _ _ => []) 10000 10100 67107840 = .ok ⟨some (zeros 64), 0⟩ := by
  decide +kernel
example : ecRecover (fun _ _ => .error .InvalidSignature) exMem (fun _ _ => []) 10000 10100 10200
    = .ok ⟨some (zeros 64), 1⟩ := by decide +kernel
example : ecRecover (fun _ _ => .ok []) exMem (fun _ _ => []) 9999 10100 10200 = .error .MemoryOwnership := by
  decide +kernel
example : ecRecover (fun _ _ => .ok []) exMem (fun _ _ => []) 10000 67108801 10200 = .error .MemoryOverflow := by
  decide +kernel
example : ecRecover (fun _ _ => .ok []) exMem (fun _ _ => []) 10000 10100 11000 = .error .UninitalizedMemoryAccess := by
  decide +kernel
example : ed19 (fun _ _ _ => true) exMem (fun _ _ => []) 10000 10100 10200 0 = .ok ⟨none, 0⟩ := by decide +kernel
example : ed19 (fun _ _ _ => false) exMem (fun _ _ => []) 10000 10100 10200 100 = .ok ⟨none, 1⟩ := by decide +kernel
end Examples

end FuelVerif.CryptoOps
