/-
C36 — Storage reads honour the read contract for every offset and length.

  "For every stored value, offset and buffer length, an exact read succeeds and copies the requested
   bytes exactly when offset plus length is within the value, a zero-filling read copies what exists
   from the offset and zero-fills the rest (failing only when the offset is beyond the value), and
   missing keys report key-not-found; code loading and blob loading instructions built on these reads
   copy exactly the specified bytes and zero padding."

The bound comparison of `read_exact`, the fill bytes, the `src_offset < src_len` guard of
`copy_from_storage_zero_fill`, the word size, the memory size and `CallFrame::code_size_offset()` are
regenerated from the Rust text on every run (`Gen/StoreRead.lean`, translator `storeread`), which also
checks that the three `MemoryStorage` tables (contract code, contract state, blobs) run the same code;
the theorems below are re-checked against those definitions.

Sizes: a Rust vector has at most `isize::MAX = 2^63 - 1` bytes (the `data.length < 2^63` hypothesis of the
exact read, needed because `offset.saturating_add(buf.len())` saturates at `usize::MAX`). Gas is not modelled (C26).
-/
import FuelVerif.Lemmas.StorageRead
namespace FuelVerif.StorageRead
open FuelVerif FuelVerif.Gen.StoreRead

/-! ## 1. `StorageRead::{read_exact, read_zerofill}` of `MemoryStorage` -/

/-- **exact read succeeds exactly when offset + length is within the value, and copies exactly the
requested bytes** (and reports the total length) -/
theorem readExact_spec (data : Bytes) (off : Nat) (buf : Bytes)
    (hd : data.length < 2 ^ 63) :
    (off + buf.length ≤ data.length →
      readExact (some data) off buf = .ok ((data.drop off).take buf.length, data.length)) ∧
    (data.length < off + buf.length → readExact (some data) off buf = .error .OutOfBounds) := by
  unfold readExact readExactRejects satAdd U64_MAX
  constructor
  · intro h
    have h1 : ¬ off + buf.length > 2 ^ 64 - 1 := by omega
    have h2 : ¬ off + buf.length > data.length := by omega
    simp only [h1, h2, if_false, decide_false, Bool.false_eq_true]
    simp
  · intro h
    by_cases h1 : off + buf.length > 2 ^ 64 - 1
    · have : 2 ^ 64 - 1 > data.length := by omega
      simp [h1, this]
    · simp [h1, h]

/-- the same, as an iff on the outcome -/
theorem readExact_ok_iff (data : Bytes) (off : Nat) (buf out : Bytes) (t : Nat)
    (hd : data.length < 2 ^ 63) :
    readExact (some data) off buf = .ok (out, t) ↔
      off + buf.length ≤ data.length ∧ out = (data.drop off).take buf.length ∧ t = data.length := by
  obtain ⟨h1, h2⟩ := readExact_spec data off buf hd
  by_cases h : off + buf.length ≤ data.length
  · rw [h1 h]
    constructor
    · intro e; cases e; exact ⟨h, rfl, rfl⟩
    · rintro ⟨-, rfl, rfl⟩; rfl
  · rw [h2 (by omega)]
    constructor
    · intro e; cases e
    · intro e; exact absurd e.1 h

/-- the copied bytes are the value's bytes at `off + i`, and there are exactly `buf.length` of them -/
theorem readExact_bytes (data : Bytes) (off : Nat) (buf out : Bytes) (t : Nat)
    (hd : data.length < 2 ^ 63)
    (h : readExact (some data) off buf = .ok (out, t)) :
    out = specZeroFill data off buf.length ∧ out.length = buf.length := by
  obtain ⟨hin, rfl, rfl⟩ := (readExact_ok_iff data off buf out t hd).mp h
  rw [← specZeroFill_inside data off buf.length hin]
  exact ⟨rfl, specZeroFill_length _ _ _⟩

/-- **zero-filling read**: copies what exists from the offset and zero-fills the rest; `off = len` is fine -/
theorem readZerofill_spec (data : Bytes) (off : Nat) (buf : Bytes) :
    (off ≤ data.length →
      readZerofill (some data) off buf = .ok (specZeroFill data off buf.length, data.length)) ∧
    (data.length < off → readZerofill (some data) off buf = .error .OutOfBounds) := by
  unfold readZerofill
  constructor
  · intro h
    have h1 : ¬ off > data.length := by omega
    simp only [h1, if_false]
    have hz : zerofillByte = 0 := rfl
    rw [hz, take_drop_zeros_eq_spec]
  · intro h
    simp [h]

/-- pointwise form: byte `i` of a successful zero-filling read -/
theorem readZerofill_bytes (data : Bytes) (off : Nat) (buf out : Bytes) (t : Nat)
    (h : readZerofill (some data) off buf = .ok (out, t)) :
    off ≤ data.length ∧ t = data.length ∧ out.length = buf.length ∧
    ∀ i (hi : i < out.length), out[i] = if h : off + i < data.length then data[off + i] else 0 := by
  by_cases ho : off ≤ data.length
  · rw [(readZerofill_spec data off buf).1 ho] at h
    cases h
    refine ⟨ho, rfl, specZeroFill_length _ _ _, ?_⟩
    intro i hi
    rw [specZeroFill_getElem]
    by_cases hlt : off + i < data.length <;> simp [hlt]
  · rw [(readZerofill_spec data off buf).2 (by omega)] at h
    cases h

/-- **missing keys report key-not-found** for both reads (and `read_alloc`/`size_of_value` give `None`) -/
theorem read_missing_key (off : Nat) (buf : Bytes) :
    readExact none off buf = .error .KeyNotFound ∧ readZerofill none off buf = .error .KeyNotFound ∧
    readAlloc none = none ∧ sizeOfValue none = none := ⟨rfl, rfl, rfl, rfl⟩

/-- `read_alloc` returns the stored bytes, `size_of_value` their number -/
theorem readAlloc_spec (data : Bytes) : readAlloc (some data) = some data ∧ sizeOfValue (some data) = some data.length :=
  ⟨rfl, rfl⟩

/-! ## 2. `copy_from_storage_zero_fill` -/

/-- **for every offset, length and value length** the destination receives the zero-filling read of the
value (all zeros when `off ≥ len`); the only failure with an existing key is `off < len ∧ off ≥ 2^32` -/
theorem copyZeroFillBuf_spec (wb data : Bytes) (off : Nat) (nf : Panic) :
    (off < data.length ∧ 2 ^ 32 ≤ off → copyZeroFillBuf wb (some data) off data.length nf = .error .MemoryOverflow) ∧
    (¬ (off < data.length ∧ 2 ^ 32 ≤ off) →
      copyZeroFillBuf wb (some data) off data.length nf = .ok (specZeroFill data off wb.length)) := by
  unfold copyZeroFillBuf copyReads
  constructor
  · rintro ⟨h1, h2⟩
    simp [h1, h2]
  · intro h
    by_cases h1 : off < data.length
    · have h2 : ¬ off ≥ 2 ^ 32 := by omega
      simp only [h1, decide_true, if_true, h2, if_false]
      rw [(readZerofill_spec data off _).1 (by omega)]
      simp only
      have hf : copyFillByte = 0 := rfl
      rw [hf]
      -- the read part ++ zeros is the spec over the whole buffer
      apply congrArg Except.ok
      apply List.ext_getElem
      · simp [specZeroFill_length]; omega
      · intro i hi1 hi2
        have hn : i < wb.length := by simpa [specZeroFill_length] using hi2
        rw [specZeroFill_getElem]
        by_cases hi : i < min (data.length - off) wb.length
        · rw [List.getElem_append_left (by simp [specZeroFill_length]; omega)]
          rw [specZeroFill_getElem]
        · rw [List.getElem_append_right (by simp [specZeroFill_length]; omega)]
          have : ¬ off + i < data.length := by omega
          simp [this]
    · simp only [h1, decide_false, Bool.false_eq_true, if_false]
      have hf : copyFillByte = 0 := rfl
      rw [hf, specZeroFill_all_zero data off wb.length (by omega)]

/-- a missing key is reported with the caller's reason whenever the storage is consulted -/
theorem copyZeroFillBuf_missing (wb : Bytes) (off srcLen : Nat) (nf : Panic) (h1 : off < srcLen) (h2 : off < 2 ^ 32) :
    copyZeroFillBuf wb none off srcLen nf = .error nf := by
  unfold copyZeroFillBuf copyReads
  have : ¬ off ≥ 2 ^ 32 := by omega
  simp [h1, this, readZerofill]

/-- memory-level statement: on success the destination range `[dst, dst+len)` is accessible and owned,
holds exactly the zero-filling read, and every other byte (and the stack/heap extents) is unchanged -/
theorem copyFromStorageZeroFill_spec (m m' : Mem) (o : Owner) (data : Bytes) (dst len off : Nat) (nf : Panic)
    (h : copyFromStorageZeroFill m o (some data) dst len off data.length nf = .ok m') :
    m'.slice dst len = specZeroFill data off len ∧
    (∀ p, p < dst ∨ dst + len ≤ p → m'.get p = m.get p) ∧
    m'.stackLen = m.stackLen ∧ m'.hp = m.hp ∧
    dst + len ≤ memSize ∧ (dst + len ≤ m.stackLen ∨ m.hp ≤ dst) ∧
    (o.ownsStack dst (dst + len) || o.ownsHeap dst (dst + len)) = true := by
  unfold copyFromStorageZeroFill at h
  cases hw : m.writeRange o dst len with
  | error x => simp [hw, bind, Except.bind] at h
  | ok r =>
    obtain ⟨s, e⟩ := r
    obtain ⟨hv, hown⟩ := writeRange_ok hw
    obtain ⟨rfl, rfl, hmem, hacc⟩ := verify_ok hv
    simp only [hw, bind, Except.bind] at h
    have hlen : s + len - s = len := by omega
    rw [hlen] at h
    by_cases hov : off < data.length ∧ 2 ^ 32 ≤ off
    · rw [(copyZeroFillBuf_spec _ data off nf).1 hov] at h
      cases h
    · rw [(copyZeroFillBuf_spec _ data off nf).2 hov] at h
      simp only [slice_length] at h
      cases h
      have hl : (specZeroFill data off len).length = len := specZeroFill_length _ _ _
      refine ⟨?_, ?_, rfl, rfl, hmem, hacc, hown⟩
      · have := slice_store_same m s (specZeroFill data off len)
        rw [hl] at this
        exact this
      · intro p hp
        exact store_get_outside m s _ p (by rw [hl]; exact hp)

/-! ## 3. CCP, BLDD, LDC -/

/-- **CCP**: on success memory `[a, a+d)` is the zero-filling read of the contract's code at offset `c`,
nothing else changes, `$pc` advances by 4 and the destination was writable by the current context -/
theorem ccp_spec (v v' : Vm) (env : Env) (a b c d : Nat) (h : codeCopy v env a b c d = .ok v') :
    ∃ id code, v.mem.read b contractIdLen = .ok id ∧ env.inInputs id = true ∧ env.contracts id = some code ∧
      v'.mem.slice a d = specZeroFill code c d ∧
      (∀ p, p < a ∨ a + d ≤ p → v'.mem.get p = v.mem.get p) ∧
      v'.pc = v.pc + 4 ∧ v'.ssp = v.ssp ∧ v'.sp = v.sp ∧ v'.hp = v.hp ∧
      (v.owner.ownsStack a (a + d) || v.owner.ownsHeap a (a + d)) = true := by
  unfold codeCopy at h
  cases hid : v.mem.read b contractIdLen with
  | error x => simp [hid, bind, Except.bind] at h
  | ok id =>
    simp only [hid, bind, Except.bind] at h
    cases hw : v.mem.writeRange v.owner a d with
    | error x => simp [hw] at h
    | ok r =>
      simp only [hw] at h
      by_cases hin : env.inInputs id = true
      · simp only [hin, Bool.not_true, Bool.false_eq_true, if_false] at h
        cases hc : env.contracts id with
        | none => simp [hc, sizeOfValue] at h
        | some code =>
          simp only [hc, sizeOfValue, Option.map_some, pure, Except.pure] at h
          cases hcp : copyFromStorageZeroFill v.mem v.owner (some code) a d c code.length .ContractNotFound with
          | error x => simp [hcp] at h
          | ok m' =>
            simp only [hcp] at h
            cases h
            obtain ⟨h1, h2, -, -, -, -, h7⟩ := copyFromStorageZeroFill_spec _ _ _ _ _ _ _ _ hcp
            exact ⟨id, code, rfl, hin, hc, h1, h2, rfl, rfl, rfl, rfl, h7⟩
      · simp [hin] at h

/-- **BLDD**: the same for blobs (no input-list requirement) -/
theorem bldd_spec (v v' : Vm) (env : Env) (a b c d : Nat) (h : blobLoadData v env a b c d = .ok v') :
    ∃ id blob, v.mem.read b blobIdLen = .ok id ∧ env.blobs id = some blob ∧
      v'.mem.slice a d = specZeroFill blob c d ∧
      (∀ p, p < a ∨ a + d ≤ p → v'.mem.get p = v.mem.get p) ∧
      v'.pc = v.pc + 4 ∧ v'.ssp = v.ssp ∧ v'.sp = v.sp ∧ v'.hp = v.hp ∧
      (v.owner.ownsStack a (a + d) || v.owner.ownsHeap a (a + d)) = true := by
  unfold blobLoadData at h
  cases hid : v.mem.read b blobIdLen with
  | error x => simp [hid, bind, Except.bind] at h
  | ok id =>
    simp only [hid, bind, Except.bind] at h
    cases hc : env.blobs id with
    | none => simp [hc, sizeOfValue] at h
    | some blob =>
      simp only [hc, sizeOfValue, Option.map_some, pure, Except.pure] at h
      cases hcp : copyFromStorageZeroFill v.mem v.owner (some blob) a d c blob.length .BlobNotFound with
      | error x => simp [hcp] at h
      | ok m' =>
        simp only [hcp] at h
        cases h
        obtain ⟨h1, h2, -, -, -, -, h7⟩ := copyFromStorageZeroFill_spec _ _ _ _ _ _ _ _ hcp
        exact ⟨id, blob, rfl, hc, h1, h2, rfl, rfl, rfl, rfl, h7⟩

/-- missing objects: CCP/BLDD report `ContractNotFound` / `BlobNotFound` (when the id is readable, the
destination writable and, for CCP, the contract listed) -/
theorem bldd_missing (v : Vm) (env : Env) (a b c d : Nat) (id : Bytes)
    (hid : v.mem.read b blobIdLen = .ok id) (hm : env.blobs id = none) :
    blobLoadData v env a b c d = .error .BlobNotFound := by
  simp [blobLoadData, hid, hm, sizeOfValue, bind, Except.bind]

theorem ccp_missing (v : Vm) (env : Env) (a b c d : Nat) (id : Bytes) (r : Nat × Nat)
    (hid : v.mem.read b contractIdLen = .ok id) (hw : v.mem.writeRange v.owner a d = .ok r)
    (hin : env.inInputs id = true) (hm : env.contracts id = none) :
    codeCopy v env a b c d = .error .ContractNotFound := by
  simp [codeCopy, hid, hw, hin, hm, sizeOfValue, bind, Except.bind]

theorem read_ok {m : Mem} {a n : Nat} {bs : Bytes} (h : m.read a n = .ok bs) :
    bs = m.slice a n ∧ a + n ≤ memSize ∧ (a + n ≤ m.stackLen ∨ m.hp ≤ a) := by
  unfold Mem.read at h
  cases hv : m.verify a n with
  | error x => simp [hv, bind, Except.bind] at h
  | ok r =>
    obtain ⟨s, e⟩ := r
    obtain ⟨rfl, rfl, h3, h4⟩ := verify_ok hv
    simp only [hv, bind, Except.bind] at h
    have : s + n - s = n := by omega
    rw [this] at h
    exact ⟨(Except.ok.inj h).symm, h3, h4⟩

/-- common tail of LDC modes 0 and 1 (grow the stack, zero-filling copy, frame code size) -/
theorem ldc_tail (v : Vm) (code : Bytes) (b length : Nat) (nf : Panic) (m1 m2 m3 : Mem)
    (hsl : v.ssp ≤ v.mem.stackLen)
    (hframe : v.isInternal = true → satAdd v.fp codeSizeOffset + wordSize ≤ v.ssp)
    (hg : v.mem.growStack (satAdd v.ssp length) = .ok m1)
    (hc : copyFromStorageZeroFill m1 (onlyStack (satAdd v.ssp length) v.ssp v.hp) (some code) v.ssp length b
            code.length nf = .ok m2)
    (hb : bumpCodeSize v m2 length = .ok m3) :
    satAdd v.ssp length = v.ssp + length ∧ v.ssp + length ≤ vmMaxRam ∧
    m3.slice v.ssp length = specZeroFill code b length ∧
    (∀ p, p < v.ssp → (v.isInternal = true → p < satAdd v.fp codeSizeOffset ∨ satAdd v.fp codeSizeOffset + wordSize ≤ p) →
        m3.get p = v.mem.get p) ∧
    (v.isInternal = true → ∃ oldPadded, paddedLenWord (beWord (v.mem.slice (satAdd v.fp codeSizeOffset) wordSize)) = some oldPadded ∧
        oldPadded + length ≤ U64_MAX ∧
        beWord (m3.slice (satAdd v.fp codeSizeOffset) wordSize) = oldPadded + length) := by
  obtain ⟨g1, -, g3, -, g5⟩ := growStack_ok hg
  have hsat := satAdd_le_ram g1
  obtain ⟨c1, c2, -, -, -, -, -⟩ := copyFromStorageZeroFill_spec _ _ _ _ _ _ _ _ hc
  have hw : wordSize = 8 := rfl
  have below : ∀ p, p < v.ssp → m2.get p = v.mem.get p := by
    intro p hp
    rw [c2 p (Or.inl hp), g5 p (Or.inl (by omega))]
  refine ⟨hsat, by omega, ?_⟩
  rcases bumpCodeSize_ok hb with ⟨hi, rfl⟩ | ⟨hi, old, oldPadded, new, hr, hp, hn, rfl⟩
  · refine ⟨c1, fun p hp _ => below p hp, ?_⟩
    intro h; rw [hi] at h; cases h
  · have hf := hframe hi
    obtain ⟨hne, hnb⟩ := checkedAdd_some hn
    obtain ⟨hold, -, -⟩ := read_ok hr
    have hlen8 : (wordBE new).length = wordSize := wordBE_length new
    refine ⟨?_, ?_, ?_⟩
    · rw [slice_store_disjoint _ _ _ _ _ (Or.inr (by rw [hlen8]; exact hf))]
      exact c1
    · intro p hp hout
      rw [store_get_outside _ _ _ _ (by rw [hlen8]; exact hout hi)]
      exact below p hp
    · intro _
      refine ⟨oldPadded, ?_, by omega, ?_⟩
      · have e : m2.slice (satAdd v.fp codeSizeOffset) wordSize = v.mem.slice (satAdd v.fp codeSizeOffset) wordSize := by
          apply List.ext_getElem
          · simp [slice_length]
          · intro i h1 h2
            have : i < wordSize := by simpa [slice_length] using h1
            rw [slice_getElem, slice_getElem]
            exact below _ (by omega)
        rw [← hp, hold, e]
      · have := slice_store_same m2 (satAdd v.fp codeSizeOffset) (wordBE new)
        rw [hlen8] at this
        rw [this, beWord_wordBE new hnb, hne]

/-- **LDC mode 0 (contract code)**: on success the stack was unallocated, the contract is listed and exists,
`$ssp`/`$sp` advance by the word-padded length, `$pc` by 4, the new stack region holds the zero-filling read
of the code at offset `b` over the padded length, memory below the old `$ssp` is unchanged except for the
frame's code-size word, which grows by the padded length. (`hsl`, `hframe`: the stack pointer lies inside
the stack vector and the call frame lies below `$ssp` — invariants of the VM, not of this instruction.) -/
theorem ldc_contract_spec (v v' : Vm) (env : Env) (a b c : Nat)
    (hsl : v.ssp ≤ v.mem.stackLen)
    (hframe : v.isInternal = true → satAdd v.fp codeSizeOffset + wordSize ≤ v.ssp)
    (h : loadContractCode v env a b c = .ok v') :
    ∃ id code length, v.isPredicate = false ∧ v.ssp = v.sp ∧ v.mem.read a contractIdLen = .ok id ∧
      env.inInputs id = true ∧ env.contracts id = some code ∧
      paddedLenWord c = some length ∧ length ≤ v.contractMaxSize ∧
      v'.ssp = v.ssp + length ∧ v'.sp = v'.ssp ∧ v'.pc = v.pc + 4 ∧ v'.hp = v.hp ∧
      v'.mem.slice v.ssp length = specZeroFill code b length ∧
      (∀ p, p < v.ssp → (v.isInternal = true → p < satAdd v.fp codeSizeOffset ∨ satAdd v.fp codeSizeOffset + wordSize ≤ p) →
        v'.mem.get p = v.mem.get p) ∧
      (v.isInternal = true → ∃ oldPadded, paddedLenWord (beWord (v.mem.slice (satAdd v.fp codeSizeOffset) wordSize)) = some oldPadded ∧
        beWord (v'.mem.slice (satAdd v.fp codeSizeOffset) wordSize) = oldPadded + length) := by
  unfold loadContractCode at h
  cases hpred : v.isPredicate with
  | true => simp [hpred] at h
  | false =>
    simp only [hpred, Bool.false_eq_true, if_false] at h
    by_cases hs : v.ssp ≠ v.sp
    · simp [hs] at h
    simp only [hs, if_false, bind, Except.bind] at h
    cases hid : v.mem.read a contractIdLen with
    | error x => simp [hid] at h
    | ok id =>
      simp only [hid] at h
      cases hl : paddedLenWord c with
      | none => simp [hl] at h
      | some length =>
        simp only [hl, pure, Except.pure] at h
        by_cases hmax : length > v.contractMaxSize
        · simp [hmax] at h
        simp only [hmax, if_false] at h
        by_cases hin : env.inInputs id = true
        · simp only [hin, Bool.not_true, Bool.false_eq_true, if_false] at h
          cases hc : env.contracts id with
          | none => simp [hc, sizeOfValue] at h
          | some code =>
            simp only [hc, sizeOfValue, Option.map_some] at h
            cases hg : v.mem.growStack (satAdd v.ssp length) with
            | error x => simp [hg] at h
            | ok m1 =>
              simp only [hg] at h
              cases hcp : copyFromStorageZeroFill m1 (onlyStack (satAdd v.ssp length) v.ssp v.hp) (some code) v.ssp length b code.length .ContractNotFound with
              | error x => simp [hcp] at h
              | ok m2 =>
                simp only [hcp] at h
                cases hb : bumpCodeSize v m2 length with
                | error x => simp [hb] at h
                | ok m3 =>
                  simp only [hb] at h
                  cases h
                  obtain ⟨t1, -, t3, t4, t5⟩ := ldc_tail v code b length _ m1 m2 m3 hsl hframe hg hcp hb
                  refine ⟨id, code, length, rfl, by omega, rfl, hin, hc, rfl, by omega, t1, rfl, rfl, rfl, t3, t4, ?_⟩
                  intro hi
                  obtain ⟨op, h1, -, h3⟩ := t5 hi
                  exact ⟨op, h1, h3⟩
        · simp [hin] at h

/-- **LDC mode 1 (blob)**: the same for blobs (no input list, no maximum size; a length whose padding
overflows `u64` is taken as `u64::MAX` and then fails in `grow_stack`) -/
theorem ldc_blob_spec (v v' : Vm) (env : Env) (a b c : Nat)
    (hsl : v.ssp ≤ v.mem.stackLen)
    (hframe : v.isInternal = true → satAdd v.fp codeSizeOffset + wordSize ≤ v.ssp)
    (h : loadBlobCode v env a b c = .ok v') :
    ∃ id blob length, v.ssp = v.sp ∧ v.mem.read a blobIdLen = .ok id ∧ env.blobs id = some blob ∧
      length = (paddedLenWord c).getD U64_MAX ∧
      v'.ssp = v.ssp + length ∧ v'.sp = v'.ssp ∧ v'.pc = v.pc + 4 ∧ v'.hp = v.hp ∧
      v'.mem.slice v.ssp length = specZeroFill blob b length ∧
      (∀ p, p < v.ssp → (v.isInternal = true → p < satAdd v.fp codeSizeOffset ∨ satAdd v.fp codeSizeOffset + wordSize ≤ p) →
        v'.mem.get p = v.mem.get p) ∧
      (v.isInternal = true → ∃ oldPadded, paddedLenWord (beWord (v.mem.slice (satAdd v.fp codeSizeOffset) wordSize)) = some oldPadded ∧
        beWord (v'.mem.slice (satAdd v.fp codeSizeOffset) wordSize) = oldPadded + length) := by
  unfold loadBlobCode at h
  by_cases hs : v.ssp ≠ v.sp
  · simp [hs] at h
  simp only [hs, if_false, bind, Except.bind] at h
  cases hid : v.mem.read a blobIdLen with
  | error x => simp [hid] at h
  | ok id =>
    simp only [hid] at h
    cases hc : env.blobs id with
    | none => simp [hc, sizeOfValue] at h
    | some blob =>
      simp only [hc, sizeOfValue, Option.map_some, pure, Except.pure] at h
      generalize hlen : (paddedLenWord c).getD U64_MAX = length at h
      cases hg : v.mem.growStack (satAdd v.ssp length) with
      | error x => simp [hg] at h
      | ok m1 =>
        simp only [hg] at h
        cases hcp : copyFromStorageZeroFill m1 (onlyStack (satAdd v.ssp length) v.ssp v.hp) (some blob) v.ssp length b blob.length .BlobNotFound with
        | error x => simp [hcp] at h
        | ok m2 =>
          simp only [hcp] at h
          cases hb : bumpCodeSize v m2 length with
          | error x => simp [hb] at h
          | ok m3 =>
            simp only [hb] at h
            cases h
            obtain ⟨t1, -, t3, t4, t5⟩ := ldc_tail v blob b length _ m1 m2 m3 hsl hframe hg hcp hb
            refine ⟨id, blob, length, by omega, rfl, hc, rfl, t1, rfl, rfl, rfl, t3, t4, ?_⟩
            intro hi
            obtain ⟨op, h1, -, h3⟩ := t5 hi
            exact ⟨op, h1, h3⟩

/-- `padded_len_word`: the result is the least multiple of the word size ≥ `len`, `None` only on `u64` overflow -/
theorem paddedLenWord_spec (len l : Nat) (hl : len ≤ U64_MAX) (h : paddedLenWord len = some l) :
    len ≤ l ∧ l < len + wordSize ∧ l % wordSize = 0 ∧ l ≤ U64_MAX := by
  unfold paddedLenWord checkedAdd at h
  have hw : wordSize = 8 := rfl
  unfold U64_MAX at *
  simp only [hw] at h ⊢
  by_cases h0 : len % 8 = 0
  · simp only [h0, if_true, Option.some.injEq] at h
    omega
  · simp only [h0, if_false] at h
    by_cases h1 : len + (8 - len % 8) > 2 ^ 64 - 1
    · simp [h1] at h
    · simp only [h1, if_false, Option.some.injEq] at h
      omega

/-- **LDC mode 2 (copy from memory)**: on success `$ssp/$sp` advance by the word-padded length, the new stack
region holds the `c` source bytes (as they were before the instruction) followed by zero padding up to the word
boundary, and `$pc` advances by 4. (`hinv`, `hframe`: VM invariants — the stack vector lies below the heap, the call
frame below `$ssp`; `hsrc`: the source range was initialised memory.) -/
theorem ldc_memory_spec (v v' : Vm) (a b c : Nat) (hc0 : c > 0)
    (hinv : v.mem.stackLen ≤ v.mem.hp)
    (hframe : v.isInternal = true → satAdd v.fp codeSizeOffset + wordSize ≤ v.ssp)
    (hsrc : satAdd a b + c ≤ v.mem.stackLen ∨ v.mem.hp ≤ satAdd a b)
    (h : loadMemoryCode v a b c = .ok v') :
    ∃ length, length = (paddedLenWord c).getD U64_MAX ∧ c ≤ length ∧ v.ssp = v.sp ∧
      v'.ssp = v.ssp + length ∧ v'.sp = v'.ssp ∧ v'.pc = v.pc + 4 ∧
      v'.mem.slice v.ssp c = v.mem.slice (satAdd a b) c ∧
      v'.mem.slice (v.ssp + c) (length - c) = List.replicate (length - c) 0 := by
  unfold loadMemoryCode at h
  by_cases hs : v.ssp ≠ v.sp
  · simp [hs] at h
  have hc0' : ¬ c = 0 := by omega
  simp only [hs, if_false, hc0', bind, Except.bind] at h
  generalize hlen : (paddedLenWord c).getD U64_MAX = length at h
  cases hg : v.mem.growStack (satAdd v.ssp length) with
  | error x => simp [hg] at h
  | ok m1 =>
    simp only [hg] at h
    obtain ⟨g1, g2, g3, -, g5⟩ := growStack_ok hg
    have g6 := growStack_le_hp hg hinv
    have hsat := satAdd_le_ram g1
    have hram : vmMaxRam = 67108864 := by decide
    -- the padded length is a real padding (otherwise the stack could not have grown)
    have hcl : c ≤ length ∧ length < c + 8 := by
      cases hp : paddedLenWord c with
      | none =>
        rw [hp] at hlen; simp only [Option.getD_none] at hlen
        unfold U64_MAX at hlen; omega
      | some l =>
        rw [hp] at hlen; simp only [Option.getD_some] at hlen; subst hlen
        unfold paddedLenWord checkedAdd at hp
        have hw : wordSize = 8 := rfl
        simp only [hw] at hp
        by_cases h0 : c % 8 = 0
        · simp only [h0, if_true, Option.some.injEq] at hp; omega
        · simp only [h0, if_false] at hp
          split at hp
          · cases hp
          · simp only [Option.some.injEq] at hp; omega
    cases hm : m1.memcopy v.ssp (satAdd a b) c (onlyStack (satAdd v.ssp length) v.ssp v.hp) with
    | error x => simp [hm] at h
    | ok m2 =>
      simp only [hm] at h
      obtain ⟨rfl, -, -⟩ := memcopy_ok hm
      -- source bytes as of before the instruction
      have hsrc1 : m1.slice (satAdd a b) c = v.mem.slice (satAdd a b) c := by
        apply slice_congr
        intro p h1 h2
        apply g5
        rcases hsrc with hh | hh
        · left; omega
        · right; rw [g2] at *; omega
      have hlenS : (m1.slice (satAdd a b) c).length = c := slice_length _ _ _
      have hsatc : satAdd v.ssp c = v.ssp + c := by
        unfold satAdd U64_MAX
        have : ¬ v.ssp + c > 2 ^ 64 - 1 := by omega
        simp [this]
      have hssp : v.ssp = v.sp := by omega
      by_cases hpz : length - c > 0
      · simp only [hpz, if_true] at h
        cases hw : (m1.store v.ssp (m1.slice (satAdd a b) c)).writeRange (onlyStack (satAdd v.ssp length) v.ssp v.hp) (satAdd v.ssp c) (length - c) with
        | error x => simp [hw] at h
        | ok r =>
          obtain ⟨s, e⟩ := r
          obtain ⟨hv, -⟩ := writeRange_ok hw
          obtain ⟨hs1, he1, -, -⟩ := verify_ok hv
          rw [hsatc] at hs1 he1
          simp only [hw, pure, Except.pure] at h
          have hes : e - s = length - c := by omega
          rw [hes, hs1] at h
          cases hb : bumpCodeSize v ((m1.store v.ssp (m1.slice (satAdd a b) c)).store (v.ssp + c) (List.replicate (length - c) 0)) length with
          | error x => simp [hb] at h
          | ok m4 =>
            simp only [hb] at h
            cases h
            refine ⟨length, rfl, hcl.1, hssp, hsat, rfl, rfl, ?_, ?_⟩
            · rw [bump_preserves hb hframe _ _ (Nat.le_refl _)]
              rw [slice_store_disjoint _ _ _ _ _ (Or.inl (Nat.le_refl _))]
              have := slice_store_same m1 v.ssp (m1.slice (satAdd a b) c)
              rw [hlenS] at this
              rw [this, hsrc1]
            · rw [bump_preserves hb hframe _ _ (by omega)]
              have := slice_store_same (m1.store v.ssp (m1.slice (satAdd a b) c)) (v.ssp + c) (List.replicate (length - c) 0)
              rw [List.length_replicate] at this
              exact this
      · simp only [hpz, if_false, pure, Except.pure] at h
        cases hb : bumpCodeSize v (m1.store v.ssp (m1.slice (satAdd a b) c)) length with
        | error x => simp [hb] at h
        | ok m4 =>
          simp only [hb] at h
          cases h
          have hz : length - c = 0 := by omega
          refine ⟨length, rfl, hcl.1, hssp, hsat, rfl, rfl, ?_, ?_⟩
          · rw [bump_preserves hb hframe _ _ (Nat.le_refl _)]
            have := slice_store_same m1 v.ssp (m1.slice (satAdd a b) c)
            rw [hlenS] at this
            rw [this, hsrc1]
          · rw [hz, slice_zero]; rfl

/-- LDC mode 2: the stack must be unallocated, and a zero length is a no-op apart from `$pc` -/
theorem ldc_memory_guards (v : Vm) (a b c : Nat) :
    (v.ssp ≠ v.sp → loadMemoryCode v a b c = .error .ExpectedUnallocatedStack) ∧
    (v.ssp = v.sp → c = 0 → loadMemoryCode v a b c = .ok { v with pc := v.pc + 4 }) := by
  unfold loadMemoryCode
  constructor
  · intro h; simp [h]
  · intro h h0; simp [h, h0]

/-- invalid LDC modes are rejected -/
theorem ldc_bad_mode (v : Vm) (env : Env) (a b c mode : Nat) (h : 3 ≤ mode) :
    ldc v env a b c mode = .error .InvalidImmediateValue := by
  unfold ldc
  match mode, h with
  | k + 3, _ => rfl

/-! ## non-vacuity: concrete instances -/

private def d5 : Bytes := [1, 2, 3, 4, 5]
example : readExact (some d5) 1 [9, 9, 9] = .ok ([2, 3, 4], 5) := by rfl
example : readExact (some d5) 3 [9, 9, 9] = .error .OutOfBounds := by rfl
example : readExact (some d5) 5 [] = .ok ([], 5) := by rfl
example : readExact (some d5) 6 [] = .error .OutOfBounds := by rfl
example : readZerofill (some d5) 3 [9, 9, 9, 9] = .ok ([4, 5, 0, 0], 5) := by rfl
example : readZerofill (some d5) 5 [9, 9] = .ok ([0, 0], 5) := by rfl
example : readZerofill (some d5) 6 [9, 9] = .error .OutOfBounds := by rfl
example : specZeroFill d5 3 4 = [4, 5, 0, 0] := by decide
example : copyZeroFillBuf [7, 7, 7, 7] (some d5) 3 5 .ContractNotFound = .ok [4, 5, 0, 0] := by rfl
example : copyZeroFillBuf [7, 7] (some d5) 9 5 .ContractNotFound = .ok [0, 0] := by rfl
example : paddedLenWord 13 = some 16 := by decide

/-- a script-context VM with an empty stack region at 1000 and the id at address 0 -/
private def vm0 : Vm :=
  { mem := { stackLen := 1000, hp := 2000, get := fun _ => 0 }, ssp := 1000, sp := 1000, hp := 2000, fp := 0, pc := 100,
    prevHp := vmMaxRam, isInternal := false, isPredicate := false, contractMaxSize := 64 }
private def env0 : Env := { contracts := fun _ => some d5, blobs := fun _ => some d5, inInputs := fun _ => true }
example : (match loadContractCode vm0 env0 0 2 6 with
    | .ok v' => (v'.ssp, v'.sp, v'.pc, v'.mem.slice 1000 8) | .error _ => (0, 0, 0, [])) = (1008, 1008, 104, [3, 4, 5, 0, 0, 0, 0, 0]) := by
  decide
example : (match blobLoadData { vm0 with sp := 1016, mem := { vm0.mem with stackLen := 1016 } } env0 1004 0 4 3 with
    | .ok v' => v'.mem.slice 1004 3 | .error _ => []) = [5, 0, 0] := by decide
example : (match codeCopy vm0 env0 1004 0 4 3 with | .ok _ => "ok" | .error e => e.name) = "UninitalizedMemoryAccess" := by decide

end FuelVerif.StorageRead
