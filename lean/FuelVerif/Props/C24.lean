/-
C24 — Programs can only write memory they own.

  "During execution, an instruction changes VM memory only inside the current frame's stack region (from the
   stack start to the stack pointer) or its heap region (from the heap pointer up to the caller's heap
   pointer), except for the VM's own writes of call frames, loaded code, balance entries and transaction
   outputs. Reads or writes that span both regions, touch never-allocated memory or exceed the memory size
   panic with the specified reason."

Proved here: the ownership predicate of `OwnershipRegisters` is exactly the declarative one; an
ownership-checked write / memcopy succeeds only on owned accessible ranges and changes nothing else; the
panic reasons and their precedence; LDC's restricted ownership never admits a heap write; the list of
ownership-free write sites of the interpreter is exactly the hand-classified list of VM writes (regenerated
from the Rust sources on every run); every opcode of the generated instruction table is classified.
`Props/C24Models.lean` proves `EveryInstructionStatement` for the opcode families whose execution is modelled in this
repository (wide-integer, ECK1/ECR1/ED19, CCP/BLDD, ALU, jumps: 64 opcodes).
PARTIAL: for the other 63 opcodes, that the implementation in `opcodes_impl.rs` writes only through these entry points
with the classified ranges is tied by the `c24`/`c24b` correspondence streams (memory diff of every
single-stepped instruction of generated programs), not by a proof.
-/
import FuelVerif.Lemmas.Memory
import FuelVerif.Model.WriteClass
namespace FuelVerif.Memory.C24
open FuelVerif.Memory FuelVerif.Gen

/-- **Ownership is exact.** For a range `[s,e)` (`s ≤ e`): `has_ownership_range` holds iff the range is non-empty
and lies inside `[ssp,sp)` (and within the memory size) or inside `[hp,prevHp)` of a frame that has a heap region
(`hp ≠ prevHp`), or it is empty and its address is `ssp`, in `[ssp,sp)`, `hp`, or in `[hp,prevHp]` of such a frame. -/
theorem owned_range_spec (o : Ownership) {s e : Nat} (hse : s ≤ e) :
    o.hasRange memSize s e = true ↔ o.owns memSize s e :=
  hasRange_iff_owns memSize o hse

/-- `verify_ownership` answers `Ok` exactly on owned ranges and `MemoryOwnership` otherwise -/
theorem verify_ownership_exact (o : Ownership) {s e : Nat} (hse : s ≤ e) :
    (o.verifyOwnership memSize s e = .ok () ↔ o.owns memSize s e) ∧
    (o.verifyOwnership memSize s e = .error .MemoryOwnership ↔ ¬ o.owns memSize s e) := by
  have h1 := verifyOwnership_ok_iff memSize o hse
  refine ⟨h1, ?_⟩
  rcases verifyOwnership_cases memSize o s e with h | h
  · rw [h]; exact ⟨(fun h' => nomatch h'), (fun hn => absurd (h1.mp h) hn)⟩
  · rw [h]; exact ⟨(fun _ hc => by rw [h1.mpr hc] at h; cases h), (fun _ => rfl)⟩

/-- `OwnershipRegisters::new`: `prev_hp` is the `$hp` saved in the last call frame, `VM_MAX_RAM` in a script -/
theorem ofVm_prevHp (sp ssp hp : Nat) :
    (Ownership.ofVm memSize sp ssp hp none).prevHp = memSize ∧
    ∀ saved, (Ownership.ofVm memSize sp ssp hp (some saved)).prevHp = saved := ⟨rfl, fun _ => rfl⟩

/-- LDC's `only_allow_stack_write` never admits a non-empty heap range -/
theorem onlyAllowStackWrite_no_heap (sp ssp hp : Nat) {s e : Nat} (hse : s < e) :
    (Ownership.onlyAllowStackWrite sp ssp hp).hasHeap s e = false := by
  unfold Ownership.hasHeap Ownership.onlyAllowStackWrite
  have : ¬ (e ≤ s ∧ s = hp) := by omega
  simp [this]

/-- **Owner-checked writes: success conditions and frame condition.** If `write(owner, a, n)` succeeds on an
instance representing the flat memory `f`, the range was accessible and owned, and the result represents `f` with
exactly the bytes of `[a, a+n)` replaced: extents unchanged, every other byte unchanged. -/
theorem write_changes_only_range {m m' : Mem} {f : Flat} (h : Sim memSize m f) (o : Ownership) (a n : Nat)
    (vals : Nat → UInt8) (hw : m.write memSize o a n vals = .ok m') :
    f.accessible memSize a (a + n) ∧ o.owns memSize a (a + n) ∧
    ∃ f', Sim memSize m' f' ∧ f'.sl = f.sl ∧ f'.hp = f.hp ∧
      (∀ x, x < a ∨ a + n ≤ x → f'.bytes x = f.bytes x) ∧ (∀ i, i < n → f'.bytes (a + i) = vals i) := by
  have href := write_refines h o a n vals
  rw [hw] at href
  unfold Flat.writeOwned at href
  rcases Flat.verify_cases memSize f a n with ⟨hv, hacc⟩ | ⟨e, hv⟩
  · rw [hv] at href
    dsimp only at href
    by_cases hown : o.owns memSize a (a + n)
    · rw [if_pos hown] at href
      simp only [RefRes] at href
      refine ⟨hacc, hown, _, href, rfl, rfl, ?_, ?_⟩
      · intro x hx
        simp only [putAt]
        rw [if_neg (by omega)]
      · intro i hi
        simp only [putAt]
        rw [if_pos (by omega)]
        congr 1
        omega
    · rw [if_neg hown] at href
      simp [RefRes] at href
  · rw [hv] at href
    simp [RefRes] at href

/-- **memcopy: success conditions and frame condition.** Only the destination range changes (it receives the
source bytes), it was owned, both ranges were accessible and share no byte. -/
theorem memcopy_changes_only_dst {m m' : Mem} {f : Flat} (h : Sim memSize m f) (dst src len : Nat) (o : Ownership)
    (hc : m.memcopy memSize dst src len o = .ok m') :
    f.accessible memSize dst (dst + len) ∧ f.accessible memSize src (src + len) ∧
    ¬ shareByte dst (dst + len) src (src + len) ∧ o.owns memSize dst (dst + len) ∧
    ∃ f', Sim memSize m' f' ∧ f'.sl = f.sl ∧ f'.hp = f.hp ∧
      (∀ x, x < dst ∨ dst + len ≤ x → f'.bytes x = f.bytes x) ∧
      (∀ i, i < len → f'.bytes (dst + i) = f.bytes (src + i)) := by
  have href := memcopy_refines h dst src len o
  rw [hc] at href
  unfold Flat.memcopy at href
  rcases Flat.verify_cases memSize f dst len with ⟨hv1, hacc⟩ | ⟨e, hv1⟩
  · rcases Flat.verify_cases memSize f src len with ⟨hv2, hacc2⟩ | ⟨e, hv2⟩
    · rw [hv1, hv2] at href
      dsimp only at href
      by_cases hov : dst < src + len ∧ src < dst + len ∧ 0 < len
      · rw [if_pos hov] at href
        simp [RefRes] at href
      · rw [if_neg hov] at href
        by_cases hown : o.owns memSize dst (dst + len)
        · rw [if_pos hown] at href
          simp only [RefRes] at href
          refine ⟨hacc, hacc2, ?_, hown, _, href, rfl, rfl, ?_, ?_⟩
          · rw [shareByte_iff]; exact hov
          · intro x hx
            dsimp only
            rw [if_neg (by omega)]
          · intro i hi
            dsimp only
            rw [if_pos (by omega)]
            congr 1
            omega
        · rw [if_neg hown] at href
          simp [RefRes] at href
    · rw [hv1, hv2] at href
      simp [RefRes] at href
  · rw [hv1] at href
    simp [RefRes] at href

/-- **Specified panic reasons of an owner-checked write, with their precedence**: beyond the memory size →
`MemoryOverflow`; else not entirely below the stack extent nor entirely at/above `hp` (spanning both regions or
touching never-allocated memory) → `UninitalizedMemoryAccess`; else not owned → `MemoryOwnership`; else `Ok`. -/
theorem write_panics_as_specified {m : Mem} {f : Flat} (h : Sim memSize m f) (o : Ownership) (a n : Nat) (vals : Nat → UInt8) :
    ((a > memSize ∨ n > memSize ∨ a + n > memSize) → m.write memSize o a n vals = .error .MemoryOverflow) ∧
    (¬ (a > memSize ∨ n > memSize ∨ a + n > memSize) → ¬ (a + n ≤ f.sl ∨ f.hp ≤ a) →
        m.write memSize o a n vals = .error .UninitalizedMemoryAccess) ∧
    (¬ (a > memSize ∨ n > memSize ∨ a + n > memSize) → (a + n ≤ f.sl ∨ f.hp ≤ a) → ¬ o.owns memSize a (a + n) →
        m.write memSize o a n vals = .error .MemoryOwnership) ∧
    (¬ (a > memSize ∨ n > memSize ∨ a + n > memSize) → (a + n ≤ f.sl ∨ f.hp ≤ a) → o.owns memSize a (a + n) →
        ∃ m', m.write memSize o a n vals = .ok m') := by
  have href := write_refines h o a n vals
  unfold Flat.writeOwned Flat.verify at href
  refine ⟨?_, ?_, ?_, ?_⟩
  · intro c1
    rw [if_pos c1] at href
    cases hw : m.write memSize o a n vals <;> rw [hw] at href <;> simp_all [RefRes]
  · intro c1 c2
    have c2' : ¬ f.accessible memSize a (a + n) := fun hc => c2 hc.2
    rw [if_neg c1, if_neg c2'] at href
    cases hw : m.write memSize o a n vals <;> rw [hw] at href <;> simp_all [RefRes]
  · intro c1 c2 c3
    have c2' : f.accessible memSize a (a + n) := ⟨by omega, c2⟩
    rw [if_neg c1, if_pos c2'] at href
    dsimp only at href
    rw [if_neg c3] at href
    cases hw : m.write memSize o a n vals <;> rw [hw] at href <;> simp_all [RefRes]
  · intro c1 c2 c3
    have c2' : f.accessible memSize a (a + n) := ⟨by omega, c2⟩
    rw [if_neg c1, if_pos c2'] at href
    dsimp only at href
    rw [if_pos c3] at href
    cases hw : m.write memSize o a n vals with
    | ok m' => exact ⟨m', rfl⟩
    | error e => rw [hw] at href; simp [RefRes] at href

/-- **Specified panic reasons of a read** (`MemoryOverflow` / `UninitalizedMemoryAccess`, never anything else) -/
theorem read_panics_as_specified {m : Mem} {f : Flat} (h : Sim memSize m f) (a n : Nat) :
    ((a > memSize ∨ n > memSize ∨ a + n > memSize) → m.read memSize a n = .error .MemoryOverflow) ∧
    (¬ (a > memSize ∨ n > memSize ∨ a + n > memSize) → ¬ (a + n ≤ f.sl ∨ f.hp ≤ a) →
        m.read memSize a n = .error .UninitalizedMemoryAccess) ∧
    (¬ (a > memSize ∨ n > memSize ∨ a + n > memSize) → (a + n ≤ f.sl ∨ f.hp ≤ a) →
        m.read memSize a n = .ok (slice f.bytes a (a + n))) := by
  rw [read_refines h]
  unfold Flat.read Flat.verify
  refine ⟨?_, ?_, ?_⟩
  · intro c1; rw [if_pos c1]
  · intro c1 c2
    have c2' : ¬ f.accessible memSize a (a + n) := fun hc => c2 hc.2
    rw [if_neg c1, if_neg c2']
  · intro c1 c2
    have c2' : f.accessible memSize a (a + n) := ⟨by omega, c2⟩
    rw [if_neg c1, if_pos c2']

/-- obligation on the generated site list: the callers of `write_noownerchecks`/`write_bytes_noownerchecks` in the
non-test sources of fuel-vm are exactly the hand-classified VM writes (call frame, loaded-code size, balance
entries, transaction outputs, VM initialisation, register push, the owner-checked wrapper, CROO's range probe) -/
theorem noownercheck_sites : noOwnerCheckSites = expectedNoOwnerCheckSites.map (·.1) := by decide

/-- obligation on the generated instruction table: every opcode has a write class -/
theorem write_class_total : writeClassTotal = true := by decide

/-- The statement about EVERY instruction, kept visible: for each single step of the interpreter, every changed
address is allowed by the class of the executed opcode. It quantifies over the real interpreter's step function,
which is not modelled in Lean as a whole; it is checked on generated programs by the `c24b` stream (the `verdict`
function is the Lean side of that check). For the step relations given by the execution MODELS of 64 opcodes it is
proved in `Props/C24Models.lean` (`every_modelled_instruction_holds`). -/
def EveryInstructionStatement (step : StepObs → List (Nat × Nat) → Prop) : Prop :=
  ∀ o changes, step o changes → verdict memSize o changes = .ok ()

/-- what the verdict means for the `owned` class: each changed range is owned by the frame (declaratively) -/
theorem verdict_owned_sound (o : StepObs) (changes : List (Nat × Nat))
    (hc : classOfOpcode o.opcode = some .owned) (hv : verdict memSize o changes = .ok ()) :
    ∀ r ∈ changes, r.1 ≤ r.2 →
      ({ sp := o.spB, ssp := o.sspB, hp := o.hpB, prevHp := o.prevHpB } : Ownership).owns memSize r.1 r.2 := by
  intro r hr hle
  unfold verdict at hv
  rw [hc] at hv
  dsimp only at hv
  cases hf : changes.find? (fun r => !(allowedChange memSize .owned o r.1 r.2)) with
  | some r' => rw [hf] at hv; cases hv
  | none =>
    have := List.find?_eq_none.mp hf r hr
    simp only [allowedChange, Bool.not_eq_true', Bool.not_eq_false] at this
    exact (hasRange_iff_owns memSize _ hle).mp (by simpa using this)

/-! ### non-vacuity -/

/-- a frame inside a call: stack `[1000,1200)`, heap `[5000,6000)` below the caller's `hp = 6000` -/
def exOwn : Ownership := { sp := 1200, ssp := 1000, hp := 5000, prevHp := 6000 }

example : exOwn.hasRange memSize 1000 1200 = true ∧ exOwn.hasRange memSize 999 1001 = false ∧
    exOwn.hasRange memSize 1199 1201 = false ∧ exOwn.hasRange memSize 5000 6000 = true ∧
    exOwn.hasRange memSize 5999 6001 = false ∧ exOwn.hasRange memSize 1200 1200 = false ∧
    exOwn.hasRange memSize 1000 1000 = true ∧ exOwn.hasRange memSize 6000 6000 = true := by decide

/-- `write_changes_only_range` applies to a reachable instance (stack grown to 64) and an owned stack range -/
example : ∃ (m m' : Mem) (f : Flat), Sim memSize m f ∧ m.write memSize ⟨64, 0, memSize, memSize⟩ 8 4 (fun _ => 7) = .ok m' := by
  have h := growStack_refines (sim_new memSize) 64
  obtain ⟨m, hm⟩ : ∃ m, (Mem.new memSize).growStack memSize 64 = .ok m := ⟨_, rfl⟩
  obtain ⟨f, hf⟩ : ∃ f, (Flat.init memSize).growStack memSize 64 = .ok f := ⟨_, rfl⟩
  rw [hm, hf] at h
  have hsl : f.sl = 64 := by
    have : (Flat.init memSize).growStack memSize 64 = .ok { bytes := fun a => if 0 ≤ a ∧ a < 64 then 0 else 0, sl := 64, hp := memSize } := rfl
    rw [hf] at this
    cases this
    rfl
  obtain ⟨m', hm'⟩ := (C24.write_panics_as_specified h ⟨64, 0, memSize, memSize⟩ 8 4 (fun _ => 7)).2.2.2
    (by decide) (Or.inl (by rw [hsl]; decide)) (by decide)
  exact ⟨m, m', f, h, hm'⟩

example : (verdict memSize ⟨0x5f, 1000, 1200, 5000, 6000, 900, 1000, 1200, 0, 0, 0, 0, 0, 0⟩ [(1100, 1108)]).isOk = true ∧
    (verdict memSize ⟨0x5f, 1000, 1200, 5000, 6000, 900, 1000, 1200, 0, 0, 0, 0, 0, 0⟩ [(900, 908)]).isOk = false := by
  decide +kernel

end FuelVerif.Memory.C24
