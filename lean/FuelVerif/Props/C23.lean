/-
C23 — VM memory behaves like a zero-initialized array with two regions.

  "Across any history of stack growth, heap allocation, reads, writes, copies, resets and rollbacks, VM
   memory behaves like a flat zero-initialized byte array of 64 MiB in which a range is accessible exactly
   when it lies entirely below the highest stack extent not yet overtaken by the heap, or entirely at or
   above the heap pointer. Newly allocated heap bytes read as zero even when the memory instance is reused,
   copies between ranges that share a byte are refused, and rolling back to an earlier snapshot restores
   exactly that snapshot's accessible contents."

Concrete side: `Model/Memory.lean` (`MemoryInstance` transcribed: stack vector, over-allocated heap vector,
`hp`; `stepC`/`runC` = histories). Abstract side: `Model/MemorySpec.lean` (`Flat`, `stepA`/`runA`).
`M = Gen.memSize` and the reallocation clamp `Gen.heapMinCap` are regenerated from the Rust sources by
`tools/gen/memconsts.py` on every run (which also re-checks the shape of the transcribed function bodies).
-/
import FuelVerif.Lemmas.MemoryHistory
namespace FuelVerif.Memory.C23
open FuelVerif.Memory FuelVerif.Gen

/-- obligations on the generated constants: the array is 64 MiB, addresses fit a `usize`/`u64` (so
`next_power_of_two` cannot overflow), and `clamp(256, MEM_SIZE)` has `min ≤ max` -/
theorem consts_ok : memSize = 64 * 1024 * 1024 ∧ memSize ≤ 2 ^ 64 ∧ heapMinCap ≤ memSize := by decide

/-- a state reachable from `MemoryInstance::new()` by some history -/
def Reachable (s : HState) : Prop := ∃ ops, (runC memSize heapMinCap (HState.init memSize) ops).1 = s

/-- **Refinement over all histories.** Whatever sequence of grow_stack / grow_heap_by / verify / read / write /
memcopy / reset / snapshot / rollback is applied to a fresh `MemoryInstance`, every answer (Ok, the bytes read,
the new `hp`, the `PanicReason`) is the answer of the flat 64 MiB zero-initialised array `Flat` on the same
history. -/
theorem history_refines (ops : List Op) :
    (runC memSize heapMinCap (HState.init memSize) ops).2 = (runA memSize (AState.init memSize) ops).2 :=
  (run_refines consts_ok.2.1 consts_ok.2.2 ops (simH_init memSize)).1

/-- **No crash.** In every history no operation reaches `unreachable!()`, and a Rust-level panic (slice index,
`assert!`, `expect`, arithmetic overflow) can only be answered by a rollback operation (the two refusals of
`collect_rollback_data`). -/
theorem history_no_crash (ops : List Op) (i : Nat) (o : Out)
    (h : (runC memSize heapMinCap (HState.init memSize) ops).2[i]? = some o) :
    o ≠ .err .Unreachable ∧ (o = .err .RustPanic → ∃ k, ops[i]? = some (.rollback k)) := by
  rw [history_refines] at h
  exact runA_out memSize ops _ i o h

/-- every reachable instance represents a flat memory (and so satisfies the representation invariant), and so
does every snapshot it retains -/
theorem reachable_sim {s : HState} (h : Reachable s) :
    ∃ a : AState, SimH memSize s a := by
  obtain ⟨ops, rfl⟩ := h
  exact ⟨_, (run_refines consts_ok.2.1 consts_ok.2.2 ops (simH_init memSize)).2⟩

/-- **Accessibility.** On a reachable instance `verify(addr, count)` succeeds exactly when the range ends within
the 64 MiB and lies entirely below the stack extent or entirely at/above `hp`; it fails with `MemoryOverflow`
exactly when an argument or the end exceeds the memory size, and with `UninitalizedMemoryAccess` otherwise. -/
theorem verify_iff_accessible {m : Mem} {f : Flat} (h : Sim memSize m f) (a c : Nat) :
    (m.verify memSize a c = .ok (a, a + c) ↔ (a + c ≤ memSize ∧ (a + c ≤ f.sl ∨ f.hp ≤ a))) ∧
    (m.verify memSize a c = .error .MemoryOverflow ↔ (a > memSize ∨ c > memSize ∨ a + c > memSize)) ∧
    (m.verify memSize a c = .error .UninitalizedMemoryAccess ↔
      (a + c ≤ memSize ∧ ¬ (a + c ≤ f.sl ∨ f.hp ≤ a))) := by
  rw [verify_refines h]
  unfold Flat.verify
  by_cases c1 : a > memSize ∨ c > memSize ∨ a + c > memSize
  · rw [if_pos c1]
    exact ⟨⟨(fun h' => nomatch h'), (fun h' => by omega)⟩, ⟨(fun _ => c1), (fun _ => rfl)⟩,
      ⟨(fun h' => nomatch h'), (fun h' => by omega)⟩⟩
  · rw [if_neg c1]
    by_cases c2 : f.accessible memSize a (a + c)
    · rw [if_pos c2]
      exact ⟨⟨(fun _ => c2), (fun _ => rfl)⟩, ⟨(fun h' => nomatch h'), (fun h' => absurd h' c1)⟩,
        ⟨(fun h' => nomatch h'), (fun h' => absurd c2.2 h'.2)⟩⟩
    · rw [if_neg c2]
      exact ⟨⟨(fun h' => nomatch h'), (fun h' => absurd h' c2)⟩, ⟨(fun h' => nomatch h'), (fun h' => absurd h' c1)⟩,
        ⟨(fun _ => ⟨by omega, fun h' => c2 ⟨by omega, h'⟩⟩), (fun _ => rfl)⟩⟩

/-- **Fresh heap reads zero, even on a reused instance.** After any history (including resets that leave the
heap buffer dirty), a successful `grow_heap_by` makes every byte of `[new hp, old hp)` read as zero. -/
theorem fresh_heap_zero {s : HState} (hr : Reachable s) (sp amt : Nat) {m' : Mem}
    (hg : s.cur.growHeapBy memSize heapMinCap sp amt = .ok m') (a : Nat) (h1 : m'.hp ≤ a) (h2 : a < s.cur.hp) :
    m'.read memSize a 1 = .ok [0] := by
  obtain ⟨ab, hs⟩ := reachable_sim hr
  have hcur := hs.cur
  have href := growHeapBy_refines consts_ok.2.1 consts_ok.2.2 hcur sp amt
  rw [hg] at href
  unfold Flat.growHeap at href
  have hphp := hcur.hp
  have hinv := hcur.inv
  split at href
  · simp [RefRes] at href
  · split at href
    · simp [RefRes] at href
    · simp only [RefRes] at href
      rw [read_refines href]
      have hhp' := href.hp
      dsimp only at hhp'
      have hle := hinv.hp_le
      have := consts_ok.1
      rw [Flat.read_one (by omega) (by dsimp only; omega)]
      dsimp only
      rw [if_pos (by omega)]

/-- **Overlapping copies are refused.** Whenever both ranges are accessible, `memcopy` answers
`MemoryWriteOverlap` exactly when the two ranges share a byte (checked before ownership). -/
theorem memcopy_refuses_overlap (m : Mem) (dst src len : Nat) (o : Ownership)
    (hd : m.verify memSize dst len = .ok (dst, dst + len)) (hs : m.verify memSize src len = .ok (src, src + len)) :
    m.memcopy memSize dst src len o = .error .MemoryWriteOverlap ↔ shareByte dst (dst + len) src (src + len) := by
  rw [shareByte_iff, ← memcopyOverlap_iff]
  unfold Mem.memcopy
  rw [hd, hs]
  dsimp only
  by_cases hov : memcopyOverlap dst (dst + len) src (src + len) = true
  · simp [hov]
  · simp only [hov, Bool.false_eq_true, if_false, iff_false]
    rcases verifyOwnership_cases memSize o dst (dst + len) with ho | ho <;> rw [ho] <;> dsimp only
    · repeat' split
      all_goals simp
    · simp

/-- **Rollback restores the snapshot** (proved part): if `cur` and `snap` are reachable instances (e.g. `snap` a
retained clone), the snapshot's heap pointer is not below the current one (documented precondition) and — while the
code slices the current stack to the snapshot's length (`Gen.rollbackSlicesCurrentStackToSp`, true today) — its
stack extent is not above the current one, then `collect_rollback_data` either reports "equal" — and the two are
equal on the accessible contents — or yields data whose `rollback` succeeds and makes `cur` equal to the
snapshot (`PartialEq`: same stack vector, same `hp`, same heap contents from `hp`). -/
theorem rollback_restores_partial {cur snap : Mem} {fc fs : Flat} (hc : Sim memSize cur fc) (hs : Sim memSize snap fs)
    (hhp : snap.hp ≥ cur.hp) (hsl : rollbackSlicesCurrentStackToSp = true → snap.stackLen ≤ cur.stackLen) :
    (cur.collectRollbackData memSize snap = .ok none ∧ cur.eqAccessible memSize snap = true) ∨
    (∃ d m', cur.collectRollbackData memSize snap = .ok (some d) ∧ cur.rollback memSize d = .ok m' ∧
      m'.eqAccessible memSize snap = true ∧ Sim memSize m' fs) := by
  have hr := rollback_refines hc hs
  cases hcoll : cur.collectRollbackData memSize snap with
  | error e =>
    rw [hcoll] at hr
    obtain ⟨_, _, hbad⟩ := hr
    have := hc.hp; have := hs.hp; have := hc.sl; have := hs.sl
    rcases hbad with hbad | ⟨hflag, hbad⟩
    · omega
    · have := hsl hflag
      omega
  | ok od =>
    cases od with
    | none =>
      rw [hcoll] at hr
      exact Or.inl ⟨rfl, (eqAccessible_iff hc hs).mpr hr⟩
    | some d =>
      rw [hcoll] at hr
      obtain ⟨_, _, m', hm', hsim⟩ := hr
      refine Or.inr ⟨d, m', rfl, hm', (eqAccessible_iff hsim hs).mpr ?_, hsim⟩
      exact ⟨rfl, rfl, fun _ _ => rfl, fun _ _ _ => rfl⟩

/-- **Within one transaction the stack case is the ONLY refusal.** After any history without resets, rolling back
to a retained snapshot `k` answers a Rust panic exactly when that snapshot differs from the current memory and its
stack extent is above the current one (the heap-pointer refusal cannot occur: retained snapshots are ancestors,
their heap pointers are never below the current one). -/
theorem rollback_refusal_within_transaction (ops : List Op) (hnr : ∀ op ∈ ops, op ≠ Op.reset) (k : Nat) :
    (stepC memSize heapMinCap (runC memSize heapMinCap (HState.init memSize) ops).1 (.rollback k)).2 = .err .RustPanic ↔
    ∃ snap, (runA memSize (AState.init memSize) ops).1.snaps[k]? = some snap ∧
      ¬ (runA memSize (AState.init memSize) ops).1.cur.sameAccessible memSize snap ∧
      rollbackSlicesCurrentStackToSp = true ∧ snap.sl > (runA memSize (AState.init memSize) ops).1.cur.sl := by
  have hsim := (run_refines consts_ok.2.1 consts_ok.2.2 ops (simH_init memSize)).2
  have hord := hpOrdered_run memSize ops _ (hpOrdered_init memSize) hnr
  rw [(step_refines consts_ok.2.1 consts_ok.2.2 hsim (.rollback k)).1]
  generalize (runA memSize (AState.init memSize) ops).1 = sa at hord ⊢
  simp only [stepA]
  cases hk : sa.snaps[k]? with
  | none => simp
  | some snap =>
    have hmem : snap ∈ sa.snaps := List.mem_of_getElem? hk
    have hge := hord.above snap hmem
    dsimp only
    by_cases hs : sa.cur.sameAccessible memSize snap
    · simp [hs]
    · by_cases hr : rollbackSlicesCurrentStackToSp = true ∧ snap.sl > sa.cur.sl
      · have h2 : snap.hp < sa.cur.hp ∨ (rollbackSlicesCurrentStackToSp = true ∧ snap.sl > sa.cur.sl) := Or.inr hr
        rw [if_neg hs, if_pos h2]
        simp [hs, hr.1, hr.2]
      · have h2 : ¬ (snap.hp < sa.cur.hp ∨ (rollbackSlicesCurrentStackToSp = true ∧ snap.sl > sa.cur.sl)) := by
          rintro (h | h)
          · omega
          · exact hr h
        rw [if_neg hs, if_neg h2]
        constructor
        · intro hc; cases hc
        · rintro ⟨x, hx, _, hf, hgt⟩
          cases hx
          exact absurd ⟨hf, hgt⟩ hr

/-- the statement as the property words it (no condition on the stack extents): in a history without resets,
rolling back to any retained (hence earlier) snapshot is never refused -/
def RollbackFullStatement : Prop :=
  ∀ (ops : List Op) (k : Nat), (∀ op ∈ ops, op ≠ Op.reset) →
    let s := (runC memSize heapMinCap (HState.init memSize) ops).1
    k < s.snaps.length → (stepC memSize heapMinCap s (.rollback k)).2 ≠ .err .RustPanic

/-- the refusal on a snapshot whose stack vector is longer than the current one (`self.stack[..sp]`), present
while the code has today's shape -/
theorem rollback_refuses_longer_snapshot_stack (hflag : rollbackSlicesCurrentStackToSp = true) {cur snap : Mem}
    (hne : cur.eqAccessible memSize snap = false) (hhp : snap.hp ≥ cur.hp) (hsl : snap.stackLen > cur.stackLen) :
    cur.collectRollbackData memSize snap = .error .RustPanic := by
  unfold Mem.collectRollbackData
  have : ¬ snap.hp < cur.hp := by omega
  simp [hne, this, hsl, hflag]

/-- **The full statement holds exactly for the repaired code shape.** With today's code
(`rollbackSlicesCurrentStackToSp = true`) it is FALSE: grow the stack to 100, snapshot, let the heap overtake the old
stack extent down to address 50 (which truncates the stack vector), roll back to the snapshot —
`collect_rollback_data` panics slicing `self.stack[..100]` of a 50-byte vector (replayed on the real code by the
`c23` stream; known finding `rollback-panics-current-stack-shorter-than-snapshot`). With the repaired shape
(repo-patches/fix-C23-rollback-short-stack.diff, recognised by the translator) it is TRUE. -/
theorem rollback_full_statement_iff : RollbackFullStatement ↔ rollbackSlicesCurrentStackToSp = false := by
  constructor
  · intro h
    cases hflag : rollbackSlicesCurrentStackToSp with
    | false => rfl
    | true =>
      exfalso
      have hno : ∀ op ∈ [Op.growStack 100, Op.snapshot, Op.growHeap 0 (memSize - 50)], op ≠ Op.reset := by
        intro op hop
        simp only [List.mem_cons, List.mem_nil_iff, or_false] at hop
        rcases hop with rfl | rfl | rfl <;> (intro hc; cases hc)
      have := h [.growStack 100, .snapshot, .growHeap 0 (memSize - 50)] 0 hno (by decide +kernel)
      apply this
      rw [rollback_refusal_within_transaction _ hno]
      obtain ⟨snap, hsnap⟩ : ∃ snap, (runA memSize (AState.init memSize)
          [.growStack 100, .snapshot, .growHeap 0 (memSize - 50)]).1.snaps[0]? = some snap := ⟨_, rfl⟩
      have h1 : ((runA memSize (AState.init memSize)
          [.growStack 100, .snapshot, .growHeap 0 (memSize - 50)]).1.snaps[0]?).map (·.sl) = some 100 := by decide +kernel
      have h2 : (runA memSize (AState.init memSize)
          [.growStack 100, .snapshot, .growHeap 0 (memSize - 50)]).1.cur.sl = 50 := by decide +kernel
      rw [hsnap] at h1
      simp only [Option.map_some, Option.some.injEq] at h1
      refine ⟨snap, hsnap, ?_, hflag, by omega⟩
      intro hsame
      have := hsame.1
      omega
  · intro hflag ops k hnr s hk hpanic
    have := (rollback_refusal_within_transaction ops hnr k).mp hpanic
    obtain ⟨_, _, _, hf, _⟩ := this
    rw [hflag] at hf
    cases hf

/-! ### non-vacuity -/

/-- a history exercising every operation: dirty heap, reset, in-place regrow reads zero, reallocation, copy,
overlap refusal, snapshot, rollback -/
example :
    (runC memSize heapMinCap (HState.init memSize)
      [.growHeap 0 64, .write (memSize - 64) [1, 2, 3], .reset, .growHeap 0 16, .read (memSize - 16) 4,
       .growHeap 0 1000, .read (memSize - 64) 3, .growStack 32, .write 0 [7, 8, 9], .snapshot,
       .memcopy 8 0 3 ⟨32, 0, memSize - 1016, memSize⟩, .memcopy 1 0 3 ⟨32, 0, memSize - 1016, memSize⟩,
       .read 8 3, .rollback 0, .read 8 3, .verify 32 1, .verify (memSize - 1016) 1016]).2
    = [.hp (memSize - 64), .ok, .ok, .hp (memSize - 16), .bytes [0, 0, 0, 0],
       .hp (memSize - 1016), .bytes [0, 0, 0], .ok, .ok, .ok,
       .ok, .err .MemoryWriteOverlap,
       .bytes [7, 8, 9], .ok, .bytes [0, 0, 0], .err .UninitalizedMemoryAccess, .range (memSize - 1016) memSize] := by
  decide +kernel

/-- `fresh_heap_zero`'s hypotheses are met after a reset that left non-zero bytes in the heap buffer -/
example : ∃ s m', Reachable s ∧ s.cur.heap (s.cur.heapLen - 1) ≠ 0 ∧
    s.cur.growHeapBy memSize heapMinCap 0 8 = .ok m' := by
  refine ⟨_, _, ⟨[.growHeap 0 64, .write (memSize - 1) [5], .reset], rfl⟩, by decide +kernel, rfl⟩

/-- `rollback_restores_partial`'s hypotheses are met by a reachable pair with different contents -/
example : ∃ cur snap : Mem, ∃ fc fs : Flat, Sim memSize cur fc ∧ Sim memSize snap fs ∧ snap.hp ≥ cur.hp ∧
    (rollbackSlicesCurrentStackToSp = true → snap.stackLen ≤ cur.stackLen) ∧ cur.eqAccessible memSize snap = false := by
  have h := (run_refines consts_ok.2.1 consts_ok.2.2
    [.growStack 8, .snapshot, .write 0 [1], .growHeap 8 4] (simH_init memSize)).2
  refine ⟨_, _, _, _, h.cur, h.snaps 0 _ _ rfl rfl, by decide +kernel, fun _ => by decide +kernel, by decide +kernel⟩

end FuelVerif.Memory.C23
