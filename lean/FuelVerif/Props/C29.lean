/-
C29 — No input makes the VM crash, report an internal bug or run forever.

  "Checking and executing any transaction, with any script, script data, predicates and deployed contract
   code, never panics the host and never returns an internal-bug error; execution ends with a program state
   or a storage error only. Under the default gas schedule every executed instruction consumes gas, so
   execution always terminates within the gas limit."

Proved (for every instruction semantics that starts by charging its cost, every state, every program):
* `every_opcode_charges_first`: complete check over the regenerated tables — every opcode of the instruction
  table has an `impl Execute` whose first effect is a gas charge (directly or in the helper it delegates to),
  and under `default_gas_costs()` the amount charged is ≥ 1 (ECAL excepted: its default handler panics).
* `run_terminates` / `steps_le_gas`: with positive costs the `run_program` loop leaves within `$ggas + 1`
  iterations and executes at most `$ggas` instructions that let it continue.
* `no_global_gas_underflow`: `$ggas` never rises, so `gas_limit.checked_sub(remaining_gas)` is never the
  `GlobalGasUnderflow` bug.
* `fatal_is_bug_or_storage`, `no_bug_no_internal_error`: the loop can only be left by a program state, or by an
  error that is `Storage` or `Bug`; if no instruction body returns `Bug`, only `Storage`.
PARTIAL (stated, not provable in a model): "never panics the host" and "no instruction body returns Bug" are
sampled by the stream `c29` (everything under catch_unwind, outcomes classified), not proved.
-/
import FuelVerif.Lemmas.Debug
import FuelVerif.Model.Run
import FuelVerif.Gen.VmGas
import FuelVerif.Gen.Instructions
import FuelVerif.Model.ReceiptsCtx
namespace FuelVerif.Run
open FuelVerif.Debug FuelVerif.Gen

/-- the full statement, kept visible; the host-panic part is outside what a model can exhibit -/
def C29Statement : Prop :=
  ∀ (σ : Type) (m : Sem σ), GasLaws m → (∀ raw s, 1 ≤ m.cost raw s) →
    (∀ raw s v, (m.body raw s).2 ≠ .error (.bug v)) →
    ∀ s, ∃ s' r tr, plainLoop m.machine (m.ggas s + 1) s = some (s', r, tr) ∧ tr.length ≤ m.ggas s + 1 ∧
      m.ggas s' ≤ m.ggas s ∧ (∀ e, r = .fatal e → e = .storage)

def siteOf (name : String) : Option (String × ChargeKind × String × String) :=
  chargeSites.find? (fun x => x.1 == name)

def chargedAtLeastOne (name : String) : Bool :=
  match siteOf name with
  | none => false
  | some (_, .ecal, _, _) => true
  | some (_, _, acc, _) =>
    match defaultCharge.find? (fun x => x.1 == acc) with
    | some (_, v) => decide (1 ≤ v)
    | none => false

/-- **Every opcode charges first, and at least 1 under the default schedule** (complete finite check over
the tables regenerated from lib.rs, opcodes_impl.rs, gas.rs and default_gas_costs.rs) -/
theorem every_opcode_charges_first :
    (instrTable.all fun row => chargedAtLeastOne row.name) = true
    ∧ (chargeSites.all fun x => instrTable.any fun row => row.name == x.1) = true
    ∧ (chargeSites.filter fun x => x.2.1 == ChargeKind.ecal).map (·.1) = ["ECAL"] := by
  decide +kernel

/-- the internal-bug variants the loop bookkeeping itself could raise are among the generated `BugVariant`s -/
theorem modelled_bugs_exist : ["GlobalGasUnderflow", "ContextGasOverflow", "ContextGasUnderflow", "ReceiptsCtxFull"].all
    (fun v => bugVariants.contains v) = true := by decide

theorem exec_gas {σ : Type} (m : Sem σ) (L : GasLaws m) (hpos : ∀ raw s, 1 ≤ m.cost raw s) (raw : Nat) (s : σ) :
    (∀ o, (m.exec raw s).2 = .ok o → m.ggas (m.exec raw s).1 + 1 ≤ m.ggas s) ∧ m.ggas (m.exec raw s).1 ≤ m.ggas s := by
  have hi := L.inv s
  have hc := hpos raw s
  by_cases h : m.cost raw s > m.cgas s
  · have he : m.exec raw s = (m.setGas s (0, m.ggas s - m.cgas s), .error (fromRuntime (.recoverable "OutOfGas") raw)) := by
      simp [Sem.exec, gasCharge, h]
    rw [he]
    refine ⟨fun o ho => (by cases ho), ?_⟩
    have := (L.get_set s (0, m.ggas s - m.cgas s) (Nat.zero_le _)).2
    simp only at this ⊢
    omega
  · have hb := L.body_mono raw (m.setGas s (m.cgas s - m.cost raw s, m.ggas s - m.cost raw s))
    have hg := (L.get_set s (m.cgas s - m.cost raw s, m.ggas s - m.cost raw s) (by simp only; omega)).2
    simp only at hg
    rw [hg] at hb
    rcases hx : m.body raw (m.setGas s (m.cgas s - m.cost raw s, m.ggas s - m.cost raw s)) with ⟨s', r⟩
    rw [hx] at hb
    simp only at hb
    cases r with
    | ok o =>
      have he : m.exec raw s = (s', .ok o) := by simp [Sem.exec, gasCharge, h, hx]
      rw [he]
      exact ⟨fun _ _ => (by simp only; omega), (by simp only; omega)⟩
    | error e =>
      have he : m.exec raw s = (s', .error (fromRuntime e raw)) := by simp [Sem.exec, gasCharge, h, hx]
      rw [he]
      exact ⟨fun o ho => (by cases ho), (by simp only; omega)⟩

theorem stepExec_gas {σ : Type} (m : Sem σ) (L : GasLaws m) (hpos : ∀ raw s, 1 ≤ m.cost raw s) (raw : Nat) (s : σ) :
    match stepExec m.machine raw s with
    | .cont s' => m.ggas s' + 1 ≤ m.ggas s
    | .stop s' _ => m.ggas s' ≤ m.ggas s := by
  obtain ⟨h1, h2⟩ := exec_gas m L hpos raw s
  unfold stepExec
  have hm : m.machine.exec raw s = m.exec raw s := rfl
  rw [hm]
  rcases hx : m.exec raw s with ⟨s', r⟩
  rw [hx] at h1 h2
  simp only at h1 h2
  cases r with
  | error e =>
    simp only
    cases hp : m.machine.panicReceipt e s' with
    | none => simpa using h2
    | some s'' =>
      simp only
      simp only [Sem.machine, Option.map_eq_some_iff] at hp
      obtain ⟨r, _, rfl⟩ := hp
      rw [L.receipt_gas]; exact h2
  | ok o =>
    have := h1 o rfl
    by_cases hc : m.machine.inCall s = true <;> cases o <;> simp only [hc, if_true, if_false, Bool.false_eq_true] <;> omega

/-- **Termination within the gas limit.** With positive costs the `run_program` loop started with `$ggas = g`
leaves after at most `g + 1` iterations; it executes at most `g + 1` instructions (at most `g` of them let the
loop continue); `$ggas` at the end is at most `$ggas` at the start. -/
theorem run_terminates {σ : Type} (m : Sem σ) (L : GasLaws m) (hpos : ∀ raw s, 1 ≤ m.cost raw s) :
    ∀ (n : Nat) (s : σ), m.ggas s < n →
      ∃ s' r tr, plainLoop m.machine n s = some (s', r, tr) ∧ tr.length ≤ m.ggas s + 1 ∧ m.ggas s' ≤ m.ggas s := by
  intro n
  induction n with
  | zero => intro s h; omega
  | succ n ih =>
    intro s h
    rw [plainLoop]
    cases hf : m.machine.fetch s with
    | error e =>
      refine ⟨_, _, _, rfl, by simp, ?_⟩
      unfold stepFetchErr
      cases hp : m.machine.panicReceipt e s with
      | none => simp
      | some s'' =>
        simp only [Sem.machine, Option.map_eq_some_iff] at hp
        obtain ⟨r, _, rfl⟩ := hp
        simp [L.receipt_gas]
    | ok raw =>
      simp only
      have hg := stepExec_gas m L hpos raw s
      cases hx : stepExec m.machine raw s with
      | stop s1 r1 =>
        rw [hx] at hg
        exact ⟨_, _, _, rfl, by simp, hg⟩
      | cont s1 =>
        rw [hx] at hg
        simp only at hg ⊢
        obtain ⟨s', r, tr, hl, ht, hgg⟩ := ih s1 (by omega)
        rw [hl]
        exact ⟨s', r, _, rfl, by simp only [List.length_cons]; omega, by omega⟩

/-- the number of executed instructions is bounded by the gas available: `steps ≤ $ggas + 1` -/
theorem steps_le_gas {σ : Type} (m : Sem σ) (L : GasLaws m) (hpos : ∀ raw s, 1 ≤ m.cost raw s) (s : σ) :
    ∃ s' r tr, plainLoop m.machine (m.ggas s + 1) s = some (s', r, tr) ∧ tr.length ≤ m.ggas s + 1 := by
  obtain ⟨s', r, tr, h1, h2, _⟩ := run_terminates m L hpos (m.ggas s + 1) s (by omega)
  exact ⟨s', r, tr, h1, h2⟩

/-- `$ggas` never rises during a run, so the gas-used computation after the loop cannot be the
`GlobalGasUnderflow` bug when the run started with `$ggas = gas_limit` (`set_gas(gas_limit)` in `init_inner`) -/
theorem no_global_gas_underflow {σ : Type} (m : Sem σ) (L : GasLaws m) (hpos : ∀ raw s, 1 ≤ m.cost raw s)
    (n : Nat) (s s' : σ) (r : LoopOut IErr) (tr : List (Breakpoint × σ))
    (h : plainLoop m.machine n s = some (s', r, tr)) :
    ∃ used, gasUsed (m.ggas s) (m.ggas s') = .ok used ∧ used ≤ m.ggas s := by
  have key : ∀ (n : Nat) (s s' : σ) r tr, plainLoop m.machine n s = some (s', r, tr) → m.ggas s' ≤ m.ggas s := by
    intro n
    induction n with
    | zero => intro s s' r tr h; simp [plainLoop] at h
    | succ n ih =>
      intro s s' r tr h
      rw [plainLoop] at h
      cases hf : m.machine.fetch s with
      | error e =>
        rw [hf] at h
        simp only [Option.some.injEq, Prod.mk.injEq] at h
        obtain ⟨rfl, _, _⟩ := h
        unfold stepFetchErr
        cases hp : m.machine.panicReceipt e s with
        | none => simp
        | some s'' =>
          simp only [Sem.machine, Option.map_eq_some_iff] at hp
          obtain ⟨r, _, rfl⟩ := hp
          simp [L.receipt_gas]
      | ok raw =>
        rw [hf] at h
        simp only at h
        have hg := stepExec_gas m L hpos raw s
        cases hx : stepExec m.machine raw s with
        | stop s1 r1 =>
          rw [hx] at hg h
          simp only [Option.some.injEq, Prod.mk.injEq] at h
          obtain ⟨rfl, _, _⟩ := h
          exact hg
        | cont s1 =>
          rw [hx] at hg h
          simp only at hg h
          cases hp : plainLoop m.machine n s1 with
          | none => rw [hp] at h; cases h
          | some y =>
            obtain ⟨s2, r2, tr2⟩ := y
            rw [hp] at h
            simp only [Option.some.injEq, Prod.mk.injEq] at h
            obtain ⟨rfl, _, _⟩ := h
            have := ih _ _ _ _ hp
            omega
  have := key n s s' r tr h
  exact ⟨m.ggas s - m.ggas s', by simp [gasUsed, this], by omega⟩

/-- **Result classification.** The loop is left by a program state (`done`), or by an error that is not a VM
panic — and such an error is `Bug` or `Storage`, never anything else. -/
theorem fatal_is_bug_or_storage {σ : Type} (m : Sem σ) :
    ∀ (n : Nat) (s s' : σ) (e : IErr) (tr : List (Breakpoint × σ)),
    plainLoop m.machine n s = some (s', .fatal e, tr) → (∃ v, e = .bug v) ∨ e = .storage := by
  intro n
  induction n with
  | zero => intro s s' e tr h; simp [plainLoop] at h
  | succ n ih =>
    intro s s' e tr h
    rw [plainLoop] at h
    cases hf : m.machine.fetch s with
    | error e0 =>
      rw [hf] at h
      simp only [Option.some.injEq, Prod.mk.injEq] at h
      obtain ⟨_, h2, _⟩ := h
      -- a fetch error is a PanicInstruction: it always gets a receipt
      exfalso
      simp only [Sem.machine] at hf
      cases hq : m.fetch s with
      | ok raw => rw [hq] at hf; cases hf
      | error reason =>
        rw [hq] at hf
        cases hf
        simp [stepFetchErr, Sem.machine, instructionResult] at h2
    | ok raw =>
      rw [hf] at h
      simp only at h
      cases hx : stepExec m.machine raw s with
      | cont s1 =>
        rw [hx] at h
        simp only at h
        cases hp : plainLoop m.machine n s1 with
        | none => rw [hp] at h; cases h
        | some y =>
          obtain ⟨s2, r2, tr2⟩ := y
          rw [hp] at h
          simp only [Option.some.injEq, Prod.mk.injEq] at h
          obtain ⟨rfl, rfl, _⟩ := h
          exact ih _ _ _ _ hp
      | stop s1 r1 =>
        rw [hx] at h
        simp only [Option.some.injEq, Prod.mk.injEq] at h
        obtain ⟨_, rfl, _⟩ := h
        -- which error can `stepExec` stop with as fatal?
        unfold stepExec at hx
        have hm : m.machine.exec raw s = m.exec raw s := rfl
        rw [hm] at hx
        unfold Sem.exec at hx
        rcases hc : gasCharge (m.cgas s) (m.ggas s) (m.cost raw s) with ⟨g, b⟩
        rw [hc] at hx
        cases b with
        | false =>
          simp [fromRuntime, Sem.machine, instructionResult] at hx
        | true =>
          simp only at hx
          rcases hb : m.body raw (m.setGas s g) with ⟨sb, rb⟩
          rw [hb] at hx
          cases rb with
          | ok o => cases o <;> simp only at hx <;> (try split at hx) <;> cases hx
          | error er =>
            cases er with
            | recoverable reason => simp [fromRuntime, Sem.machine, instructionResult] at hx
            | bug v =>
              simp [fromRuntime, Sem.machine, instructionResult] at hx
              left; exact ⟨v, hx.2.symm⟩
            | storage =>
              simp [fromRuntime, Sem.machine, instructionResult] at hx
              right; exact hx.2.symm

/-- if no instruction body returns a `Bug` (what C26/C28/C18 establish for the modelled components), the only
error `run_program`'s loop can propagate is a storage error -/
theorem no_bug_no_internal_error {σ : Type} (m : Sem σ) (hnb : ∀ raw s v, (m.body raw s).2 ≠ .error (.bug v))
    (n : Nat) (s s' : σ) (e : IErr) (tr : List (Breakpoint × σ))
    (h : plainLoop m.machine n s = some (s', .fatal e, tr)) : e = .storage := by
  -- strengthen: replay the classification and exclude the bug branch
  have : ∀ (n : Nat) (s s' : σ) (e : IErr) tr, plainLoop m.machine n s = some (s', .fatal e, tr) → ∀ v, e ≠ .bug v := by
    intro n
    induction n with
    | zero => intro s s' e tr h; simp [plainLoop] at h
    | succ n ih =>
      intro s s' e tr h v
      rw [plainLoop] at h
      cases hf : m.machine.fetch s with
      | error e0 =>
        rw [hf] at h
        simp only [Option.some.injEq, Prod.mk.injEq] at h
        obtain ⟨_, h2, _⟩ := h
        simp only [Sem.machine] at hf
        cases hq : m.fetch s with
        | ok raw => rw [hq] at hf; cases hf
        | error reason =>
          rw [hq] at hf
          cases hf
          simp [stepFetchErr, Sem.machine, instructionResult] at h2
      | ok raw =>
        rw [hf] at h
        simp only at h
        cases hx : stepExec m.machine raw s with
        | cont s1 =>
          rw [hx] at h
          simp only at h
          cases hp : plainLoop m.machine n s1 with
          | none => rw [hp] at h; cases h
          | some y =>
            obtain ⟨s2, r2, tr2⟩ := y
            rw [hp] at h
            simp only [Option.some.injEq, Prod.mk.injEq] at h
            obtain ⟨rfl, rfl, _⟩ := h
            exact ih _ _ _ _ hp v
        | stop s1 r1 =>
          rw [hx] at h
          simp only [Option.some.injEq, Prod.mk.injEq] at h
          obtain ⟨_, rfl, _⟩ := h
          unfold stepExec at hx
          have hm : m.machine.exec raw s = m.exec raw s := rfl
          rw [hm] at hx
          unfold Sem.exec at hx
          rcases hc : gasCharge (m.cgas s) (m.ggas s) (m.cost raw s) with ⟨g, b⟩
          rw [hc] at hx
          cases b with
          | false => simp [fromRuntime, Sem.machine, instructionResult] at hx
          | true =>
            simp only at hx
            have hn := hnb raw (m.setGas s g)
            rcases hb : m.body raw (m.setGas s g) with ⟨sb, rb⟩
            rw [hb] at hx hn
            cases rb with
            | ok o => cases o <;> simp only at hx <;> (try split at hx) <;> cases hx
            | error er =>
              cases er with
              | recoverable reason => simp [fromRuntime, Sem.machine, instructionResult] at hx
              | bug v' => exact absurd rfl (hn v')
              | storage =>
                simp [fromRuntime, Sem.machine, instructionResult] at hx
                rw [← hx.2]; simp
  rcases fatal_is_bug_or_storage m n s s' e tr h with ⟨v, hv⟩ | hs
  · exact absurd hv (this n s s' e tr h v)
  · exact hs

/-- the full statement holds for the model -/
theorem c29_model : C29Statement := by
  intro σ m L hpos hnb s
  obtain ⟨s', r, tr, h1, h2, h3⟩ := run_terminates m L hpos (m.ggas s + 1) s (by omega)
  refine ⟨s', r, tr, h1, h2, h3, fun e he => ?_⟩
  subst he
  exact no_bug_no_internal_error m hnb _ _ _ _ _ h1

/-! ### why `append_panic_receipt(..).expect("Appending a panic receipt cannot fail")` cannot panic the host

`Sem.appendPanicReceipt` is total in the run-loop model; that is justified by the reserved-slot rule of
`ReceiptsCtx::push` (Model/ReceiptsCtx.lean; the statement order and the exact text of the rule — only `ScriptResult`
may enter slot MAX-1, only `ScriptResult`/`Panic` slot MAX-2 — are pinned fail-closed by the translators
`receipts_ctx` and `outcome`). During a run every receipt pushed before the loop is left is neither a Panic nor a
ScriptResult, so the list never grows beyond MAX-2, and then Panic and ScriptResult still fit, in this order. -/

open FuelVerif.RCtx in
/-- `push` in closed form, for the statement order the translator extracted -/
theorem push_closed (s : RState) (r : Rc) :
    push s r =
      if s.receipts.length = Gen.ReceiptsCtx.maxReceipts then (s, some .bugReceiptsCtxFull)
      else if (s.receipts.length = Gen.ReceiptsCtx.maxReceipts - 1 ∧ r.kind ≠ .scriptResult) ∨
              (s.receipts.length = Gen.ReceiptsCtx.maxReceipts - 2 ∧ r.kind ≠ .scriptResult ∧ r.kind ≠ .panic)
        then (s, some .tooManyReceipts)
      else ({ receipts := s.receipts ++ [r], leaves := s.leaves ++ [r.enc] }, none) := by
  have ho : Gen.ReceiptsCtx.pushOrder = ["full", "tail", "tree", "list"] := by decide
  unfold push
  rw [ho]
  simp only [runStmts, pushStmt]
  by_cases h1 : s.receipts.length = Gen.ReceiptsCtx.maxReceipts
  · simp [h1]
  · by_cases h2 : (s.receipts.length = Gen.ReceiptsCtx.maxReceipts - 1 ∧ r.kind ≠ .scriptResult) ∨
        (s.receipts.length = Gen.ReceiptsCtx.maxReceipts - 2 ∧ r.kind ≠ .scriptResult ∧ r.kind ≠ .panic)
    · simp [h1, h2]
    · simp [h1, h2]

open FuelVerif.RCtx in
/-- pushing any sequence of receipts that are neither Panic nor ScriptResult (accepted or refused) never gets the
list beyond MAX-2: the last two slots stay free -/
theorem ordinary_receipts_leave_tail_free (rs : List Rc) (hk : ∀ r ∈ rs, r.kind = .other) :
    ∀ (s : RState), s.receipts.length ≤ Gen.ReceiptsCtx.maxReceipts - 2 →
      (rs.foldl (fun s r => (push s r).1) s).receipts.length ≤ Gen.ReceiptsCtx.maxReceipts - 2 := by
  induction rs with
  | nil => intro s h; exact h
  | cons r rest ih =>
    intro s h
    simp only [List.foldl_cons]
    apply ih (fun x hx => hk x (List.mem_cons_of_mem _ hx))
    rw [push_closed]
    have hr := hk r List.mem_cons_self
    have hm : Gen.ReceiptsCtx.maxReceipts = 65535 := rfl
    split
    · exact h
    · split
      · exact h
      · rename_i h1 h2
        simp only [List.length_append, List.length_singleton]
        simp only [hr, ne_eq, reduceCtorEq, not_false_eq_true, and_true, not_or] at h2
        omega

open FuelVerif.RCtx in
/-- **Appending the panic receipt, then the script-result receipt, cannot fail** after any run prefix of ordinary
receipts started from a cleared context -/
theorem panic_then_script_result_fit (rs : List Rc) (hk : ∀ r ∈ rs, r.kind = .other) (p sr : Rc)
    (hp : p.kind = .panic) (hsr : sr.kind = .scriptResult) :
    let s := rs.foldl (fun s r => (push s r).1) {}
    (push s p).2 = none ∧ (push (push s p).1 sr).2 = none ∧ (push s sr).2 = none := by
  intro s
  have hl : s.receipts.length ≤ Gen.ReceiptsCtx.maxReceipts - 2 :=
    ordinary_receipts_leave_tail_free rs hk {} (by simp [Gen.ReceiptsCtx.maxReceipts])
  have hm : Gen.ReceiptsCtx.maxReceipts = 65535 := rfl
  refine ⟨?_, ?_, ?_⟩
  · rw [push_closed]
    rw [if_neg (by omega), if_neg (by simp [hp]; omega)]
  · rw [push_closed s p, if_neg (by omega), if_neg (by simp [hp]; omega), push_closed]
    simp only [List.length_append, List.length_singleton]
    rw [if_neg (by omega), if_neg (by simp [hsr])]
  · rw [push_closed, if_neg (by omega), if_neg (by simp [hsr])]

/-! ### non-vacuity: a machine that burns one gas per instruction in an endless self-jump

The state space is the set of register pairs with `$cgas ≤ $ggas` (the invariant C26 proves), so the laws are
satisfiable: `spinLaws`. -/

def GasPair := { p : Nat × Nat // p.1 ≤ p.2 }

def spin : Sem GasPair where
  fetch := fun _ => .ok 0
  cgas := fun s => s.1.1
  ggas := fun s => s.1.2
  setGas := fun s g => if h : g.1 ≤ g.2 then ⟨g, h⟩ else s
  cost := fun _ _ => 1
  body := fun _ s => (s, .ok .proceed)
  loc := fun _ => (none, 0)
  inCall := fun _ => false
  appendPanicReceipt := fun _ s => s
  scriptEmpty := false
  retOne := fun s => (s, none)
  finish := fun _ _ s => (s, none)

/-- the laws hold for `spin`: `GasLaws` is satisfiable, the theorems above are not vacuous -/
theorem spinLaws : GasLaws spin where
  get_set := fun s g h => by simp [spin, h]
  body_mono := fun _ _ => Nat.le_refl _
  receipt_gas := fun _ _ => rfl
  inv := fun s => s.2

/-- `ji 0` with 5 gas: five instructions execute, the sixth runs out of gas — the loop is left as a VM panic -/
example : (plainLoop spin.machine 6 ⟨(5, 5), Nat.le_refl 5⟩).map (fun x => (x.1.1, x.2.2.length)) = some ((0, 0), 6) := by decide
example : (plainLoop spin.machine 5 ⟨(5, 5), Nat.le_refl 5⟩).isNone = true := by decide

/-- `c29_model` applies to it: the run from `(5, 5)` ends within 6 iterations, without a fatal error other than storage -/
example : ∃ s' r tr, plainLoop spin.machine 6 ⟨(5, 5), Nat.le_refl 5⟩ = some (s', r, tr) ∧ tr.length ≤ 6 ∧
    spin.ggas s' ≤ 5 ∧ (∀ e, r = .fatal e → e = .storage) :=
  c29_model GasPair spin spinLaws (fun _ _ => Nat.le_refl 1) (fun _ _ _ h => by simp [spin] at h) ⟨(5, 5), Nat.le_refl 5⟩

end FuelVerif.Run
