/-
C27 (continued) — the ledger equations for a CHECKED transaction.

`Props/C27.lean` states `finalize_equation_success/_revert` under the hypothesis `InputsOk` (what
`initial_free_balances` establishes). Here that hypothesis is discharged from C19: for every transaction that
`Validity.check` (= `IntoChecked::into_checked_basic`) accepts, the balances it records and the runtime balances
`init_script` derives from them (`Ledger.runtimeFree` = `RuntimeBalances::try_from(InitialBalances)`) satisfy
`InputsOk`, with
  inputs  = Σ spendable (coin + message-coin) input amounts of the asset   (`Validity.sumIn`)
  retry   = Σ message-data input amounts                                   (`Validity.sumRetry`)
  coinOut = Σ coin outputs of the asset                                    (`Validity.coinOut`)
  maxFee  = the fee limit policy.
So the equations become statements about the transaction's own inputs and outputs. What still enters as a
parameter is the refund: `refund ≤ fee limit` is C18's `refund_le_feeLimit` whenever the refund is the value
`refund_fee` returns (`refund_bounded`), for any used gas.
-/
import FuelVerif.Props.C27
import FuelVerif.Props.C19
import FuelVerif.Props.C18
namespace FuelVerif.Ledger
open FuelVerif.Validity FuelVerif.Fee

theorem mget_eq_lookup (m : List (Nat × Nat)) (a : Nat) : mget m a = m.lookup a := by
  induction m with
  | nil => rfl
  | cons e rest ih =>
    obtain ⟨k, v⟩ := e
    simp only [mget, List.lookup]
    by_cases h : k = a
    · subst h; simp
    · have : (a == k) = false := by simp; omega
      simp [h, this, ih]

/-- the ledger `init_script` builds from a checked transaction: nothing moved yet, the base asset of the consensus
parameters, free balances (and their copy in VM memory, `to_vm`) = `RuntimeBalances::try_from` of the recorded balances -/
structure StartsFrom (p : Params) (c : Checked) (s : Ledger) : Prop where
  initial : Initial s
  base : s.base = p.baseAsset
  free : runtimeFree p.baseAsset c.balances.nonRetryable c.balances.retryable = some s.free
  mem : s.mem = s.free

/-- `RuntimeBalances::try_from` fails (BalanceOverflow, the VM does not start) exactly when the base asset's recorded
balance plus the message-data amount does not fit a word; otherwise every asset keeps its recorded balance and the
base asset gets the message-data amount on top -/
theorem runtimeFree_spec (base : Nat) (m : List (Nat × Nat)) (retry : Nat) :
    (runtimeFree base m retry = none ↔ (mget m base).getD 0 + retry > wordMax) ∧
    (∀ f, runtimeFree base m retry = some f →
      ∀ a, (f a).getD 0 = (mget m a).getD 0 + (if a = base then retry else 0)) := by
  unfold runtimeFree checkedAdd
  rw [← mget_eq_lookup]
  constructor
  · split <;> rename_i h
    · split at h
      · simp; omega
      · cases h
    · split at h
      · cases h
      · simp; omega
  · intro f hf a
    split at hf
    · cases hf
    · rename_i v hv
      cases hf
      split at hv
      · cases hv
      · cases hv
        by_cases ha : a = base
        · subst ha; simp
        · simp [ha, mget_eq_lookup]

/-- **`InputsOk` holds for every checked transaction** (C19 `check_balances` + `RuntimeBalances::try_from`) -/
theorem inputs_ok_of_check {p : Params} {h : Nat} {tx : Tx} {c : Checked} {s : Ledger}
    (hc : check p h tx = .ok c) (hs : StartsFrom p c s) :
    InputsOk s (sumIn p.baseAsset tx.inputs) (fun a => (mget c.balances.nonRetryable a).getD 0) (coinOut tx.outputs)
      (tx.policies.maxFee.getD 0) (sumRetry tx.inputs) := by
  obtain ⟨hbal, _, hretry, _, _⟩ := check_balances hc
  constructor
  · intro a
    have := hbal a
    unfold feeOf at this
    rw [hs.base]
    by_cases ha : a = p.baseAsset
    · simp only [ha, if_true] at this ⊢; omega
    · simp only [ha, if_false] at this ⊢; omega
  · intro a
    have := (runtimeFree_spec p.baseAsset c.balances.nonRetryable c.balances.retryable).2 s.free hs.free a
    rw [this, hs.base, hretry]

/-- **C18**: whatever gas was used, the refund `refund_fee` computes is at most the fee limit -/
theorem refund_bounded {p : Params} (hg : p.gas.Ok) (hf : p.fee.gasPriceFactor ≠ 0) (tx : Tx) (used price refund : Nat)
    (hp : price ≤ u64Max) (ht : tx.policies.tip.getD 0 ≤ u64Max)
    (hr : refundFee p.gas p.fee (feeView tx) used price = .ok (some refund)) :
    refund ≤ tx.policies.maxFee.getD 0 := by
  obtain ⟨o, ho, hle⟩ := refund_le_feeLimit hg hf (feeView tx) used hp (by simpa [feeView] using ht)
  rw [hr] at ho
  cases ho
  simpa [feeView] using hle refund rfl

/-- **the property's per-asset equation for a successfully executed, checked script** — no free hypothesis about the
balances: for every asset, the transaction's spendable inputs (plus its message-data inputs for the base asset) plus
the contracts' prior balances plus minted = coin outputs + change-or-leftover (final free balance, plus the refund for
the base asset) + variable outputs + the contracts' final balances + burned + (base asset) the fee charged
`fee limit − refund` + outgoing messages. -/
theorem checked_script_conserves_success {p : Params} {h : Nat} {tx : Tx} {c : Checked} {s t : Ledger}
    (hc : check p h tx = .ok c) (hs : StartsFrom p c s) (ops : List Op) (hrun : runOps s ops = .ok t)
    (refund : Nat) (hr : refund ≤ tx.policies.maxFee.getD 0) (a : Nat) :
    sumIn p.baseAsset tx.inputs a + (if a = p.baseAsset then sumRetry tx.inputs else 0) + csum s.cids s.bal a + t.minted a
      = coinOut tx.outputs a + ((t.free a).getD 0 + (if a = p.baseAsset then refund else 0)) + varSum (finalVars t false) a
        + csum t.cids t.bal a + t.burned a
        + (if a = p.baseAsset then (tx.policies.maxFee.getD 0 - refund) + t.msgOut else 0) := by
  have := finalize_equation_success ops s t _ _ _ _ _ refund hs.initial (inputs_ok_of_check hc hs) hr hrun a
  rw [hs.base] at this
  exact this

/-- **reverted / panicked, checked script**: variable outputs zero; per asset the spendable inputs (message-data inputs
are not spent) = coin outputs + change-or-leftover (the recorded initial balance, plus the refund for the base asset)
+ (base asset) the fee charged; contract balances are the prior ones. -/
theorem checked_script_conserves_revert {p : Params} {h : Nat} {tx : Tx} {c : Checked} {s : Ledger}
    (hc : check p h tx = .ok c) (hs : StartsFrom p c s) (t : Ledger)
    (refund : Nat) (hr : refund ≤ tx.policies.maxFee.getD 0) (a : Nat) :
    varSum (finalVars t true) a = 0 ∧
    sumIn p.baseAsset tx.inputs a + csum s.cids s.bal a
      = coinOut tx.outputs a + ((mget c.balances.nonRetryable a).getD 0 + (if a = p.baseAsset then refund else 0))
        + varSum (finalVars t true) a + csum s.cids s.bal a
        + (if a = p.baseAsset then tx.policies.maxFee.getD 0 - refund else 0) := by
  have := finalize_equation_revert s t _ _ _ _ _ refund (inputs_ok_of_check hc hs) hr a
  rw [hs.base] at this
  exact this

/-- the VM-memory balance table equals the internal free balances throughout the execution of a checked script -/
theorem checked_script_mem_mirror {p : Params} {c : Checked} {s t : Ledger} (hs : StartsFrom p c s)
    (ops : List Op) (hrun : runOps s ops = .ok t) : t.mem = t.free :=
  mem_balance_mirror ops s t ⟨hs.initial.nodup, by rw [hs.initial.ctx0]; intro c hc; cases hc⟩ hs.mem hrun

/-! ### non-vacuity: C19's example transaction, executed -/

/-- the ledger `init_script` builds for C19's `exTx` under the standard parameters (one input contract, id 400) -/
def exStart : Ledger :=
  { base := 0, cids := [400], code := [400], free := fun a => if a = 0 then some 620 else [(0, 550), (9, 0)].lookup a,
    mem := fun a => if a = 0 then some 620 else [(0, 550), (9, 0)].lookup a,
    bal := fun c a => if c = 400 ∧ a = 0 then some 5 else none, varOut := [(0, 0)], minted := fun _ => 0, burned := fun _ => 0,
    msgOut := 0, ctx := [] }

theorem exStart_startsFrom :
    StartsFrom exParams { balances := { nonRetryable := [(0, 550), (9, 0)], retryable := 70 }, minGas := 10873, maxGas := 24585 } exStart := by
  refine ⟨⟨?_, fun _ => rfl, fun _ => rfl, rfl, rfl, by decide⟩, rfl, ?_, rfl⟩
  · intro a; simp [exStart, varSum]
  · simp [runtimeFree, checkedAdd, exStart, exParams, wordMax]
    rfl

/-- the hypotheses of `checked_script_conserves_success` are met by a concrete checked transaction and a concrete
run (TR 100 of the base asset to contract 400, TRO 20 to a variable output, SMO 7), and its conclusion for the base
asset reads 1050 + 70 + 5 + 0 = 200 + (493 + 10) + 20 + 105 + 0 + (290 + 7) -/
example : ∃ t, runOps exStart [.tr 400 100 0, .tro 1 0 20 0, .smo 7] = .ok t ∧
    sumIn exParams.baseAsset exTx.inputs 0 = 1050 ∧ sumRetry exTx.inputs = 70 ∧ (t.free 0).getD 0 = 493 ∧
    csum t.cids t.bal 0 = 105 ∧ t.msgOut = 7 ∧ varSum (finalVars t false) 0 = 20 := by
  refine ⟨_, rfl, ?_⟩
  decide

/-- … and the theorem applies to them: all hypotheses are discharged by closed terms (C19's accepted example, the
start state above, any run, a refund of 10 ≤ 300) -/
example (t : Ledger) (hrun : runOps exStart [.tr 400 100 0, .tro 1 0 20 0, .smo 7] = .ok t) (a : Nat) :=
  checked_script_conserves_success standard_params_accept_example exStart_startsFrom _ hrun 10 (by decide) a

end FuelVerif.Ledger
