/-
C18 — Fee and refund arithmetic is monotone and bounded by the fee limit.

  "For every transaction, gas price and fee parameters with a non-zero price factor, minimum gas never
   exceeds maximum gas and minimum fee never exceeds maximum fee; both fees equal the ceiling of gas times
   price divided by the factor plus the tip. The refund for a used-gas amount equals the fee limit minus
   (ceil((minimum gas + used gas) x price / factor) + tip), is non-increasing in used gas, and never
   exceeds the fee limit; none of these computations panic."

The theorems are about `FuelVerif.Fee.{minGas,maxGas,minFee,maxFee,refundFee,checkedFromTx,intoReady}`
(Model/Fee.lean, transcribed from fuel-tx/src/transaction/fee.rs and the per-kind `Chargeable` impls), for
ALL fee summaries `v : TxView`, gas-cost tables `gc`, fee parameters `fp`, prices and used-gas values.
Hypotheses (all of them are the statement's own quantifier, none is there to make a proof go through):
  * `gc.Ok`     — no `LightOperation` read by the fee code has `units_per_gas = 0`
                  (the Rust `expect("units_per_gas cannot be zero")`; `panic_guards_are_exact` shows the guard is exact)
  * `fp.gasPriceFactor ≠ 0`  — "non-zero price factor" (`div_ceil` by zero panics; exact as well)
  * `p ≤ u64Max`, `tip ≤ u64Max` — the gas price and the tip are `u64`.
`Gen.defaultGasCosts`/`Gen.defaultFeeParams` (regenerated from the Rust sources on every run) are proved to
satisfy the guards (`default_parameters_never_panic`).

One clause of the statement is FALSE on the current code when read with exact integers: the refund uses
`min_gas.saturating_add(used_gas)`, so for `min_gas + used_gas > u64::MAX` the refund is LARGER than
`fee_limit − (⌈(min_gas + used_gas)·price/factor⌉ + tip)` (`refund_exact_formula_fails_when_saturated`,
replayed on the real code by the harness: known finding `refund-total-gas-saturates`). What holds for all
inputs is the formula with the saturated sum (`refund_formula`) and the exact formula whenever
`min_gas + used_gas ≤ u64::MAX` (`refund_formula_exact`).
-/
import FuelVerif.Lemmas.Fee
import FuelVerif.Gen.ConsensusDefaults
namespace FuelVerif.Fee

/-- the mathematical ceiling `⌈t / f⌉` used in the statements below -/
def ceilDiv (t f : Nat) : Nat := (t + f - 1) / f

/-- `ceilDiv t f` really is the ceiling of the rational `t / f`: the least `c` with `t ≤ c · f` -/
theorem ceilDiv_is_ceiling {t f : Nat} (hf : f ≠ 0) :
    t ≤ ceilDiv t f * f ∧ ∀ c, t ≤ c * f → ceilDiv t f ≤ c := by
  have hf' := Nat.pos_of_ne_zero hf
  unfold ceilDiv
  rw [← divCeil_eq hf']
  exact ⟨le_divCeil_mul hf', fun c h => divCeil_le_of_le_mul hf' h⟩

example : ceilDiv 10 3 = 4 ∧ ceilDiv 9 3 = 3 ∧ ceilDiv 0 7 = 0 := by decide

/-- the order on refunds: `None` (no refund can be paid) is below every `Some r` -/
def RefundLe : Option Nat → Option Nat → Prop
  | none, _ => True
  | some _, none => False
  | some a, some b => a ≤ b

/-! ## minimum gas never exceeds maximum gas -/

/-- **min gas ≤ max gas**, both computed without panic, both `u64` -/
theorem minGas_le_maxGas {gc : GasCosts} (hgc : gc.Ok) (fp : FeeParams) (v : TxView) :
    ∃ mn mx, minGas gc fp v = .ok mn ∧ maxGas gc fp v = .ok mx ∧ mn ≤ mx ∧ mx ≤ u64Max :=
  ⟨_, _, minGas_ok hgc fp v, maxGas_ok hgc fp v, minGasT_le_maxGasT gc fp v, maxGasT_le gc fp v⟩

/-! ## both fees are ceil(gas · price / factor) + tip, and min fee ≤ max fee -/

/-- **fee formula**: `min_fee`/`max_fee` (u128) are exactly `⌈gas·price/factor⌉ + tip` for the gas that
`min_gas`/`max_gas` return — the u128 product, the `div_ceil` and the saturating add of the tip are exact -/
theorem fee_formula {gc : GasCosts} (hgc : gc.Ok) {fp : FeeParams} (hf : fp.gasPriceFactor ≠ 0) (v : TxView)
    {p : Nat} (hp : p ≤ u64Max) (ht : v.tip.getD 0 ≤ u64Max) :
    ∃ mn mx, minGas gc fp v = .ok mn ∧ maxGas gc fp v = .ok mx ∧
      minFee gc fp v p = .ok (ceilDiv (mn * p) fp.gasPriceFactor + v.tip.getD 0) ∧
      maxFee gc fp v p = .ok (ceilDiv (mx * p) fp.gasPriceFactor + v.tip.getD 0) := by
  refine ⟨_, _, minGas_ok hgc fp v, maxGas_ok hgc fp v, ?_, ?_⟩
  · rw [minFee_ok hgc hf v hp ht, minFeeT, divCeil_eq (Nat.pos_of_ne_zero hf)]; rfl
  · rw [maxFee_ok hgc hf v hp ht, maxFeeT, divCeil_eq (Nat.pos_of_ne_zero hf)]; rfl

/-- **min fee ≤ max fee** -/
theorem minFee_le_maxFee {gc : GasCosts} (hgc : gc.Ok) {fp : FeeParams} (hf : fp.gasPriceFactor ≠ 0) (v : TxView)
    {p : Nat} (hp : p ≤ u64Max) (ht : v.tip.getD 0 ≤ u64Max) :
    ∃ a b, minFee gc fp v p = .ok a ∧ maxFee gc fp v p = .ok b ∧ a ≤ b :=
  ⟨_, _, minFee_ok hgc hf v hp ht, maxFee_ok hgc hf v hp ht, minFeeT_le_maxFeeT gc hf v p⟩

/-- the ceiling division is monotone in the gas (the reason behind `minFee_le_maxFee` and `refund_antitone`) -/
theorem ceilDiv_mono {t t' f : Nat} (h : t ≤ t') : ceilDiv t f ≤ ceilDiv t' f :=
  Nat.div_le_div_right (by omega)

/-! ## refund -/

/-- the fee `refund_fee` treats as used, with the sum of gases SATURATED at `u64::MAX` as the code does -/
def usedFee (mn u p f tip : Nat) : Nat := ceilDiv (satAdd mn u * p) f + tip

/-- **refund formula (as computed)**: `refund_fee` returns `Some r` exactly when the used fee fits `u64` and
does not exceed the fee limit, and then `r = feeLimit − usedFee` -/
theorem refund_formula {gc : GasCosts} (hgc : gc.Ok) {fp : FeeParams} (hf : fp.gasPriceFactor ≠ 0) (v : TxView)
    (u : Nat) {p : Nat} (hp : p ≤ u64Max) (ht : v.tip.getD 0 ≤ u64Max) :
    ∃ mn o, minGas gc fp v = .ok mn ∧ refundFee gc fp v u p = .ok o ∧
      ∀ r, o = some r ↔
        (usedFee mn u p fp.gasPriceFactor (v.tip.getD 0) ≤ u64Max ∧
         usedFee mn u p fp.gasPriceFactor (v.tip.getD 0) ≤ v.maxFee.getD 0 ∧
         r = v.maxFee.getD 0 - usedFee mn u p fp.gasPriceFactor (v.tip.getD 0)) := by
  refine ⟨_, _, minGas_ok hgc fp v, refundFee_ok hgc hf v u hp ht, ?_⟩
  intro r
  have e : usedFee (minGasT gc fp v) u p fp.gasPriceFactor (v.tip.getD 0) = usedFeeT gc fp v u p := by
    unfold usedFee usedFeeT ceilDiv; rw [divCeil_eq (Nat.pos_of_ne_zero hf)]
  rw [e]
  unfold refundT
  by_cases h1 : usedFeeT gc fp v u p ≤ u64Max
  · by_cases h2 : usedFeeT gc fp v u p ≤ v.maxFee.getD 0
    · simp only [h1, h2, if_true, Option.some.injEq, true_and]; exact eq_comm
    · simp [h1, h2]
  · simp [h1]

/-- **refund formula (exact integers)**: whenever `min_gas + used_gas` fits `u64` — always the case for the
`used_gas ≤ max_gas − min_gas` a VM run can report — the refund is the statement's formula
`feeLimit − (⌈(minGas + usedGas)·price/factor⌉ + tip)` -/
theorem refund_formula_exact {gc : GasCosts} (hgc : gc.Ok) {fp : FeeParams} (hf : fp.gasPriceFactor ≠ 0) (v : TxView)
    (u : Nat) {p : Nat} (hp : p ≤ u64Max) (ht : v.tip.getD 0 ≤ u64Max) :
    ∃ mn o, minGas gc fp v = .ok mn ∧ refundFee gc fp v u p = .ok o ∧
      (mn + u ≤ u64Max → ∀ r, o = some r ↔
        (ceilDiv ((mn + u) * p) fp.gasPriceFactor + v.tip.getD 0 ≤ u64Max ∧
         ceilDiv ((mn + u) * p) fp.gasPriceFactor + v.tip.getD 0 ≤ v.maxFee.getD 0 ∧
         r = v.maxFee.getD 0 - (ceilDiv ((mn + u) * p) fp.gasPriceFactor + v.tip.getD 0))) := by
  obtain ⟨mn, o, h1, h2, h3⟩ := refund_formula hgc hf v u hp ht
  refine ⟨mn, o, h1, h2, ?_⟩
  intro hle r
  have := h3 r
  unfold usedFee at this
  rw [satAdd_eq_of_le hle] at this
  exact this

/-- **the refund is non-increasing in used gas** (in the order where `None` is the least refund) -/
theorem refund_antitone {gc : GasCosts} (hgc : gc.Ok) {fp : FeeParams} (hf : fp.gasPriceFactor ≠ 0) (v : TxView)
    {u u' : Nat} (huu : u ≤ u') {p : Nat} (hp : p ≤ u64Max) (ht : v.tip.getD 0 ≤ u64Max) :
    ∃ o o', refundFee gc fp v u p = .ok o ∧ refundFee gc fp v u' p = .ok o' ∧ RefundLe o' o := by
  refine ⟨_, _, refundFee_ok hgc hf v u hp ht, refundFee_ok hgc hf v u' hp ht, ?_⟩
  have hm := usedFeeT_mono gc hf v p huu
  unfold refundT
  by_cases a1 : usedFeeT gc fp v u' p ≤ u64Max
  · by_cases a2 : usedFeeT gc fp v u' p ≤ v.maxFee.getD 0
    · have b1 : usedFeeT gc fp v u p ≤ u64Max := by omega
      have b2 : usedFeeT gc fp v u p ≤ v.maxFee.getD 0 := by omega
      simp only [a1, a2, b1, b2, if_true, RefundLe]
      omega
    · simp [a1, a2, RefundLe]
  · simp [a1, RefundLe]

/-- **the refund never exceeds the fee limit** -/
theorem refund_le_feeLimit {gc : GasCosts} (hgc : gc.Ok) {fp : FeeParams} (hf : fp.gasPriceFactor ≠ 0) (v : TxView)
    (u : Nat) {p : Nat} (hp : p ≤ u64Max) (ht : v.tip.getD 0 ≤ u64Max) :
    ∃ o, refundFee gc fp v u p = .ok o ∧ ∀ r, o = some r → r ≤ v.maxFee.getD 0 := by
  refine ⟨_, refundFee_ok hgc hf v u hp ht, ?_⟩
  intro r
  unfold refundT
  by_cases a1 : usedFeeT gc fp v u p ≤ u64Max
  · by_cases a2 : usedFeeT gc fp v u p ≤ v.maxFee.getD 0
    · simp only [a1, a2, if_true, Option.some.injEq]; omega
    · simp [a1, a2]
  · simp [a1]

/-- the statement's refund clause read with exact integers, kept visible -/
def RefundExactStatement : Prop :=
  ∀ (gc : GasCosts) (fp : FeeParams) (v : TxView) (u p : Nat), gc.Ok → fp.gasPriceFactor ≠ 0 → p ≤ u64Max →
    u ≤ u64Max → v.tip.getD 0 ≤ u64Max → v.maxFee.getD 0 ≤ u64Max →
    ∀ mn r, minGas gc fp v = .ok mn → refundFee gc fp v u p = .ok (some r) →
      r + (ceilDiv ((mn + u) * p) fp.gasPriceFactor + v.tip.getD 0) = v.maxFee.getD 0

/-- a concrete summary on which the exact reading fails (free gas costs except `eck1 = 1`, one signed input,
`used_gas = u64::MAX`, price 1, factor `u64::MAX`, fee limit 10): the code refunds 9, the exact formula gives 8 -/
def saturationWitnessGc : GasCosts :=
  { eck1 := 1, s256 := .heavy 0 0, contractRoot := .heavy 0 0, stateRoot := .heavy 0 0,
    vmInitialization := .heavy 0 0, newStoragePerByte := 0 }
def saturationWitnessTx : TxView :=
  { kind := .script 0, size := 0, inputs := [.signed 0], witnessesDyn := 0, witnessLimit := none,
    tip := none, maxFee := some 10 }

theorem refund_exact_formula_fails_when_saturated : ¬ RefundExactStatement := by
  intro h
  have := h saturationWitnessGc ⟨u64Max, 0⟩ saturationWitnessTx u64Max 1 (by decide) (by decide) (by decide)
    (by decide) (by decide) (by decide) 1 9 (by decide) (by decide)
  revert this
  decide

/-! ## nothing panics, and the guards are exact -/

/-- **none of these computations panic** under the statement's guards -/
theorem no_panic {gc : GasCosts} (hgc : gc.Ok) {fp : FeeParams} (hf : fp.gasPriceFactor ≠ 0) (v : TxView)
    (u : Nat) {p : Nat} (hp : p ≤ u64Max) (ht : v.tip.getD 0 ≤ u64Max) :
    (∃ x, minGas gc fp v = .ok x) ∧ (∃ x, maxGas gc fp v = .ok x) ∧ (∃ x, minFee gc fp v p = .ok x) ∧
    (∃ x, maxFee gc fp v p = .ok x) ∧ (∃ x, refundFee gc fp v u p = .ok x) ∧
    (∃ x, checkedFromTx gc fp v p = .ok x) ∧ (∃ x, intoReady gc fp v p = .ok x) :=
  ⟨⟨_, minGas_ok hgc fp v⟩, ⟨_, maxGas_ok hgc fp v⟩, ⟨_, minFee_ok hgc hf v hp ht⟩, ⟨_, maxFee_ok hgc hf v hp ht⟩,
   ⟨_, refundFee_ok hgc hf v u hp ht⟩, ⟨_, checkedFromTx_ok hgc hf v hp ht⟩, ⟨_, intoReady_ok hgc hf v hp ht⟩⟩

/-- the two guards are exactly the panics of the Rust code: a light cost with `units_per_gas = 0` panics in
`resolve`, a zero factor panics in `gas_to_fee`; and the `checked_mul(..).expect(..)` can never fire -/
theorem panic_guards_are_exact :
    (∀ b u, resolve (.light b 0) u = .error .unitsPerGasZero) ∧
    (∀ g p, g ≤ u64Max → p ≤ u64Max → gasToFee g p 0 = .error .divByZero) ∧
    (∀ g p f, g ≤ u64Max → p ≤ u64Max → gasToFee g p f ≠ .error .mulOverflow) := by
  refine ⟨resolve_light_zero, fun g p hg hp => gasToFee_zero_factor hg hp, ?_⟩
  intro g p f hg hp
  by_cases hf : f = 0
  · subst hf; rw [gasToFee_zero_factor hg hp]; simp
  · rw [gasToFee_ok hg hp hf]; simp

/-! ## `TransactionFee::checked_from_tx` and the `into_ready` verdict -/

/-- `checked_from_tx` returns the four quantities iff the max fee fits `u64`; the `min_fee > max_fee` branch is dead -/
theorem checkedFromTx_spec {gc : GasCosts} (hgc : gc.Ok) {fp : FeeParams} (hf : fp.gasPriceFactor ≠ 0) (v : TxView)
    {p : Nat} (hp : p ≤ u64Max) (ht : v.tip.getD 0 ≤ u64Max) :
    ∃ mn mx a b o, minGas gc fp v = .ok mn ∧ maxGas gc fp v = .ok mx ∧ minFee gc fp v p = .ok a ∧
      maxFee gc fp v p = .ok b ∧ checkedFromTx gc fp v p = .ok o ∧
      o = if b ≤ u64Max then some ⟨a, b, mn, mx⟩ else none :=
  ⟨_, _, _, _, _, minGas_ok hgc fp v, maxGas_ok hgc fp v, minFee_ok hgc hf v hp ht, maxFee_ok hgc hf v hp ht,
    checkedFromTx_ok hgc hf v hp ht, rfl⟩

/-- `into_ready` accepts exactly when the maximum fee fits `u64` and is within the fee limit -/
theorem intoReady_spec {gc : GasCosts} (hgc : gc.Ok) {fp : FeeParams} (hf : fp.gasPriceFactor ≠ 0) (v : TxView)
    {p : Nat} (hp : p ≤ u64Max) (ht : v.tip.getD 0 ≤ u64Max) :
    ∃ b r, maxFee gc fp v p = .ok b ∧ intoReady gc fp v p = .ok r ∧
      (r = .ready ↔ b ≤ u64Max ∧ b ≤ v.maxFee.getD 0) ∧ (r = .balanceOverflow ↔ ¬ b ≤ u64Max) := by
  refine ⟨_, _, maxFee_ok hgc hf v hp ht, intoReady_ok hgc hf v hp ht, ?_, ?_⟩ <;> unfold intoReadyT
  · by_cases a1 : maxFeeT gc fp v p ≤ u64Max
    · by_cases a2 : maxFeeT gc fp v p > v.maxFee.getD 0
      · simp only [a1, a2, if_true, true_and]; constructor
        · intro h; cases h
        · intro h; omega
      · simp only [a1, a2, if_true, if_false, true_and, true_iff]; omega
    · simp [a1]
  · by_cases a1 : maxFeeT gc fp v p ≤ u64Max
    · simp only [a1, if_true, not_true, iff_false]; split <;> simp
    · simp [a1]

/-! ## the default parameters of the repository satisfy the guards (tie to the Rust tables) -/

/-- obligation on the generated tables: every `DependentCost` of `GasCosts::default()` is well formed and the
default price factor is non-zero; re-checked whenever the Rust tables change -/
theorem default_tables_wf :
    Gen.defaultGasCosts.Ok ∧ Gen.defaultFeeParams.gasPriceFactor ≠ 0 ∧
    (∀ e ∈ Gen.defaultDependentCosts, e.2.Ok) ∧
    (Gen.defaultDependentCosts.lookup "s256" = some Gen.defaultGasCosts.s256 ∧
     Gen.defaultDependentCosts.lookup "contract_root" = some Gen.defaultGasCosts.contractRoot ∧
     Gen.defaultDependentCosts.lookup "state_root" = some Gen.defaultGasCosts.stateRoot ∧
     Gen.defaultDependentCosts.lookup "vm_initialization" = some Gen.defaultGasCosts.vmInitialization) := by
  decide

/-- with `ConsensusParameters::default()` no fee computation panics, for any transaction, price and used gas -/
theorem default_parameters_never_panic (v : TxView) (u : Nat) {p : Nat} (hp : p ≤ u64Max) (ht : v.tip.getD 0 ≤ u64Max) :
    (∃ x, minGas Gen.defaultGasCosts Gen.defaultFeeParams v = .ok x) ∧
    (∃ x, maxFee Gen.defaultGasCosts Gen.defaultFeeParams v p = .ok x) ∧
    (∃ x, refundFee Gen.defaultGasCosts Gen.defaultFeeParams v u p = .ok x) ∧
    (∃ x, intoReady Gen.defaultGasCosts Gen.defaultFeeParams v p = .ok x) := by
  have h := no_panic default_tables_wf.1 default_tables_wf.2.1 v u hp ht
  exact ⟨h.1, h.2.2.2.1, h.2.2.2.2.1, h.2.2.2.2.2.2⟩

/-! ## non-vacuity: a concrete non-trivial summary meets the hypotheses and the numbers are as expected -/

def exampleTx : TxView :=
  { kind := .script 1000000, size := 1096,
    inputs := [.signed 0, .predicate 320 5000, .signed 0, .signed 1, .other],
    witnessesDyn := 160, witnessLimit := some 10000, tip := some 7, maxFee := some 100000 }

example : Gen.defaultGasCosts.Ok ∧ Gen.defaultFeeParams.gasPriceFactor ≠ 0 ∧ exampleTx.tip.getD 0 ≤ u64Max := by decide
example : minGas Gen.defaultGasCosts Gen.defaultFeeParams exampleTx = .ok 15688 := by decide
example : maxGas Gen.defaultGasCosts Gen.defaultFeeParams exampleTx = .ok 1055048 := by decide
example : minFee Gen.defaultGasCosts Gen.defaultFeeParams exampleTx 2500000 = .ok 47 := by decide
example : maxFee Gen.defaultGasCosts Gen.defaultFeeParams exampleTx 2500000 = .ok 2645 := by decide
example : refundFee Gen.defaultGasCosts Gen.defaultFeeParams exampleTx 400000 2500000 = .ok (some 98953) := by decide
example : refundFee Gen.defaultGasCosts Gen.defaultFeeParams exampleTx 400400 2500000 = .ok (some 98952) := by decide
example : refundFee Gen.defaultGasCosts Gen.defaultFeeParams exampleTx 900000000000000 2500000 = .ok none := by decide
example : intoReady Gen.defaultGasCosts Gen.defaultFeeParams exampleTx 2500000 = .ok .ready := by decide
example : intoReady Gen.defaultGasCosts Gen.defaultFeeParams exampleTx 250000000000 = .ok .insufficientMaxFee := by decide
example : intoReady Gen.defaultGasCosts ⟨1, 4⟩ exampleTx u64Max = .ok .balanceOverflow := by decide
-- the saturated refund: code answer 9, exact formula 8
example : refundFee saturationWitnessGc ⟨u64Max, 0⟩ saturationWitnessTx u64Max 1 = .ok (some 9) := by decide
example : 10 - (ceilDiv ((1 + u64Max) * 1) u64Max + 0) = 8 := by decide
-- the panics outside the guards
example : minGas { saturationWitnessGc with s256 := .light 0 0 } ⟨1, 1⟩ saturationWitnessTx = .error .unitsPerGasZero := by decide
example : minFee saturationWitnessGc ⟨0, 1⟩ saturationWitnessTx 1 = .error .divByZero := by decide

end FuelVerif.Fee
