/-
C02 — Decoding arbitrary bytes never panics and reaches a fixed point.

  "Decoding any byte string as a transaction, input, output or receipt either fails with an error or
   returns a value; it never panics. When it returns a value, that value's encoded length equals the
   number of bytes the decoder consumed, and encoding then decoding it again yields the same value."

The model's decoders (`decode`, `TxDesc.txDecode`) are total Lean functions into `Except Err _`: for the
model "either fails with an error or returns a value" holds by construction (the only model-internal
error, `Err.shape`, is shown unreachable by `decoded_is_value`: a successful static phase always hands the
dynamic phase a value of the right shape). What the model cannot exhibit — Rust panics (`expect`, slice
indexing, the `unsafe` transmutes of canonical.rs) and allocation failure (`Vec::with_capacity` of up to
`VEC_DECODE_LIMIT` elements before the first element is read, DESIGN §6 F10) — is covered only by the
`catch_unwind` sampling of harness stream `c02`, and is stated as such in props/C02.json.
-/
import FuelVerif.Lemmas.Canonical
import FuelVerif.Props.C01
namespace FuelVerif.C02
open FuelVerif FuelVerif.Canonical FuelVerif.Canonical.TxDesc

/-- **consumed = size of the returned value**, for every byte string: the buffer splits into the bytes
consumed and the rest, and the consumed part is as long as the value reports -/
theorem decode_consumes_size (env : Env) (L : EnvLaws env) (d : Desc) (hd : d.wf = true) {bs rest : Bytes} {v : Val}
    (h : decode env d bs = .ok (v, rest)) :
    ∃ used, bs = used ++ rest ∧ used.length = size env d v := by
  obtain ⟨u, h1, h2, _, _⟩ := decode_sound env L d hd h
  exact ⟨u, h1, h2⟩

/-- what the decoder returns is a value of the type (all vectors within the limit, integers in range),
with the skipped fields at their defaults; in particular its encoding has the reported, word-aligned size -/
theorem decoded_is_value (env : Env) (L : EnvLaws env) (d : Desc) (hd : d.wf = true) {bs rest : Bytes} {v : Val}
    (h : decode env d bs = .ok (v, rest)) :
    wt env d v = true ∧ erase env d v = v ∧ (encode env d v).length = size env d v ∧ 8 ∣ size env d v := by
  obtain ⟨_, _, _, hw, he⟩ := decode_sound env L d hd h
  obtain ⟨a, b⟩ := size_aligned env L d hd v hw
  exact ⟨hw, he, enc_length env L d hd v hw, Nat.dvd_add a b⟩

/-- **fixed point**: encoding the decoded value and decoding again yields the same value and consumes
the whole encoding (the first decode may have skipped non-zero padding; the second sees canonical bytes) -/
theorem decode_fixed_point (env : Env) (L : EnvLaws env) (d : Desc) (hd : d.wf = true) (hn : d.nodup = true)
    {bs rest : Bytes} {v : Val} (h : decode env d bs = .ok (v, rest)) :
    decode env d (encode env d v) = .ok (v, []) := dec_fixpoint env L d hd hn h

/-- the full statement for the named protocol types -/
def ProtocolDecodeStatement : Prop :=
  ∀ p ∈ registry, ∀ bs v rest, decode env p.2 bs = .ok (v, rest) →
    (∃ used, bs = used ++ rest ∧ used.length = size env p.2 v) ∧
    (encode env p.2 v).length = size env p.2 v ∧
    decode env p.2 (encode env p.2 v) = .ok (v, [])

/-- **C02 for every named protocol type** (transaction structs, inputs, outputs, receipts, …), for all byte strings -/
theorem protocol_decode : ProtocolDecodeStatement := by
  intro p hp bs v rest h
  obtain ⟨hd, hn⟩ := C01.registry_wf hp
  exact ⟨decode_consumes_size env envLaws p.2 hd h, (decoded_is_value env envLaws p.2 hd h).2.2.1, dec_fixpoint env envLaws p.2 hd hn h⟩

/-- **C02 for `Transaction::from_bytes`**, for all byte strings -/
theorem transaction_decode (bs rest : Bytes) (v : Val) (h : txDecode bs = .ok (v, rest)) :
    (∃ used, bs = used ++ rest ∧ used.length = txSize v) ∧ txWt v = true ∧ (txEncode v).length = txSize v ∧
    txDecode (txEncode v) = .ok (v, []) := tx_decode_sound bs rest v h

/-! ### non-vacuity / boundary behaviour, evaluated by the kernel -/

/-- non-zero padding is accepted (skipped, not checked): the decoder consumes 40 bytes, the value
re-encodes to *different* bytes of the same length, and decoding those is the fixed point -/
example : decode env utxoId (zeros 32 ++ [9, 9, 9, 9, 9, 9, 2, 1] ++ [0xaa]) = .ok (Val.ofList [C01.b32, .int 513], [0xaa]) := by decide +kernel
example : decode env utxoId (encode env utxoId (Val.ofList [C01.b32, .int 513])) = .ok (Val.ofList [C01.b32, .int 513], []) := by decide +kernel
/-- errors carry the Rust constructor -/
example : decode env utxoId (zeros 39) = .error .bufferIsTooShort := by decide +kernel
example : decode env output (natBE 8 5 ++ zeros 100) = .error .unknownDiscriminant := by decide +kernel
example : decode env witness (natBE 8 (VEC_DECODE_LIMIT + 1)) = .error .allocationLimit := by decide +kernel
example : decode env witness (natBE 8 VEC_DECODE_LIMIT) = .error .bufferIsTooShort := by decide +kernel
example : decode env script (natBE 8 1 ++ zeros 200) = .error .invalidPrefix := by decide +kernel
example : txDecode (natBE 8 6 ++ zeros 200) = .error .unknownDiscriminant := by decide +kernel
example : txDecode (zeros 7) = .error .bufferIsTooShort := by decide +kernel
example : decode env policies (natBE 8 64) = .error .unknown := by decide +kernel
/-- an input with an undecodable discriminant word, and with an empty buffer: both `UnknownDiscriminant` -/
example : decode env input [] = .error .unknownDiscriminant := by decide +kernel
example : decode env input (natBE 8 3 ++ zeros 300) = .error .unknownDiscriminant := by decide +kernel

end FuelVerif.C02
