/- Base types for the gas model (C26): dependent costs and the kinds of per-opcode charge sites.
   Import-free so that the generated table `Gen/Gas.lean` and the driver can use it. -/
namespace FuelVerif.Gas

/-- `fuel_tx::DependentCost` (consensus_parameters/gas.rs) -/
inductive DepCost
  | light (base unitsPerGas : Nat)   -- `LightOperation { base, units_per_gas }`
  | heavy (base gasPerUnit : Nat)    -- `HeavyOperation { base, gas_per_unit }`
  deriving DecidableEq, Repr, Inhabited

/-- What the first gas-charging statement of `impl Execute for op::X` (opcodes_impl.rs), or of the
    interpreter method it delegates to, looks like. `getter` is the `GasCostsValues` getter called; `unitArg`
    is the position, in the tuple returned by `self.unpack()`, of the operand whose (register or immediate)
    value is the unit count. -/
inductive ChargeKind
  | fixed (getter : String)                    -- `gas_charge(gas_costs().g())`
  | fixedOpt (getter : String)                 -- `gas_charge(gas_costs().g().map_err(PanicReason::from)?)`
  | dep (getter : String) (unitArg : Nat)      -- `dependent_gas_charge(gas_costs().g(), units)`
  | depOpt (getter : String) (unitArg : Nat)   -- same, cost getter returns `Result<_, GasCostNotDefined>`
  | baseThenDep (getter : String)              -- `gas_charge(c.base())` … `dependent_gas_charge_without_base(c, size)`
  | baseThenDepOpt (getter : String)           -- same with an optional getter (BSIZ, BLDD)
  | none                                      -- no charge made by the VM itself (ECAL)
  deriving DecidableEq, Repr, Inhabited

/-- one arm `GasCostsValues::Vk(vk) => …` of a getter of `impl GasCostsValues` (fuel-tx gas.rs) -/
inductive GetterArm
  | field (f : String)    -- `vk.f` / `Ok(vk.f)`
  | heavy0 (f : String)   -- `DependentCost::HeavyOperation { base: vk.f, gas_per_unit: 0 }` (a `Word` field of an old version)
  | undef                 -- `Err(GasCostNotDefined)`
  deriving DecidableEq, Repr, Inhabited

/-- byte length of the value a storage opcode writes to a slot -/
inductive SLen
  | const (n : Nat)                  -- a `Bytes32` (SWW, SWWQ)
  | arg (i : Nat)                    -- operand `i` (SWRD, SWRI)
  | update (offArg lenArg : Nat)     -- storage.rs `storage_update_from_memory`: `max(old_len, offset + write_len)`,
                                     -- `offset = u64::MAX` meaning "append"; `offset > old_len` panics
  deriving DecidableEq, Repr, Inhabited

/-- micro-operations of storage.rs in the order an opcode performs them on one slot -/
inductive SStep
  | read                  -- `storage_read_slot`: one charge, hot or cold
  | write (len : SLen)    -- `storage_write_slot`: uncharged length lookup, `storage_write` charge, new-bytes charge
  | clear (rangeArg : Nat)-- `storage_clear_slot_range(key, operand rangeArg)`: one charge
  deriving DecidableEq, Repr, Inhabited

/-- shape of a storage opcode's `execute` after its `noop()` charge -/
structure StorageOp where
  keyArg : Nat                 -- operand holding the pointer to the (first) slot key
  rangeArg : Option Nat        -- `some i`: `for key in key_range(key, operand i)` around `perSlot`
  perSlot : List SStep         -- inside the loop (empty when there is no loop)
  after : List SStep           -- after the loop / the whole body when there is no loop
  deriving DecidableEq, Repr, Inhabited

end FuelVerif.Gas
