/- Base types for the gas model (C26): dependent costs and the kinds of per-opcode charge sites.
   Import-free so that the generated table `Gen/Gas.lean` and the driver can use it. -/
namespace FuelVerif.Gas

/-- `fuel_tx::DependentCost` (consensus_parameters/gas.rs) -/
inductive DepCost
  | light (base unitsPerGas : Nat)   -- `LightOperation { base, units_per_gas }`
  | heavy (base gasPerUnit : Nat)    -- `HeavyOperation { base, gas_per_unit }`
  deriving DecidableEq, Repr, Inhabited

/-- What the first gas-charging statement of `impl Execute for op::X` (opcodes_impl.rs), or of the
    interpreter method it delegates to, looks like. `unitArg` is the position, in the tuple returned by
    `self.unpack()`, of the operand whose (register or immediate) value is the unit count. -/
inductive ChargeKind
  | fixed (field : String)                    -- `gas_charge(gas_costs().f())`
  | fixedOpt (field : String)                 -- `gas_charge(gas_costs().f().map_err(PanicReason::from)?)`
  | dep (field : String) (unitArg : Nat)      -- `dependent_gas_charge(gas_costs().f(), units)`
  | depOpt (field : String) (unitArg : Nat)   -- same, cost getter returns `Result<_, GasCostNotDefined>`
  | baseThenDep (field : String)              -- `gas_charge(c.base())` … `dependent_gas_charge_without_base(c, size)`
  | baseThenDepOpt (field : String)           -- same with an optional getter (BSIZ, BLDD)
  | none                                      -- no charge made by the VM itself (ECAL)
  deriving DecidableEq, Repr, Inhabited

end FuelVerif.Gas
