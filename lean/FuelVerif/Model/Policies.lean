/-
Model of the hand-written canonical codec of `Policies` (fuel-tx/src/transaction/policies.rs,
`impl Serialize for Policies`, `impl Deserialize for Policies`).

Rust value: `Policies { bits: PoliciesBits, values: [Word; POLICIES_NUMBER] }`.
Model value: `Val.pair (.int bits) (Val.ofList [.int v₀, …, .int v₅])`.

The flag table `Gen.Canonical.policyBits` (name, bit position, `PolicyType::index`) is regenerated from
the `bitflags!` block and `PolicyType::index`. The model is written for a table whose i-th declared flag
is bit i with value index i (`tableContiguous`, proved by `decide` in Props/C01 for the current table):
 * `PoliciesBits::all().iter()` yields the declared flags in declaration order, so
   `values.iter().zip(all().iter())` pairs `values[i]` with the i-th declared flag;
 * `PoliciesBits::from_bits(b)` is `Some` iff `b` has no bit outside the declared flags, i.e. `b < 2^N`.
-/
import FuelVerif.Model.Canonical
namespace FuelVerif.Canonical.Policies
open FuelVerif FuelVerif.Canonical

/-- `POLICIES_NUMBER` = number of declared flags -/
def N : Nat := Gen.Canonical.policyBits.length

/-- the table property the model relies on: i-th declared flag is `1 << i`, and its value index is `i` -/
def tableContiguous : Bool :=
  Gen.Canonical.policyBits.map (fun r => r.2.1) == List.range N &&
  Gen.Canonical.policyBits.map (fun r => r.2.2) == List.range N

/-- value index of a policy by name (`PolicyType::X.index()`), `N` if absent -/
def indexOf (name : String) : Nat :=
  match Gen.Canonical.policyBits.find? (fun r => r.1 == name) with
  | some r => r.2.2
  | none => N

def maturityIdx : Nat := indexOf "Maturity"
def expirationIdx : Nat := indexOf "Expiration"

/-- `self.bits.contains(flag i)` -/
def hasBit (bits i : Nat) : Bool := bits / 2 ^ i % 2 = 1

/-- `u32::count_ones` -/
def countOnes (bits : Nat) : Nat := (List.range 32).countP (hasBit bits)

def U32_MAX : Nat := 2 ^ 32 - 1

/-- `size_static`: `self.bits.bits().size_static()` -/
def sizeS (_ : Val) : Nat := alignedSize 4

/-- `size_dynamic`: `count_ones() * Word::MIN.size()` -/
def sizeD : Val → Nat
  | .pair (.int bits) _ => countOnes bits * alignedSize 8
  | _ => 0

/-- `encode_static`: `self.bits.bits().encode_static(buffer)` (a u32) -/
def encS : Val → Bytes
  | .pair (.int bits) _ => encUint 4 bits
  | _ => []

/-- the loop of `encode_dynamic` from flag `i` on: `if self.bits.contains(bit) { value.encode(buffer)? }` -/
def encValues (bits : Nat) : Nat → List Val → Bytes
  | i, .int v :: vs => (if hasBit bits i then encU64 v else []) ++ encValues bits (i + 1) vs
  | _, _ => []

/-- `encode_dynamic`: values zipped with the declared flags (the zip stops after `N` flags) -/
def encD : Val → Bytes
  | .pair (.int bits) vs => encValues bits 0 (vs.elems.take N)
  | _ => []

/-- `decode_static`: `u32::decode`, `PoliciesBits::from_bits(bits).ok_or(Unknown)`, values default -/
def decS (bs : Bytes) : R (Val × Bytes) :=
  match decUint 4 bs with
  | .error e => .error e
  | .ok (bits, r) =>
    if bits < 2 ^ N then .ok (.pair (.int bits) (Val.ofList (List.replicate N (.int 0))), r)
    else .error .unknown

/-- the loop of `decode_dynamic` over the flags `i, i+1, …` (`n` flags left):
`if self.bits.contains(bit) { self.values[index] = Word::decode(buffer)? }` (unset ones keep the default 0) -/
def decValues (bits : Nat) : Nat → Nat → Bytes → R (List Val × Bytes)
  | _, 0, bs => .ok ([], bs)
  | i, n + 1, bs =>
    if hasBit bits i then
      match decU64 bs with
      | .error e => .error e
      | .ok (v, r) =>
        match decValues bits (i + 1) n r with
        | .error e => .error e
        | .ok (vs, r') => .ok (.int v :: vs, r')
    else
      match decValues bits (i + 1) n bs with
      | .error e => .error e
      | .ok (vs, r') => .ok (.int 0 :: vs, r')

/-- `self.get(policy)` on a value list: `Some(values[idx])` iff the bit is set -/
def get (bits : Nat) (vs : List Val) (idx : Nat) : Option Nat :=
  if hasBit bits idx then
    match vs[idx]? with
    | some (.int v) => some v
    | _ => none
  else none

/-- the two checks at the end of `decode_dynamic` -/
def limitsOk (bits : Nat) (vs : List Val) : Bool :=
  (match get bits vs maturityIdx with | some m => decide (m ≤ U32_MAX) | none => true) &&
  (match get bits vs expirationIdx with | some m => decide (m ≤ U32_MAX) | none => true)

/-- `decode_dynamic` -/
def decD : Val → Bytes → R (Val × Bytes)
  | .pair (.int bits) _, bs =>
    match decValues bits 0 N bs with
    | .error e => .error e
    | .ok (vs, r) =>
      if limitsOk bits vs then .ok (.pair (.int bits) (Val.ofList vs), r) else .error .unknown
  | _, _ => .error .shape

/-- all `N` values are words, and those of unset flags are 0 (what `Policies::set` maintains and
`is_valid` checks with `values_for_bitmask`) -/
def valuesOk (bits : Nat) : Nat → List Val → Bool
  | _, [] => true
  | i, .int v :: vs => decide (v < 2 ^ 64) && (hasBit bits i || v == 0) && valuesOk bits (i + 1) vs
  | _, _ => false

/-- the policy sets the round trip is claimed for: only declared bits, `N` word values, zero where the
bit is unset, maturity and expiration within `u32::MAX` (what the decoder enforces; `Policies::set`
itself accepts larger ones — finding F1) -/
def wt : Val → Bool
  | .pair (.int bits) vs =>
    decide (bits < 2 ^ N) && vs.isList && decide (vs.elems.length = N) && valuesOk bits 0 vs.elems && limitsOk bits vs.elems
  | _ => false

/-- what `decode_static` produces: declared bits only, all values still at their default -/
def pwt : Val → Bool
  | .pair (.int bits) vs => decide (bits < 2 ^ N) && decide (vs = Val.ofList (List.replicate N (.int 0)))
  | _ => false

def partialOf : Val → Val
  | .pair (.int bits) _ => .pair (.int bits) (Val.ofList (List.replicate N (.int 0)))
  | v => v

def codec : Codec where
  encS := encS
  encD := encD
  sizeS := sizeS
  sizeD := sizeD
  decS := decS
  decD := decD
  wt := wt
  pwt := pwt
  partialOf := partialOf

/-- the value of a `Policies` built from bits and the six values -/
def mk (bits : Nat) (values : List Nat) : Val := .pair (.int bits) (Val.ofList (values.map .int))

end FuelVerif.Canonical.Policies
