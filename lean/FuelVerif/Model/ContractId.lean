/-
Executable model of the contract / predicate identifier code (C15), transcribed function by function
from the Rust sources as they are today:

  fuel-crypto/src/hasher.rs                       Hasher (input / digest)
  fuel-tx/src/contract.rs                         chunks, leafToPush, rootFromCode, initialStateRoot, contractId
  fuel-merkle/src/sparse/merkle_tree.rs           merkleTreeKeyNew (`MerkleTreeKey::new`)
  fuel-tx/src/transaction/types/input.rs          predicateOwner, isPredicateOwnerValid
  fuel-tx/src/transaction/validity.rs             checkPredicateOwnerTx   (the guard of `Input::check_signature`)
  fuel-tx/src/transaction/types/create.rs         Create.bytecode, CreateMetadata.compute, Create.precompute
  fuel-vm/src/storage/interpreter.rs              Storage (contracts / state), deployContractWithId
  fuel-vm/src/interpreter/executors/main.rs       deployInner, checkPredicateOwnerVm (the guard of `check_predicate`)
  fuel-vm/src/interpreter/blockchain.rs           codeRoot (`CodeRootCtx::code_root`, the CROO instruction)

It composes the models that already exist: the streaming binary Merkle calculator
(`Model/BinaryMerkle.lean`: `calcPush`, `calcRoot`) and the sparse `root_from_set`
(`Model/SparseStore.lean`: `rootFromSet`). The constants (`LEAF_SIZE`, `MULTIPLE`, `PADDING_BYTE`,
`ContractId::SEED`), the order of the `hasher.input` calls and the metadata fields `deploy_inner` reads are
regenerated from the sources into `Gen/Contract.lean` by `tools/gen/contract.py`.

Conventions: `H : Bytes → Bytes` is SHA-256 as a parameter; 32-byte values (`Bytes32`, `Salt`,
`ContractId`, `Address`) are byte lists; every Rust panic site (`expect`, slice indexing) is an explicit
`Err.panic`. The chunk size / multiple / padding byte are parameters of the `…With` functions (so that the
theorems are proved for all sizes and then instantiated at the generated constants).
-/
import FuelVerif.Basic.Util
import FuelVerif.Gen.Contract
import FuelVerif.Model.BinaryMerkle
import FuelVerif.Model.SparseStore
namespace FuelVerif.Ids
open FuelVerif

/-- error / panic results of the modelled functions -/
inductive Err
  /-- a Rust panic (`expect`, slice index out of range, `chunks(0)`) -/
  | panic (site : String)
  /-- a panic inside the binary Merkle calculator (`expect("Tree too large")`, …) -/
  | merkle (e : BMT.Err)
  /-- an error / panic inside `sparse::in_memory::MerkleTree::root_from_set` -/
  | sparse (e : SmtStore.Err)
  /-- `ValidityError::TransactionCreateBytecodeWitnessIndex` -/
  | TransactionCreateBytecodeWitnessIndex
  /-- `ValidityError::InputPredicateOwner` -/
  | InputPredicateOwner
  /-- `PredicateVerificationFailed::InvalidOwner` -/
  | InvalidOwner
  /-- `PanicReason::ContractIdAlreadyDeployed` -/
  | ContractIdAlreadyDeployed
  /-- `PanicReason::ContractNotInInputs` -/
  | ContractNotInInputs
  /-- `PanicReason::ContractNotFound` -/
  | ContractNotFound
  /-- `ValidityError::TransactionCreateOutputContractCreatedDoesntMatch` -/
  | TransactionCreateOutputContractCreatedDoesntMatch
  /-- `ValidityError::TransactionCreateOutputContractCreatedMultiple` -/
  | TransactionCreateOutputContractCreatedMultiple
  /-- `ValidityError::TransactionOutputDoesntContainContractCreated` -/
  | TransactionOutputDoesntContainContractCreated
  deriving DecidableEq, Repr

def Err.name : Err → String
  | .panic s => "panic-" ++ s
  | .merkle e => "panic-merkle-" ++ e.name
  | .sparse e => "sparse-" ++ e.name
  | .TransactionCreateBytecodeWitnessIndex => "TransactionCreateBytecodeWitnessIndex"
  | .InputPredicateOwner => "InputPredicateOwner"
  | .InvalidOwner => "InvalidOwner"
  | .ContractIdAlreadyDeployed => "ContractIdAlreadyDeployed"
  | .ContractNotInInputs => "ContractNotInInputs"
  | .ContractNotFound => "ContractNotFound"
  | .TransactionCreateOutputContractCreatedDoesntMatch => "TransactionCreateOutputContractCreatedDoesntMatch"
  | .TransactionCreateOutputContractCreatedMultiple => "TransactionCreateOutputContractCreatedMultiple"
  | .TransactionOutputDoesntContainContractCreated => "TransactionOutputDoesntContainContractCreated"

/-! ## fuel-crypto/src/hasher.rs -/

/-- `Hasher(Sha256)`: the bytes fed so far (streaming SHA-256: the digest depends only on their
concatenation) -/
structure Hasher where
  buf : Bytes := []

/-- `Hasher::input` -/
def Hasher.input (h : Hasher) (d : Bytes) : Hasher := ⟨h.buf ++ d⟩
/-- `Hasher::digest` -/
def Hasher.digest (H : Bytes → Bytes) (h : Hasher) : Bytes := H h.buf

/-! ## fuel-tx/src/contract.rs -/

/-- `<[u8]>::chunks(n)` for `n ≥ 1`: `fuel ≥ bs.length` suffices -/
def chunksAux (n : Nat) : Nat → Bytes → List Bytes
  | 0, _ => []
  | fuel + 1, bs => if bs = [] then [] else bs.take n :: chunksAux n fuel (bs.drop n)

/-- `bytes.chunks(chunk_size)`; panics when `chunk_size == 0` -/
def chunks (n : Nat) (bs : Bytes) : Except Err (List Bytes) :=
  if n = 0 then .error (.panic "chunk size must be non-zero") else .ok (chunksAux n bs.length bs)

/-- `usize::next_multiple_of(rhs)` (no overflow possible for `x ≤ LEAF_SIZE`); `rhs = 0` panics -/
def nextMultipleOf (x m : Nat) : Except Err Nat :=
  if m = 0 then .error (.panic "next_multiple_of-zero")
  else if x % m = 0 then .ok x else .ok (x + (m - x % m))

/-- the body of the `for_each` closure of `root_from_code`: the bytes handed to `tree.push`.
`len % MULTIPLE` panics for `MULTIPLE == 0`; `padded_leaf[0..len]` and `padded_leaf[..padding_size]`
panic when the range exceeds `LEAF_SIZE`. -/
def leafToPush (L M : Nat) (pad : UInt8) (leaf : Bytes) : Except Err Bytes :=
  let len := leaf.length
  if len = L then .ok leaf
  else if M = 0 then .error (.panic "rem-by-zero")
  else if len % M = 0 then .ok leaf
  else
    match nextMultipleOf len M with
    | .error e => .error e
    | .ok paddingSize =>
      -- let mut padded_leaf = [PADDING_BYTE; LEAF_SIZE]; padded_leaf[0..len].clone_from_slice(leaf);
      if len > L then .error (.panic "padded_leaf[0..len]")
      else
        let paddedLeaf := leaf ++ List.replicate (L - len) pad
        -- tree.push(padded_leaf[..padding_size].as_ref())
        if paddingSize > L then .error (.panic "padded_leaf[..padding_size]")
        else .ok (paddedLeaf.take paddingSize)

/-- the `for_each` over the chunks (state = the calculator's stack) followed by `tree.root()` -/
def pushChunks (L M : Nat) (pad : UInt8) (H : Bytes → Bytes) : List BMT.Node → List Bytes → Except Err Bytes
  | st, [] =>
    match BMT.calcRoot H st with
    | .error e => .error (.merkle e)
    | .ok r => .ok r
  | st, leaf :: rest =>
    match leafToPush L M pad leaf with
    | .error e => .error e
    | .ok d =>
      match BMT.calcPush H st d with
      | .error e => .error (.merkle e)
      | .ok st' => pushChunks L M pad H st' rest

/-- `Contract::root_from_code` with the three constants as parameters -/
def rootFromCodeWith (L M : Nat) (pad : UInt8) (H : Bytes → Bytes) (code : Bytes) : Except Err Bytes :=
  match chunks L code with
  | .error e => .error e
  | .ok cs => pushChunks L M pad H [] cs

/-- `Contract::root_from_code` (= `Contract::root` of a stored contract) -/
def rootFromCode (H : Bytes → Bytes) (code : Bytes) : Except Err Bytes :=
  rootFromCodeWith Gen.Contract.leafSize Gen.Contract.multiple Gen.Contract.paddingByte H code

/-! ### the specification side: the leaf list of the property statement -/

/-- "the code split into `L`-byte chunks with the final partial chunk padded (with `pad`) to a multiple of
`M` bytes": chunk `i < len / L` is `code[L*i .. L*(i+1)]` as is; if `len % L ≠ 0` the remaining
`len % L` bytes follow, extended by `(M - rem % M) % M` padding bytes. -/
def specLeavesWith (L M : Nat) (pad : UInt8) (code : Bytes) : List Bytes :=
  let q := code.length / L
  let full := (List.range q).map (fun i => (code.drop (L * i)).take L)
  let rem := code.drop (L * q)
  if rem = [] then full else full ++ [rem ++ List.replicate ((M - rem.length % M) % M) pad]

/-- the statement's leaf list: 16 KiB chunks, final partial chunk zero-padded to a multiple of 8 bytes
(literal numbers, NOT the generated constants: `Props/C15.lean` proves the generated ones equal them) -/
def specLeaves (code : Bytes) : List Bytes := specLeavesWith 16384 8 0 code

/-- a `StorageSlot`: `(key, value)`, 32 bytes each -/
abbrev Slot := Bytes × Bytes

/-- `MerkleTreeKey::new(storage_key)`: the SHA-256 of the key -/
def merkleTreeKeyNew (H : Bytes → Bytes) (storageKey : Bytes) : Bytes := H storageKey

/-- `Contract::initial_state_root`: `SparseMerkleTree::root_from_set` of
`(MerkleTreeKey::new(key), value)` in iteration order -/
def initialStateRoot (H : Bytes → Bytes) (slots : List Slot) : Except Err Bytes :=
  match SmtStore.rootFromSet H (slots.map (fun s => (merkleTreeKeyNew H s.1, s.2))) with
  | .error e => .error (.sparse e)
  | .ok r => .ok r

/-- `Contract::default_state_root` -/
def defaultStateRoot (H : Bytes → Bytes) : Except Err Bytes := initialStateRoot H []

/-- the bytes a generated `Part` stands for -/
def partBytes (salt root stateRoot : Bytes) : Gen.Contract.Part → Bytes
  | .seed => Gen.Contract.seed
  | .salt => salt
  | .root => root
  | .stateRoot => stateRoot

/-- `Hasher::default()` followed by the `hasher.input(..)` calls in source order and `hasher.digest()` -/
def hashParts (H : Bytes → Bytes) (parts : List Gen.Contract.Part) (salt root stateRoot : Bytes) : Bytes :=
  (parts.foldl (fun (h : Hasher) p => h.input (partBytes salt root stateRoot p)) {}).digest H

/-- `Contract::id(salt, root, state_root)` -/
def contractId (H : Bytes → Bytes) (salt root stateRoot : Bytes) : Bytes :=
  hashParts H Gen.Contract.idParts salt root stateRoot

/-! ## fuel-tx/src/transaction/types/input.rs, validity.rs -/

/-- `Input::predicate_owner(predicate)` -/
def predicateOwner (H : Bytes → Bytes) (predicate : Bytes) : Except Err Bytes :=
  match rootFromCode H predicate with
  | .error e => .error e
  | .ok root => .ok (hashParts H Gen.Contract.ownerParts [] root [])

/-- `Input::is_predicate_owner_valid(owner, predicate)` -/
def isPredicateOwnerValid (H : Bytes → Bytes) (owner predicate : Bytes) : Except Err Bool :=
  match predicateOwner H predicate with
  | .error e => .error e
  | .ok o => .ok (owner == o)

/-- the predicate arm of `Input::check_signature` (fuel-tx validity):
`if !is_predicate_owner_valid(owner, predicate) => Err(InputPredicateOwner)` -/
def checkPredicateOwnerTx (H : Bytes → Bytes) (owner predicate : Bytes) : Except Err Unit :=
  match isPredicateOwnerValid H owner predicate with
  | .error e => .error e
  | .ok true => .ok ()
  | .ok false => .error .InputPredicateOwner

/-- the owner guard of `Interpreter::check_predicate` (`PredicateAction::Verifying`) -/
def checkPredicateOwnerVm (H : Bytes → Bytes) (owner predicate : Bytes) : Except Err Unit :=
  match isPredicateOwnerValid H owner predicate with
  | .error e => .error e
  | .ok true => .ok ()
  | .ok false => .error .InvalidOwner

/-! ## fuel-tx/src/transaction/types/create.rs -/

/-- `CreateMetadata` -/
structure CreateMetadata where
  contractId : Bytes
  contractRoot : Bytes
  stateRoot : Bytes
  deriving DecidableEq, Repr

/-- the part of a `Create` transaction the identifiers depend on, and its cached metadata -/
structure Create where
  bytecodeWitnessIndex : Nat
  salt : Bytes
  storageSlots : List Slot
  witnesses : List Bytes
  metadata : Option CreateMetadata := none
  deriving Repr

/-- `Create::bytecode` -/
def Create.bytecode (c : Create) : Except Err Bytes :=
  match c.witnesses[c.bytecodeWitnessIndex]? with
  | some w => .ok w
  | none => .error .TransactionCreateBytecodeWitnessIndex

/-- `CreateMetadata::compute(tx)` -/
def CreateMetadata.compute (H : Bytes → Bytes) (tx : Create) : Except Err CreateMetadata :=
  match tx.bytecode with
  | .error e => .error e
  | .ok bytecode =>
    match rootFromCode H bytecode with
    | .error e => .error e
    | .ok contractRoot =>
      match initialStateRoot H tx.storageSlots with
      | .error e => .error e
      | .ok stateRoot =>
        .ok { contractId := Ids.contractId H tx.salt contractRoot stateRoot, contractRoot, stateRoot }

/-- `Cacheable::precompute` for `Create` (the `CommonMetadata` part — transaction id, offsets — is not
modelled): `self.metadata = None; self.metadata = Some(compute(self)?)`. On `Err` the transaction is left
with `metadata = None`. -/
def Create.precompute (H : Bytes → Bytes) (c : Create) : Create × Except Err Unit :=
  let c0 := { c with metadata := none }
  match CreateMetadata.compute H c0 with
  | .error e => (c0, .error e)
  | .ok m => ({ c0 with metadata := some m }, .ok ())

/-! ### the `ContractCreated` clause of `check_unique_rules` (create.rs) -/

/-- an output of a `Create` as far as this clause is concerned: `ContractCreated { contract_id, state_root }`, or
any output the other arms let pass (`Coin`, `Change` of the base asset) -/
inductive Output
  | contractCreated (contractId stateRoot : Bytes)
  | other
  deriving DecidableEq, Repr

/-- the guard `contract_id != &contract_id_calculated || state_root != &state_root_calculated` of the
`DoesntMatch` arm; the connective is regenerated from the source (`Gen.Contract.createGuardIsOr`) -/
def createOutputMismatch (idCalc srCalc cid sr : Bytes) : Bool :=
  if Gen.Contract.createGuardIsOr then (cid != idCalc || sr != srCalc) else (cid != idCalc && sr != srCalc)

/-- what the clause requires of an announced `(contract_id, state_root)` -/
def createOutputOk (m : CreateMetadata) (cid sr : Bytes) : Bool :=
  !createOutputMismatch m.contractId m.stateRoot cid sr

/-- the `try_for_each` over the outputs: `contract_created` flag in, flag out -/
def createOutputsLoop (idCalc srCalc : Bytes) : Bool → List Output → Except Err Bool
  | created, [] => .ok created
  | created, .contractCreated cid sr :: rest =>
    if createOutputMismatch idCalc srCalc cid sr then .error .TransactionCreateOutputContractCreatedDoesntMatch
    else if created then .error .TransactionCreateOutputContractCreatedMultiple
    else createOutputsLoop idCalc srCalc true rest
  | created, .other :: rest => createOutputsLoop idCalc srCalc created rest

/-- the part of `check_unique_rules` about the created contract: `(state_root, contract_id)` from the cached
metadata (recomputed when absent), the output loop, and the final `!contract_created` test -/
def Create.checkOutputs (H : Bytes → Bytes) (c : Create) (outputs : List Output) : Except Err Unit :=
  let calcd : Except Err (Bytes × Bytes) := match c.metadata with
    | some m => .ok (m.stateRoot, m.contractId)
    | none => match CreateMetadata.compute H c with
      | .error e => .error e
      | .ok m => .ok (m.stateRoot, m.contractId)
  match calcd with
  | .error e => .error e
  | .ok (srCalc, idCalc) =>
    match createOutputsLoop idCalc srCalc false outputs with
    | .error e => .error e
    | .ok created => if !created then .error .TransactionOutputDoesntContainContractCreated else .ok ()

/-- `into_checked` as far as the identifiers are concerned: `precompute`, then the clause above -/
def Create.intoChecked (H : Bytes → Bytes) (c : Create) (outputs : List Output) : Except Err Create :=
  match c.precompute H with
  | (_, .error e) => .error e
  | (c', .ok _) =>
    match c'.checkOutputs H outputs with
    | .error e => .error e
    | .ok _ => .ok c'

/-- read a generated metadata field -/
def CreateMetadata.get (m : CreateMetadata) : Gen.Contract.MetaField → Bytes
  | .contractId => m.contractId
  | .contractRoot => m.contractRoot
  | .stateRoot => m.stateRoot

/-! ## fuel-vm/src/storage/interpreter.rs (the two tables `deploy_contract_with_id` writes) -/

/-- `ContractsRawCode` (id ↦ code) and `ContractsState` ((id, key) ↦ value) as association lists,
newest entry first -/
structure Storage where
  contracts : List (Bytes × Bytes) := []
  state : List ((Bytes × Bytes) × Bytes) := []
  deriving Repr

def alGet {α β : Type} [DecidableEq α] (k : α) : List (α × β) → Option β
  | [] => none
  | (k', v) :: rest => if k' = k then some v else alGet k rest

/-- `storage_contract(id)` -/
def Storage.contract (s : Storage) (id : Bytes) : Option Bytes := alGet id s.contracts
/-- `storage_contract_exists(id)` -/
def Storage.contractExists (s : Storage) (id : Bytes) : Bool := (s.contract id).isSome
/-- `contract_state(id, key)` -/
def Storage.stateAt (s : Storage) (id key : Bytes) : Option Bytes := alGet (id, key) s.state

/-- `deploy_contract_with_id(slots, contract, id)`: `storage_contract_insert`, then one
`contract_state_insert` per slot in order -/
def Storage.deployContractWithId (s : Storage) (slots : List Slot) (contract id : Bytes) : Storage :=
  let s1 := { s with contracts := (id, contract) :: s.contracts }
  slots.foldl (fun (st : Storage) sl => { st with state := ((id, sl.1), sl.2) :: st.state }) s1

/-! ## fuel-vm/src/interpreter/executors/main.rs -/

/-- `Interpreter::deploy_inner` up to and including `deploy_contract_with_id` (the fee / output
finalisation that follows is C18's subject). Returns the storage and the id used. -/
def deployInner (H : Bytes → Bytes) (create : Create) (storage : Storage) : Except Err (Storage × Bytes) :=
  let metadata := create.metadata
  match create.bytecode with
  | .error e => .error e
  | .ok contract =>
    let root : Except Err Bytes := match metadata with
      | some m => .ok (m.get Gen.Contract.deployRootField)
      | none => rootFromCode H contract
    match root with
    | .error e => .error e
    | .ok root =>
      let storageRoot : Except Err Bytes := match metadata with
        | some m => .ok (m.get Gen.Contract.deployStateRootField)
        | none => initialStateRoot H create.storageSlots
      match storageRoot with
      | .error e => .error e
      | .ok storageRoot =>
        let id := match metadata with
          | some m => m.get Gen.Contract.deployIdField
          | none => contractId H create.salt root storageRoot
        if storage.contractExists id then .error .ContractIdAlreadyDeployed
        else .ok (storage.deployContractWithId create.storageSlots contract id, id)

/-! ## fuel-vm/src/interpreter/blockchain.rs -/

/-- `CodeRootCtx::code_root` (CROO) after the two memory range checks: the 32 bytes written to
`MEM[$rA, 32]` for the contract id read from `MEM[$rB, 32]`; `check_contract_in_inputs`, then
`contract_size` / `storage_contract` (`ContractNotFound`), then `Contract::root`. -/
def codeRoot (H : Bytes → Bytes) (inputContracts : List Bytes) (storage : Storage) (cid : Bytes) :
    Except Err Bytes :=
  if !inputContracts.contains cid then .error .ContractNotInInputs
  else
    match storage.contract cid with
    | none => .error .ContractNotFound
    | some code => rootFromCode H code

end FuelVerif.Ids
