/-
C04 — the offset functions of fuel-tx, transcribed (fuel-tx/src/transaction/types/chargeable_transaction.rs
`mod field`, metadata.rs `CommonMetadata::compute`, types/{script,create,upload,blob,upgrade,mint}.rs
`mod field`, types/input.rs `predicate_offset` / `predicate_data_offset` / `predicate_len`,
types/input/repr.rs, types/output/repr.rs, fuel-types/src/bytes.rs `padded_len_usize`).

Values are the `Val`s of the canonical-codec model (Model/Canonical.lean, Model/TxDesc.lean): a transaction
is the value of its struct (`ChargeableTransaction<Body, _>` = `[body, policies, inputs, outputs, witnesses,
metadata(skipped)]`), an input is `Val.variant k payload`, `k` its position in `enum Input`, and so on.
Field positions come from the regenerated struct table (`Resolve.fieldIndex`), constants and the
`InputRepr` / `OutputRepr` tables from `Gen/Offsets.lean` (tools/gen/offsets.py); the bodies of the Rust
functions transcribed here are pinned by the same translator (tools/gen/offsets_pins.json).

The cached metadata (`#[canonical(skip)] metadata: Option<ChargeableMetadata<_>>`) is not part of the
value; it is carried next to it (`Tx.metadata`), every offset function consults it first, as in Rust.

Deviations, stated where they occur:
 * `usize::saturating_add` / `saturating_mul` are `+` / `*` on `Nat` (`satAdd`, `satMul`): every theorem is
   under `wt`, which bounds every vector by `VEC_DECODE_LIMIT`; Rust saturates at 2^64 - 1, sizes that no
   buffer can have. `checked_add` / `checked_mul` (which change the *result*: `None`, `Err`) are modelled
   with their overflow branch.
 * projections (`fieldOf`, `bytesOf`) return `unit` / `[]` on values that are not of the struct type;
   theorems are stated for well-typed values only, where they are exact.
-/
import FuelVerif.Model.TxDesc
import FuelVerif.Gen.Offsets
import FuelVerif.Gen.Precompute
namespace FuelVerif.Offsets
open FuelVerif FuelVerif.Canonical FuelVerif.Canonical.Resolve FuelVerif.Canonical.TxDesc
open FuelVerif.Gen.Canonical (inputVariants txVariants)
open FuelVerif.Gen

/-! ### arithmetic -/

def USIZE_MAX : Nat := 2 ^ 64 - 1
/-- `usize::checked_add` -/
def checkedAdd (a b : Nat) : Option Nat := if a + b ≤ USIZE_MAX then some (a + b) else none
/-- `usize::checked_mul` -/
def checkedMul (a b : Nat) : Option Nat := if a * b ≤ USIZE_MAX then some (a * b) else none
/-- `usize::saturating_add`, without the saturation (see header) -/
@[reducible] def satAdd (a b : Nat) : Nat := a + b
/-- `usize::saturating_mul`, without the saturation (see header) -/
@[reducible] def satMul (a b : Nat) : Nat := a * b

/-- `bytes::padded_len_usize` -/
def paddedLenUsize (len : Nat) : Option Nat :=
  let modulo := len % Offsets.WORD_SIZE
  if modulo = 0 then some len
  else
    let padding := Offsets.WORD_SIZE - modulo
    checkedAdd len padding

/-- `bytes::padded_len(bytes).unwrap_or(usize::MAX)` -/
def paddedLen (bs : Bytes) : Nat := (paddedLenUsize bs.length).getD USIZE_MAX

/-- `iter.map(|i| i.size()).reduce(usize::saturating_add).unwrap_or_default()` -/
def sumSizes (sizes : List Nat) : Nat := sizes.foldl satAdd 0

/-! ### projections -/

/-- field `f` of a value of struct `s` (position from the regenerated table) -/
def fieldOf (s f : String) (v : Val) : Val :=
  match fieldIndex s f with
  | some i => (v.field i).getD .unit
  | none => .unit

/-- the bytes inside `Vec<u8>` newtypes (`Bytes`, `ScriptCode`, `PredicateCode`, `Witness`) and `[u8; N]` newtypes -/
def bytesOf : Val → Bytes
  | .bytes b => b
  | .pair a .unit => bytesOf a
  | _ => []

/-- an integer field -/
def intOf : Val → Nat
  | .int n => n
  | .pair a .unit => intOf a
  | _ => 0

/-! ### inputs and outputs -/

/-- `enum Input` variants, in declaration order (obligation `tables_agree`: the names are those of
`Gen.Canonical.inputVariants`) -/
inductive InputKind
  | coinSigned | coinPredicate | contract | messageCoinSigned | messageCoinPredicate | messageDataSigned | messageDataPredicate
  deriving DecidableEq, Repr, Inhabited

def InputKind.all : List InputKind :=
  [.coinSigned, .coinPredicate, .contract, .messageCoinSigned, .messageCoinPredicate, .messageDataSigned, .messageDataPredicate]

def InputKind.name : InputKind → String
  | .coinSigned => "CoinSigned" | .coinPredicate => "CoinPredicate" | .contract => "Contract"
  | .messageCoinSigned => "MessageCoinSigned" | .messageCoinPredicate => "MessageCoinPredicate"
  | .messageDataSigned => "MessageDataSigned" | .messageDataPredicate => "MessageDataPredicate"

/-- `enum InputRepr` -/
inductive InputRepr | coin | contract | message
  deriving DecidableEq, Repr, Inhabited

def InputRepr.name : InputRepr → String
  | .coin => "Coin" | .contract => "Contract" | .message => "Message"

/-- `InputRepr::from_input` (obligation `tables_agree`: equals the regenerated arm table) -/
def InputRepr.fromInput : InputKind → InputRepr
  | .coinSigned | .coinPredicate => .coin
  | .contract => .contract
  | .messageCoinSigned | .messageCoinPredicate | .messageDataSigned | .messageDataPredicate => .message

/-- the struct the payload of the variant derives from (`Coin`, `InputContract`, `Message`) -/
def InputKind.struct (k : InputKind) : String :=
  match InputRepr.fromInput k with
  | .coin => "Coin" | .contract => "InputContract" | .message => "Message"

/-- which variant an input value is -/
def inputKind (i : Val) : Option InputKind := (InputCodec.unVariant i).bind (fun p => InputKind.all[p.1]?)
/-- the variant's struct value -/
def inputPayload (i : Val) : Val := ((InputCodec.unVariant i).map (·.2)).getD .unit

/-- `InputRepr::<method>()` — the regenerated table of input/repr.rs -/
def InputRepr.offset (method : String) (r : InputRepr) : Option Nat :=
  match Offsets.inputReprOffsets.lookup method with
  | some row => (row.lookup r.name).join
  | none => none

/-- field `f` of the input (of the struct of its variant) -/
def inputField (k : InputKind) (f : String) (i : Val) : Val := fieldOf k.struct f (inputPayload i)

/-- `Input::predicate_offset` -/
def predicateOffset (i : Val) : Option Nat :=
  match inputKind i with
  | some .coinPredicate => InputRepr.coin.offset "coin_predicate_offset"
  | some .messageCoinPredicate => InputRepr.message.offset "data_offset"
  | some .messageDataPredicate =>
    (InputRepr.message.offset "data_offset").map (fun o =>
      satAdd o (paddedLen (bytesOf (inputField .messageDataPredicate "data" i))))
  | _ => none

/-- `Input::predicate_data_offset` -/
def predicateDataOffset (i : Val) : Option Nat :=
  match inputKind i with
  | some .coinPredicate => (predicateOffset i).map (fun o => satAdd o (paddedLen (bytesOf (inputField .coinPredicate "predicate" i))))
  | some .messageCoinPredicate => (predicateOffset i).map (fun o => satAdd o (paddedLen (bytesOf (inputField .messageCoinPredicate "predicate" i))))
  | some .messageDataPredicate => (predicateOffset i).map (fun o => satAdd o (paddedLen (bytesOf (inputField .messageDataPredicate "predicate" i))))
  | _ => none

/-- `Input::predicate_len` -/
def predicateLen (i : Val) : Option Nat :=
  match inputKind i with
  | some .coinPredicate => some (bytesOf (inputField .coinPredicate "predicate" i)).length
  | some .messageCoinPredicate => some (bytesOf (inputField .messageCoinPredicate "predicate" i)).length
  | some .messageDataPredicate => some (bytesOf (inputField .messageDataPredicate "predicate" i)).length
  | some .coinSigned | some .messageCoinSigned | some .messageDataSigned => some 0
  | some .contract => none
  | none => none

/-- `enum Output` variants, in declaration order (obligation `tables_agree`) -/
inductive OutputKind | coin | contract | change | variable | contractCreated
  deriving DecidableEq, Repr, Inhabited

def OutputKind.all : List OutputKind := [.coin, .contract, .change, .variable, .contractCreated]
def OutputKind.name : OutputKind → String
  | .coin => "Coin" | .contract => "Contract" | .change => "Change" | .variable => "Variable" | .contractCreated => "ContractCreated"

def outputKind (o : Val) : Option OutputKind := (InputCodec.unVariant o).bind (fun p => OutputKind.all[p.1]?)
def outputPayload (o : Val) : Val := ((InputCodec.unVariant o).map (·.2)).getD .unit

/-- `OutputRepr::<method>()` after `OutputRepr::from_output` (the identity on names, obligation `tables_agree`) -/
def OutputKind.offset (method : String) (k : OutputKind) : Option Nat :=
  match Offsets.outputReprOffsets.lookup method with
  | some row => (row.lookup k.name).join
  | none => none

/-! ### transactions -/

/-- `enum Transaction` variants, in declaration order (obligation `tables_agree`) -/
inductive Kind | script | create | mint | upgrade | upload | blob
  deriving DecidableEq, Repr, Inhabited

def Kind.all : List Kind := [.script, .create, .mint, .upgrade, .upload, .blob]
def Kind.name : Kind → String
  | .script => "Script" | .create => "Create" | .mint => "Mint" | .upgrade => "Upgrade" | .upload => "Upload" | .blob => "Blob"
def Kind.idx : Kind → Nat
  | .script => 0 | .create => 1 | .mint => 2 | .upgrade => 3 | .upload => 4 | .blob => 5
/-- descriptor of the kind's struct -/
def Kind.desc (k : Kind) : Desc := txByName k.name
/-- name of the body struct -/
def Kind.bodyStruct : Kind → String
  | .script => "ScriptBody" | .create => "CreateBody" | .mint => "Mint" | .upgrade => "UpgradeBody" | .upload => "UploadBody" | .blob => "BlobBody"

/-- `CommonMetadata` (metadata.rs) -/
structure CommonMetadata where
  id : Bytes
  inputsOffset : Nat
  inputsOffsetAt : List Nat
  inputsPredicateOffsetAt : List (Option (Nat × Nat))
  outputsOffset : Nat
  outputsOffsetAt : List Nat
  witnessesOffset : Nat
  witnessesOffsetAt : List Nat
  deriving DecidableEq, Repr, Inhabited

/-- `ChargeableMetadata<Body>`: of the body metadata only `ScriptMetadata::script_data_offset` is an offset
(0 for the other kinds; `CreateMetadata` / `UpgradeMetadata` hold ids and roots, not modelled here) -/
structure Metadata where
  common : CommonMetadata
  scriptDataOffset : Nat
  deriving DecidableEq, Repr, Inhabited

/-- a chargeable transaction (`ChargeableTransaction<Body, MetadataBody>`): its kind, the struct value and
the cache -/
structure Tx where
  kind : Kind
  val : Val
  metadata : Option Metadata
  deriving Repr, Inhabited

namespace Tx
def body (t : Tx) : Val := fieldOf "ChargeableTransaction" "body" t.val
def policies (t : Tx) : Val := fieldOf "ChargeableTransaction" "policies" t.val
def inputs (t : Tx) : List Val := (fieldOf "ChargeableTransaction" "inputs" t.val).elems
def outputs (t : Tx) : List Val := (fieldOf "ChargeableTransaction" "outputs" t.val).elems
def witnesses (t : Tx) : List Val := (fieldOf "ChargeableTransaction" "witnesses" t.val).elems

/-- `i.size()` of an input / output / witness -/
def inputSize (i : Val) : Nat := size env TxDesc.input i
def outputSize (o : Val) : Nat := size env TxDesc.output o
def witnessSize (w : Val) : Nat := size env TxDesc.witness w

/-! #### body offsets (script.rs, create.rs, upload.rs, blob.rs, upgrade.rs `mod field`) -/

/-- `ScriptData::script_data_offset` (script.rs) -/
def scriptDataOffset (t : Tx) : Nat :=
  match t.metadata with
  | some m => m.scriptDataOffset
  | none => satAdd Offsets.Script.script_offset_static (paddedLen (bytesOf (fieldOf "ScriptBody" "script" t.body)))

/-- `Create::storage_slots().len()` / `Upload::proof_set().len()` -/
def storageSlots (t : Tx) : List Val := (fieldOf "CreateBody" "storage_slots" t.body).elems
def proofSet (t : Tx) : List Val := (fieldOf "UploadBody" "proof_set" t.body).elems

/-- `ChargeableBody::body_offset_end` of the five kinds (Mint is not chargeable: no such function) -/
def bodyOffsetEnd (t : Tx) : Nat :=
  match t.kind with
  | .script => satAdd t.scriptDataOffset (paddedLen (bytesOf (fieldOf "ScriptBody" "script_data" t.body)))
  | .create => satAdd Offsets.Create.storage_slots_offset_static (satMul t.storageSlots.length Offsets.StorageSlot_SLOT_SIZE)
  | .upload => satAdd Offsets.Upload.proof_set_offset_static (satMul t.proofSet.length Offsets.Bytes32_LEN)
  | .blob => Offsets.Blob.body_offset_end
  | .upgrade =>
    satAdd (satAdd Offsets.Upgrade.upgrade_purpose_offset_static (size env upgradePurpose (fieldOf "UpgradeBody" "purpose" t.body)))
      (Offsets.WORD_SIZE + Offsets.WORD_SIZE + Offsets.WORD_SIZE + Offsets.WORD_SIZE)
  | .mint => 0

/-- `StorageSlots::storage_slots_offset_at` (create.rs) -/
def storageSlotsOffsetAt (t : Tx) (idx : Nat) : Option Nat :=
  if idx < t.storageSlots.length then
    (checkedMul idx Offsets.StorageSlot_SLOT_SIZE).bind (fun m => checkedAdd Offsets.Create.storage_slots_offset_static m)
  else none

/-- `ProofSet::proof_set_offset_at` (upload.rs) -/
def proofSetOffsetAt (t : Tx) (idx : Nat) : Option Nat :=
  if idx < t.proofSet.length then
    (checkedMul idx Offsets.Bytes32_LEN).bind (fun m => checkedAdd Offsets.Upload.proof_set_offset_static m)
  else none

/-! #### chargeable_transaction.rs `mod field` -/

/-- `Policies::policies_offset` -/
def policiesOffset (t : Tx) : Nat := t.bodyOffsetEnd

/-- `Inputs::inputs_offset` -/
def inputsOffset (t : Tx) : Nat :=
  match t.metadata with
  | some m => m.common.inputsOffset
  | none => satAdd t.policiesOffset (sizeD env TxDesc.policies t.policies)

/-- `Inputs::inputs_offset_at` -/
def inputsOffsetAt (t : Tx) (idx : Nat) : Option Nat :=
  match t.metadata with
  | some m => m.common.inputsOffsetAt[idx]?
  | none =>
    if idx < t.inputs.length then
      some (satAdd t.inputsOffset (sumSizes ((t.inputs.take idx).map inputSize)))
    else none

/-- `Inputs::inputs_predicate_offset_at` -/
def inputsPredicateOffsetAt (t : Tx) (idx : Nat) : Option (Nat × Nat) :=
  match t.metadata with
  | some m => (m.common.inputsPredicateOffsetAt[idx]?).getD none
  | none =>
    (t.inputs[idx]?).bind (fun input =>
      match (predicateOffset input).bind (fun predicate => (t.inputsOffsetAt idx).map (fun inputs => satAdd inputs predicate)),
            (predicateLen input).bind paddedLenUsize with
      | some a, some b => some (a, b)   -- `Option::zip`
      | _, _ => none)

/-- `Outputs::outputs_offset` -/
def outputsOffset (t : Tx) : Nat :=
  match t.metadata with
  | some m => m.common.outputsOffset
  | none => satAdd t.inputsOffset (sumSizes (t.inputs.map inputSize))

/-- `Outputs::outputs_offset_at` -/
def outputsOffsetAt (t : Tx) (idx : Nat) : Option Nat :=
  match t.metadata with
  | some m => m.common.outputsOffsetAt[idx]?
  | none =>
    if idx < t.outputs.length then
      some (satAdd t.outputsOffset (sumSizes ((t.outputs.take idx).map outputSize)))
    else none

/-- `Witnesses::witnesses_offset` -/
def witnessesOffset (t : Tx) : Nat :=
  match t.metadata with
  | some m => m.common.witnessesOffset
  | none => satAdd t.outputsOffset (sumSizes (t.outputs.map outputSize))

/-- `Witnesses::witnesses_offset_at` -/
def witnessesOffsetAt (t : Tx) (idx : Nat) : Option Nat :=
  match t.metadata with
  | some m => m.common.witnessesOffsetAt[idx]?
  | none =>
    if idx < t.witnesses.length then
      some (satAdd t.witnessesOffset (sumSizes ((t.witnesses.take idx).map witnessSize)))
    else none

/-! #### metadata.rs -/

/-- `ValidityError::Serialized{Input,Output,Witness}TooLarge { index }` -/
inductive TooLarge
  | input (index : Nat) | output (index : Nat) | witness (index : Nat)
  deriving DecidableEq, Repr, Inhabited

/-- the three loops of `CommonMetadata::compute`:
`for (index, x) in xs.iter().enumerate() { let i = offset; offset = offset.checked_add(x.size()).ok_or(err(index))?; v.push(i) }` -/
def offsetsLoop (err : Nat → TooLarge) : List Nat → Nat → Nat → Except TooLarge (List Nat)
  | [], _, _ => .ok []
  | s :: rest, offset, index =>
    match checkedAdd offset s with
    | none => .error (err index)
    | some offset' =>
      match offsetsLoop err rest offset' (index + 1) with
      | .error e => .error e
      | .ok is => .ok (offset :: is)

/-- `CommonMetadata::compute(tx, chain_id)`; `id` = `tx.id(chain_id)` (Model/TxId.lean, C03). Called by
`precompute` after `self.metadata = None`. -/
def computeCommon (id : Bytes) (t : Tx) : Except TooLarge CommonMetadata :=
  let inputsPredicateOffsetAt := (List.range t.inputs.length).map (fun i => t.inputsPredicateOffsetAt i)
  match offsetsLoop .input (t.inputs.map inputSize) t.inputsOffset 0 with
  | .error e => .error e
  | .ok inputsOffsetAt =>
    match offsetsLoop .output (t.outputs.map outputSize) t.outputsOffset 0 with
    | .error e => .error e
    | .ok outputsOffsetAt =>
      match offsetsLoop .witness (t.witnesses.map witnessSize) t.witnessesOffset 0 with
      | .error e => .error e
      | .ok witnessesOffsetAt =>
        .ok { id := id, inputsOffset := t.inputsOffset, inputsOffsetAt := inputsOffsetAt,
              inputsPredicateOffsetAt := inputsPredicateOffsetAt, outputsOffset := t.outputsOffset,
              outputsOffsetAt := outputsOffsetAt, witnessesOffset := t.witnessesOffset,
              witnessesOffsetAt := witnessesOffsetAt }

/-- `Cacheable::precompute` with the reset first (the order the current sources have, obligation `precompute_order`):
`self.metadata = None;` then `Some(ChargeableMetadata { common: CommonMetadata::compute(self, chain_id)?, body: .. })`. -/
def precomputeCanon (id : Bytes) (t : Tx) : Except TooLarge Tx :=
  let t0 : Tx := { t with metadata := none }
  match computeCommon id t0 with
  | .error e => .error e
  | .ok common =>
    .ok { t0 with metadata := some { common := common, scriptDataOffset := if t.kind = .script then t0.scriptDataOffset else 0 } }

/-- the effects of a `precompute` body (tools/gen/precompute.py): `reset` = `self.metadata = None`, `common` =
`CommonMetadata::compute(self, chain_id)`, `script` = `self.script_data_offset()`, `other` = a body metadata that holds no
offset (`CreateMetadata::compute(self)`, `UpgradeMetadata::compute(self)`: ids / roots / parameters, not modelled — they may
also fail, then Rust leaves the metadata as it was), `store` = `self.metadata = Some(..)` -/
inductive PStep | reset | common | script | other | store
  deriving DecidableEq, Repr, Inhabited

def PStep.ofEvent : String → Option PStep
  | "reset" => some .reset | "common" => some .common | "script" => some .script
  | "create" => some .other | "upgrade" => some .other | "store" => some .store
  | _ => none

/-- the regenerated order of effects of the kind's `precompute` -/
def stepsOf (k : Kind) : List PStep := ((Gen.Precompute.order.lookup k.name).getD []).filterMap PStep.ofEvent

/-- run the effects in order: every read sees the object as it is at that moment (a read before `reset` sees the old cache).
`idOf` = `tx.id(chain_id)` of the object at that moment (Model/TxId.lean). -/
def runSteps (idOf : Tx → Bytes) : List PStep → Tx → Option CommonMetadata → Nat → Except TooLarge Tx
  | [], t, _, _ => .ok t
  | .reset :: rest, t, c, s => runSteps idOf rest { t with metadata := none } c s
  | .common :: rest, t, _, s =>
    match computeCommon (idOf t) t with
    | .error e => .error e
    | .ok c => runSteps idOf rest t (some c) s
  | .script :: rest, t, c, _ => runSteps idOf rest t c t.scriptDataOffset
  | .other :: rest, t, c, s => runSteps idOf rest t c s
  | .store :: rest, t, c, s =>
    match c with
    | some common => runSteps idOf rest { t with metadata := some { common := common, scriptDataOffset := s } } c s
    | none => runSteps idOf rest t c s

/-- `Cacheable::precompute` of the chargeable kinds, as far as offsets and the id go: the effects of the kind's body in the
order the source has them -/
def precompute (idOf : Tx → Bytes) (t : Tx) : Except TooLarge Tx := runSteps idOf (stepsOf t.kind) t none 0

end Tx

/-! ### Mint (mint.rs `mod field`): a struct without dynamic part -/

namespace Mint
def inputContractOffset : Nat := Offsets.Mint.input_contract_offset
/-- `output_contract_offset` -/
def outputContractOffset (v : Val) : Nat := satAdd inputContractOffset (size env InputCodec.contract (fieldOf "Mint" "input_contract" v))
/-- `mint_amount_offset` -/
def mintAmountOffset (v : Val) : Nat :=
  satAdd (outputContractOffset v) (size env (InputCodec.orVoid (named "OutputContract")) (fieldOf "Mint" "output_contract" v))
/-- `mint_asset_id_offset` -/
def mintAssetIdOffset (v : Val) : Nat := satAdd (mintAmountOffset v) Offsets.WORD_SIZE
/-- `gas_price_offset` -/
def gasPriceOffset (v : Val) : Nat := satAdd (mintAssetIdOffset v) Offsets.AssetId_LEN
end Mint

end FuelVerif.Offsets
