/-
Model of the three signature instructions of the VM (`fuel-vm/src/interpreter/crypto.rs`:
`secp256k1_recover` = ECK1, `secp256r1_recover` = ECR1, `ed25519_verify` = ED19, and the ED19 length
rule of `executors/opcodes_impl.rs`), with the memory access checks they go through
(`interpreter/memory.rs`: `verify`, `read`, `write`, `OwnershipRegisters::has_ownership_*`).

The library functions are PARAMETERS of the handlers (`recover : sig → msg → Except Error key`,
`edVerify : pk → sig → msg → Bool`): the handler model states only what the instruction does with the
library's answer.  Gas charging is not modelled (the stream runs with ample gas).
-/
import FuelVerif.Basic.Util
import FuelVerif.Gen.SigFormat
import FuelVerif.Model.Ecdsa
namespace FuelVerif.CryptoOps
open FuelVerif FuelVerif.Gen.SigFormat

/-- the panic reasons these handlers can produce -/
inductive Panic where
  | MemoryOverflow
  | UninitalizedMemoryAccess
  | MemoryOwnership
deriving DecidableEq, Repr

def Panic.name : Panic → String
  | .MemoryOverflow => "MemoryOverflow"
  | .UninitalizedMemoryAccess => "UninitalizedMemoryAccess"
  | .MemoryOwnership => "MemoryOwnership"

/-- what the access checks look at: `MemoryInstance { stack.len(), hp }` and `OwnershipRegisters` -/
structure MemView where
  stackLen : Nat
  memHp : Nat
  sp : Nat
  ssp : Nat
  hp : Nat
  prevHp : Nat
deriving Repr

/-- `MemoryInstance::verify(addr, count)`: both `to_addr` conversions, the end bound, the stack/heap rule -/
def verify (m : MemView) (addr len : Nat) : Except Panic (Nat × Nat) :=
  if addr > memSize then .error .MemoryOverflow
  else if len > memSize then .error .MemoryOverflow
  else
    let stop := addr + len
    if stop > memSize then .error .MemoryOverflow
    else if stop ≤ m.stackLen ∨ addr ≥ m.memHp then .ok (addr, stop)
    else .error .UninitalizedMemoryAccess

/-- `OwnershipRegisters::has_ownership_stack` -/
def ownsStack (m : MemView) (start stop : Nat) : Bool :=
  if start ≥ stop ∧ start = m.ssp then true
  else if ¬ (m.ssp ≤ start ∧ start < m.sp) then false
  else if stop > memSize then false
  else decide (m.ssp ≤ stop ∧ stop ≤ m.sp)

/-- `OwnershipRegisters::has_ownership_heap` -/
def ownsHeap (m : MemView) (start stop : Nat) : Bool :=
  if start ≥ stop ∧ start = m.hp then true
  else if start < m.hp then false
  else decide (m.hp ≠ m.prevHp ∧ stop ≤ m.prevHp)

/-- `MemoryInstance::write(owner, addr, len)` up to the point where the slice is handed out -/
def writeCheck (m : MemView) (addr len : Nat) : Except Panic Unit :=
  match verify m addr len with
  | .error e => .error e
  | .ok (start, stop) =>
    if ownsStack m start stop || ownsHeap m start stop then .ok () else .error .MemoryOwnership

/-- what an instruction did: bytes written at `$a` (if any) and the new `$err`; `$pc` advances by 4 -/
structure Outcome where
  written : Option Bytes
  err : Nat
deriving Repr, DecidableEq

/-- `secp256k1_recover` / `secp256r1_recover`: read 64 bytes at `b`, 32 at `c`, call the library,
write the key (or 64 zero bytes) at `a`, clear (or set) `$err` -/
def ecRecover (recover : Bytes → Bytes → Except Ecdsa.Error Bytes) (m : MemView)
    (read : Nat → Nat → Bytes) (a b c : Nat) : Except Panic Outcome :=
  match verify m b lenBytes64 with
  | .error e => .error e
  | .ok _ =>
    match verify m c lenBytes32 with
    | .error e => .error e
    | .ok _ =>
      match recover (read b lenBytes64) (read c lenBytes32) with
      | .ok key =>
        match writeCheck m a lenPublicKey with
        | .error e => .error e
        | .ok _ => .ok ⟨some key, 0⟩
      | .error _ =>
        match writeCheck m a lenPublicKey with
        | .error e => .error e
        | .ok _ => .ok ⟨some (zeros lenPublicKey), 1⟩

/-- ED19: `len = 0` is replaced by 32 (opcodes_impl.rs), then `ed25519_verify`: read the key (32 bytes at
`a`), the signature (64 at `b`), the message (`len` at `c`); `$err := 0` iff the library accepts -/
def ed19 (edVerify : Bytes → Bytes → Bytes → Bool) (m : MemView)
    (read : Nat → Nat → Bytes) (a b c len : Nat) : Except Panic Outcome :=
  let len := if len = ed19ZeroLen then ed19DefaultLen else len
  match verify m a lenBytes32 with
  | .error e => .error e
  | .ok _ =>
    match verify m b lenBytes64 with
    | .error e => .error e
    | .ok _ =>
      match verify m c len with
      | .error e => .error e
      | .ok _ =>
        if edVerify (read a lenBytes32) (read b lenBytes64) (read c len) then .ok ⟨none, 0⟩ else .ok ⟨none, 1⟩

end FuelVerif.CryptoOps
