/-
C25 model: control flow of fuel-vm, transcribed from
  fuel-vm/src/interpreter/flow.rs                  (JumpMode, JumpArgs::{new,with_condition,to_address,plus_fixed,jump})
  fuel-vm/src/interpreter/executors/opcodes_impl.rs (operand wiring of JI JNEI JNZI JMP JNE JMPF JMPB JNZF JNZB JNEF JNEB JAL)
  fuel-vm/src/interpreter/internal.rs              (inc_pc — in AluBase —, write_user_register)
  fuel-vm/src/interpreter/executors/instruction.rs (fetch_instruction)
-/
import FuelVerif.Model.AluBase
import FuelVerif.Model.VmMem
import FuelVerif.Model.Instr
import FuelVerif.Model.Alu
import FuelVerif.Gen.Fetch
import FuelVerif.Basic.Util
namespace FuelVerif.Alu
open FuelVerif.Gen.AluArgs FuelVerif.Gen.Fetch

inductive JumpMode | Assign | RelativeIS | RelativeForwards | RelativeBackwards
  deriving DecidableEq, Repr

/-- `JumpArgs`; `JumpArgs::new(mode)` = `⟨true, mode, 0, 0⟩`, the builder methods set one field each -/
structure JumpArgs where
  condition : Bool := true
  mode : JumpMode
  dynamic : Nat := 0
  fixed : Nat := 0

/-- the `match self.mode` of `JumpArgs::jump`: the target address, or the `checked_sub` failure -/
def jumpTarget (a : JumpArgs) (is pc : Nat) : Except Panic Nat :=
  match a.mode with
  | .Assign => .ok (satAdd a.dynamic (satMul a.fixed instrSize))
  | .RelativeIS =>
    let offsetInstructions := satAdd a.dynamic a.fixed
    let offsetBytes := satMul offsetInstructions instrSize
    .ok (satAdd is offsetBytes)
  | .RelativeForwards =>
    let offsetInstructions := satAdd (satAdd a.dynamic a.fixed) 1
    let offsetBytes := satMul offsetInstructions instrSize
    .ok (satAdd pc offsetBytes)
  | .RelativeBackwards =>
    let offsetInstructions := satAdd (satAdd a.dynamic a.fixed) 1
    let offsetBytes := satMul offsetInstructions instrSize
    if offsetBytes ≤ pc then .ok (pc - offsetBytes) else .error .MemoryOverflow   -- pc.checked_sub

/-- `JumpArgs::jump(is, pc)` -/
def jump (a : JumpArgs) (r : Regs) : Out :=
  if ¬ a.condition then (incPc r, none)
  else
    match jumpTarget a (r regIS) (r regPC) with
    | .error p => (r, some p)
    | .ok target =>
      if target ≥ vmMaxRam then (r, some .MemoryOverflow)
      else (r.set regPC target, none)

/-- `write_user_register(reg, val)`: writes to `$zero` are ignored, other reserved registers rejected -/
def writeUserRegister (r : Regs) (reg val : Nat) : Except Panic Regs :=
  if reg = regZERO then .ok r
  else if reg < regWRITABLE then .error .ReservedRegisterNotWritable
  else .ok (r.set reg val)

inductive JumpOp | JI | JNEI | JNZI | JMP | JNE | JMPF | JMPB | JNZF | JNZB | JNEF | JNEB | JAL
  deriving DecidableEq, Repr

def JumpOp.ofName : String → Option JumpOp
  | "JI" => some .JI | "JNEI" => some .JNEI | "JNZI" => some .JNZI | "JMP" => some .JMP | "JNE" => some .JNE
  | "JMPF" => some .JMPF | "JMPB" => some .JMPB | "JNZF" => some .JNZF | "JNZB" => some .JNZB
  | "JNEF" => some .JNEF | "JNEB" => some .JNEB | "JAL" => some .JAL
  | _ => none

/-- the `JumpArgs` each of the 11 plain jump opcodes builds from its decoded arguments -/
def jumpArgsOf (op : JumpOp) (args : List Nat) (r : Regs) : Option JumpArgs :=
  match op, args with
  | .JI, [imm] => some { mode := .RelativeIS, dynamic := imm }
  | .JNEI, [a, b, imm] => some { mode := .RelativeIS, condition := r a != r b, dynamic := imm }
  | .JNZI, [a, imm] => some { mode := .RelativeIS, condition := r a != 0, dynamic := imm }
  | .JMP, [a] => some { mode := .RelativeIS, dynamic := r a }
  | .JNE, [a, b, c] => some { mode := .RelativeIS, condition := r a != r b, dynamic := r c }
  | .JMPF, [a, off] => some { mode := .RelativeForwards, dynamic := r a, fixed := off }
  | .JMPB, [a, off] => some { mode := .RelativeBackwards, dynamic := r a, fixed := off }
  | .JNZF, [a, b, off] => some { mode := .RelativeForwards, condition := r a != 0, dynamic := r b, fixed := off }
  | .JNZB, [a, b, off] => some { mode := .RelativeBackwards, condition := r a != 0, dynamic := r b, fixed := off }
  | .JNEF, [a, b, c, off] => some { mode := .RelativeForwards, condition := r a != r b, dynamic := r c, fixed := off }
  | .JNEB, [a, b, c, off] => some { mode := .RelativeBackwards, condition := r a != r b, dynamic := r c, fixed := off }
  | _, _ => none

/-- one jump instruction (`impl Execute for op::X`, after the gas charge) -/
def execJump (op : JumpOp) (args : List Nat) (r : Regs) : Out :=
  match op, args with
  | .JAL, [regRetAddr, regTarget, offset] =>
    let retAddr := satAdd (r regPC) instrSize
    match writeUserRegister r regRetAddr retAddr with
    | .error p => (r, some p)
    | .ok r' =>
      -- `interpreter.registers[reg_target]` is read after the return address was stored
      jump { mode := .Assign, dynamic := r' regTarget, fixed := offset } r'
  | op, args =>
    match jumpArgsOf op args r with
    | some a => jump a r
    | none => (r, some .HostPanic)   -- argument list does not match the opcode's shape

/-- `instruction_inner` restricted to the jump opcodes; `none` = not a jump opcode -/
def stepJump (w : Nat) (r : Regs) : Option Out :=
  match Instr.decode w with
  | none => some (r, some .InvalidInstruction)
  | some i =>
    match Instr.lookup i.op with
    | none => some (r, some .InvalidInstruction)
    | some row =>
      match JumpOp.ofName row.name with
      | some op => some (execJump op i.args r)
      | none => none

/-- the rejecting condition of `fetch_instruction`, over the clauses extracted from the Rust text
(`Gen/Fetch.lean`): `pc < $R` for each lower-bound register, `pc >= $R` for each upper-bound register -/
def fetchRejected (r : Regs) : Bool :=
  let pc := r fetchAddrReg
  fetchLowerBoundRegs.any (fun l => decide (pc < r l)) || fetchUpperBoundRegs.any (fun u => decide (pc ≥ r u))

/-- `fetch_instruction`: read `fetchBytes` bytes at the fetch address register, then the executable-range check
(registers, width and panic reason regenerated from instruction.rs) -/
def fetchInstruction (m : Mem) (r : Regs) : Except Panic (List UInt8) :=
  match m.readBytes (r fetchAddrReg) fetchBytes with
  | .error p => .error p
  | .ok raw =>
    if fetchRejected r then .error fetchRangePanic
    else .ok raw

/-- `Interpreter::execute`: `fetch_instruction`, then `instruction_inner`, for programs made of ALU and
jump instructions (`none` = the fetched opcode is valid but belongs to another family). A fetch failure is
reported with the registers untouched. -/
def executeStep (guess : Nat → Nat → Nat) (m : Mem) (r : Regs) : Option Out :=
  match fetchInstruction m r with
  | .error p => some (r, some p)
  | .ok raw =>
    let w := FuelVerif.beNat raw            -- RawInstruction::from_be_bytes
    match stepAlu guess w r with
    | some o => some o
    | none => stepJump w r

end FuelVerif.Alu
