/-
Executable short-Weierstrass curve arithmetic  y² = x³ + a·x + b  over F_p  (p ≡ 3 mod 4), in plain
`Nat` arithmetic mod p.  This is the *third* implementation in the three-way comparison of C16/C17
(libsecp256k1 ⇄ RustCrypto k256/p256 ⇄ this file): it instantiates the abstract `Ecdsa.Curve`
interface for the driver.  Nothing is proved about this file (the theorems of C16/C17 take the
curve as a parameter together with the group laws); it is validated by the correspondence streams.

Points are Jacobian triples (X, Y, Z) with Z = 0 for the identity, so that a scalar multiplication
needs a single field inversion at the end.
-/
import FuelVerif.Basic.Util
namespace FuelVerif.Ecc

/-- square-and-multiply `b ^ e % m`, structural on the fuel (≥ bit length of `e`) -/
def powModAux (m : Nat) : Nat → Nat → Nat → Nat → Nat
  | 0, _, _, acc => acc
  | fuel + 1, b, e, acc =>
    if e = 0 then acc
    else powModAux m fuel (b * b % m) (e / 2) (if e % 2 = 1 then acc * b % m else acc)

def powMod (b e m : Nat) : Nat := powModAux m (e.log2 + 1) (b % m) e (1 % m)

structure Params where
  p : Nat
  a : Nat
  b : Nat
  n : Nat
  gx : Nat
  gy : Nat
deriving Repr

/-- secp256k1 (SEC 2, §2.4.1) -/
def secp256k1 : Params where
  p := 0xFFFFFFFFFFFFFFFFFFFFFFFFFFFFFFFFFFFFFFFFFFFFFFFFFFFFFFFEFFFFFC2F
  a := 0
  b := 7
  n := 0xFFFFFFFFFFFFFFFFFFFFFFFFFFFFFFFEBAAEDCE6AF48A03BBFD25E8CD0364141
  gx := 0x79BE667EF9DCBBAC55A06295CE870B07029BFCDB2DCE28D959F2815B16F81798
  gy := 0x483ADA7726A3C4655DA4FBFC0E1108A8FD17B448A68554199C47D08FFB10D4B8

/-- secp256r1 / NIST P-256 (SEC 2, §2.4.2) -/
def secp256r1 : Params where
  p := 0xFFFFFFFF00000001000000000000000000000000FFFFFFFFFFFFFFFFFFFFFFFF
  a := 0xFFFFFFFF00000001000000000000000000000000FFFFFFFFFFFFFFFFFFFFFFFC
  b := 0x5AC635D8AA3A93E7B3EBBD55769886BC651D06B0CC53B0F63BCE3C3E27D2604B
  n := 0xFFFFFFFF00000000FFFFFFFFFFFFFFFFBCE6FAADA7179E84F3B9CAC2FC632551
  gx := 0x6B17D1F2E12C4247F8BCE6E563A440F277037D812DEB33A0F4A13945D898C296
  gy := 0x4FE342E2FE1A7F9B8EE7EB4A7C0F9E162BCE33576B315ECECBB6406837BF51F5

/-- Jacobian point; `z = 0` is the identity -/
structure JPt where
  x : Nat
  y : Nat
  z : Nat
deriving Repr, BEq

def JPt.inf : JPt := ⟨1, 1, 0⟩
def JPt.isInf (P : JPt) : Bool := P.z == 0

section
variable (c : Params)

def fsub (x y : Nat) : Nat := (x + c.p - y % c.p) % c.p
def fneg (x : Nat) : Nat := (c.p - x % c.p) % c.p
def finv (x : Nat) : Nat := powMod x (c.p - 2) c.p

/-- right-hand side x³ + a x + b -/
def rhs (x : Nat) : Nat := ((x * x % c.p) * x + c.a * x + c.b) % c.p

def onCurve (x y : Nat) : Bool := y * y % c.p == rhs c x

/-- point doubling (general `a`), dbl-2007-bl style formulas -/
def dbl (P : JPt) : JPt :=
  if P.z == 0 || P.y == 0 then JPt.inf else
  let p := c.p
  let xx := P.x * P.x % p
  let yy := P.y * P.y % p
  let yyyy := yy * yy % p
  let zz := P.z * P.z % p
  let s := 4 * P.x * yy % p
  let m := (3 * xx + c.a * (zz * zz % p)) % p
  let x3 := fsub c (m * m % p) (2 * s % p)
  let y3 := fsub c (m * fsub c s x3 % p) (8 * yyyy % p)
  let z3 := 2 * P.y * P.z % p
  ⟨x3, y3, z3⟩

/-- general Jacobian addition (add-2007-bl without the optimisations) -/
def add (P Q : JPt) : JPt :=
  if P.z == 0 then Q else if Q.z == 0 then P else
  let p := c.p
  let z1z1 := P.z * P.z % p
  let z2z2 := Q.z * Q.z % p
  let u1 := P.x * z2z2 % p
  let u2 := Q.x * z1z1 % p
  let s1 := P.y * Q.z % p * z2z2 % p
  let s2 := Q.y * P.z % p * z1z1 % p
  if u1 == u2 then
    if s1 == s2 then dbl c P else JPt.inf
  else
    let h := fsub c u2 u1
    let r := fsub c s2 s1
    let hh := h * h % p
    let hhh := h * hh % p
    let v := u1 * hh % p
    let x3 := fsub c (fsub c (r * r % p) hhh) (2 * v % p)
    let y3 := fsub c (r * fsub c v x3 % p) (s1 * hhh % p)
    let z3 := P.z * Q.z % p * h % p
    ⟨x3, y3, z3⟩

def neg (P : JPt) : JPt := ⟨P.x, fneg c P.y, P.z⟩

/-- double-and-add, most significant bit first; structural on the fuel (bit positions) -/
def mulAux (P : JPt) (k : Nat) : Nat → JPt → JPt
  | 0, acc => acc
  | i + 1, acc =>
    let acc := dbl c acc
    mulAux P k i (if k.testBit i then add c acc P else acc)

def mul (k : Nat) (P : JPt) : JPt := mulAux c P k (k.log2 + 1) JPt.inf

def ofAffine (x y : Nat) : JPt := ⟨x, y, 1⟩

def gen : JPt := ofAffine c.gx c.gy

/-- affine coordinates; (0, 0) for the identity (as RustCrypto's `to_affine` of the identity) -/
def toAffine (P : JPt) : Nat × Nat :=
  if P.z == 0 then (0, 0) else
  let zi := finv c P.z
  let zi2 := zi * zi % c.p
  (P.x * zi2 % c.p, P.y * (zi2 * zi % c.p) % c.p)

/-- decompression: the point with affine x-coordinate `x` and the requested parity of y -/
def liftX (x : Nat) (odd : Bool) : Option JPt :=
  if x < c.p then
    let y2 := rhs c x
    let y := powMod y2 ((c.p + 1) / 4) c.p
    if y * y % c.p == y2 then
      let y := if (y % 2 == 1) == odd then y else fneg c y
      some (ofAffine x y)
    else none
  else none

/-- parse of an uncompressed SEC1 point: both coordinates canonical field elements, on the curve -/
def ofXY (x y : Nat) : Option JPt :=
  if x < c.p && y < c.p && onCurve c x y then some (ofAffine x y) else none

/-- `u1·G + u2·P` -/
def lincomb (u1 u2 : Nat) (P : JPt) : JPt := add c (mul c u1 (gen c)) (mul c u2 P)

end
end FuelVerif.Ecc
