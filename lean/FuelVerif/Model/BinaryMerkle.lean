/-
Executable model of fuel-merkle's binary Merkle tree (C09, C10, C11), transcribed function by
function from the Rust sources as they are today:

  fuel-merkle/src/binary/hash.rs             leafSum, nodeSum, emptySum
  fuel-merkle/src/common/position.rs         height, orientation, parent, child
  fuel-merkle/src/common/path_iterator.rs    rawPath            (PathIter<Position>)
  fuel-merkle/src/common/position_path.rs    descendLeft, filterPath, positionPath (PositionPathIter)
  fuel-merkle/src/binary/node.rs             Node, createLeaf, createNode
  fuel-merkle/src/binary/root_calculator.rs  mergeLoop, pushWithCallback, calcPush, calcRoot, …
  fuel-merkle/src/binary/merkle_tree.rs      Tree, rootNode, root, push, prove, reset, load, rootPosition, peakPositions
  fuel-merkle/src/binary/in_memory.rs        InMem wrappers
  fuel-merkle/src/binary/verify.rs           pathLengthFromKey, verify
  fuel-vm/src/crypto.rs                      ephemeralMerkleRoot
  fuel-vm/src/interpreter/receipts.rs        receiptsRoot (the calculator over the receipts' canonical bytes)

and the RFC 6962 reference definitions (`mth`, `auditPath`, `rootFromPath`) the properties compare with.

Conventions. The hash function is a parameter `H : Bytes → Bytes` everywhere (the driver instantiates
SHA-256). `u64` values are `Nat`; every *checked* Rust operation (`checked_shl`, `checked_add`,
`checked_sub`, `checked_mul`) is transcribed with its failure branch; the *unchecked* `u64` operations
of `verify` that can overflow are transcribed with an explicit panic result (`Err.panic`).
A Rust `Vec<Node>` used as a stack is a `List Node` whose HEAD is the TOP of the stack
(`Vec` order = `stack.reverse`). `StorageMap<u64, Primitive>` is an association list, newest first.
Import-free (core + Gen) so that the driver links natively.
-/
import FuelVerif.Basic.Util
import FuelVerif.Gen.BinaryMerkle
namespace FuelVerif.BMT
open FuelVerif

abbrev HashFn := Bytes → Bytes

/-! ## binary/hash.rs -/

/-- `leaf_sum(data)` = `Hash(LEAF ‖ data)` -/
def leafSum (H : HashFn) (d : Bytes) : Bytes := H (Gen.BinaryMerkle.leafPrefix :: d)
/-- `node_sum(lhs, rhs)` = `Hash(NODE ‖ lhs ‖ rhs)` -/
def nodeSum (H : HashFn) (l r : Bytes) : Bytes := H (Gen.BinaryMerkle.nodePrefix :: (l ++ r))
/-- `empty_sum()`: the literal constant `EMPTY_SUM` (not a hash call) -/
def emptySum : Bytes := Gen.BinaryMerkle.emptySum

/-! ## RFC 6962 §2.1 reference (the specification side) -/

/-- `k`: the largest power of two strictly smaller than `n` (meaningful for `n ≥ 2`) -/
def splitPoint (n : Nat) : Nat := 2 ^ Nat.log2 (n - 1)

theorem splitPoint_pos (n : Nat) : 0 < splitPoint n := Nat.pow_pos (by decide)

theorem splitPoint_lt {n : Nat} (h : 2 ≤ n) : splitPoint n < n := by
  unfold splitPoint
  have : 2 ^ Nat.log2 (n - 1) ≤ n - 1 := Nat.log2_self_le (by omega)
  omega

theorem take_split_lt {α : Type} (l : List α) (h : 2 ≤ l.length) :
    (l.take (splitPoint l.length)).length < l.length := by
  have := splitPoint_lt h
  simp only [List.length_take]
  omega

theorem drop_split_lt {α : Type} (l : List α) (h : 2 ≤ l.length) :
    (l.drop (splitPoint l.length)).length < l.length := by
  have := splitPoint_pos l.length
  simp only [List.length_drop]
  omega

/-- `MTH`: `MTH({}) = H()`, `MTH({d}) = H(0x00‖d)`, `MTH(D[n]) = H(0x01 ‖ MTH(D[0:k]) ‖ MTH(D[k:n]))` -/
def mth (H : HashFn) (D : List Bytes) : Bytes :=
  match D with
  | [] => H []
  | [d] => leafSum H d
  | d0 :: d1 :: rest =>
    let k := splitPoint (d0 :: d1 :: rest).length
    nodeSum H (mth H ((d0 :: d1 :: rest).take k)) (mth H ((d0 :: d1 :: rest).drop k))
termination_by D.length
decreasing_by
  · exact take_split_lt _ (by simp only [List.length_cons]; omega)
  · exact drop_split_lt _ (by simp only [List.length_cons]; omega)

/-- `MTH` over a non-empty list of leaf HASHES (used for roots rebuilt from leaf hashes) -/
def mthHashes (H : HashFn) (hs : List Bytes) : Bytes :=
  match hs with
  | [] => H []
  | [h] => h
  | h0 :: h1 :: rest =>
    let k := splitPoint (h0 :: h1 :: rest).length
    nodeSum H (mthHashes H ((h0 :: h1 :: rest).take k)) (mthHashes H ((h0 :: h1 :: rest).drop k))
termination_by hs.length
decreasing_by
  · exact take_split_lt _ (by simp only [List.length_cons]; omega)
  · exact drop_split_lt _ (by simp only [List.length_cons]; omega)

/-- `PATH(m, D)`: the audit path of leaf `m`, deepest sibling first (RFC 6962 §2.1.1) -/
def auditPath (H : HashFn) (m : Nat) (D : List Bytes) : List Bytes :=
  match D with
  | [] => []
  | [_] => []
  | d0 :: d1 :: rest =>
    let k := splitPoint (d0 :: d1 :: rest).length
    if m < k then auditPath H m ((d0 :: d1 :: rest).take k) ++ [mth H ((d0 :: d1 :: rest).drop k)]
    else auditPath H (m - k) ((d0 :: d1 :: rest).drop k) ++ [mth H ((d0 :: d1 :: rest).take k)]
termination_by D.length
decreasing_by
  · exact take_split_lt _ (by simp only [List.length_cons]; omega)
  · exact drop_split_lt _ (by simp only [List.length_cons]; omega)

/-- recomputation of the root from a leaf hash and an audit path given ROOT-FIRST (`rpath` = the
audit path reversed); `none` when the path length does not fit the shape of `(m, n)` -/
def rootFromPathRev (H : HashFn) (m n : Nat) (leafHash : Bytes) (rpath : List Bytes) : Option Bytes :=
  if _h : n ≤ 1 then
    (if n = 1 ∧ m = 0 ∧ rpath = [] then some leafHash else none)
  else
    match rpath with
    | [] => none
    | s :: rest =>
      let k := splitPoint n
      if m < k then (rootFromPathRev H m k leafHash rest).map (fun x => nodeSum H x s)
      else (rootFromPathRev H (m - k) (n - k) leafHash rest).map (fun x => nodeSum H s x)
termination_by n
decreasing_by
  · exact splitPoint_lt (by omega)
  · have := splitPoint_pos n
    omega

/-- the RFC 6962 audit-path recomputation for `(index m, count n, leaf hash, path deepest-first)` -/
def rootFromPath (H : HashFn) (m n : Nat) (leafHash : Bytes) (path : List Bytes) : Option Bytes :=
  rootFromPathRev H m n leafHash path.reverse

/-! ## common/position.rs -/

inductive GetNodeError | isLeaf | cannotExist
  deriving DecidableEq, Repr

inductive Side | left | right
  deriving DecidableEq, Repr

/-- number of trailing one bits, looking at `fuel` bits -/
def trailingOnes : Nat → Nat → Nat
  | 0, _ => 0
  | fuel + 1, p => if p % 2 = 1 then trailingOnes fuel (p / 2) + 1 else 0

/-- `Position::height`: `(!index).trailing_zeros()` on a `u64` -/
def height (p : Nat) : Nat := trailingOnes 64 p

/-- `1u64.checked_shl(s)` -/
def checkedShl1 (s : Nat) : Option Nat := if s < 64 then some (2 ^ s) else none

/-- `Position::orientation`: `index & (1 << (height+1)) == 0 ⇒ Right` (the parent lies to the right) -/
def orientation (p : Nat) : Except GetNodeError Side :=
  match checkedShl1 (height p + 1) with
  | none => .error .cannotExist
  | some shift => .ok (if (p / shift) % 2 = 0 then Side.right else Side.left)

/-- `Position::parent` -/
def parent (p : Nat) : Except GetNodeError Nat :=
  match checkedShl1 (height p) with
  | none => .error .cannotExist
  | some shift =>
    match orientation p with
    | .error e => .error e
    | .ok Side.left => if shift ≤ p then .ok (p - shift) else .error .cannotExist
    | .ok Side.right => if p + shift < 2 ^ 64 then .ok (p + shift) else .error .cannotExist

/-- `Position::child` -/
def child (p : Nat) (side : Side) : Except GetNodeError Nat :=
  if p % 2 = 0 then .error .isLeaf
  else
    match checkedShl1 (height p - 1) with
    | none => .error .cannotExist
    | some shift =>
      match side with
      | Side.left => if shift ≤ p then .ok (p - shift) else .error .cannotExist
      | Side.right => if p + shift < 2 ^ 64 then .ok (p + shift) else .error .cannotExist

/-! ## errors of the tree API -/

/-- `MerkleTreeError` variants, plus `panic` for `expect`/`unwrap`/overflow sites -/
inductive Err
  | invalidProofIndex (i : Nat)
  | loadError (key : Nat)
  | tooLarge
  | panic (site : String)
  deriving DecidableEq, Repr

def Err.name : Err → String
  | .invalidProofIndex _ => "InvalidProofIndex"
  | .loadError _ => "LoadError"
  | .tooLarge => "TooLarge"
  | .panic s => "panic-" ++ s

/-! ## common/path_iterator.rs + common/position_path.rs -/

/-- `PathIter<Position>` below the root: from the node `p` of height `h`, the `(path, side)` pairs
obtained by descending along the bits `h-1 … 0` of the leaf index (`current_offset = 64 - h`,
`get_instruction(offset)` = bit `63 - offset` of the 8-byte big-endian leaf key):
bit set ⇒ `(right_child, left_child_key)`, bit clear ⇒ `(left_child, right_child_key)`;
children are `p ± (1 << (h-1))`. -/
def rawPath : Nat → Nat → Nat → List (Nat × Nat)
  | 0, _, _ => []
  | h + 1, p, leafIdx =>
    if (leafIdx / 2 ^ h) % 2 = 1 then (p + 2 ^ h, p - 2 ^ h) :: rawPath h (p + 2 ^ h) leafIdx
    else (p - 2 ^ h, p + 2 ^ h) :: rawPath h (p - 2 ^ h) leafIdx

/-- `while side.in_order_index() > rightmost { side = side.child(Left).expect(..) }`, for a side
position of height `h`; reaching a leaf that is still too large is the `expect` panic -/
def descendLeft (rightmost : Nat) : Nat → Nat → Except Err Nat
  | 0, side => if side > rightmost then .error (.panic "descend-left-of-leaf") else .ok side
  | h + 1, side => if side > rightmost then descendLeft rightmost h (side - 2 ^ h) else .ok side

/-- `PositionPathIter::next` over the raw pairs, `saved` = `current_side_node` -/
def filterPath (rightmost : Nat) : Option Nat → List (Nat × Nat) → Except Err (List (Nat × Nat))
  | _, [] => .ok []
  | saved, (path, side) :: rest =>
    if path ≤ rightmost then
      let side0 := match saved with | some s => s | none => side
      match descendLeft rightmost (height side0) side0 with
      | .error e => .error e
      | .ok side' =>
        match filterPath rightmost none rest with
        | .error e => .error e
        | .ok tl => .ok ((path, side') :: tl)
    else
      filterPath rightmost (match saved with | some s => some s | none => some side) rest

/-- `root.path(&leaf, leaves_count).iter()` collected: root-first `(path, side)` pairs.
`leafPos` is the leaf's in-order index (`2 * leaf_index`). -/
def positionPath (root leafPos leavesCount : Nat) : Except Err (List (Nat × Nat)) :=
  if leavesCount = 0 then .error (.panic "path-to-empty-tree")
  else filterPath (2 * (leavesCount - 1)) none ((root, root) :: rawPath (height root) root (leafPos / 2))

/-! ## binary/node.rs -/

structure Node where
  pos : Nat
  hash : Bytes
  deriving DecidableEq, Repr

/-- `Position::from_leaf_index`: `index.checked_mul(2)` -/
def fromLeafIndex (i : Nat) : Option Nat := if 2 * i < 2 ^ 64 then some (2 * i) else none

def createLeaf (H : HashFn) (index : Nat) (d : Bytes) : Option Node :=
  (fromLeafIndex index).map (fun p => ⟨p, leafSum H d⟩)

def createLeafWithHash (index : Nat) (h : Bytes) : Option Node :=
  (fromLeafIndex index).map (fun p => ⟨p, h⟩)

def createNode (H : HashFn) (pos : Nat) (l r : Node) : Node := ⟨pos, nodeSum H l.hash r.hash⟩

/-! ## binary/root_calculator.rs -/

/-- the `while self.stack.len() > 1` loop of `push_with_callback`; `rhs` is the top of the stack, the
argument list the stack below it. Returns the new stack and the nodes handed to `node_created`
(oldest first). `Err.tooLarge` = `NodeStackPushError::TooLarge`. -/
def mergeLoop (H : HashFn) (rhs : Node) : List Node → Except Err (List Node × List Node)
  | [] => .ok ([rhs], [])
  | lhs :: rest =>
    if height rhs.pos ≠ height lhs.pos then .ok (rhs :: lhs :: rest, [])
    else
      match parent lhs.pos with
      | .error _ => .error .tooLarge
      | .ok pp =>
        let new := createNode H pp lhs rhs
        match mergeLoop H new rest with
        | .error e => .error e
        | .ok (st, created) => .ok (st, new :: created)

/-- `push_with_callback(node, node_created)` with an infallible callback -/
def pushWithCallback (H : HashFn) (stack : List Node) (node : Node) : Except Err (List Node × List Node) :=
  match mergeLoop H node stack with
  | .error e => .error e
  | .ok (st, created) => .ok (st, node :: created)

/-- `MerkleRootCalculator::push(data)`: leaf at index 0, `.expect("Tree too large")` -/
def calcPush (H : HashFn) (stack : List Node) (d : Bytes) : Except Err (List Node) :=
  match createLeaf H 0 d with
  | none => .error (.panic "zero-leaf-index")
  | some node =>
    match pushWithCallback H stack node with
    | .error _ => .error (.panic "tree-too-large")
    | .ok (st, _) => .ok st

/-- `new_from_existing_leaves`: one step (leaf hash given) -/
def calcPushHash (H : HashFn) (stack : List Node) (h : Bytes) : Except Err (List Node) :=
  match createLeafWithHash 0 h with
  | none => .error (.panic "zero-leaf-index")
  | some node =>
    match pushWithCallback H stack node with
    | .error _ => .error (.panic "tree-too-large")
    | .ok (st, _) => .ok st

def calcPushAll (H : HashFn) : List Node → List Bytes → Except Err (List Node)
  | st, [] => .ok st
  | st, d :: ds =>
    match calcPush H st d with
    | .error e => .error e
    | .ok st' => calcPushAll H st' ds

def calcPushAllHashes (H : HashFn) : List Node → List Bytes → Except Err (List Node)
  | st, [] => .ok st
  | st, h :: hs =>
    match calcPushHash H st h with
    | .error e => .error e
    | .ok st' => calcPushAllHashes H st' hs

/-- the `while self.stack.len() > 1` loop of `root`: `right` is the popped top -/
def calcRootLoop (H : HashFn) (right : Node) : List Node → Except Err Node
  | [] => .ok right
  | left :: rest =>
    match parent left.pos with
    | .error _ => .error (.panic "left-child-has-no-parent")
    | .ok pp => calcRootLoop H (createNode H pp left right) rest

/-- `MerkleRootCalculator::root` -/
def calcRoot (H : HashFn) (stack : List Node) : Except Err Bytes :=
  match stack with
  | [] => .ok emptySum
  | top :: rest =>
    match calcRootLoop H top rest with
    | .error e => .error e
    | .ok n => .ok n.hash

/-- `root_from_iterator` / `crypto::ephemeral_merkle_root`: fresh calculator, push all, root -/
def ephemeralMerkleRoot (H : HashFn) (leaves : List Bytes) : Except Err Bytes :=
  match calcPushAll H [] leaves with
  | .error e => .error e
  | .ok st => calcRoot H st

/-- `ReceiptsCtx::root` after pushing receipts whose canonical encodings are `encoded` -/
def receiptsRoot (H : HashFn) (encoded : List Bytes) : Except Err Bytes := ephemeralMerkleRoot H encoded

/-- `new_from_existing_leaves(hashes).root()` -/
def rootFromLeafHashes (H : HashFn) (hashes : List Bytes) : Except Err Bytes :=
  match calcPushAllHashes H [] hashes with
  | .error e => .error e
  | .ok st => calcRoot H st

/-! ## binary/merkle_tree.rs -/

abbrev Storage := List (Nat × Node)

def Storage.get (s : Storage) (key : Nat) : Option Node :=
  match s with
  | [] => none
  | (k, v) :: rest => if k = key then some v else Storage.get rest key

def Storage.insert (s : Storage) (n : Node) : Storage := (n.pos, n) :: s

structure Tree where
  storage : Storage
  nodes : List Node
  leavesCount : Nat
  deriving Repr

def Tree.new (storage : Storage) : Tree := ⟨storage, [], 0⟩

/-- the `for node in nodes` loop of `root_node` (nodes = the stack below the first head) -/
def rootNodeLoop (H : HashFn) (head : Node) (scratch : Storage) : List Node → Except Err (Node × Storage)
  | [] => .ok (head, scratch)
  | node :: rest =>
    match parent node.pos with
    | .error _ => .error .tooLarge
    | .ok pp =>
      let head' := createNode H pp node head
      rootNodeLoop H head' (scratch.insert head') rest

/-- `MerkleTree::root_node(scratch_storage)` with a fresh scratch storage -/
def Tree.rootNode (H : HashFn) (t : Tree) : Except Err (Option Node × Storage) :=
  match t.nodes with
  | [] => .ok (none, [])
  | head :: rest =>
    match rootNodeLoop H head [] rest with
    | .error e => .error e
    | .ok (n, scratch) => .ok (some n, scratch)

/-- `MerkleTree::root` -/
def Tree.root (H : HashFn) (t : Tree) : Except Err Bytes :=
  match t.rootNode H with
  | .error _ => .error (.panic "root-node-expect")
  | .ok (none, _) => .ok emptySum
  | .ok (some n, _) => .ok n.hash

/-- `MerkleTree::push` (the storage write-back of the callback applied after the stack update) -/
def Tree.push (H : HashFn) (t : Tree) (d : Bytes) : Except Err Tree :=
  match createLeaf H t.leavesCount d with
  | none => .error .tooLarge
  | some node =>
    match pushWithCallback H t.nodes node with
    | .error e => .error e
    | .ok (st, created) =>
      .ok { storage := created.foldl Storage.insert t.storage, nodes := st, leavesCount := t.leavesCount + 1 }

/-- `u64::next_power_of_two` for `x ≥ 1` -/
def nextPow2 (x : Nat) : Nat := if x ≤ 1 then 1 else 2 ^ (Nat.log2 (x - 1) + 1)

/-- `root_position(leaves_count)` -/
def rootPosition (leavesCount : Nat) : Option Nat :=
  if leavesCount + 1 < 2 ^ 64 then some (nextPow2 (leavesCount + 1) - 1) else none

/-- `MerkleTree::reset`. `zeroCount` says whether the source assigns `self.leaves_count = 0`
(regenerated from merkle_tree.rs: `Gen.BinaryMerkle.resetZeroesLeavesCount`). -/
def Tree.resetWith (zeroCount : Bool) (t : Tree) : Tree :=
  { t with nodes := [], leavesCount := if zeroCount then 0 else t.leavesCount }

def Tree.reset (t : Tree) : Tree := t.resetWith Gen.BinaryMerkle.resetZeroesLeavesCount

def lookupSides (scratch storage : Storage) : List Nat → Except Err (List Bytes)
  | [] => .ok []
  | key :: rest =>
    match (match scratch.get key with | some n => some n | none => storage.get key) with
    | none => .error (.loadError key)
    | some n =>
      match lookupSides scratch storage rest with
      | .error e => .error e
      | .ok tl => .ok (n.hash :: tl)

/-- `MerkleTree::prove(proof_index)` → `(root, proof_set)` -/
def Tree.prove (H : HashFn) (t : Tree) (i : Nat) : Except Err (Bytes × List Bytes) :=
  if i ≥ t.leavesCount then .error (.invalidProofIndex i)
  else
    match rootPosition t.leavesCount with
    | none => .error (.panic "root-position-expect")
    | some rootPos =>
      match fromLeafIndex i with
      | none => .error (.panic "leaf-position-expect")
      | some leafPos =>
        match positionPath rootPos leafPos t.leavesCount with
        | .error e => .error e
        | .ok pairs =>
          -- `side_positions.reverse(); side_positions.pop();`
          let sidePositions := (pairs.map (·.2)).reverse.dropLast
          match t.rootNode H with
          | .error e => .error e
          | .ok (none, _) => .error (.panic "root-node-must-be-present")
          | .ok (some rootNode, scratch) =>
            match lookupSides scratch t.storage sidePositions with
            | .error e => .error e
            | .ok proofSet => .ok (rootNode.hash, proofSet)

/-- `peak_positions(leaves_count)` (left to right) -/
def peakPositions (leavesCount : Nat) : Except Err (Option (List Nat)) :=
  match fromLeafIndex leavesCount with
  | none => .ok none
  | some leafPos =>
    match rootPosition leavesCount with
    | none => .ok none
    | some rootPos =>
      match positionPath rootPos leafPos (leavesCount + 1) with
      | .error e => .error e
      | .ok pairs => .ok (some ((pairs.drop 1).map (·.2)))

def loadPeaks (storage : Storage) : List Nat → Except Err (List Node)
  | [] => .ok []
  | key :: rest =>
    match storage.get key with
    | none => .error (.loadError key)
    | some n =>
      match loadPeaks storage rest with
      | .error e => .error e
      | .ok tl => .ok (n :: tl)

/-- `MerkleTree::load(storage, leaves_count)` -/
def Tree.load (storage : Storage) (leavesCount : Nat) : Except Err Tree :=
  match peakPositions leavesCount with
  | .error e => .error e
  | .ok none => .error .tooLarge
  | .ok (some peaks) =>
    match loadPeaks storage peaks with
    | .error e => .error e
    | .ok nodes => .ok { storage := storage, nodes := nodes.reverse, leavesCount := leavesCount }

/-! ## binary/in_memory.rs -/

/-- `in_memory::MerkleTree::push`: `let _ = self.tree.push(data)` (an error is dropped; it can
only arise at ≥ 2^63 leaves, outside every theorem's range, where the Rust state is partially
updated — not modelled) -/
def Tree.pushIgnore (H : HashFn) (t : Tree) (d : Bytes) : Tree :=
  match t.push H d with
  | .ok t' => t'
  | .error _ => t

/-- `in_memory::MerkleTree::prove`: `.ok()` -/
def Tree.proveOpt (H : HashFn) (t : Tree) (i : Nat) : Except Err (Option (Bytes × List Bytes)) :=
  match t.prove H i with
  | .ok r => .ok (some r)
  | .error (.panic s) => .error (.panic s)
  | .error _ => .ok none

/-! ## binary/verify.rs -/

/-- `path_length_from_key(key, num_leaves)`; `fuel` ≥ `num_leaves` suffices (the recursive call is on
`num_leaves - 2^(path_length-1) < num_leaves`) -/
def pathLengthFromKey : Nat → Nat → Nat → Option Nat
  | 0, _, _ => none
  | fuel + 1, key, numLeaves =>
    if numLeaves = 0 then none
    else
      let isPow2 := decide (2 ^ Nat.log2 numLeaves = numLeaves)
      let pathLength := if isPow2 then Nat.log2 numLeaves else Nat.log2 numLeaves + 1
      -- `1 << (path_length - 1)`: u64 by inference; path_length - 1 ≤ 63
      let left := 2 ^ (pathLength - 1)
      let subtreeLeaves := numLeaves - left          -- saturating_sub
      if key < left then some pathLength             -- checked_sub fails
      else
        let subtreeKey := key - left
        if left = 1 ∨ subtreeLeaves ≤ 1 then some 1
        else (pathLengthFromKey fuel subtreeKey subtreeLeaves).map (· + 1)

/-- `proof_set[i]` (in range at every use: guarded by the preceding length test) -/
def proofAt (proof : List Bytes) (i : Nat) : Except Err Bytes :=
  match proof[i]? with
  | some x => .ok x
  | none => .error (.panic "proof-index-out-of-range")

/-- result of the first `loop` of `verify` -/
inductive LoopOut
  | ret (b : Bool)
  | brk (parent stableEnd : Nat) (sum : Bytes)

/-- the first `loop { … }` of `verify`. `shlChecked` / `endSubFirst` say which of the two u64
hazards the source guards (regenerated from verify.rs); unguarded they are panics in builds with
overflow checks (`attempt to shift left with overflow`, `attempt to add with overflow`). -/
def stableLoop (shlChecked endSubFirst : Bool) (H : HashFn) (proof : List Bytes) (index n : Nat) :
    Nat → Nat → Nat → Bytes → Except Err LoopOut
  | 0, _, _, _ => .error (.panic "shl-overflow")
  | fuel + 1, par, stableEnd, sum =>
    let h := par + 1
    if h ≥ 64 then
      (if shlChecked then .ok (.brk par stableEnd sum) else .error (.panic "shl-overflow"))
    else
      let size := 2 ^ h
      let start := index / size * size
      if !endSubFirst && start + size ≥ 2 ^ 64 then .error (.panic "add-overflow")
      else
        let endI := start + size - 1
        if endI ≥ n then .ok (.brk par stableEnd sum)
        else if proof.length < h then .ok (.ret false)
        else
          match proofAt proof par with
          | .error e => .error e
          | .ok pd =>
            let sum' := if index - start < 2 ^ par then nodeSum H sum pd else nodeSum H pd sum
            stableLoop shlChecked endSubFirst H proof index n fuel (par + 1) endI sum'

/-- the final `while parent < proof_set.len()` loop: every remaining element is a left sibling -/
def leftLoop (H : HashFn) (sum : Bytes) : List Bytes → Bytes
  | [] => sum
  | pd :: rest => leftLoop H (nodeSum H pd sum) rest

/-- `binary::verify(root, data, proof_set, proof_index, num_leaves)` -/
def verifyWith (shlChecked endSubFirst : Bool) (H : HashFn) (root data : Bytes) (proof : List Bytes)
    (index n : Nat) : Except Err Bool :=
  if n ≤ 1 ∧ proof ≠ [] then .ok false
  else if 1 < n ∧ some proof.length ≠ pathLengthFromKey n index n then .ok false
  else if index ≥ n then .ok false
  else
    let sum := leafSum H data
    if proof = [] then .ok (decide (n = 1 ∧ root = sum))
    else
      let lastLeaf := n - 1
      match stableLoop shlChecked endSubFirst H proof index n 64 0 index sum with
      | .error e => .error e
      | .ok (.ret b) => .ok b
      | .ok (.brk par stableEnd sum) =>
        if stableEnd ≠ lastLeaf then
          if proof.length ≤ par then .ok false
          else
            match proofAt proof par with
            | .error e => .error e
            | .ok pd => .ok (decide (leftLoop H (nodeSum H sum pd) (proof.drop (par + 1)) = root))
        else .ok (decide (leftLoop H sum (proof.drop par) = root))

def verify (H : HashFn) (root data : Bytes) (proof : List Bytes) (index n : Nat) : Except Err Bool :=
  verifyWith Gen.BinaryMerkle.verifyShlChecked Gen.BinaryMerkle.verifyEndSubFirst H root data proof index n

/-! ## histories (C11) -/

inductive Op
  | push (d : Bytes)
  | reset
  | load (k : Nat)      -- replace the tree by `MerkleTree::load(storage, k)` on its own storage
  deriving Repr

/-- one step of a history on the storage-backed tree -/
def Tree.stepWith (zeroCount : Bool) (H : HashFn) (t : Tree) : Op → Except Err Tree
  | .push d => t.push H d
  | .reset => .ok (t.resetWith zeroCount)
  | .load k => Tree.load t.storage k

def Tree.runWith (zeroCount : Bool) (H : HashFn) : Tree → List Op → Except Err Tree
  | t, [] => .ok t
  | t, op :: ops =>
    match t.stepWith zeroCount H op with
    | .error e => .error e
    | .ok t' => Tree.runWith zeroCount H t' ops

end FuelVerif.BMT
