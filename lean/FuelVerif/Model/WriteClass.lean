/-
C24: which memory an instruction may change. Hand classification of every opcode (by mnemonic of the generated
instruction table) and of every ownership-free write site of the interpreter, and the verdict function the
`c24b` stream applies to the memory diff of each single-stepped instruction.
-/
import FuelVerif.Model.Memory
import FuelVerif.Gen.Instructions
import FuelVerif.Gen.MemSites
namespace FuelVerif.Memory

/-- what an instruction is allowed to change in VM memory -/
inductive WriteClass
  /-- nothing -/
  | none
  /-- only through `write`/`write_bytes`/`memcopy`/`copy_from_storage_zero_fill` with the frame's ownership
      registers as they are BEFORE the instruction: inside `[ssp,sp)` or `[hp,prevHp)` -/
  | owned
  /-- PSHL/PSHH: the newly pushed words `[sp_before, sp_after)` (the program's own stack) -/
  | stackPush
  /-- CALL: the VM writes the call frame and the callee's code `[sp_before, ssp_after)`, and (external caller
      forwarding coins) the balance entry of the forwarded asset -/
  | callFrame
  /-- LDC: the VM appends code at `[ssp_before, ssp_after)` (ownership-checked with `only_allow_stack_write`)
      and updates the `code_size` word of the current call frame -/
  | codeLoad
  /-- TR / SMO from a script: the balance entry of the asset in the VM's balance table -/
  | balance
  /-- TRO: balance entry (script) and the variable output inside the transaction bytes -/
  | balanceAndOutput
  deriving DecidableEq, Repr

/-- classification by mnemonic (row names of `Gen.instrTable`) -/
def writeClassOf (name : String) : Option WriteClass :=
  if name ∈ ["ADD", "AND", "DIV", "EQ", "EXP", "GT", "LT", "MLOG", "MROO", "MOD", "MOVE", "MUL", "NOT", "OR", "SLL",
      "SRL", "SUB", "XOR", "MLDV", "NIOP", "RET", "RETD", "ALOC", "MEQ", "BHEI", "BURN", "CSIZ", "LOG", "LOGD", "MINT",
      "RVRT", "SCWQ", "SRW", "SWW", "SWWQ", "ED19", "TIME", "NOOP", "FLAG", "BAL", "JMP", "JNE", "ADDI", "ANDI",
      "DIVI", "EXPI", "MODI", "MULI", "ORI", "SLLI", "SRLI", "SUBI", "XORI", "JNEI", "LB", "LW", "GTF", "LQW", "LHW",
      "GM", "MOVI", "JNZI", "JMPF", "JMPB", "JNZF", "JNZB", "JNEF", "JNEB", "JI", "CFEI", "CFSI", "CFE", "CFS",
      "POPL", "POPH", "JAL", "WDCM", "WQCM", "ECAL", "BSIZ", "EPAR", "SCLR", "SWRD", "SWRI", "SUPD", "SUPI", "SPLD"]
    then some .none
  else if name ∈ ["MCL", "MCP", "BHSH", "CCP", "CROO", "CB", "SRWQ", "ECK1", "ECR1", "K256", "S256", "SB", "SW",
      "MCPI", "SQW", "SHW", "MCLI", "WDOP", "WQOP", "WDML", "WQML", "WDDV", "WQDV", "WDMD", "WQMD", "WDAM", "WQAM",
      "WDMM", "WQMM", "BLDD", "ECOP", "SRDD", "SRDI"]
    then some .owned
  else if name ∈ ["PSHL", "PSHH"] then some .stackPush
  else if name = "CALL" then some .callFrame
  else if name = "LDC" then some .codeLoad
  else if name ∈ ["TR", "SMO"] then some .balance
  else if name = "TRO" then some .balanceAndOutput
  else Option.none

/-- every opcode of the generated instruction table has a class -/
def writeClassTotal : Bool := Gen.instrTable.all (fun r => (writeClassOf r.name).isSome)

def classOfOpcode (op : Nat) : Option WriteClass :=
  match Gen.instrTable.find? (fun r => r.opcode == op) with
  | some r => writeClassOf r.name
  | Option.none => Option.none

/-- why each ownership-free write site exists (the "VM's own writes" of the property) -/
inductive SiteKind
  | callFrame | loadedCodeSize | balanceEntry | txOutput | vmInit | pushRegisters
  | ownedWrapper      -- `write` (after `verify_ownership`) and `write_bytes_noownerchecks` (thin wrapper)
  | rangeProbe        -- CROO: the returned slice is dropped, the bytes are written through `write_bytes(owner, …)`
  | testHelper        -- `IndexMut` under `cfg(test-helpers)`
  deriving DecidableEq, Repr

/-- the complete hand-classified list of `write_noownerchecks`/`write_bytes_noownerchecks` callers -/
def expectedNoOwnerCheckSites : List ((String × String) × SiteKind) := [
  (("interpreter/balances.rs", "set_memory_balance_inner"), .balanceEntry),
  (("interpreter/balances.rs", "to_vm"), .vmInit),
  (("interpreter/blockchain.rs", "code_root"), .rangeProbe),
  (("interpreter/blockchain.rs", "load_blob_code"), .loadedCodeSize),
  (("interpreter/blockchain.rs", "load_contract_code"), .loadedCodeSize),
  (("interpreter/blockchain.rs", "load_memory_code"), .loadedCodeSize),
  (("interpreter/flow.rs", "prepare_call"), .callFrame),
  (("interpreter/initialization.rs", "init_inner"), .vmInit),
  (("interpreter/internal.rs", "update_memory_output"), .txOutput),
  (("interpreter/memory.rs", "index_mut"), .testHelper),
  (("interpreter/memory.rs", "push_selected_registers"), .pushRegisters),
  (("interpreter/memory.rs", "write"), .ownedWrapper),
  (("interpreter/memory.rs", "write_bytes_noownerchecks"), .ownedWrapper)
]

/-- observation of one single-stepped instruction (registers before/after, context regions) -/
structure StepObs where
  opcode : Nat
  sspB : Nat
  spB : Nat
  hpB : Nat
  prevHpB : Nat
  fpB : Nat
  sspA : Nat
  spA : Nat
  balLo : Nat      -- VM balance table `[balLo, balHi)`
  balHi : Nat
  txLo : Nat       -- transaction bytes `[txLo, txHi)`
  txHi : Nat
  codeSizeLo : Nat -- the `code_size` word of the current call frame (`fp + code_size_offset`), 0 0 if external
  codeSizeHi : Nat

def inRange (lo hi s e : Nat) : Bool := decide (lo ≤ s ∧ e ≤ hi)

/-- is the changed range `[s,e)` (non-empty) allowed for an instruction of class `c`? -/
def allowedChange (M : Nat) (c : WriteClass) (o : StepObs) (s e : Nat) : Bool :=
  let own : Ownership := { sp := o.spB, ssp := o.sspB, hp := o.hpB, prevHp := o.prevHpB }
  match c with
  | .none => false
  | .owned => own.hasRange M s e
  | .stackPush => inRange o.spB o.spA s e
  | .callFrame => inRange o.spB o.sspA s e || inRange o.balLo o.balHi s e
  | .codeLoad => inRange o.sspB o.sspA s e || inRange o.codeSizeLo o.codeSizeHi s e
  | .balance => inRange o.balLo o.balHi s e
  | .balanceAndOutput => inRange o.balLo o.balHi s e || inRange o.txLo o.txHi s e

/-- verdict on a list of changed ranges: index of the first disallowed range, if any -/
def verdict (M : Nat) (o : StepObs) (changes : List (Nat × Nat)) : Except String Unit :=
  match classOfOpcode o.opcode with
  | Option.none => .error "unclassified-opcode"
  | some c =>
    match changes.find? (fun r => !(allowedChange M c o r.1 r.2)) with
    | some r => .error s!"disallowed {r.1} {r.2}"
    | Option.none => .ok ()

/-- outcome of an ownership-checked write of `len` bytes at `addr` on an instance with stack extent `sl` and heap
pointer `memHp` (`Mem.write` on any instance with these extents; the answer does not depend on the contents) -/
def writeOutcome (M : Nat) (sl memHp : Nat) (o : Ownership) (addr len : Nat) : Except Err Unit :=
  let m : Mem := { stackLen := sl, stack := fun _ => 0, heapLen := M - memHp, heap := fun _ => 0, hp := memHp }
  match m.write M o addr len (fun _ => 0) with
  | .ok _ => .ok ()
  | .error e => .error e

/-- outcome of `memcopy(dst, src, len, owner)` on an instance with the given extents (contents irrelevant) -/
def memcopyOutcome (M : Nat) (sl memHp : Nat) (o : Ownership) (dst src len : Nat) : Except Err Unit :=
  let m : Mem := { stackLen := sl, stack := fun _ => 0, heapLen := M - memHp, heap := fun _ => 0, hp := memHp }
  match m.memcopy M dst src len o with
  | .ok _ => .ok ()
  | .error e => .error e

end FuelVerif.Memory
