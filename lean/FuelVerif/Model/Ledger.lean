/-
Asset ledger (C27). Transcribed from
  fuel-vm/src/interpreter/contract.rs     balance, balance_increase, balance_decrease, TransferCtx::{transfer, transfer_output}
  fuel-vm/src/interpreter/balances.rs     RuntimeBalances::checked_balance_sub (internal value + VM-memory copy)
  fuel-vm/src/interpreter/internal.rs     external_asset_id_balance_sub, set_variable_output
  fuel-vm/src/interpreter.rs              ExecutableTransaction::{replace_variable_output, update_outputs}
  fuel-vm/src/interpreter/blockchain.rs   MintCtx::mint, BurnCtx::burn, MessageOutputCtx::message_output
  fuel-vm/src/interpreter/flow.rs         PrepareCallCtx::prepare_call (coin forwarding), return_from_context (frame pop)
  fuel-vm/src/checked_transaction/balances.rs  initial_free_balances
Identifiers (asset ids, contract ids) are natural numbers (the 32 bytes read big-endian); amounts are `Nat`
with the `checked_*` operator used at each site. A failing op returns the same `PanicReason`; since a panic
reverts the whole script the partially updated state is not returned.
-/
namespace FuelVerif.Ledger

def wordMax : Nat := 2 ^ 64 - 1

/-- `u64::checked_add` -/
def checkedAdd (a b : Nat) : Option Nat := if a + b > wordMax then none else some (a + b)
/-- `u64::checked_sub` -/
def checkedSub (a b : Nat) : Option Nat := if b > a then none else some (a - b)

inductive Panic
  | contractNotInInputs | transferZeroCoins | notEnoughBalance | balanceOverflow | outputNotFound
  | expectedInternalContext | contractNotFound
  deriving DecidableEq, Repr, Inhabited

structure Ledger where
  base : Nat                          -- base asset id
  cids : List Nat                     -- `input_contracts` (a BTreeSet: no duplicates)
  code : List Nat                     -- contracts whose code exists in storage
  free : Nat → Option Nat             -- RuntimeBalances: internal value per asset present at initialisation
  mem : Nat → Option Nat              -- the copy of the balance table in VM memory
  bal : Nat → Nat → Option Nat        -- ContractsAssets storage: (contract, asset) ↦ balance, `none` = no entry
  varOut : List (Nat × Nat)           -- variable outputs in order: (asset, amount)
  minted : Nat → Nat
  burned : Nat → Nat
  msgOut : Nat                        -- Σ amounts of MessageOut receipts
  ctx : List Nat                      -- call frames, innermost first (`frames` / `$fp`)

def updF (f : Nat → Option Nat) (a v : Nat) : Nat → Option Nat := fun x => if x = a then some v else f x
def updB (f : Nat → Nat → Option Nat) (c a v : Nat) : Nat → Nat → Option Nat :=
  fun c' a' => if c' = c ∧ a' = a then some v else f c' a'
def updN (f : Nat → Nat) (a v : Nat) : Nat → Nat := fun x => if x = a then v else f x

/-- contract.rs `balance`: missing entry reads as 0 -/
def balance (s : Ledger) (c a : Nat) : Nat := (s.bal c a).getD 0

/-- contract.rs `balance_decrease` -/
def balanceDecrease (s : Ledger) (c a amt : Nat) : Except Panic Ledger :=
  if amt = 0 then .ok s
  else match checkedSub (balance s c a) amt with
    | none => .error .notEnoughBalance
    | some v => .ok { s with bal := updB s.bal c a v }

/-- contract.rs `balance_increase` (the returned "created new entry" flag only matters for gas, C26) -/
def balanceIncrease (s : Ledger) (c a amt : Nat) : Except Panic Ledger :=
  if amt = 0 then .ok s
  else match checkedAdd (balance s c a) amt with
    | none => .error .balanceOverflow
    | some v => .ok { s with bal := updB s.bal c a v }

/-- balances.rs `checked_balance_sub` via internal.rs `external_asset_id_balance_sub`:
    internal value and memory copy are written together; an absent asset accepts only amount 0 -/
def externalSub (s : Ledger) (a amt : Nat) : Except Panic Ledger :=
  match s.free a with
  | some v =>
    match checkedSub v amt with
    | some v' => .ok { s with free := updF s.free a v', mem := updF s.mem a v' }
    | none => if amt = 0 then .ok s else .error .notEnoughBalance
  | none => if amt = 0 then .ok s else .error .notEnoughBalance

/-- debit the funding source: the current contract's balance, or the free balance in a script context -/
def debit (s : Ledger) (a amt : Nat) : Except Panic Ledger :=
  match s.ctx with
  | c :: _ => balanceDecrease s c a amt
  | [] => externalSub s a amt

/-- interpreter.rs `replace_variable_output`: the slot must be a variable output whose amount is still 0 -/
def setVar (vs : List (Nat × Nat)) (idx a amt : Nat) : Option (List (Nat × Nat)) :=
  match vs[idx]? with
  | some (_, 0) => some (vs.set idx (a, amt))
  | _ => none

inductive Op
  | tr (dest amt asset : Nat)              -- TR  $rA=dest, $rB=amount, $rC=asset
  | tro (to idx amt asset : Nat)           -- TRO (idx = index among the variable outputs; other outputs ⇒ OutputNotFound)
  | call (dest amt asset : Nat)            -- CALL coin forwarding + frame push
  | ret                                    -- RET/RETD inside a call: frame pop
  | mint (amt asset : Nat)                 -- MINT; asset = current_contract.asset_id(sub_id)
  | burn (amt asset : Nat)
  | smo (amt : Nat)
  deriving DecidableEq, Repr, Inhabited

/-- what the receipt of a successful op reports: kind, amount, asset, sender (0 = script), recipient -/
structure Rcpt where
  kind : String
  amt : Nat
  asset : Nat
  deriving DecidableEq, Repr, Inhabited

def applyOp (s : Ledger) : Op → Except Panic (Ledger × Option Rcpt)
  | .tr dest amt asset =>
    -- transfer(): check_contract_in_inputs; amount == 0; debit; credit; receipt
    if !s.cids.contains dest then .error .contractNotInInputs
    else if amt = 0 then .error .transferZeroCoins
    else match debit s asset amt with
      | .error e => .error e
      | .ok s1 => match balanceIncrease s1 dest asset amt with
        | .error e => .error e
        | .ok s2 => .ok (s2, some ⟨"transfer", amt, asset⟩)
  | .tro _to idx amt asset =>
    -- transfer_output(): amount == 0; debit; set_variable_output; receipt
    if amt = 0 then .error .transferZeroCoins
    else match debit s asset amt with
      | .error e => .error e
      | .ok s1 => match setVar s1.varOut idx asset amt with
        | none => .error .outputNotFound
        | some vs => .ok ({ s1 with varOut := vs }, some ⟨"transfer_out", amt, asset⟩)
  | .call dest amt asset =>
    -- prepare_call(): contract_size (ContractNotFound); debit; check_contract_in_inputs; credit; frame
    if !s.code.contains dest then .error .contractNotFound
    else match debit s asset amt with
      | .error e => .error e
      | .ok s1 =>
        if !s1.cids.contains dest then .error .contractNotInInputs
        else match balanceIncrease s1 dest asset amt with
          | .error e => .error e
          | .ok s2 => .ok ({ s2 with ctx := dest :: s2.ctx }, some ⟨"call", amt, asset⟩)
  | .ret => .ok ({ s with ctx := s.ctx.tail }, none)
  | .mint amt asset =>
    match s.ctx with
    | [] => .error .expectedInternalContext
    | c :: _ =>
      match checkedAdd (balance s c asset) amt with
      | none => .error .balanceOverflow
      | some v => .ok ({ s with bal := updB s.bal c asset v, minted := updN s.minted asset (s.minted asset + amt) },
                       some ⟨"mint", amt, asset⟩)
  | .burn amt asset =>
    match s.ctx with
    | [] => .error .expectedInternalContext
    | c :: _ =>
      match checkedSub (balance s c asset) amt with
      | none => .error .notEnoughBalance
      | some v => .ok ({ s with bal := updB s.bal c asset v, burned := updN s.burned asset (s.burned asset + amt) },
                       some ⟨"burn", amt, asset⟩)
  | .smo amt =>
    match debit s s.base amt with
    | .error e => .error e
    | .ok s1 => .ok ({ s1 with msgOut := s1.msgOut + amt }, some ⟨"message_out", amt, s.base⟩)

/-- run a history; a panic ends (and reverts) the script -/
def runOps (s : Ledger) : List Op → Except Panic Ledger
  | [] => .ok s
  | op :: ops =>
    match applyOp s op with
    | .error e => .error e
    | .ok (s', _) => runOps s' ops

/-! ### per-asset totals -/

def csum (cids : List Nat) (bal : Nat → Nat → Option Nat) (a : Nat) : Nat :=
  (cids.map (fun c => (bal c a).getD 0)).sum

def varSum (vs : List (Nat × Nat)) (a : Nat) : Nat :=
  (vs.map (fun p => if p.1 = a then p.2 else 0)).sum

/-- everything asset `a` can sit in during execution -/
def holdings (s : Ledger) (a : Nat) : Nat :=
  (s.free a).getD 0 + csum s.cids s.bal a + varSum s.varOut a + s.burned a + (if a = s.base then s.msgOut else 0)

/-! ### finalisation (interpreter.rs `update_outputs`) and the initial free balances -/

/-- balances.rs `RuntimeBalances::try_from(InitialBalances)` (called by `init_script`; `to_vm` then copies the values into
    VM memory): the checked transaction's non-retryable balances with the retryable (message-data) amount
    `checked_add`ed onto the base asset's entry (`entry(base).or_default()`); `none` = `ValidityError::BalanceOverflow`,
    the VM refuses to initialise -/
def runtimeFree (base : Nat) (nonRetryable : List (Nat × Nat)) (retry : Nat) : Option (Nat → Option Nat) :=
  match checkedAdd ((nonRetryable.lookup base).getD 0) retry with
  | none => none
  | some v => some (fun a => if a = base then some v else nonRetryable.lookup a)

/-- amount written into the change output for asset `a` -/
def changeAmount (s : Ledger) (initial : Nat → Option Nat) (revert : Bool) (refund : Nat) (a : Nat) : Option Nat :=
  let src := if revert then initial a else s.free a
  match src with
  | none => none                                     -- Rust: index panics (excluded by transaction validity)
  | some v => if a = s.base then checkedAdd v refund else some v

/-- variable outputs after finalisation -/
def finalVars (s : Ledger) (revert : Bool) : List (Nat × Nat) :=
  if revert then s.varOut.map (fun p => (p.1, 0)) else s.varOut

end FuelVerif.Ledger
