/-
C06 model, part 2: the hand-written backward-compatible serde of `Policies`
(fuel-tx/src/transaction/policies.rs: `impl Serialize`, `visit_seq`, `visit_map`) at the level of the
serde data model (`Serde.Tree`). Flag positions and the legacy flag set of each of the three sites
come from `Gen/Policies.lean`.
-/
import FuelVerif.Model.Serde
import FuelVerif.Gen.Policies
namespace FuelVerif.PoliciesSerde
open FuelVerif.Serde FuelVerif.Gen.Policies

structure Policies where
  bits : Nat
  values : List Nat          -- `[Word; POLICIES_NUMBER]`
  deriving DecidableEq, Repr

inductive Err
  | invalidLength0 | invalidLength1 | notSynchronized | duplicateBits | duplicateValues
  | bitsBeforeValues | missingBits | missingValues | wrongType
  deriving DecidableEq, Repr

/-- bit positions in the iteration order of `PoliciesBits::all().iter()` -/
def flagBits : List Nat := flags.map (fun f => f.2.1)

/-- `bits.intersection(all) == bits.intersection(A ∪ B ∪ …)` -/
def isLegacy (mask bits : Nat) : Bool := (bits &&& allMask) == (bits &&& mask)

/-- `for (value, bit) in self.values.iter().zip(PoliciesBits::all().iter()) { if self.bits.contains(bit) { push } }` -/
def gather (bits : Nat) : List Nat → List Nat → List Nat
  | v :: vs, b :: bs => if bits.testBit b then v :: gather bits vs bs else gather bits vs bs
  | _, _ => []

/-- `impl serde::Serialize for Policies` -/
def ser (p : Policies) : Tree :=
  .tuple [.u32 p.bits,
    if isLegacy legacyMaskSer p.bits then .tuple ((p.values.take 4).map .u64)
    else .seq ((gather p.bits p.values flagBits).map .u64)]

/-- the compact-layout loop of `visit_seq`/`visit_map`: one decoded value per set flag, in flag order;
returns the values array and the undecoded rest -/
def scatter (bits : Nat) : List Nat → List Nat → Except Err (List Nat × List Nat)
  | [], dec => .ok ([], dec)
  | b :: bs, dec =>
    if bits.testBit b then
      match dec with
      | [] => .error .notSynchronized
      | v :: rest =>
        match scatter bits bs rest with
        | .ok (vals, r) => .ok (v :: vals, r)
        | .error e => .error e
    else
      match scatter bits bs dec with
      | .ok (vals, r) => .ok (0 :: vals, r)
      | .error e => .error e

def u64s : List Tree → Option (List Nat)
  | [] => some []
  | .u64 n :: ts => (u64s ts).map (n :: ·)
  | _ => none

/-- decoding of the `values` element for given `bits`, shared shape of both visitors -/
def decodeValues (mask bits : Nat) (t : Tree) (missing : Err) : Except Err (List Nat) :=
  if isLegacy mask bits then
    match t with
    | .tuple xs =>
      match u64s xs with
      | some vs => if vs.length = 4 then .ok (vs ++ List.replicate (policiesNumber - 4) 0) else .error .wrongType
      | none => .error .wrongType
    | _ => .error .wrongType
  else
    match t with
    | .seq xs =>
      match u64s xs with
      | some vs =>
        match scatter bits flagBits vs with
        | .ok (vals, []) => .ok vals
        | .ok (_, _ :: _) => .error .notSynchronized
        | .error e => .error e
      | none => .error .wrongType
    | _ => .error missing

/-- `StructVisitor::visit_seq` (postcard, bincode) -/
def deSeq : Tree → Except Err Policies
  | .tuple [] => .error .invalidLength0
  | .tuple [.u32 _] => .error .invalidLength1
  | .tuple (.u32 bits :: t :: _) =>
    match decodeValues legacyMaskSeq bits t .wrongType with
    | .ok vals => .ok ⟨bits, vals⟩
    | .error e => .error e
  | _ => .error .wrongType

/-- the value-level check `visit_seq` adds on top of the layout-dependent shape (used at `sel` nodes) -/
def policiesValid (t : Tree) : Bool :=
  match deSeq t with
  | .ok _ => true
  | .error _ => false

structure MapState where
  bits : Option Nat := none
  values : Option (List Nat) := none

/-- `StructVisitor::visit_map` (serde_json): keys in document order; unknown keys ignored -/
def deMapAux : List (String × Tree) → MapState → Except Err MapState
  | [], st => .ok st
  | (k, t) :: rest, st =>
    if k = "bits" then
      match st.bits, t with
      | some _, _ => .error .duplicateBits
      | none, .u32 b => deMapAux rest { st with bits := some b }
      | none, _ => .error .wrongType
    else if k = "values" then
      match st.values, st.bits with
      | some _, _ => .error .duplicateValues
      | none, none => .error .bitsBeforeValues
      | none, some b =>
        match decodeValues legacyMaskMap b t .wrongType with
        | .ok vals => deMapAux rest { st with values := some vals }
        | .error e => .error e
    else deMapAux rest st

def deMap (fields : List (String × Tree)) : Except Err Policies :=
  match deMapAux fields {} with
  | .error e => .error e
  | .ok st =>
    match st.bits, st.values with
    | none, _ => .error .missingBits
    | some _, none => .error .missingValues
    | some b, some v => .ok ⟨b, v⟩

/-- what every `Policies` built through the public API satisfies (`new`, `set`, canonical decode,
serde decode): the array has one slot per flag and slots of unset flags are zero where the chosen
layout does not carry them -/
def UnsetZero (bits : Nat) : List Nat → List Nat → Prop
  | [], [] => True
  | v :: vs, b :: bs => (bits.testBit b = false → v = 0) ∧ UnsetZero bits vs bs
  | _, _ => False

def Canonical (p : Policies) : Prop := p.bits < 2 ^ 32 ∧ UnsetZero p.bits p.values flagBits

end FuelVerif.PoliciesSerde
