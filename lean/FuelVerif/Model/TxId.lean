/-
C03 — the transaction id (fuel-tx/src/transaction/id.rs, types.rs `compute_transaction_id`,
types/chargeable_transaction.rs `prepare_sign` / `UniqueIdentifier::id` / `cached_id`, types/mint.rs `id`,
and every `prepare_sign` of types/{script,create,upload,blob,upgrade}.rs, types/input/{coin,contract,message}.rs,
types/output.rs, types/output/contract.rs; metadata.rs `CommonMetadata::compute` stores `id`).

`prepare_sign` is a tree of "set this field to its default" instructions. It is modelled as a `Mask` — a tree
parallel to the value saying, for each position, keep / replace by the default / clear the vector — and one
interpreter `Mask.apply`. The masks are *computed* from the regenerated tables: which fields each struct-level
`prepare_sign` assigns (`Gen/PrepareSign.lean`, tools/gen/prepare_sign.py, from the Rust function bodies) and
where those fields are in the struct (`Gen/Canonical.lean`, the derive tables). Nothing about which field is
zeroed is written by hand.

  strip tx  = the clone after `prepare_sign()` and `witnesses_mut().clear()`   (`stripTx`)
  id        = H (chain_id.to_be_bytes() ++ strip(tx).to_bytes())               (`freshId`)
  `id()`    = the cached id if the metadata is there, else `freshId`            (`txId`)

`H` is a parameter (the driver instantiates SHA-256). The skipped `metadata` field of the clone is not on the
wire; the model's `strip` normalises that slot to `unit`.
-/
import FuelVerif.Model.Offsets
import FuelVerif.Gen.PrepareSign
import FuelVerif.Gen.Precompute
namespace FuelVerif.TxId
open FuelVerif FuelVerif.Canonical FuelVerif.Canonical.Resolve FuelVerif.Canonical.TxDesc FuelVerif.Offsets
open FuelVerif.Gen.Canonical (structs enums inputVariants StructRow FieldRow)

/-- what signing preparation does at each position of a value -/
inductive Mask
  /-- untouched -/
  | keep
  /-- replaced by this (default) value -/
  | zero (dv : Val)
  /-- a field and the remaining fields -/
  | pair (a b : Mask)
  /-- enum: this variant's payload, or the remaining variants -/
  | alt (a rest : Mask)
  /-- every element of a vector -/
  | each (m : Mask)
  /-- the vector is emptied (`witnesses_mut().clear()`) / the slot is not on the wire -/
  | clear
  deriving DecidableEq, Repr, Inhabited

/-- run the instructions on a value (positions the mask does not fit are left alone) -/
def Mask.apply : Mask → Val → Val
  | .keep, v => v
  | .zero dv, _ => dv
  | .clear, _ => .unit
  | .pair a b, .pair x y => .pair (a.apply x) (b.apply y)
  | .alt a _, .inl x => .inl (a.apply x)
  | .alt _ r, .inr x => .inr (r.apply x)
  | .each m, .pair x y => .pair (m.apply x) ((Mask.each m).apply y)
  | _, v => v

/-- `v` and `w` are equal except at the positions the mask zeroes or clears -/
def Mask.agree : Mask → Val → Val → Prop
  | .keep, v, w => v = w
  | .zero _, _, _ => True
  | .clear, _, _ => True
  | .pair a b, .pair x y, .pair x' y' => a.agree x x' ∧ b.agree y y'
  | .alt a _, .inl x, .inl x' => a.agree x x'
  | .alt _ r, .inr x, .inr x' => r.agree x x'
  | .each m, .pair x y, .pair x' y' => m.agree x x' ∧ (Mask.each m).agree y y'
  | _, v, w => v = w

/-! ### masks from the tables -/

/-- fields of a struct: `zs` = names assigned `Default::default()`; `names`, `d` = the struct's field names and
descriptor. A zeroed field gets `dflt` of its descriptor (for an `Empty<T>` field that is `unit`, its only
value: `as_mut_field()` is `None` there and nothing happens). -/
def fieldsMask (zs : List String) : List String → Desc → Mask
  | n :: ns, .pair a b => .pair (if zs.contains n then .zero (dflt a) else .keep) (fieldsMask zs ns b)
  | ns, .pre _ d => fieldsMask zs ns d
  | _, _ => .keep

def fieldNamesOf (structName : String) : List String :=
  match structs.find? (fun r => r.name == structName) with
  | some sr => sr.fields.map (·.name)
  | none => []

/-- the fields the struct's `prepare_sign` zeroes (`none`: the struct has no `prepare_sign` in the table) -/
def zeroedOf (structName : String) : Option (List String) := Gen.PrepareSign.structs.lookup structName

/-- mask of a struct-level `prepare_sign` on a value of descriptor `d` -/
def structMask (structName : String) (d : Desc) : Mask :=
  match zeroedOf structName with
  | some zs => fieldsMask zs (fieldNamesOf structName) d
  | none => .keep

/-- variants of `Input`, right-nested: `Input::prepare_sign` delegates to the struct of the variant -/
def inputMaskOf : List (String × String × String × String) → List (Nat × Desc) → Mask
  | r :: rs, pd :: pds =>
    .alt (if Gen.PrepareSign.inputVariants.contains r.1 then structMask r.2.2.1 pd.2 else .keep) (inputMaskOf rs pds)
  | _, _ => .keep

def inputMask : Mask := inputMaskOf inputVariants InputCodec.variantDescs

/-- the variant rows of `enum Output` -/
def outputRows : List Gen.Canonical.VariantRow :=
  match enums.find? (fun e => e.name == "Output") with
  | some e => e.variants
  | none => []

/-- payload descriptors of the variants of an enum descriptor -/
def altDescs : Desc → List Desc
  | .enum a => altDescs a
  | .alt _ d rest => d :: altDescs rest
  | _ => []

/-- `Output::prepare_sign`: per variant — delegate to the payload struct (`Contract(contract) => contract.prepare_sign()`),
assign defaults to the listed fields, or nothing -/
def outputMaskOf : List Gen.Canonical.VariantRow → List Desc → Mask
  | r :: rs, d :: ds =>
    .alt (match Gen.PrepareSign.outputs.lookup r.name with
      | some none =>
        -- tuple variant `Contract(Contract)`: one field, the struct
        (match d, r.fields with
         | .pair sd .unit, [f] => (match f.ty with | .named s => .pair (structMask s sd) .keep | _ => .keep)
         | _, _ => .keep)
      | some (some zs) => fieldsMask zs (r.fields.map (·.name)) d
      | none => .keep) (outputMaskOf rs ds)
  | _, _ => .keep

def outputMask : Mask := outputMaskOf outputRows (altDescs TxDesc.output)

/-- `ChargeableTransaction::prepare_sign` then `witnesses_mut().clear()` (and the skipped metadata slot) -/
def chargeableMask (k : Kind) : Mask :=
  match k.desc with
  | .pair b _ => .pair (structMask k.bodyStruct b) (.pair .keep (.pair (.each inputMask) (.pair (.each outputMask) (.pair .clear (.pair .clear .keep)))))
  | _ => .keep

/-- `Mint::id`: `clone.input_contract.prepare_sign(); clone.output_contract.prepare_sign();` (and the skipped metadata slot) -/
def mintMask : Mask :=
  let names := fieldNamesOf "Mint"
  let rec go : List String → Desc → Mask
    | n :: ns, .pair a b =>
      .pair (if n == "input_contract" then structMask "InputContract" a
             else if n == "output_contract" then structMask "OutputContract" a
             else if n == "metadata" then .clear else .keep) (go ns b)
    | ns, .pre _ d => go ns d
    | _, _ => .keep
  go names Kind.mint.desc

def maskOf (k : Kind) : Mask := if k = .mint then mintMask else chargeableMask k

/-- the clone after signing preparation -/
def stripTx (k : Kind) (v : Val) : Val := (maskOf k).apply v

/-- `chain_id.to_be_bytes()` -/
def chainBytes (chain : Nat) : Bytes := natBE 8 chain

/-- the bytes `compute_transaction_id` feeds to the hasher -/
def preimage (chain : Nat) (k : Kind) (v : Val) : Bytes := chainBytes chain ++ encode env k.desc (stripTx k v)

/-- `compute_transaction_id` on the prepared clone -/
def freshId (H : Bytes → Bytes) (chain : Nat) (k : Kind) (v : Val) : Bytes := H (preimage chain k v)

/-- `UniqueIdentifier::cached_id` (chargeable kinds: `metadata.common.id`) -/
def cachedId (t : Tx) : Option Bytes := t.metadata.map (·.common.id)

/-- `UniqueIdentifier::id`: `if let Some(id) = self.cached_id() { return id }` else compute -/
def txId (H : Bytes → Bytes) (chain : Nat) (t : Tx) : Bytes :=
  match cachedId t with
  | some id => id
  | none => freshId H chain t.kind t.val

/-- `Cacheable::precompute` (chargeable kinds): the effects of the kind's body in source order (`Offsets.Tx.precompute`), where
`CommonMetadata::compute`'s first statement `let id = tx.id(chain_id)` reads the id of the object AS IT IS at that moment —
the cached one if the metadata has not been reset before -/
def precompute (H : Bytes → Bytes) (chain : Nat) (t : Tx) : Except Tx.TooLarge Tx :=
  Tx.precompute (fun cur => txId H chain cur) t

/-- Mint: value and `Option<MintMetadata>` (`MintMetadata { id }`) -/
structure MintTx where
  val : Val
  metadata : Option Bytes
  deriving Repr, Inhabited

def MintTx.cachedId (t : MintTx) : Option Bytes := t.metadata
def MintTx.id (H : Bytes → Bytes) (chain : Nat) (t : MintTx) : Bytes :=
  match t.cachedId with
  | some id => id
  | none => freshId H chain .mint t.val
/-- the effects of `Mint::precompute` in source order (tools/gen/precompute.py): `reset` = `self.metadata = None`,
`id` = `MintMetadata::compute(self, chain_id)` = `tx.id(chain_id)` of the object at that moment, `store` -/
inductive MStep | reset | id | store
  deriving DecidableEq, Repr, Inhabited
def MStep.ofEvent : String → Option MStep
  | "reset" => some .reset | "id" => some .id | "store" => some .store | _ => none
def mintSteps : List MStep := ((Gen.Precompute.order.lookup "Mint").getD []).filterMap MStep.ofEvent

def MintTx.runSteps (H : Bytes → Bytes) (chain : Nat) : List MStep → MintTx → Option Bytes → MintTx
  | [], t, _ => t
  | .reset :: rest, t, i => MintTx.runSteps H chain rest { t with metadata := none } i
  | .id :: rest, t, _ => MintTx.runSteps H chain rest t (some (t.id H chain))
  | .store :: rest, t, i =>
    match i with
    | some x => MintTx.runSteps H chain rest { t with metadata := some x } i
    | none => MintTx.runSteps H chain rest t i

/-- `Mint::precompute` -/
def MintTx.precompute (H : Bytes → Bytes) (chain : Nat) (t : MintTx) : MintTx := MintTx.runSteps H chain mintSteps t none

end FuelVerif.TxId
