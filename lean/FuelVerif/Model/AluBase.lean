/-
Shared base of the instruction-semantics models (C21 register ALU, C22 wide integers, C25 control flow):
panic reasons, the register file, flag tests, `inc_pc`, the reserved-register rule.
Register ids, flag bits and VM_MAX_RAM come from the generated `Gen/AluArgs.lean`.
Words are `Nat`s; every Rust operator is mirrored explicitly (`% 2^64`, saturating helpers).
-/
import FuelVerif.Gen.AluArgs
namespace FuelVerif.Alu
open FuelVerif.Gen.AluArgs

/-- the `PanicReason` variants these instruction families can raise; `HostPanic` stands for a Rust
`expect`/`unreachable!` firing (never a `PanicReason`) — proved unreachable in Props. -/
inductive Panic
  | ReservedRegisterNotWritable | ArithmeticOverflow | ArithmeticError | InvalidImmediateValue
  | MemoryOverflow | UninitalizedMemoryAccess | MemoryOwnership | InvalidInstruction | MemoryNotExecutable
  | HostPanic
  deriving DecidableEq, Repr, Inhabited

def Panic.name : Panic → String
  | .ReservedRegisterNotWritable => "ReservedRegisterNotWritable"
  | .ArithmeticOverflow => "ArithmeticOverflow"
  | .ArithmeticError => "ArithmeticError"
  | .InvalidImmediateValue => "InvalidImmediateValue"
  | .MemoryOverflow => "MemoryOverflow"
  | .UninitalizedMemoryAccess => "UninitalizedMemoryAccess"
  | .MemoryOwnership => "MemoryOwnership"
  | .InvalidInstruction => "InvalidInstruction"
  | .MemoryNotExecutable => "MemoryNotExecutable"
  | .HostPanic => "HOST-PANIC"

/-- `[Word; VM_REGISTER_COUNT]`, indexed by `RegId` (always `< 64`) -/
def Regs := Nat → Nat

def Regs.set (r : Regs) (i v : Nat) : Regs := fun j => if j = i then v else r j

@[simp] theorem Regs.set_same (r : Regs) (i v : Nat) : (r.set i v) i = v := by simp [Regs.set]
theorem Regs.set_other (r : Regs) (i v j : Nat) (h : j ≠ i) : (r.set i v) j = r j := by simp [Regs.set, h]

/-- `u64::MAX` -/
def u64Max : Nat := 2 ^ 64 - 1

/-- `u64::saturating_add` -/
def satAdd (a b : Nat) : Nat := if a + b < 2 ^ 64 then a + b else 2 ^ 64 - 1
/-- `u64::saturating_mul` -/
def satMul (a b : Nat) : Nat := if a * b < 2 ^ 64 then a * b else 2 ^ 64 - 1

/-- `Instruction::SIZE` = `size_of::<u32>()` -/
def instrSize : Nat := 4

/-- `internal::inc_pc`: `*pc = pc.saturating_add(Instruction::SIZE)` -/
def incPc (r : Regs) : Regs := r.set regPC (satAdd (r regPC) instrSize)

/-- `flags(flag) = Flags::from_bits_truncate(*flag)`; `.contains(Flags::WRAPPING)` -/
def isWrapping (flag : Nat) : Bool := (flag &&& flagWRAPPING) == flagWRAPPING
/-- `.contains(Flags::UNSAFEMATH)` -/
def isUnsafeMath (flag : Nat) : Bool := (flag &&& flagUNSAFEMATH) == flagUNSAFEMATH

/-- `WriteRegKey::new` (`ra.try_into()?`): keys below `RegId::WRITABLE` are rejected -/
def writeRegKey (ra : Nat) : Except Panic Nat :=
  if ra ≥ regWRITABLE then .ok ra else .error .ReservedRegisterNotWritable

/-- outcome of one instruction on the register file: the registers afterwards (also on a panic:
whatever the Rust code had already written before returning `Err`) and the panic reason, if any -/
abbrev Out := Regs × Option Panic

end FuelVerif.Alu
