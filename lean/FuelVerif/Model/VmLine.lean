/- Line-protocol helpers shared by the instruction-semantics driver streams (c21, c22, c25):
sparse register lists `idx:val`, register diffs. -/
import FuelVerif.Basic.Loop
import FuelVerif.Model.AluBase
namespace FuelVerif.VmLine
open FuelVerif FuelVerif.Alu

/-- parse `idx:val` -/
def parsePair (s : String) : Option (Nat × Nat) :=
  match s.splitOn ":" with
  | [a, b] => match a.toNat?, b.toNat? with
    | some a, some b => some (a, b)
    | _, _ => none
  | _ => none

/-- registers from a sparse list over zeros (as an array, built once per request) -/
def arrOfPairs (ps : List (Nat × Nat)) : Array Nat :=
  ps.foldl (fun (a : Array Nat) p => a.setIfInBounds p.1 p.2) (Array.replicate 64 0)

def regsOfArray (a : Array Nat) : Regs := fun i => a.getD i 0

def parseRegArr (ws : List String) : Array Nat := arrOfPairs (ws.filterMap parsePair)

/-- the 64 register values of `r` as an array (forces the model's closure chain once) -/
def arrOfRegs (r : Regs) : Array Nat := (Array.range 64).map r

/-- changed registers, gas registers (9, 10) excluded, ` idx:val` in index order -/
def fmtDiff (before after : Array Nat) : String :=
  (List.range 64).foldl (fun acc i =>
    if i == 9 || i == 10 then acc
    else if before.getD i 0 != after.getD i 0 then acc ++ s!" {i}:{after.getD i 0}" else acc) ""

def fmtOut (before : Array Nat) (o : Out) : String :=
  (match o.2 with | none => "ok" | some p => p.name) ++ fmtDiff before (arrOfRegs o.1)

end FuelVerif.VmLine
