/-
Executable model of the deployment / blob / upload / upgrade tables (C35), transcribed in the code's order
of effects from
  fuel-vm/src/interpreter/executors/main.rs   deploy_inner, blob_inner, upload_inner,
                                              upload_bytecode_subsection, upgrade_inner
  fuel-vm/src/storage/interpreter.rs          storage_contract_exists, deploy_contract_with_id,
                                              contains_state_transition_bytecode_root
  fuel-vm/src/storage/memory.rs               set_consensus_parameters, set_state_transition_bytecode,
                                              StorageMutate<UploadedBytecodes / BlobData / ContractsRawCode>
  fuel-vm/src/storage.rs                      UploadedBytecode::{Uncompleted, Completed}
The operations take a transaction that already passed `into_checked` (ids and roots computed, Merkle proof of
an upload subsection and the privileged signer verified there); fee / output finalisation is not modelled.
`restore` = does `upgrade_inner` put the previous entry back when the next version is already taken
(extracted from the Rust text by the translator `upgradeorder`; `false` on the code as it is today).
Core Lean only.
-/
import FuelVerif.Basic.Util
namespace FuelVerif.Tables
open FuelVerif

/-- `UploadedBytecode` -/
inductive Uploaded
  | uncompleted (bytecode : Bytes) (uploadedSubsectionsNumber : Nat)
  | completed (bytecode : Bytes)
  deriving DecidableEq, Repr

/-- `PanicReason`s / `Bug`s reachable from the modelled functions -/
inductive Err
  | ContractIdAlreadyDeployed | BlobIdAlreadyUploaded | BytecodeAlreadyUploaded
  | ThePartIsNotSequentiallyConnected | ArithmeticOverflow | BugNextSubsectionIndexIsHigher
  | OverridingConsensusParameters | OverridingStateTransactionBytecode | UnknownStateTransactionBytecodeRoot
  deriving DecidableEq, Repr

def Err.name : Err → String
  | .ContractIdAlreadyDeployed => "ContractIdAlreadyDeployed" | .BlobIdAlreadyUploaded => "BlobIdAlreadyUploaded"
  | .BytecodeAlreadyUploaded => "BytecodeAlreadyUploaded"
  | .ThePartIsNotSequentiallyConnected => "ThePartIsNotSequentiallyConnected" | .ArithmeticOverflow => "ArithmeticOverflow"
  | .BugNextSubsectionIndexIsHigher => "Bug"
  | .OverridingConsensusParameters => "OverridingConsensusParameters"
  | .OverridingStateTransactionBytecode => "OverridingStateTransactionBytecode"
  | .UnknownStateTransactionBytecodeRoot => "UnknownStateTransactionBytecodeRoot"

/-- the `MemoryStorage.memory` tables the four transaction kinds touch, and the two current versions -/
structure T where
  contracts : Bytes → Option Bytes                 -- ContractsRawCode
  slots : Bytes × Bytes → Option Bytes             -- ContractsState (initial storage slots)
  blobs : Bytes → Option Bytes                     -- BlobData
  uploaded : Bytes → Option Uploaded               -- state_transition_bytecodes
  cpVersions : Nat → Option Bytes                  -- consensus_parameters_versions
  stVersions : Nat → Option Bytes                  -- state_transition_bytecodes_versions
  curCp : Nat                                      -- consensus_parameters_version
  curSt : Nat                                      -- state_transition_version

def T.empty : T :=
  { contracts := fun _ => none, slots := fun _ => none, blobs := fun _ => none, uploaded := fun _ => none,
    cpVersions := fun _ => none, stVersions := fun _ => none, curCp := 0, curSt := 0 }

def updB {α : Type} (f : Bytes → α) (k : Bytes) (v : α) : Bytes → α := fun k' => if k' = k then v else f k'
def updN {α : Type} (f : Nat → α) (k : Nat) (v : α) : Nat → α := fun k' => if k' = k then v else f k'

/-- `deploy_contract_with_id`: the slot loop -/
def insertSlots (slots : Bytes × Bytes → Option Bytes) (id : Bytes) : List (Bytes × Bytes) → Bytes × Bytes → Option Bytes
  | [] => slots
  | (k, v) :: rest => insertSlots (fun q => if q = (id, k) then some v else slots q) id rest

/-- `deploy_inner` (`id` = `Contract::id(salt, code root, state root)`, computed by `into_checked`) -/
def deploy (t : T) (id code : Bytes) (storageSlots : List (Bytes × Bytes)) : T × Except Err Unit :=
  if (t.contracts id).isSome then (t, .error .ContractIdAlreadyDeployed)    -- storage_contract_exists
  else
    ({ t with contracts := updB t.contracts id (some code), slots := insertSlots t.slots id storageSlots }, .ok ())

/-- `blob_inner` (`id` = `BlobId::compute(data)`): `replace` first, then the `old.is_some()` check -/
def blob (t : T) (id data : Bytes) : T × Except Err Unit :=
  let old := t.blobs id
  let t := { t with blobs := updB t.blobs id (some data) }
  if old.isSome then (t, .error .BlobIdAlreadyUploaded) else (t, .ok ())

/-- `upload_bytecode_subsection` -/
def uploadSubsection (bytecode : Bytes) (uploadedNumber subsectionIndex subsectionsNumber : Nat) (part : Bytes) :
    Except Err Uploaded :=
  if subsectionIndex ≠ uploadedNumber then .error .ThePartIsNotSequentiallyConnected
  else
    let bytecode := bytecode ++ part
    -- uploaded_subsections_number.checked_add(1) on u16
    if uploadedNumber + 1 > 65535 then .error .ArithmeticOverflow
    else
      let new := uploadedNumber + 1
      if new > subsectionsNumber then .error .BugNextSubsectionIndexIsHigher
      else if subsectionsNumber = new then .ok (.completed bytecode)
      else .ok (.uncompleted bytecode new)

/-- `upload_inner` -/
def upload (t : T) (root : Bytes) (subsectionIndex subsectionsNumber : Nat) (part : Bytes) : T × Except Err Unit :=
  let cur := (t.uploaded root).getD (.uncompleted [] 0)
  match cur with
  | .completed _ => (t, .error .BytecodeAlreadyUploaded)
  | .uncompleted bytecode n =>
    match uploadSubsection bytecode n subsectionIndex subsectionsNumber part with
    | .error e => (t, .error e)
    | .ok new => ({ t with uploaded := updB t.uploaded root (some new) }, .ok ())

/-- `current_version.saturating_add(1)` on u32 -/
def nextVersion (v : Nat) : Nat := if v + 1 > 4294967295 then 4294967295 else v + 1

/-- `upgrade_inner`, `UpgradePurpose::ConsensusParameters` -/
def upgradeCp (restore : Bool) (t : T) (params : Bytes) : T × Except Err Unit :=
  let next := nextVersion t.curCp
  let prev := t.cpVersions next
  let t' := { t with cpVersions := updN t.cpVersions next (some params) }      -- set_consensus_parameters
  match prev with
  | some p => ((if restore then { t' with cpVersions := updN t'.cpVersions next (some p) } else t'), .error .OverridingConsensusParameters)
  | none => (t', .ok ())

/-- `contains_state_transition_bytecode_root` -/
def containsRoot (t : T) (root : Bytes) : Bool :=
  match t.uploaded root with
  | some (.completed _) => true
  | _ => false

/-- `upgrade_inner`, `UpgradePurpose::StateTransition` -/
def upgradeSt (restore : Bool) (t : T) (root : Bytes) : T × Except Err Unit :=
  if !containsRoot t root then (t, .error .UnknownStateTransactionBytecodeRoot)
  else
    let next := nextVersion t.curSt
    let prev := t.stVersions next
    let t' := { t with stVersions := updN t.stVersions next (some root) }       -- set_state_transition_bytecode
    match prev with
    | some p => ((if restore then { t' with stVersions := updN t'.stVersions next (some p) } else t'), .error .OverridingStateTransactionBytecode)
    | none => (t', .ok ())

/-- one transaction (or a change of the current versions by the block producer) -/
inductive Op
  | deploy (id code : Bytes) (slots : List (Bytes × Bytes))
  | blob (id data : Bytes)
  | upload (root : Bytes) (index total : Nat) (part : Bytes)
  | upgradeCp (params : Bytes)
  | upgradeSt (root : Bytes)
  | setVersions (cp st : Nat)

def step (restore : Bool) (t : T) : Op → T × Except Err Unit
  | .deploy id code slots => deploy t id code slots
  | .blob id data => blob t id data
  | .upload root i n part => upload t root i n part
  | .upgradeCp p => upgradeCp restore t p
  | .upgradeSt r => upgradeSt restore t r
  | .setVersions cp st => ({ t with curCp := cp, curSt := st }, .ok ())

def run (restore : Bool) : T → List Op → T × List (Except Err Unit)
  | t, [] => (t, [])
  | t, op :: rest =>
    let (t1, r) := step restore t op
    let (t2, rs) := run restore t1 rest
    (t2, r :: rs)

end FuelVerif.Tables
