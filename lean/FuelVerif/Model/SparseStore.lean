/-
Sparse Merkle tree — storage-level layer (b): `fuel-merkle/src/sparse/{merkle_tree.rs, merkle_tree/node.rs,
merkle_tree/branch.rs, proof.rs, in_memory.rs, hash.rs}`, `common/{msb.rs, path.rs, path_iterator.rs}`
transcribed function by function, in the order of effects of the Rust code.

* `H : Bytes → Bytes` is the hash function (`common::sum`, `sum_iter`); the driver passes SHA-256.
* The node storage (`StorageInspect`/`StorageMutate` over `NodesTable`) is a parameter: a `StoreOps σ`
  record of `get` / `insert` / `remove` (the `StorageMap` used by the harness cannot fail, so storage
  errors do not appear; `remove` = `take(..).map(|_| ())`, `insert` = `replace(..).map(|_| ())`).
* A `&mut self` method returns the state it leaves behind TOGETHER with its `Result`: the Rust methods
  write to the storage before they can fail (`insert` stores the leaf before `path_set`; `delete` removes
  the path nodes before it reads the first side node), and the harness continues after an `Err`.
* Rust panics (`unwrap`/`expect`/index/overflow checks) are the constructor `Err.panic`.
* The order of storage effects inside `update_with_path_set` / `delete_with_path_set` transcribed below is the
  one `tools/gen/sparse.py` extracts from the Rust text (`Gen.Sparse.updateEffects`, `deleteEffects`);
  `Props/C12Store.lean` (`update_effect_order`, `delete_effect_order`) fails to build when they differ.
-/
import FuelVerif.Basic.Util
import FuelVerif.Gen.Sparse
namespace FuelVerif.SmtStore
open FuelVerif FuelVerif.Gen.Sparse

/-- `MerkleTreeError` variants (payloads dropped) + panics -/
inductive Err where
  | LoadError
  | DeserializeError
  | ChildError
  | panic (site : String)
deriving DecidableEq, Repr

def Err.name : Err → String
  | .LoadError => "LoadError"
  | .DeserializeError => "DeserializeError"
  | .ChildError => "ChildError"
  | .panic s => "panic-" ++ s

/-- `common/prefix.rs` `Prefix` -/
inductive Prefix where
  | node
  | leaf
deriving DecidableEq, Repr

/-- `u8::from(Prefix)` / `AsRef<[u8]>` -/
def Prefix.byte : Prefix → UInt8
  | .node => UInt8.ofNat prefixNode
  | .leaf => UInt8.ofNat prefixLeaf

/-- `Prefix::try_from(u8)` -/
def Prefix.ofByte (b : UInt8) : Option Prefix :=
  if b = UInt8.ofNat prefixNode then some .node
  else if b = UInt8.ofNat prefixLeaf then some .leaf
  else none

/-- `sparse/primitive.rs` `Primitive = (u32, u8, Bytes32, Bytes32)` -/
structure Prim where
  height : Nat
  pfx : UInt8
  lo : Bytes
  hi : Bytes
deriving DecidableEq, Repr

/-- `sparse/hash.rs` `zero_sum()` -/
def zeroSum : Bytes := List.replicate keyBytes (UInt8.ofNat zeroByte)

/-- `Node::key_size_bits` = `Node::max_height` -/
def maxHeight : Nat := keyBytes * 8

/-! ### `common/msb.rs`, `common/path.rs` -/

/-- `Msb::get_bit_at_index_from_msb`: `byte & (1 << (7 - index % 8)) != 0` of byte `index / 8` -/
def getBitAtIndexFromMsb (bs : Bytes) (index : Nat) : Option Bool :=
  (bs[index / 8]?).map (fun byte => byte.toNat.testBit (7 - index % 8))

/-- `u8::leading_zeros` -/
def leadingZeros8 (x : UInt8) : Nat := if x.toNat = 0 then 8 else 7 - Nat.log2 x.toNat

/-- `Msb::common_prefix_count` -/
def commonPrefixCount : Bytes → Bytes → Nat
  | a :: as, b :: bs => if a = b then 8 + commonPrefixCount as bs else leadingZeros8 (a ^^^ b)
  | _, _ => 0

/-- `Path::get_instruction`: `Some(true)` = `Side::Right` -/
def getInstruction (path : Bytes) (index : Nat) : Option Bool := getBitAtIndexFromMsb path index

section hashed
variable (H : Bytes → Bytes)

/-- `sparse/hash.rs` `calculate_hash`: `sum_iter([prefix, bytes_lo, bytes_hi])` -/
def calculateHash (p : Prefix) (lo hi : Bytes) : Bytes := H (p.byte :: (lo ++ hi))
def calculateLeafHash (key value : Bytes) : Bytes := calculateHash H .leaf key value
def calculateNodeHash (l r : Bytes) : Bytes := calculateHash H .node l r

/-! ### `sparse/merkle_tree/node.rs` -/

/-- `Node` -/
inductive Node where
  | node (hash : Bytes) (height : Nat) (pfx : Prefix) (lo hi : Bytes)
  | placeholder
deriving DecidableEq, Repr

namespace Node

/-- `Node::new` -/
def new (height : Nat) (p : Prefix) (lo hi : Bytes) : Node := .node (calculateHash H p lo hi) height p lo hi

/-- `Node::create_leaf` -/
def createLeaf (key data : Bytes) : Node :=
  let hi := H data
  .node (calculateLeafHash H key hi) 0 .leaf key hi

def height : Node → Nat
  | .node _ h _ _ _ => h
  | .placeholder => 0

def hash : Node → Bytes
  | .node h _ _ _ _ => h
  | .placeholder => zeroSum

def pfx : Node → Prefix
  | .node _ _ p _ _ => p
  | .placeholder => .leaf

def bytesLo : Node → Bytes
  | .node _ _ _ lo _ => lo
  | .placeholder => zeroSum

def bytesHi : Node → Bytes
  | .node _ _ _ _ hi => hi
  | .placeholder => zeroSum

def isPlaceholder (n : Node) : Bool := n == .placeholder
def isLeaf (n : Node) : Bool := n.pfx == .leaf || n.isPlaceholder
def isNode (n : Node) : Bool := n.pfx == .node
/-- `leaf_key` (the `debug_assert` is off in the release profile the harness uses) -/
def leafKey (n : Node) : Bytes := n.bytesLo
def leafData (n : Node) : Bytes := n.bytesHi

/-- `Node::create_node` -/
def createNode (l r : Node) (height : Nat) : Node :=
  .node (calculateNodeHash H l.hash r.hash) height .node l.hash r.hash

/-- `Node::create_node_from_hashes` -/
def createNodeFromHashes (lo hi : Bytes) (height : Nat) : Node :=
  .node (calculateNodeHash H lo hi) height .node lo hi

/-- `Node::common_path_length` -/
def commonPathLength (a b : Node) : Nat :=
  if a.isPlaceholder || b.isPlaceholder then 0 else commonPrefixCount a.leafKey b.leafKey

/-- `Node::create_node_on_path` (`max_height - x` is a checked `u32` subtraction in the harness
profile; `get_instruction(..).unwrap()`) -/
def createNodeOnPath (path : Bytes) (pathNode sideNode : Node) : Except Err Node :=
  if pathNode.isLeaf && sideNode.isLeaf then
    let parentDepth := commonPathLength pathNode sideNode
    if parentDepth > maxHeight then .error (.panic "create_node_on_path-sub") else
    let parentHeight := maxHeight - parentDepth
    match getInstruction path parentDepth with
    | none => .error (.panic "create_node_on_path-unwrap")
    | some false => .ok (createNode H pathNode sideNode parentHeight)
    | some true => .ok (createNode H sideNode pathNode parentHeight)
  else
    let parentHeight := max pathNode.height sideNode.height + 1
    if parentHeight > maxHeight then .error (.panic "create_node_on_path-sub") else
    let parentDepth := maxHeight - parentHeight
    match getInstruction path parentDepth with
    | none => .error (.panic "create_node_on_path-unwrap")
    | some false => .ok (createNode H pathNode sideNode parentHeight)
    | some true => .ok (createNode H sideNode pathNode parentHeight)

/-- `From<&Node> for Primitive` -/
def toPrim (n : Node) : Prim := ⟨n.height, n.pfx.byte, n.bytesLo, n.bytesHi⟩

/-- `TryFrom<Primitive> for Node` -/
def ofPrim (p : Prim) : Except Err Node :=
  match Prefix.ofByte p.pfx with
  | none => .error .DeserializeError
  | some pf => .ok (Node.new H p.height pf p.lo p.hi)

end Node

/-! ### storage -/

/-- the node table: `StorageInspect::get`, `StorageMutate::insert`, `StorageMutate::remove` -/
structure StoreOps (σ : Type) where
  get : σ → Bytes → Option Prim
  insert : σ → Bytes → Prim → σ
  remove : σ → Bytes → σ

variable {σ : Type} (S : StoreOps σ)

/-- `storage.insert(node.hash(), &node.as_ref().into())` -/
def putNode (st : σ) (n : Node) : σ := S.insert st n.hash n.toPrim

/-- `StorageNode::left_child` / `right_child` (`right = true`) -/
def child (st : σ) (n : Node) (right : Bool) : Except Err Node :=
  if n.isLeaf then .error .ChildError
  else
    let key := if right then n.bytesHi else n.bytesLo
    if key = zeroSum then .ok .placeholder
    else match S.get st key with
      | none => .error .ChildError
      | some p => match Node.ofPrim H p with
        | .ok c => .ok c
        | .error _ => .error .ChildError

/-- `sparse::MerkleTree` -/
structure SMT (σ : Type) where
  root : Node
  storage : σ

/-- `MerkleTree::new` -/
def SMT.new (st : σ) : SMT σ := ⟨.placeholder, st⟩

/-- `MerkleTree::root` -/
def SMT.rootHash (t : SMT σ) : Bytes := t.root.hash

/-- `MerkleTree::load` -/
def load (st : σ) (root : Bytes) : Except Err (SMT σ) :=
  if root = zeroSum then .ok (SMT.new st)
  else match S.get st root with
    | none => .error .LoadError
    | some p => match Node.ofPrim H p with
      | .ok n => .ok ⟨n, st⟩
      | .error e => .error e

/-- `PathIter::next` unrolled: the items `(path_node, side_node_key)` from `cur` downwards.
`off` = `current_offset`. A child that cannot be loaded makes `path_set` fail with `ChildError`.
`fuel` bounds the recursion (`off` grows by one per step and `get_instruction` is `None` from
`8 * key.len()` on); `pathIter_fuel` in `Lemmas/SparseStore.lean` shows `.panic "fuel"` is never
returned when `off + fuel > 8 * key.length`. -/
def pathIter (st : σ) (leafKey : Bytes) : (fuel : Nat) → (cur : Node) → (side : Bytes) → (off : Nat) →
    Except Err (List (Node × Bytes))
  | 0, _, _, _ => .error (.panic "fuel")
  | f + 1, cur, side, off =>
    if cur.isNode then
      match getInstruction leafKey off with
      | none => .ok [(cur, side)]
      | some right =>
        match child H S st cur right with
        | .error e => .error e
        | .ok c =>
          match pathIter st leafKey f c (if right then cur.bytesLo else cur.bytesHi) (off + 1) with
          | .error e => .error e
          | .ok rest => .ok ((cur, side) :: rest)
    else .ok [(cur, side)]

/-- `MerkleTree::path_set`: `(path_nodes, side_nodes)`, leaf first, the root's own entry popped from the
side nodes -/
def pathSet (t : SMT σ) (leafKey : Bytes) : Except Err (List Node × List Bytes) :=
  if t.root.height > maxHeight then .error (.panic "path_iter-root-height")
  else
    match pathIter H S t.storage leafKey (maxHeight + 1) t.root t.root.hash (maxHeight - t.root.height) with
    | .error e => .error e
    | .ok items =>
      .ok ((items.map (·.1)).reverse, ((items.map (·.2)).reverse).dropLast)

/-- the `for placeholder in placeholders` loops: `count` times join the current node with a placeholder
on `path` and store it -/
def placeholderChain (path : Bytes) : (count : Nat) → (cur : Node) → (st : σ) → Except Err (Node × σ)
  | 0, cur, st => .ok (cur, st)
  | c + 1, cur, st =>
    match Node.createNodeOnPath H path cur .placeholder with
    | .error e => .error e
    | .ok nd => placeholderChain path c nd (putNode S st nd)

/-- the "merge side nodes" loop of `update_with_path_set` (`removeOld = true`) and of
`delete_with_path_set` (`removeOld = false`) over `side_nodes.zip(path_nodes)` -/
def mergeSides (removeOld : Bool) : List Bytes → List Node → Node → σ → Node × σ
  | side :: sides, oldParent :: parents, cur, st =>
    let newParent :=
      if oldParent.bytesLo = side then Node.createNodeFromHashes H side cur.hash oldParent.height
      else Node.createNodeFromHashes H cur.hash side oldParent.height
    let st := putNode S st newParent
    let st := if removeOld then S.remove st oldParent.hash else st
    mergeSides removeOld sides parents newParent st
  | _, _, cur, st => (cur, st)

/-- `MerkleTree::update_with_path_set` -/
def updateWithPathSet (t : SMT σ) (requested : Node) (pathNodes : List Node) (sideNodes : List Bytes) :
    SMT σ × Except Err Unit :=
  match pathNodes with
  | [] => (t, .error (.panic "path_nodes[0]"))
  | actual :: parents =>
    if requested = actual then (t, .ok ())
    else
      let path := requested.leafKey
      let r : Except Err (Node × σ) :=
        if requested.leafKey ≠ actual.leafKey then
          -- merge leaves
          let r1 : Except Err (Node × σ) :=
            if !actual.isPlaceholder then
              match Node.createNodeOnPath H path requested actual with
              | .error e => .error e
              | .ok c => .ok (c, putNode S t.storage c)
            else .ok (requested, t.storage)
          match r1 with
          | .error e => .error e
          | .ok (cur, st) =>
            -- merge placeholders
            let ancestorDepth := Node.commonPathLength requested actual
            placeholderChain H S path (ancestorDepth - sideNodes.length) cur st
        else .ok (requested, S.remove t.storage actual.hash)
      match r with
      | .error e => (t, .error e)
      | .ok (cur, st) =>
        let (cur, st) := mergeSides H S true sideNodes parents cur st
        (⟨cur, st⟩, .ok ())

/-- `MerkleTree::insert` -/
def insert (t : SMT σ) (key data : Bytes) : SMT σ × Except Err Unit :=
  let leafNode := Node.createLeaf H key data
  let t := { t with storage := putNode S t.storage leafNode }
  if t.root.isPlaceholder then ({ t with root := leafNode }, .ok ())
  else
    match pathSet H S t key with
    | .error e => (t, .error e)
    | .ok (pathNodes, sideNodes) => updateWithPathSet H S t leafNode pathNodes sideNodes

/-- `Iterator::find`: the first element satisfying `p` and the rest after it (the iterator is left
exhausted when nothing is found) -/
def iterFind {α : Type} (p : α → Bool) : List α → Option α × List α
  | [] => (none, [])
  | x :: xs => if p x then (some x, xs) else iterFind p xs

/-- `MerkleTree::delete_with_path_set` -/
def deleteWithPathSet (t : SMT σ) (pathNodes : List Node) (sideNodes : List Bytes) :
    SMT σ × Except Err Unit :=
  let st := pathNodes.foldl (fun st nd => S.remove st nd.hash) t.storage
  let t := { t with storage := st }
  let pathIter0 := pathNodes.drop 1
  -- (current_node, side_nodes_iter, path_nodes_iter, storage)
  let r : Except Err (Node × List Bytes × List Node × σ) :=
    match sideNodes with
    | [] => .ok (.placeholder, sideNodes, pathIter0, st)
    | first :: sidesRest =>
      match S.get st first with
      | none => .error .LoadError
      | some p =>
        match Node.ofPrim H p with
        | .error e => .error e
        | .ok firstNode =>
          if firstNode.isLeaf then
            match iterFind (fun s => s != zeroSum) sidesRest with
            | (none, sides') => .ok (firstNode, sides', pathIter0, st)
            | (some side, sides') =>
              match iterFind (fun (parent : Node) => parent.bytesLo == side || parent.bytesHi == side) pathIter0 with
              | (none, parents') => .ok (firstNode, sides', parents', st)
              | (some oldParent, parents') =>
                let newParent :=
                  if oldParent.bytesLo = side then Node.createNodeFromHashes H side firstNode.hash oldParent.height
                  else Node.createNodeFromHashes H firstNode.hash side oldParent.height
                .ok (newParent, sides', parents', putNode S st newParent)
          else .ok (.placeholder, sideNodes, pathIter0, st)
  match r with
  | .error e => (t, .error e)
  | .ok (cur, sides, parents, st) =>
    let (cur, st) := mergeSides H S false sides parents cur st
    (⟨cur, st⟩, .ok ())

/-- `MerkleTree::delete` -/
def delete (t : SMT σ) (key : Bytes) : SMT σ × Except Err Unit :=
  if t.rootHash = zeroSum then (t, .ok ())
  else
    match pathSet H S t key with
    | .error e => (t, .error e)
    | .ok (pathNodes, sideNodes) =>
      match pathNodes with
      | nd :: _ => if nd.leafKey = key then deleteWithPathSet H S t pathNodes sideNodes else (t, .ok ())
      | [] => (t, .ok ())

/-! ### proofs (`sparse/proof.rs`, `generate_proof`) -/

/-- `ExclusionLeaf` -/
inductive ExclusionLeaf where
  | leaf (leafKey leafValue : Bytes)
  | placeholder
deriving DecidableEq, Repr

/-- `Proof` -/
inductive Proof where
  | inclusion (proofSet : List Bytes)
  | exclusion (proofSet : List Bytes) (leaf : ExclusionLeaf)
deriving DecidableEq, Repr

/-- `MerkleTree::generate_proof` -/
def generateProof (t : SMT σ) (key : Bytes) : Except Err Proof :=
  match pathSet H S t key with
  | .error e => .error e
  | .ok (pathNodes, sideNodes) =>
    match pathNodes with
    | [] => .error (.panic "path_nodes[0]")
    | actual :: _ =>
      if !actual.isPlaceholder && actual.leafKey = key then .ok (.inclusion sideNodes)
      else if actual.isPlaceholder then .ok (.exclusion sideNodes .placeholder)
      else .ok (.exclusion sideNodes (.leaf actual.leafKey actual.leafData))

/-- the verifiers' loop: `index = proof_set.len() - 1 - i`, `key.get_instruction(index).expect(..)` -/
def verifyFold (key : Bytes) : List Bytes → Bytes → Except Err Bytes
  | [], cur => .ok cur
  | side :: rest, cur =>
    match getInstruction key rest.length with
    | none => .error (.panic "Infallible")
    | some false => verifyFold key rest (calculateNodeHash H cur side)
    | some true => verifyFold key rest (calculateNodeHash H side cur)

/-- `InclusionProof::verify` -/
def verifyInclusion (proofSet : List Bytes) (root key value : Bytes) : Except Err Bool :=
  if proofSet.length > maxProofLen then .ok false
  else
    match verifyFold H key proofSet (calculateLeafHash H key (H value)) with
    | .error e => .error e
    | .ok cur => .ok (cur == root)

/-- `ExclusionLeaf::hash` -/
def ExclusionLeaf.hash : ExclusionLeaf → Bytes
  | .leaf k v => calculateLeafHash H k v
  | .placeholder => zeroSum

/-- `ExclusionProof::verify` -/
def verifyExclusion (proofSet : List Bytes) (leaf : ExclusionLeaf) (root key : Bytes) : Except Err Bool :=
  let claimsKey := match leaf with
    | .leaf k _ => k == key
    | .placeholder => false
  if claimsKey then .ok false
  else if proofSet.length > maxProofLen then .ok false
  else
    match verifyFold H key proofSet (leaf.hash H) with
    | .error e => .error e
    | .ok cur => .ok (cur == root)

/-! ### `from_set` (`merkle_tree.rs`, `branch.rs`) -/

/-- `Branch` -/
structure Branch where
  bits : Bytes
  node : Node

/-- lexicographic `<` on byte strings (the `Ord` of `[u8; 32]` used by `BTreeMap`) -/
def bytesLt : Bytes → Bytes → Bool
  | [], [] => false
  | [], _ :: _ => true
  | _ :: _, [] => false
  | a :: as, b :: bs => if a < b then true else if b < a then false else bytesLt as bs

/-- `BTreeMap::insert` into the sorted association list (later value for an equal key replaces) -/
def btreeInsert (k : Bytes) (v : Bytes) : List (Bytes × Bytes) → List (Bytes × Bytes)
  | [] => [(k, v)]
  | (k', v') :: rest =>
    if k = k' then (k, v) :: rest
    else if bytesLt k k' then (k, v) :: (k', v') :: rest
    else (k', v') :: btreeInsert k v rest

/-- `.collect::<BTreeMap<Bytes32, D>>()` -/
def btreeCollect (set : List (Bytes × Bytes)) : List (Bytes × Bytes) :=
  set.foldl (fun m kv => btreeInsert kv.1 kv.2 m) []

/-- `merge_branches` -/
def mergeBranches (st : σ) (left right : Branch) : Except Err (Branch × σ) :=
  if left.node.isLeaf && right.node.isLeaf then
    let parentDepth := Node.commonPathLength left.node right.node
    if parentDepth > maxHeight then .error (.panic "merge_branches-sub") else
    let nd := Node.createNode H left.node right.node (maxHeight - parentDepth)
    .ok (⟨left.bits, nd⟩, putNode S st nd)
  else
    let ancestorDepth := commonPrefixCount left.bits right.bits
    if ancestorDepth > maxHeight then .error (.panic "merge_branches-sub") else
    let ancestorHeight := maxHeight - ancestorDepth
    -- `for branch in [&mut right_branch, &mut left_branch]`
    let pad (b : Branch) (st : σ) : Except Err (Branch × σ) :=
      if b.node.isNode then
        let parentHeight := b.node.height + 1
        if parentHeight > ancestorHeight then .error (.panic "merge_branches-sub") else
        match placeholderChain H S b.bits (ancestorHeight - parentHeight) b.node st with
        | .error e => .error e
        | .ok (nd, st) => .ok (⟨b.bits, nd⟩, st)
      else .ok (b, st)
    match pad right st with
    | .error e => .error e
    | .ok (right, st) =>
      match pad left st with
      | .error e => .error e
      | .ok (left, st) =>
        let nd := Node.createNode H left.node right.node ancestorHeight
        .ok (⟨left.bits, nd⟩, putNode S st nd)

/-- the inner `while` of `from_set`: while the stored right proximity exceeds `leftProximity`, merge the
two topmost stack entries (stacks are lists, top first) -/
def mergeWhile (leftProximity : Nat) : (proximities : List Nat) → (nodes : List Branch) → σ →
    Except Err (List Branch × List Nat × σ)
  | [], nodes, st => .ok (nodes, [], st)
  | p :: ps, nodes, st =>
    if p > leftProximity then
      match nodes with
      | current :: right :: rest =>
        match mergeBranches H S st current right with
        | .error e => .error e
        | .ok (merged, st) => mergeWhile leftProximity ps (merged :: rest) st
      | _ => .error (.panic "Expected right node to be present")
    else .ok (nodes, p :: ps, st)

/-- the outer `while let Some(left) = branches.pop()` of `from_set`; `branches` is given top first
(i.e. rightmost leaf first) -/
def scanLeaves : (branches : List Branch) → (nodes : List Branch) → (proximities : List Nat) → σ →
    Except Err (List Branch × σ)
  | [], nodes, _, st => .ok (nodes, st)
  | left :: branches, nodes, proximities, st =>
    match nodes with
    | [] => scanLeaves branches [left] proximities st
    | current :: _ =>
      let leftProximity := Node.commonPathLength current.node left.node
      match mergeWhile H S leftProximity proximities nodes st with
      | .error e => .error e
      | .ok (nodes, proximities, st) => scanLeaves branches (left :: nodes) (leftProximity :: proximities) st

/-- `while let Some(next) = nodes.pop() { node = merge_branches(node, next) }` -/
def mergeStack : Branch → List Branch → σ → Except Err (Branch × σ)
  | node, [], st => .ok (node, st)
  | node, next :: rest, st =>
    match mergeBranches H S st node next with
    | .error e => .error e
    | .ok (m, st) => mergeStack m rest st

/-- `MerkleTree::from_set` -/
def fromSet (st : σ) (set : List (Bytes × Bytes)) : Except Err (SMT σ) :=
  let sorted := btreeCollect set
  let branches : List Branch := sorted.map (fun kv =>
    let leaf := Node.createLeaf H kv.1 kv.2
    ⟨leaf.leafKey, leaf⟩)
  let st := branches.foldl (fun st b => putNode S st b.node) st
  match branches with
  | [] => .ok (SMT.new st)
  | [b] => .ok ⟨b.node, st⟩
  | _ =>
    match scanLeaves H S branches.reverse [] [] st with
    | .error e => .error e
    | .ok (nodes, st) =>
      match nodes with
      | [] => .error (.panic "Nodes stack must have at least 1 element")
      | top :: rest =>
        match mergeStack H S top rest st with
        | .error e => .error e
        | .ok (top, st) =>
          if top.node.height > maxHeight then .error (.panic "from_set-sub") else
          match placeholderChain H S top.bits (maxHeight - top.node.height) top.node st with
          | .error e => .error e
          | .ok (nd, st) => .ok ⟨nd, st⟩

end hashed

/-! ### `in_memory.rs` storages used by `root_from_set` / `nodes_from_set` -/

/-- `EmptyStorage`: every write is dropped, every read is `None` -/
def emptyStorageOps : StoreOps Unit := ⟨fun _ _ => none, fun _ _ _ => (), fun _ _ => ()⟩

/-- `VectorStorage`: `insert` pushes; reads / removes are `unimplemented!` (never called by `from_set`) -/
def vectorStorageOps : StoreOps (List (Bytes × Prim)) :=
  ⟨fun _ _ => none, fun st k p => st ++ [(k, p)], fun st _ => st⟩

/-- `in_memory::MerkleTree::root_from_set` -/
def rootFromSet (H : Bytes → Bytes) (set : List (Bytes × Bytes)) : Except Err Bytes :=
  match fromSet H emptyStorageOps () set with
  | .error e => .error e
  | .ok t => .ok t.rootHash

/-- `in_memory::MerkleTree::nodes_from_set` -/
def nodesFromSet (H : Bytes → Bytes) (set : List (Bytes × Bytes)) :
    Except Err (Bytes × List (Bytes × Prim)) :=
  match fromSet H vectorStorageOps [] set with
  | .error e => .error e
  | .ok t => .ok (t.rootHash, t.storage)

end FuelVerif.SmtStore
