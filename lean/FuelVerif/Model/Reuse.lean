/-
Interpreter (re)initialisation at field level (C31).

Transcribed from fuel-vm/src/interpreter/initialization.rs `init_inner`, `init_script`, `init_predicate`; the field
list and the set of fields they assign come from the translator `interp_fields` (Gen/InterpFields.lean).
Every field except `memory` is an opaque value here (type parameter `α`): what matters for instance reuse is only
WHERE each field's new value comes from. `memory` is the `MemoryInstance` model of Model/VmMemory.lean, because
`reset` deliberately keeps the old allocations and dirty heap bytes.
-/
import FuelVerif.Model.VmMemory
import FuelVerif.Gen.InterpFields
namespace FuelVerif.Reuse
open FuelVerif.VmMemory

/-- `struct Interpreter`, field for field (names as in Rust, camel-cased) -/
structure Interp (α : Type) where
  registers : α
  memory : MemI
  frames : α
  receipts : α
  tx : α
  initialBalances : α
  inputContracts : α
  inputContractsIndexToOutputIndex : α
  storage : α
  debugger : α
  context : α
  balances : α
  interpreterParams : α
  panicContext : α
  ecalState : α
  verifier : α
  ownerPtr : α
  storageSlotCache : α

/-- fields that configure an interpreter and are inputs of a run (compared separately by the property:
"against equal storage") -/
def configFields : List String := ["storage", "interpreter_params", "ecal_state", "verifier"]

/-- fields init does not touch and a run's result does not depend on: the debugger (C32: transparent),
and `panic_context`, which is `None` at every transaction boundary — it is set only by
`Verifier::check_contract_in_inputs` immediately before returning the `ContractNotInInputs` panic, and
`append_panic_receipt` consumes and clears it -/
def unobservedFields : List String := ["debugger", "panic_context"]

/-- everything `init_inner` computes from the transaction, the parameters and (for the block height) the
storage — never from the previous contents of the instance -/
structure InitData (α : Type) where
  tx : α
  inputContracts : α
  ownerPtr : α
  indexMap : α
  initialBalances : α
  balances : α
  context : α
  emptyFrames : α
  emptyReceipts : α
  emptyCache : α
  /-- the register file after zeroing, `$one`, `$hp`, the stack pushes, `set_gas`, `$sp := $ssp`, `$pc`/`$is` -/
  registers : α
  /-- the `push_stack!` / `to_vm` memory traffic, in order: `grow_stack` and `write_noownerchecks` calls whose
  arguments are functions of the transaction and parameters -/
  memOps : List Op

/-- `init_script` / `init_predicate` (they differ only in the context and `$pc`/`$is`, both part of `InitData`) -/
def init {α : Type} (i : Interp α) (d : InitData α) : Interp α :=
  { i with
    context := d.context                                         -- self.context = …
    tx := d.tx                                                   -- self.tx = tx
    inputContracts := d.inputContracts
    ownerPtr := d.ownerPtr
    inputContractsIndexToOutputIndex := d.indexMap
    initialBalances := d.initialBalances
    frames := d.emptyFrames                                      -- self.frames.clear()
    receipts := d.emptyReceipts                                  -- self.receipts.clear()
    memory := (runOps i.memory.reset d.memOps).1                 -- memory_mut().reset(), then the pushes
    storageSlotCache := d.emptyCache                             -- self.storage_slot_cache.clear()
    registers := d.registers
    balances := d.balances }                                     -- runtime_balances.to_vm(self)

/-- what initialisation observed of the memory while rebuilding the stack (errors of grow/write) -/
def initObservations {α : Type} (i : Interp α) (d : InitData α) : List (Except Err Bytes) :=
  (runOps i.memory.reset d.memOps).2

end FuelVerif.Reuse
