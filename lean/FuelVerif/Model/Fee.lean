/-
Executable model of the fee / refund arithmetic of fuel-tx (C18).

Transcribed function by function from
  fuel-tx/src/transaction/fee.rs                       (gas_to_fee, min_gas, Chargeable::*, TransactionFee::checked_from_tx)
  fuel-tx/src/transaction/consensus_parameters/gas.rs  (DependentCost::resolve / resolve_without_base)
  fuel-tx/src/transaction/types/{script,create,upgrade,upload,blob}.rs   (per-kind min_gas / max_gas / gas_used_by_metadata)
  fuel-vm/src/checked_transaction.rs                   (Checked::into_ready, the fee comparison)

All Rust integers are `Nat`; every Rust operator is mirrored by the helper of the same name
(`saturating_add` = `satAdd`, …).  The two Rust panics that can occur in this code
(`checked_div(..).expect("units_per_gas cannot be zero")`, `u128::div_ceil` by zero) and the
`checked_mul(..).expect(..)` in `gas_to_fee` are modelled as `Except.error` with one constructor
per panic site; nothing is totalised.
Imports only Basic (core only).
-/
import FuelVerif.Basic.ExceptDec
namespace FuelVerif.Fee

/-- `u64::MAX` -/
def u64Max : Nat := 18446744073709551615
/-- `u128::MAX` -/
def u128Max : Nat := 340282366920938463463374607431768211455

/-- `u64::saturating_add` -/
def satAdd (a b : Nat) : Nat := min (a + b) 18446744073709551615
/-- `u64::saturating_mul` -/
def satMul (a b : Nat) : Nat := min (a * b) 18446744073709551615
/-- `u64::saturating_sub` -/
def satSub (a b : Nat) : Nat := a - b
/-- `u128::saturating_add` -/
def satAdd128 (a b : Nat) : Nat := min (a + b) 340282366920938463463374607431768211455
/-- `u64::try_from(u128).ok()` -/
def toU64? (a : Nat) : Option Nat := if a ≤ 18446744073709551615 then some a else none
/-- `u64::checked_sub` -/
def checkedSub (a b : Nat) : Option Nat := if b ≤ a then some (a - b) else none

/-- the panic sites of the modelled code -/
inductive Panic
  | unitsPerGasZero      -- gas.rs `units.checked_div(*units_per_gas).expect("units_per_gas cannot be zero")`
  | mulOverflow          -- fee.rs `checked_mul(..).expect("Impossible to overflow ...")`
  | divByZero            -- fee.rs `total_price.div_ceil(factor as u128)` with factor = 0
  deriving DecidableEq, Repr, Inhabited

/-- `DependentCost` (gas.rs) -/
inductive DepCost
  | light (base unitsPerGas : Nat)
  | heavy (base gasPerUnit : Nat)
  deriving DecidableEq, Repr, Inhabited

/-- `DependentCost::base` -/
def DepCost.base : DepCost → Nat
  | .light b _ => b
  | .heavy b _ => b

/-- `DependentCost::resolve_without_base` -/
def resolveWithoutBase : DepCost → Nat → Except Panic Nat
  | .light _ upg, units => if upg = 0 then .error .unitsPerGasZero else .ok (units / upg)
  | .heavy _ gpu, units => .ok (satMul units gpu)

/-- `DependentCost::resolve` -/
def resolve (c : DepCost) (units : Nat) : Except Panic Nat := do
  let base := c.base
  let dependent ← resolveWithoutBase c units
  pure (satAdd base dependent)

/-- the `GasCosts` entries this code reads -/
structure GasCosts where
  eck1 : Nat
  s256 : DepCost
  contractRoot : DepCost
  stateRoot : DepCost
  vmInitialization : DepCost
  newStoragePerByte : Nat
  deriving DecidableEq, Repr, Inhabited

/-- `FeeParameters` -/
structure FeeParams where
  gasPriceFactor : Nat
  gasPerByte : Nat
  deriving DecidableEq, Repr, Inhabited

/-- what `gas_used_by_inputs` looks at in an `Input` -/
inductive FeeInput
  | signed (witnessIndex : Nat)                  -- CoinSigned / MessageCoinSigned / MessageDataSigned
  | predicate (predicateLen gasUsed : Nat)        -- CoinPredicate / MessageCoinPredicate / MessageDataPredicate
  | other                                         -- Contract
  deriving DecidableEq, Repr, Inhabited

/-- kind-specific quantities read by `gas_used_by_metadata` / `min_gas` / `max_gas` -/
inductive Kind
  | script (scriptGasLimit : Nat)
  | create (contractLen storageSlots : Nat)       -- witness[bytecode_witness_index].len() (0 if absent), storage_slots.len()
  | upgradeConsensus (witnessLen : Nat)           -- witness[witness_index].len() (0 if absent)
  | upgradeState
  | upload (bytecodeLen subsectionsNumber : Nat)  -- witness[witness_index].len() (0 if absent), subsections_number
  | blob (blobLen : Nat)                          -- witness[witness_index].len() (0 if absent)
  deriving DecidableEq, Repr, Inhabited

/-- the fee summary of a chargeable transaction -/
structure TxView where
  kind : Kind
  size : Nat                       -- `metered_bytes_size()` = canonical `size()`
  inputs : List FeeInput
  witnessesDyn : Nat               -- `witnesses().size_dynamic()`
  witnessLimit : Option Nat        -- policies.get(WitnessLimit)
  tip : Option Nat                 -- policies.get(Tip)
  maxFee : Option Nat              -- policies.get(MaxFee)
  deriving DecidableEq, Repr, Inhabited

/-- the `.map(..)` closure of `gas_used_by_inputs` -/
def inputGas (gc : GasCosts) (size : Nat) : FeeInput → Except Panic Nat
  | .signed _ => pure gc.eck1
  | .predicate len used => do
    let vmInit ← resolve gc.vmInitialization size
    let root ← resolve gc.contractRoot len
    pure (satAdd (satAdd root used) vmInit)
  | .other => pure 0

/-- `Chargeable::gas_used_by_inputs`: `.filter(unique witness index | predicate).map(cost).fold(0, saturating_add)`;
`seen` is the `witness_cache` hash set, `acc` the fold accumulator -/
def gasUsedByInputsAux (gc : GasCosts) (size : Nat) : List Nat → Nat → List FeeInput → Except Panic Nat
  | _, acc, [] => pure acc
  | seen, acc, .signed w :: rest =>
    if seen.contains w then gasUsedByInputsAux gc size seen acc rest
    else do
      let c ← inputGas gc size (.signed w)
      gasUsedByInputsAux gc size (w :: seen) (satAdd acc c) rest
  | seen, acc, .predicate l u :: rest => do
      let c ← inputGas gc size (.predicate l u)
      gasUsedByInputsAux gc size seen (satAdd acc c) rest
  | seen, acc, .other :: rest => gasUsedByInputsAux gc size seen acc rest

def gasUsedByInputs (gc : GasCosts) (v : TxView) : Except Panic Nat :=
  gasUsedByInputsAux gc v.size [] 0 v.inputs

/-- `Chargeable::gas_used_by_metadata` of Script / Create / Upgrade / Upload / Blob -/
def gasUsedByMetadata (gc : GasCosts) (v : TxView) : Except Panic Nat :=
  match v.kind with
  | .script _ => resolve gc.s256 v.size
  | .create contractLen slots => do
    let contractRootGas ← resolve gc.contractRoot contractLen
    let stateRootGas ← resolve gc.stateRoot slots
    -- Bytes4::LEN + Salt::LEN + Bytes32::LEN + Bytes32::LEN
    let contractIdGas ← resolve gc.s256 (4 + 32 + 32 + 32)
    let txIdGas ← resolve gc.s256 v.size
    pure (satAdd (satAdd (satAdd contractRootGas stateRootGas) contractIdGas) txIdGas)
  | .upgradeConsensus len => do
    let txIdGas ← resolve gc.s256 v.size
    let purposeGas ← resolve gc.s256 len
    pure (satAdd txIdGas purposeGas)
  | .upgradeState => do
    let txIdGas ← resolve gc.s256 v.size
    pure (satAdd txIdGas 0)
  | .upload bytecodeLen subsections => do
    let txIdGas ← resolve gc.s256 v.size
    let leafHashGas ← resolve gc.s256 bytecodeLen
    let verifyProofGas ← resolve gc.stateRoot subsections
    pure (satAdd (satAdd txIdGas leafHashGas) verifyProofGas)
  | .blob blobLen => do
    let a ← resolve gc.s256 v.size
    let b ← resolve gc.s256 blobLen
    pure (satAdd a b)

/-- the free function `fee::min_gas` -/
def minGasBase (gc : GasCosts) (fp : FeeParams) (v : TxView) : Except Panic Nat := do
  let vmInit ← resolve gc.vmInitialization v.size
  let bytesGas := satMul fp.gasPerByte v.size
  let inputs ← gasUsedByInputs gc v
  let metadata ← gasUsedByMetadata gc v
  pure (satAdd (satAdd (satAdd inputs metadata) bytesGas) vmInit)

/-- `Chargeable::min_gas` (default = `fee::min_gas`; overridden by Upload and, identically to the default, Blob) -/
def minGas (gc : GasCosts) (fp : FeeParams) (v : TxView) : Except Panic Nat :=
  match v.kind with
  | .upload bytecodeLen _ => do
    let additional := satMul gc.newStoragePerByte bytecodeLen
    let m ← minGasBase gc fp v
    pure (satAdd m additional)
  | _ => minGasBase gc fp v

/-- `policies.get(WitnessLimit).unwrap_or(0).saturating_sub(size_dynamic).saturating_mul(gas_per_byte)` -/
def remainingWitnessGas (fp : FeeParams) (v : TxView) : Nat :=
  satMul (satSub (v.witnessLimit.getD 0) v.witnessesDyn) fp.gasPerByte

/-- `Chargeable::max_gas` (default; overridden by Script which adds `script_gas_limit`) -/
def maxGas (gc : GasCosts) (fp : FeeParams) (v : TxView) : Except Panic Nat := do
  let rem := remainingWitnessGas fp v
  let m ← minGas gc fp v
  match v.kind with
  | .script gasLimit => pure (satAdd (satAdd m rem) gasLimit)
  | _ => pure (satAdd m rem)

/-- `fee::gas_to_fee` (u128): `checked_mul(..).expect(..)` then `div_ceil` (`d = t / f; r = t % f; if r > 0 { d + 1 } else { d }`) -/
def gasToFee (gas gasPrice factor : Nat) : Except Panic Nat :=
  let total := gas * gasPrice
  if total > 340282366920938463463374607431768211455 then .error .mulOverflow
  else if factor = 0 then .error .divByZero
  else
    let d := total / factor
    let r := total % factor
    .ok (if r > 0 then d + 1 else d)

/-- `Chargeable::min_fee` (u128) -/
def minFee (gc : GasCosts) (fp : FeeParams) (v : TxView) (gasPrice : Nat) : Except Panic Nat := do
  let tip := v.tip.getD 0
  let g ← minGas gc fp v
  let gasFee ← gasToFee g gasPrice fp.gasPriceFactor
  pure (satAdd128 gasFee tip)

/-- `Chargeable::max_fee` (u128) -/
def maxFee (gc : GasCosts) (fp : FeeParams) (v : TxView) (gasPrice : Nat) : Except Panic Nat := do
  let tip := v.tip.getD 0
  let g ← maxGas gc fp v
  let gasFee ← gasToFee g gasPrice fp.gasPriceFactor
  pure (satAdd128 gasFee tip)

/-- `Chargeable::refund_fee` -/
def refundFee (gc : GasCosts) (fp : FeeParams) (v : TxView) (usedGas gasPrice : Nat) : Except Panic (Option Nat) := do
  let m ← minGas gc fp v
  let totalUsedGas := satAdd m usedGas
  let tip := v.tip.getD 0
  let gasFee ← gasToFee totalUsedGas gasPrice fp.gasPriceFactor
  let usedFee := satAdd128 gasFee tip
  match toU64? usedFee with
  | none => pure none
  | some usedFee => pure (checkedSub (v.maxFee.getD 0) usedFee)

/-- `TransactionFee` -/
structure TransactionFee where
  minFee : Nat
  maxFee : Nat
  minGas : Nat
  maxGas : Nat
  deriving DecidableEq, Repr, Inhabited

/-- `TransactionFee::checked_from_tx` -/
def checkedFromTx (gc : GasCosts) (fp : FeeParams) (v : TxView) (gasPrice : Nat) : Except Panic (Option TransactionFee) := do
  let mnG ← minGas gc fp v
  let mxG ← maxGas gc fp v
  let mnF ← minFee gc fp v gasPrice
  match toU64? mnF with
  | none => pure none
  | some mnF =>
    let mxF ← maxFee gc fp v gasPrice
    match toU64? mxF with
    | none => pure none
    | some mxF =>
      if mnF > mxF then pure none
      else pure (some ⟨mnF, mxF, mnG, mxG⟩)

/-- the verdicts of `Checked::into_ready` (with `block_height = None`) -/
inductive ReadyVerdict
  | ready
  | balanceOverflow          -- CheckError::Validity(ValidityError::BalanceOverflow)
  | insufficientMaxFee       -- CheckError::InsufficientMaxFee { .. }
  deriving DecidableEq, Repr, Inhabited

/-- `Checked::into_ready`, the fee part -/
def intoReady (gc : GasCosts) (fp : FeeParams) (v : TxView) (gasPrice : Nat) : Except Panic ReadyVerdict := do
  match ← checkedFromTx gc fp v gasPrice with
  | none => pure .balanceOverflow
  | some fee =>
    let maxFeeFromPolicies := v.maxFee.getD 0
    let maxFeeFromGasPrice := fee.maxFee
    if maxFeeFromGasPrice > maxFeeFromPolicies then pure .insufficientMaxFee
    else pure .ready

end FuelVerif.Fee
