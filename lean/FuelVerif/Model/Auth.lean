/-
C20 model — signature checking with the recovery cache, and the predicate-checking bookkeeping.

Transcribed from
  fuel-tx/src/transaction/validity.rs                      `Input::check_signature`
  fuel-tx/src/transaction/types/witness.rs                 `Witness::recover_witness`   (as the parameter `recover`)
  fuel-tx/src/transaction/types/chargeable_transaction.rs  `check_signatures`, `id`
  fuel-vm/src/interpreter/executors/main.rs                `predicates::{run_predicates, run_predicate_async,
                                                            check_predicate, finalize_check_predicate}`
  fuel-vm/src/error.rs                                     `PredicateVerificationFailed::interpreter_error`
The ECDSA recovery (`recover`), the predicate-root hash (`predOwner`), the hash of the id (`H`) and the
run of the predicate VM (`vm`) are PARAMETERS; nothing here assumes anything about them.
-/
import FuelVerif.Basic.Util
namespace FuelVerif.Auth

abbrev Addr := Bytes

instance instDecEqExcept {ε α : Type} [DecidableEq ε] [DecidableEq α] : DecidableEq (Except ε α)
  | .ok a, .ok b => if h : a = b then isTrue (by rw [h]) else isFalse (by intro h'; cases h'; exact h rfl)
  | .error a, .error b => if h : a = b then isTrue (by rw [h]) else isFalse (by intro h'; cases h'; exact h rfl)
  | .ok _, .error _ => isFalse (by intro h; cases h)
  | .error _, .ok _ => isFalse (by intro h; cases h)

/-- the three `ValidityError`s `check_signature` can return, with the input index they carry -/
inductive SigErr
  | InputWitnessIndexBounds (index : Nat)
  | InputInvalidSignature (index : Nat)
  | InputPredicateOwner (index : Nat)
  deriving DecidableEq, Repr

/-- what `check_signature` / `check_predicate` look at in an input. `signed` = CoinSigned | MessageCoinSigned |
MessageDataSigned (owner/recipient, witness_index); `predicate` = the three predicate kinds (owner/recipient,
predicate code, predicate_gas_used); `contract` = Input::Contract -/
inductive Input
  | signed (owner : Addr) (witnessIndex : Nat)
  | predicate (owner : Addr) (code : Bytes) (gasUsed : Nat)
  | contract
  deriving DecidableEq, Repr

/-- the recovery cache: `HashMap<u16, Address>` as an association list (entries are only inserted when absent) -/
abbrev Cache := List (Nat × Addr)

section Sig
variable (recover : Bytes → Bytes → Option Addr) (predOwner : Bytes → Addr)

/-- the closure `recover_address` inside `check_signature` -/
def recoverAddress (index widx : Nat) (txhash : Bytes) (ws : List Bytes) : Except SigErr Addr :=
  match ws[widx]? with
  | none => .error (.InputWitnessIndexBounds index)
  | some w =>
    match recover w txhash with
    | none => .error (.InputInvalidSignature index)
    | some a => .ok a

/-- `Input::check_signature(&self, index, txhash, witnesses, recovery_cache)`; returns the updated cache -/
def checkSignature (inp : Input) (index : Nat) (txhash : Bytes) (ws : List Bytes) (cache : Option Cache) :
    Except SigErr (Option Cache) :=
  match inp with
  | .signed owner widx =>
    let rec? : Except SigErr (Addr × Option Cache) :=
      match cache with
      | some c =>
        match c.lookup widx with
        | some a => .ok (a, some c)
        | none =>
          match recoverAddress recover index widx txhash ws with
          | .error e => .error e
          | .ok a => .ok (a, some ((widx, a) :: c))
      | none =>
        match recoverAddress recover index widx txhash ws with
        | .error e => .error e
        | .ok a => .ok (a, none)
    match rec? with
    | .error e => .error e
    | .ok (a, c') => if owner ≠ a then .error (.InputInvalidSignature index) else .ok c'
  | .predicate owner code _ =>
    if owner ≠ predOwner code then .error (.InputPredicateOwner index) else .ok cache
  | .contract => .ok cache

/-- `inputs.iter().enumerate().try_for_each(|(index, input)| input.check_signature(index, &id, witnesses, &mut cache))`
starting at input index `index` -/
def checkFrom (txhash : Bytes) (ws : List Bytes) : List Input → Nat → Option Cache → Except SigErr (Option Cache)
  | [], _, c => .ok c
  | inp :: rest, index, c =>
    match checkSignature recover predOwner inp index txhash ws c with
    | .error e => .error e
    | .ok c' => checkFrom txhash ws rest (index + 1) c'

/-- the transaction as the authorisation checks see it: `content` = canonical bytes of the transaction after
`prepare_sign` with witnesses cleared (what `compute_transaction_id` hashes after the chain id; property C03) -/
structure Tx where
  content : Bytes
  inputs : List Input
  witnesses : List Bytes
  deriving DecidableEq, Repr

/-- `compute_transaction_id`: H (chain_id_be8 ‖ content) -/
def txId (H : Bytes → Bytes) (chainId : Nat) (tx : Tx) : Bytes := H (natBE 8 chainId ++ tx.content)

/-- `ChargeableTransaction::check_signatures(chain_id)`: with `Some(HashMap::with_capacity(..))` as cache -/
def checkSignatures (H : Bytes → Bytes) (chainId : Nat) (tx : Tx) : Except SigErr Unit :=
  match checkFrom recover predOwner (txId H chainId tx) tx.witnesses tx.inputs 0 (some []) with
  | .error e => .error e
  | .ok _ => .ok ()

/-- the same loop with `recovery_cache = None` (the `Input::check` path used outside the transaction check) -/
def checkSignaturesNoCache (H : Bytes → Bytes) (chainId : Nat) (tx : Tx) : Except SigErr Unit :=
  match checkFrom recover predOwner (txId H chainId tx) tx.witnesses tx.inputs 0 none with
  | .error e => .error e
  | .ok _ => .ok ()

/-! #### the cached id and the checked-transaction entry -/

/-- a transaction OBJECT: its content plus the metadata cache (`metadata.common.id`), which the public field
mutators (`outputs_mut`, `inputs_mut`, `script_mut`, `policies_mut`, …) do NOT invalidate -/
structure CachedTx where
  tx : Tx
  cachedId : Option Bytes
  deriving DecidableEq, Repr

/-- `UniqueIdentifier::id`: `if let Some(id) = self.cached_id() { return id }`, else compute from the content -/
def idOf (H : Bytes → Bytes) (chainId : Nat) (t : CachedTx) : Bytes :=
  match t.cachedId with
  | some i => i
  | none => txId H chainId t.tx

/-- `Cacheable::precompute`: `self.metadata = None;` then `self.metadata = Some(compute(self, chain_id))` (the
computation calls `id()` on the object whose metadata was just cleared) -/
def precompute (H : Bytes → Bytes) (chainId : Nat) (t : CachedTx) : CachedTx :=
  let cleared : CachedTx := { t with cachedId := none }
  { cleared with cachedId := some (idOf H chainId cleared) }

/-- `FormatValidityChecks::check_signatures` on an object: the id is `self.id(chain_id)` (cached if present) -/
def checkSignaturesObj (H : Bytes → Bytes) (chainId : Nat) (t : CachedTx) : Except SigErr Unit :=
  match checkFrom recover predOwner (idOf H chainId t) t.tx.witnesses t.tx.inputs 0 (some []) with
  | .error e => .error e
  | .ok _ => .ok ()

/-- the order of the first steps of every `IntoChecked::into_checked_basic` impl (tied to the six bodies by the
translator): the metadata is recomputed UNCONDITIONALLY before anything is checked -/
def intoCheckedOrder : List String := ["precompute", "check_without_signatures"]

/-- `into_checked_basic(..)?.check_signatures(chain_id)` as far as the id and the signatures are concerned
(`basicOk` = verdict of `check_without_signatures` and the balance computation, which do not look at witnesses) -/
def intoCheckedSignatures (H : Bytes → Bytes) (chainId : Nat) (basicOk : Bool) (t : CachedTx) :
    Option (Except SigErr CachedTx) :=
  let t' := precompute H chainId t
  if !basicOk then none else
  match checkSignaturesObj recover predOwner H chainId t' with
  | .error e => some (.error e)
  | .ok _ => some (.ok t')

end Sig

/-! ### predicates -/

def wordMax : Nat := 2 ^ 64 - 1

/-- image of `PredicateVerificationFailed::interpreter_error` (without the index) -/
inductive ErrKind
  | outOfGas | panic (reason : String) | panicInstruction (reason : String) | bug | storage | other
  deriving DecidableEq, Repr

/-- `PredicateVerificationFailed` (payloads: input index, panic reason name; `Bug` without payload) -/
inductive PFail
  | GasMismatch (index : Nat)
  | OutOfGas (index : Nat)
  | InvalidOwner (index : Nat)
  | False (index : Nat)
  | TransactionExceedsTotalGasAllowance (maxGas : Nat)
  | Bug
  | Panic (index : Nat) (reason : String)
  | PanicInstruction (index : Nat) (reason : String)
  | Storage (index : Nat)
  deriving DecidableEq, Repr

def interpreterError (index : Nat) : ErrKind → PFail
  | .outOfGas => .OutOfGas index
  | .panic r => .Panic index r
  | .panicInstruction r => .PanicInstruction index r
  | .bug => .Bug
  | .storage => .Storage index
  | .other => .False index

/-- `vm.verify_predicate()` result: `Ok(ProgramState::Return(1))`, another `Ok(_)`, or `Err(_)` -/
inductive VmResult
  | returnOne | okOther | err (e : ErrKind)
  deriving DecidableEq, Repr

/-- one run of the predicate VM: `init_predicate` failed, or it ran and left `remaining` gas (`$ggas`) -/
inductive VmOutcome
  | initErr (e : ErrKind)
  | done (remaining : Nat) (res : VmResult)
  deriving DecidableEq, Repr

inductive Mode | verification | estimation
  deriving DecidableEq, Repr

/-- the predicate VM: context kind, input index, gas limit ↦ outcome. The VM receives the transaction after
`prepare_sign` (`init_inner`), which zeroes `predicate_gas_used`; so it is a function of `stripGas inputs` only. -/
abbrev Vm := Mode → Nat → Nat → VmOutcome

inductive Action | verifying | estimating (availableGas : Nat)
  deriving DecidableEq, Repr

structure Params where
  maxGasPerTx : Nat
  maxGasPerPredicate : Nat
  deriving Repr

section Pred
variable (predOwner : Bytes → Addr)

/-- `check_predicate(tx, index, action, ..) -> (Word, Result<(), PredicateVerificationFailed>)` for a predicate input -/
def checkPredicate (vm : Vm) (action : Action) (index : Nat) (owner : Addr) (code : Bytes) (gasUsed : Nat) :
    Nat × Except PFail Unit :=
  if action = .verifying ∧ owner ≠ predOwner code then (0, .error (.InvalidOwner index)) else
  let (mode, avail) := match action with
    | .verifying => (Mode.verification, gasUsed)
    | .estimating a => (Mode.estimation, a)
  match vm mode index avail with
  | .initErr e => (0, .error (interpreterError index e))
  | .done remaining res =>
    if remaining > avail then (0, .error .Bug) else
    let used := avail - remaining
    match action with
    | .verifying =>
      match res with
      | .err e => (used, .error (interpreterError index e))
      | .okOther => (used, .error (.False index))
      | .returnOne => if remaining ≠ 0 then (used, .error (.GasMismatch index)) else (used, .ok ())
    | .estimating _ => (used, .ok ())

abbrev Checks := List (Nat × Except PFail Nat)

/-- the loop of `run_predicates` (sequential): `global` = `global_available_gas` -/
def runLoop (vm : Vm) (estimating : Bool) (maxGasPerPredicate : Nat) : List Input → Nat → Nat → Checks
  | [], _, _ => []
  | .predicate owner code gasUsed :: rest, index, global =>
    let avail := min global maxGasPerPredicate
    let action := if estimating then Action.estimating avail else Action.verifying
    let (used, r) := checkPredicate predOwner vm action index owner code gasUsed
    (index, r.map (fun _ => used)) :: runLoop vm estimating maxGasPerPredicate rest (index + 1) (global - used)
  | _ :: rest, index, global => runLoop vm estimating maxGasPerPredicate rest (index + 1) global

/-- the task list of `run_predicate_async`, in creation (input) order -/
def asyncTasks (vm : Vm) (action : Action) : List Input → Nat → Checks
  | [], _ => []
  | .predicate owner code gasUsed :: rest, index =>
    let (used, r) := checkPredicate predOwner vm action index owner code gasUsed
    (index, r.map (fun _ => used)) :: asyncTasks vm action rest (index + 1)
  | _ :: rest, index => asyncTasks vm action rest (index + 1)

end Pred

/-- `*predicate_gas_used = *gas_used` at `tx.inputs_mut()[input_index]` -/
def setGasAt : List Input → Nat → Nat → List Input
  | [], _, _ => []
  | .predicate o c _ :: rest, 0, g => .predicate o c g :: rest
  | i :: rest, 0, _ => i :: rest
  | i :: rest, n + 1, g => i :: setGasAt rest n g

/-- first part of `finalize_check_predicate` for `Estimating`: write every `Ok(gas_used)` into its input -/
def applyEstimates (inputs : List Input) : Checks → List Input
  | [] => inputs
  | (i, .ok g) :: rest => applyEstimates (setGasAt inputs i g) rest
  | (_, .error _) :: rest => applyEstimates inputs rest

/-- the accumulation loop of `finalize_check_predicate`: first `Err` in list order wins; `checked_add` overflow
gives `OutOfGas { index }` -/
def accumulate : Checks → Nat → Except PFail Nat
  | [], acc => .ok acc
  | (i, .ok g) :: rest, acc => if acc + g > wordMax then .error (.OutOfGas i) else accumulate rest (acc + g)
  | (_, .error e) :: _, _ => .error e

/-- `finalize_check_predicate(kind, checks, params)`; `maxGas` = `tx.max_gas(gas_costs, fee_params)` as a function
of the inputs (only `predicate_gas_used` changes). Returns the (possibly updated) inputs and the verdict. -/
def finalize (maxGas : List Input → Nat) (p : Params) (estimating : Bool) (inputs : List Input) (checks : Checks) :
    List Input × Except PFail Nat :=
  let inputs' := if estimating then applyEstimates inputs checks else inputs
  if maxGas inputs' > p.maxGasPerTx then (inputs', .error (.TransactionExceedsTotalGasAllowance (maxGas inputs')))
  else (inputs', accumulate checks 0)

section Run
variable (predOwner : Bytes → Addr) (maxGas : List Input → Nat) (p : Params)

/-- `prepare_sign` as far as the predicate bookkeeping is concerned: `predicate_gas_used := 0` -/
def stripGas : List Input → List Input
  | [] => []
  | .predicate o c _ :: rest => .predicate o c 0 :: stripGas rest
  | i :: rest => i :: stripGas rest

/-- `run_predicates(kind, ..)` (sequential) -/
def runPredicates (vm : List Input → Vm) (estimating : Bool) (inputs : List Input) : List Input × Except PFail Nat :=
  let global := p.maxGasPerTx - maxGas inputs   -- saturating_sub
  let checks := runLoop predOwner (vm (stripGas inputs)) estimating p.maxGasPerPredicate inputs 0 global
  finalize maxGas p estimating inputs checks

/-- `run_predicate_async(kind, ..)` where `E::execute_tasks` hands the results back reordered by `order`
(any function on lists; the theorems quantify over all permutations) -/
def runPredicatesAsync (vm : List Input → Vm) (estimating : Bool) (order : Checks → Checks) (inputs : List Input) :
    List Input × Except PFail Nat :=
  let action := if estimating then Action.estimating (min p.maxGasPerPredicate p.maxGasPerTx) else Action.verifying
  let checks := asyncTasks predOwner (vm (stripGas inputs)) action inputs 0
  finalize maxGas p estimating inputs (order checks)

/-- `predicates::check_predicates` -/
def checkPredicates (vm : List Input → Vm) (inputs : List Input) : Except PFail Nat :=
  (runPredicates predOwner maxGas p vm false inputs).2
/-- `predicates::check_predicates_async` -/
def checkPredicatesAsync (vm : List Input → Vm) (order : Checks → Checks) (inputs : List Input) : Except PFail Nat :=
  (runPredicatesAsync predOwner maxGas p vm false order inputs).2
/-- `predicates::estimate_predicates` (the transaction is mutated even when an error is returned) -/
def estimatePredicates (vm : List Input → Vm) (inputs : List Input) : List Input × Except PFail Nat :=
  runPredicates predOwner maxGas p vm true inputs
/-- `predicates::estimate_predicates_async` -/
def estimatePredicatesAsync (vm : List Input → Vm) (order : Checks → Checks) (inputs : List Input) :
    List Input × Except PFail Nat :=
  runPredicatesAsync predOwner maxGas p vm true order inputs

end Run

end FuelVerif.Auth
