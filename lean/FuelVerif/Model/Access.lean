/-
Which contracts' state an instruction touches, and where the `Verifier::Normal` check sits (C30).

Transcribed from
  fuel-vm/src/verification.rs          Normal::check_contract_in_inputs
  fuel-vm/src/interpreter/flow.rs      prepare_call (CALL)
  fuel-vm/src/interpreter/contract.rs  contract_balance (BAL), transfer (TR)
  fuel-vm/src/interpreter/blockchain.rs code_copy (CCP), code_root (CROO), code_size (CSIZ), load_contract_code (LDC)
The order of accesses around the check is regenerated from the Rust text (Gen/AccessSites.lean) and compared with the
table below in Props/C30. Instructions that only touch the CURRENT contract (SRW, SWW, …, MINT, BURN, the source side
of TR/CALL/SMO/TRO) are covered by the frame invariant.
-/
import FuelVerif.Basic.Util
import FuelVerif.Gen.AccessSites
namespace FuelVerif.Access

abbrev ContractId := Bytes

inductive Table where
  | code | balance | state
deriving DecidableEq, Repr

/-- whose state a helper call touches: the contract named by the operand, or the contract whose frame is active -/
inductive Whose where
  | target | current
deriving DecidableEq, Repr

/-- meaning of the helper calls the translator lists; `none`: not contract state
(`external_asset_id_balance_sub` debits the script's balance table in VM memory) -/
def tokenAccess : String → Option (Table × Whose)
  | "contract_size" => some (.code, .target)
  | "copy_from_storage_zero_fill" => some (.code, .target)
  | "read_exact" => some (.code, .target)
  | "storage_contract" => some (.code, .target)
  | "balance" => some (.balance, .target)
  | "balance_increase" => some (.balance, .target)
  | "balance_decrease" => some (.balance, .current)
  | "external_asset_id_balance_sub" => none
  | _ => none

/-- one checked access site: helper function, opcode, accesses before / after the check, in code order -/
structure Site where
  fn : String
  opcode : String
  before : List String
  after : List String
deriving DecidableEq, Repr

def sites : List Site := [
  ⟨"code_copy", "CCP", [], ["contract_size", "copy_from_storage_zero_fill"]⟩,
  ⟨"code_root", "CROO", [], ["contract_size", "storage_contract"]⟩,
  ⟨"code_size", "CSIZ", [], ["contract_size"]⟩,
  ⟨"contract_balance", "BAL", [], ["balance"]⟩,
  ⟨"load_contract_code", "LDC", [], ["contract_size", "copy_from_storage_zero_fill"]⟩,
  ⟨"prepare_call", "CALL", ["contract_size", "balance_decrease", "external_asset_id_balance_sub"], ["balance_increase", "read_exact"]⟩,
  ⟨"transfer", "TR", [], ["balance_decrease", "external_asset_id_balance_sub", "balance_increase"]⟩]

structure Access where
  table : Table
  contract : ContractId
deriving DecidableEq, Repr

/-- resolve a token to the contract it touches; `current = none` in the external (script) context, where
the `balance_decrease` branch is not taken -/
def resolve (target : ContractId) (current : Option ContractId) (tok : String) : List Access :=
  match tokenAccess tok with
  | none => []
  | some (t, .target) => [⟨t, target⟩]
  | some (t, .current) => match current with
    | some c => [⟨t, c⟩]
    | none => []

/-- `Normal::check_contract_in_inputs` -/
def checkNormal (inputs : List ContractId) (c : ContractId) : Bool := inputs.contains c

/-- the accesses a site performs (every other failure only shortens this list) and whether it panics with
`ContractNotInInputs` -/
def runSite (s : Site) (inputs : List ContractId) (current : Option ContractId) (target : ContractId) :
    List Access × Bool :=
  let pre := s.before.flatMap (resolve target current)
  if checkNormal inputs target then (pre ++ s.after.flatMap (resolve target current), false)
  else (pre, true)

/-- frames as far as C30 cares: the contract of each active frame, innermost first -/
inductive Event where
  | call (target : ContractId)       -- a CALL whose `prepare_call` succeeded
  | ret                              -- RET/RETD popping a frame
  | other

/-- effect of an event on the frame stack; a CALL only gets as far as pushing when the check passed -/
def stepFrames (inputs : List ContractId) (frames : List ContractId) : Event → List ContractId
  | .call t => if checkNormal inputs t then t :: frames else frames
  | .ret => frames.tail
  | .other => frames

/-- `init_inner` for the set the verifier consults (`self.input_contracts`): ASSIGNED from the new transaction's contract
inputs — whatever an earlier transaction on the same instance had listed is gone (Gen.inputContractsInit pins the text) -/
def initInputContracts (_previous : List ContractId) (txInputs : List ContractId) : List ContractId := txInputs

/-- opcodes that touch only the state of the contract whose frame is active -/
def currentOnlyOpcodes : List String :=
  ["BURN", "MINT", "SCWQ", "SRW", "SRWQ", "SWW", "SWWQ", "TRO", "SMO", "SCLR", "SRDD", "SRDI", "SWRD", "SWRI", "SUPD", "SUPI", "SPLD"]

def tableName : Table → String
  | .code => "code" | .balance => "balance" | .state => "state"

def whoseName : Whose → String
  | .target => "target" | .current => "current"

/-- the `(table:whose)` pairs an executed instruction may show in the access log, by the site table -/
def allowedFor (opcode : String) (passed : Bool) : List String :=
  match sites.find? (fun s => s.opcode == opcode) with
  | some s =>
    let toks := if passed then s.before ++ s.after else s.before
    toks.flatMap (fun t => match tokenAccess t with
      | some (tb, w) => [tableName tb ++ ":" ++ whoseName w]
      | none => [])
  | none =>
    if currentOnlyOpcodes.contains opcode then ["balance:current", "state:current"] else []

end FuelVerif.Access
