/-
Executable model of the basic transaction checks of fuel-tx / fuel-vm (C19).

Transcribed, in the order of effects of the Rust code, from
  fuel-vm/src/checked_transaction/types.rs      IntoChecked::into_checked_basic (precompute, check_without_signatures, initial_free_balances)
  fuel-tx/src/transaction/validity.rs           check_size, check_owner, check_common_part, Input::check_without_signature, Output::check
  fuel-tx/src/transaction/types/{script,create,upgrade,upload,blob,mint}.rs   check_unique_rules / Mint::check_without_signatures,
                                                 CreateMetadata::compute, UpgradeMetadata::compute (the `precompute` failures)
  fuel-tx/src/transaction/policies.rs           Policies::is_valid, field::{Maturity,Expiration,Owner}
  fuel-vm/src/checked_transaction/balances.rs   initial_free_balances and its three helpers

over a *validity summary* of a transaction: identifiers (asset ids, utxo ids, nonces, contract ids, addresses)
are natural numbers (big-endian value of their bytes), byte strings are represented by their lengths, and the
four cryptographic sub-checks (Create's contract id / state root, Upgrade's checksum + deserialisation, Upload's
Merkle proof, Blob's id) enter as booleans computed by the real code (DESIGN §5.F "partial").
`Policies` is modelled as one `Option` per policy: the first two clauses of `is_valid` (no unknown bit, unset
values are zero) are representation invariants of that modelling and of every `Policies` the public API builds.
Imports only Basic / Model (core only).
-/
import FuelVerif.Model.Fee
namespace FuelVerif.Validity
open FuelVerif.Fee

def u32Max : Nat := 4294967295

/-- `Input`, the fields the checks read -/
inductive Input
  | coinSigned (utxo owner amount asset witnessIndex : Nat)
  | coinPredicate (utxo owner amount asset predLen predDataLen predGasUsed : Nat)
  | contract (utxo contractId : Nat)
  | messageCoinSigned (nonce recipient amount witnessIndex : Nat)
  | messageCoinPredicate (nonce recipient amount predLen predDataLen predGasUsed : Nat)
  | messageDataSigned (nonce recipient amount witnessIndex dataLen : Nat)
  | messageDataPredicate (nonce recipient amount dataLen predLen predDataLen predGasUsed : Nat)
  deriving DecidableEq, Repr, Inhabited

/-- `Output`; `contractCreated ok` = (contract_id, state_root) equal the ones computed from the transaction -/
inductive Output
  | coin (asset amount : Nat)
  | contract (inputIndex : Nat)
  | change (asset : Nat)
  | variable
  | contractCreated (matchesComputed : Bool)
  deriving DecidableEq, Repr, Inhabited

/-- `Policies` (one `Option` per `PolicyType`) -/
structure Policies where
  tip : Option Nat
  witnessLimit : Option Nat
  maturity : Option Nat
  maxFee : Option Nat
  expiration : Option Nat
  owner : Option Nat
  deriving DecidableEq, Repr, Inhabited

/-- kind-specific body of a chargeable transaction -/
inductive Body
  | script (gasLimit scriptLen scriptDataLen : Nat)
  | create (bytecodeWitnessIndex : Nat) (slotKeys : List Nat)
  | upgradeConsensus (witnessIndex : Nat) (checksumOk deserializeOk : Bool)
  | upgradeState
  | upload (witnessIndex subsectionsNumber : Nat) (proofOk : Bool)
  | blob (witnessIndex : Nat) (idOk : Bool)
  deriving DecidableEq, Repr, Inhabited

/-- validity summary of a chargeable transaction -/
structure Tx where
  body : Body
  size : Nat                 -- canonical `size()`
  policies : Policies
  inputs : List Input
  outputs : List Output
  witnesses : List Nat       -- witness data lengths
  deriving DecidableEq, Repr, Inhabited

/-- `ConsensusParameters`, the fields the checks read -/
structure Params where
  maxInputs : Nat
  maxOutputs : Nat
  maxWitnesses : Nat
  maxGasPerTx : Nat
  maxSize : Nat
  maxBytecodeSubsections : Nat
  maxPredicateLength : Nat
  maxPredicateDataLength : Nat
  maxMessageDataLength : Nat
  maxScriptLength : Nat
  maxScriptDataLength : Nat
  contractMaxSize : Nat
  maxStorageSlots : Nat
  fee : FeeParams
  gas : GasCosts
  baseAsset : Nat
  privileged : Nat
  deriving DecidableEq, Repr, Inhabited

/-- `ValidityError` variants these checks can return (payloads dropped) -/
inductive VErr
  | TransactionSizeLimitExceeded | TransactionPoliciesAreInvalid | TransactionWitnessLimitExceeded
  | TransactionMaxGasExceeded | TransactionMaxFeeNotSet | TransactionMaturity | TransactionExpiration
  | TransactionInputsMax | TransactionOutputsMax | TransactionWitnessesMax
  | TransactionOwnerIndexOutOfBounds | TransactionOwnerInputHasNoOwner | NoSpendableInput
  | TransactionOutputChangeAssetIdDuplicated | DuplicateInputUtxoId | DuplicateInputContractId | DuplicateInputNonce
  | InputPredicateEmpty | InputPredicateLength | InputPredicateDataLength | InputWitnessIndexBounds
  | InputContractAssociatedOutputContract | InputMessageDataLength
  | OutputContractInputIndex | TransactionOutputChangeAssetIdNotFound | TransactionOutputCoinAssetIdNotFound
  | TransactionScriptLength | TransactionScriptDataLength | TransactionOutputContainsContractCreated
  | TransactionCreateBytecodeWitnessIndex | TransactionCreateBytecodeLen | TransactionCreateStorageSlotMax
  | TransactionCreateStorageSlotOrder | TransactionInputContainsNonBaseAssetId | TransactionInputContainsContract
  | TransactionInputContainsMessageData | TransactionOutputContainsContract | TransactionOutputContainsVariable
  | TransactionChangeChangeUsesNotBaseAsset | TransactionCreateOutputContractCreatedDoesntMatch
  | TransactionCreateOutputContractCreatedMultiple | TransactionOutputDoesntContainContractCreated
  | TransactionUpgradeNoPrivilegedAddress | TransactionUpgradeConsensusParametersChecksumMismatch
  | TransactionUpgradeConsensusParametersDeserialization
  | TransactionUploadTooManyBytecodeSubsections | TransactionUploadRootVerificationFailed
  | TransactionBlobIdVerificationFailed
  | TransactionMintIncorrectBlockHeight | TransactionMintIncorrectOutputIndex | TransactionMintNonBaseAsset
  | BalanceOverflow | InsufficientFeeAmount | InsufficientInputAmount
  deriving DecidableEq, Repr, Inhabited

/-- a check either rejects with a `ValidityError` or hits one of the fee code's panic sites (through `max_gas`) -/
inductive Err
  | validity (e : VErr)
  | panic (p : Panic)
  deriving DecidableEq, Repr, Inhabited

abbrev R := Except Err

/-- `if bad { Err(e)? }` -/
def rejectIf (bad : Bool) (e : VErr) : R Unit := if bad then .error (.validity e) else .ok ()

/-! ### accessors on inputs -/

/-- `Input::input_owner` -/
def Input.owner? : Input → Option Nat
  | .coinSigned _ o _ _ _ => some o
  | .coinPredicate _ o _ _ _ _ _ => some o
  | .contract _ _ => none
  | .messageCoinSigned _ r _ _ => some r
  | .messageCoinPredicate _ r _ _ _ _ => some r
  | .messageDataSigned _ r _ _ _ => some r
  | .messageDataPredicate _ r _ _ _ _ _ => some r

/-- `Input::asset_id(base)` / `Executable::input_asset_ids` element -/
def Input.assetId? (base : Nat) : Input → Option Nat
  | .coinSigned _ _ _ a _ => some a
  | .coinPredicate _ _ _ a _ _ _ => some a
  | .contract _ _ => none
  | _ => some base

/-- the `any_spendable_input` match of `check_common_part` -/
def Input.isSpendable : Input → Bool
  | .coinSigned .. | .coinPredicate .. | .messageCoinSigned .. | .messageCoinPredicate .. => true
  | _ => false

/-- `i.is_coin().then(|| i.utxo_id()).flatten()` -/
def Input.coinUtxo? : Input → Option Nat
  | .coinSigned u _ _ _ _ => some u
  | .coinPredicate u _ _ _ _ _ _ => some u
  | _ => none

/-- `Input::contract_id` -/
def Input.contractId? : Input → Option Nat
  | .contract _ c => some c
  | _ => none

/-- `Input::nonce` -/
def Input.nonce? : Input → Option Nat
  | .messageCoinSigned n _ _ _ => some n
  | .messageCoinPredicate n _ _ _ _ _ => some n
  | .messageDataSigned n _ _ _ _ => some n
  | .messageDataPredicate n _ _ _ _ _ _ => some n
  | _ => none

def Input.isContract : Input → Bool
  | .contract _ _ => true
  | _ => false

def Input.isMessageData : Input → Bool
  | .messageDataSigned .. | .messageDataPredicate .. => true
  | _ => false

/-- what `gas_used_by_inputs` reads -/
def Input.feeInput : Input → FeeInput
  | .coinSigned _ _ _ _ w => .signed w
  | .coinPredicate _ _ _ _ l _ g => .predicate l g
  | .contract _ _ => .other
  | .messageCoinSigned _ _ _ w => .signed w
  | .messageCoinPredicate _ _ _ l _ g => .predicate l g
  | .messageDataSigned _ _ _ w _ => .signed w
  | .messageDataPredicate _ _ _ _ l _ g => .predicate l g

/-! ### the fee summary of a validity summary -/

/-- `bytes::padded_len`: next multiple of 8 -/
def pad8 (n : Nat) : Nat := (n + 7) / 8 * 8

/-- `witnesses().size_dynamic()`: each witness is a length word plus its padded bytes -/
def witnessesDyn (ws : List Nat) : Nat := (ws.map (fun l => 8 + pad8 l)).sum

/-- `witnesses.get(i).map(len).unwrap_or(0)` -/
def witnessLenOr0 (ws : List Nat) (i : Nat) : Nat := (ws[i]?).getD 0

def feeKind (tx : Tx) : Kind :=
  match tx.body with
  | .script g _ _ => .script g
  | .create bwi slots => .create (witnessLenOr0 tx.witnesses bwi) slots.length
  | .upgradeConsensus wi _ _ => .upgradeConsensus (witnessLenOr0 tx.witnesses wi)
  | .upgradeState => .upgradeState
  | .upload wi n _ => .upload (witnessLenOr0 tx.witnesses wi) n
  | .blob wi _ => .blob (witnessLenOr0 tx.witnesses wi)

def feeView (tx : Tx) : TxView :=
  { kind := feeKind tx, size := tx.size, inputs := tx.inputs.map Input.feeInput,
    witnessesDyn := witnessesDyn tx.witnesses, witnessLimit := tx.policies.witnessLimit,
    tip := tx.policies.tip, maxFee := tx.policies.maxFee }

/-! ### generic loop helpers -/

/-- `iter().enumerate().try_for_each(f)`: the first error in index order -/
def firstErr {α : Type} (f : Nat → α → Option VErr) : Nat → List α → Option VErr
  | _, [] => none
  | k, x :: rest => match f k x with
    | some e => some e
    | none => firstErr f (k + 1) rest

def liftFirst (o : Option VErr) : R Unit :=
  match o with
  | some e => .error (.validity e)
  | none => .ok ()

/-- `next_duplicate(iter).is_some()` -/
def hasDup : List Nat → Bool
  | [] => false
  | x :: rest => rest.contains x || hasDup rest

/-! ### `Policies::is_valid`, `field::Maturity/Expiration` -/

def Policies.isValid (p : Policies) : Bool :=
  (match p.maturity with | some m => decide (m ≤ u32Max) | none => true) &&
  (match p.expiration with | some e => decide (e ≤ u32Max) | none => true) &&
  (match p.owner with | some o => decide (o ≤ u32Max) | none => true)

/-- `tx.maturity()`: `get(Maturity).map(|v| u32::try_from(v).unwrap_or(u32::MAX)).unwrap_or_default()` -/
def Policies.maturityHeight (p : Policies) : Nat :=
  match p.maturity with
  | some v => if v ≤ u32Max then v else u32Max
  | none => 0

/-- `tx.expiration()`: `get(Expiration).and_then(|v| u32::try_from(v).ok()).unwrap_or(u32::MAX)` -/
def Policies.expirationHeight (p : Policies) : Nat :=
  match p.expiration with
  | some v => if v ≤ u32Max then v else u32Max
  | none => u32Max

/-! ### `check_common_part` -/

/-- `check_owner` -/
def checkOwner (tx : Tx) : R Unit :=
  match tx.policies.owner with
  | none => .ok ()
  | some owner =>
    if owner > u32Max then .error (.validity .TransactionOwnerIndexOutOfBounds)
    else if owner ≥ tx.inputs.length then .error (.validity .TransactionOwnerIndexOutOfBounds)
    else match (tx.inputs[owner]?).bind Input.owner? with
      | none => .error (.validity .TransactionOwnerInputHasNoOwner)
      | some _ => .ok ()

/-- `Executable::input_asset_ids` -/
def inputAssetIds (base : Nat) (inputs : List Input) : List Nat := inputs.filterMap (Input.assetId? base)

/-- number of `Output::Change` with that asset -/
def changeCount (outputs : List Output) (asset : Nat) : Nat :=
  (outputs.filter (fun o => match o with | .change a => a == asset | _ => false)).length

/-- number of `Output::Contract` pointing at input `index` -/
def contractOutputCount (outputs : List Output) (index : Nat) : Nat :=
  (outputs.filter (fun o => match o with | .contract i => i == index | _ => false)).length

/-- `Input::check_without_signature` (match arms in source order; the first matching arm decides) -/
def checkInput (p : Params) (tx : Tx) (index : Nat) : Input → Option VErr
  | .coinSigned _ _ _ _ w => if w ≥ tx.witnesses.length then some .InputWitnessIndexBounds else none
  | .messageCoinSigned _ _ _ w => if w ≥ tx.witnesses.length then some .InputWitnessIndexBounds else none
  | .coinPredicate _ _ _ _ pl pdl _ | .messageCoinPredicate _ _ _ pl pdl _ =>
    if pl = 0 then some .InputPredicateEmpty
    else if pl > p.maxPredicateLength then some .InputPredicateLength
    else if pdl > p.maxPredicateDataLength then some .InputPredicateDataLength
    else none
  | .messageDataPredicate _ _ _ dl pl pdl _ =>
    if pl = 0 then some .InputPredicateEmpty
    else if pl > p.maxPredicateLength then some .InputPredicateLength
    else if pdl > p.maxPredicateDataLength then some .InputPredicateDataLength
    else if dl = 0 ∨ dl > p.maxMessageDataLength then some .InputMessageDataLength
    else none
  | .messageDataSigned _ _ _ w dl =>
    if w ≥ tx.witnesses.length then some .InputWitnessIndexBounds
    else if dl = 0 ∨ dl > p.maxMessageDataLength then some .InputMessageDataLength
    else none
  | .contract _ _ =>
    if contractOutputCount tx.outputs index ≠ 1 then some .InputContractAssociatedOutputContract else none

/-- the per-output closure of `check_common_part`: `Output::check`, then change / coin asset presence -/
def checkOutput (p : Params) (tx : Tx) (_index : Nat) : Output → Option VErr
  | .contract i =>
    match tx.inputs[i]? with
    | some (.contract _ _) => none
    | _ => some .OutputContractInputIndex
  | .change a => if (inputAssetIds p.baseAsset tx.inputs).contains a then none else some .TransactionOutputChangeAssetIdNotFound
  | .coin a _ => if (inputAssetIds p.baseAsset tx.inputs).contains a then none else some .TransactionOutputCoinAssetIdNotFound
  | _ => none

/-- `check_common_part` -/
def checkCommonPart (p : Params) (height : Nat) (tx : Tx) : R Unit := do
  rejectIf (tx.size > p.maxSize) .TransactionSizeLimitExceeded
  rejectIf (!tx.policies.isValid) .TransactionPoliciesAreInvalid
  match tx.policies.witnessLimit with
  | some l => rejectIf (witnessesDyn tx.witnesses > l) .TransactionWitnessLimitExceeded
  | none => pure ()
  match maxGas p.gas p.fee (feeView tx) with
  | .error pn => throw (.panic pn)
  | .ok g => rejectIf (g > p.maxGasPerTx) .TransactionMaxGasExceeded
  rejectIf tx.policies.maxFee.isNone .TransactionMaxFeeNotSet
  rejectIf (tx.policies.maturityHeight > height) .TransactionMaturity
  rejectIf (tx.policies.expirationHeight < height) .TransactionExpiration
  rejectIf (tx.inputs.length > p.maxInputs) .TransactionInputsMax
  rejectIf (tx.outputs.length > p.maxOutputs) .TransactionOutputsMax
  rejectIf (tx.witnesses.length > p.maxWitnesses) .TransactionWitnessesMax
  checkOwner tx
  rejectIf (!tx.inputs.any Input.isSpendable) .NoSpendableInput
  rejectIf ((inputAssetIds p.baseAsset tx.inputs).any (fun a => changeCount tx.outputs a > 1)) .TransactionOutputChangeAssetIdDuplicated
  rejectIf (hasDup (tx.inputs.filterMap Input.coinUtxo?)) .DuplicateInputUtxoId
  rejectIf (hasDup (tx.inputs.filterMap Input.contractId?)) .DuplicateInputContractId
  rejectIf (hasDup (tx.inputs.filterMap Input.nonce?)) .DuplicateInputNonce
  liftFirst (firstErr (checkInput p tx) 0 tx.inputs)
  liftFirst (firstErr (checkOutput p tx) 0 tx.outputs)

/-! ### `check_unique_rules` -/

/-- the input closure shared by Create / Upgrade / Upload / Blob -/
def checkBaseOnlyInput (p : Params) (_index : Nat) (i : Input) : Option VErr :=
  match i.assetId? p.baseAsset with
  | some a => if a ≠ p.baseAsset then some .TransactionInputContainsNonBaseAssetId
    else if i.isContract then some .TransactionInputContainsContract
    else if i.isMessageData then some .TransactionInputContainsMessageData
    else none
  | none => if i.isContract then some .TransactionInputContainsContract
    else if i.isMessageData then some .TransactionInputContainsMessageData
    else none

/-- the output closure shared by Upgrade / Upload / Blob -/
def checkPlainOutput (p : Params) (_index : Nat) : Output → Option VErr
  | .contract _ => some .TransactionOutputContainsContract
  | .variable => some .TransactionOutputContainsVariable
  | .change a => if a ≠ p.baseAsset then some .TransactionChangeChangeUsesNotBaseAsset else none
  | .contractCreated _ => some .TransactionOutputContainsContractCreated
  | .coin _ _ => none

/-- Create's output loop; the state is the `contract_created` flag -/
def checkCreateOutputs (p : Params) : Bool → List Output → Except VErr Bool
  | created, [] => .ok created
  | created, o :: rest =>
    match o with
    | .contract _ => .error .TransactionOutputContainsContract
    | .variable => .error .TransactionOutputContainsVariable
    | .change a => if a ≠ p.baseAsset then .error .TransactionChangeChangeUsesNotBaseAsset else checkCreateOutputs p created rest
    | .contractCreated ok =>
      if !ok then .error .TransactionCreateOutputContractCreatedDoesntMatch
      else if created then .error .TransactionCreateOutputContractCreatedMultiple
      else checkCreateOutputs p true rest
    | .coin _ _ => checkCreateOutputs p created rest

/-- `storage_slots.windows(2).all(|s| s[0] < s[1])` (slots are ordered by key) -/
def strictlySorted : List Nat → Bool
  | [] => true
  | [_] => true
  | a :: b :: rest => decide (a < b) && strictlySorted (b :: rest)

/-- Script's output closure -/
def checkScriptOutput (_index : Nat) : Output → Option VErr
  | .contractCreated _ => some .TransactionOutputContainsContractCreated
  | _ => none

/-- `UniqueFormatValidityChecks::check_unique_rules` of the five kinds -/
def checkUniqueRules (p : Params) (tx : Tx) : R Unit :=
  match tx.body with
  | .script _ sl sdl => do
    rejectIf (sl > p.maxScriptLength) .TransactionScriptLength
    rejectIf (sdl > p.maxScriptDataLength) .TransactionScriptDataLength
    liftFirst (firstErr checkScriptOutput 0 tx.outputs)
  | .create bwi slots => do
    match tx.witnesses[bwi]? with
    | none => throw (.validity .TransactionCreateBytecodeWitnessIndex)
    | some len => rejectIf (len > p.contractMaxSize) .TransactionCreateBytecodeLen
    rejectIf (slots.length > p.maxStorageSlots) .TransactionCreateStorageSlotMax
    rejectIf (!strictlySorted slots) .TransactionCreateStorageSlotOrder
    liftFirst (firstErr (checkBaseOnlyInput p) 0 tx.inputs)
    match checkCreateOutputs p false tx.outputs with
    | .error e => throw (.validity e)
    | .ok created => rejectIf (!created) .TransactionOutputDoesntContainContractCreated
  | .upgradeConsensus _ _ _ | .upgradeState => do
    rejectIf (!tx.inputs.any (fun i => i.owner? == some p.privileged)) .TransactionUpgradeNoPrivilegedAddress
    -- `UpgradeMetadata::compute(self)?` was already evaluated by `precompute`; the cached metadata equals it
    liftFirst (firstErr (checkBaseOnlyInput p) 0 tx.inputs)
    liftFirst (firstErr (checkPlainOutput p) 0 tx.outputs)
  | .upload wi n proofOk => do
    rejectIf (n > p.maxBytecodeSubsections) .TransactionUploadTooManyBytecodeSubsections
    match tx.witnesses[wi]? with
    | none => throw (.validity .InputWitnessIndexBounds)
    | some _ => rejectIf (!proofOk) .TransactionUploadRootVerificationFailed
    liftFirst (firstErr (checkBaseOnlyInput p) 0 tx.inputs)
    liftFirst (firstErr (checkPlainOutput p) 0 tx.outputs)
  | .blob wi idOk => do
    match tx.witnesses[wi]? with
    | none => throw (.validity .InputWitnessIndexBounds)
    | some _ => rejectIf (!idOk) .TransactionBlobIdVerificationFailed
    liftFirst (firstErr (checkBaseOnlyInput p) 0 tx.inputs)
    liftFirst (firstErr (checkPlainOutput p) 0 tx.outputs)

/-- the failures of `Cacheable::precompute` (run before every check): `CreateMetadata::compute` needs the
bytecode witness, `UpgradeMetadata::compute` needs the witness, its checksum and its deserialisation -/
def precompute (tx : Tx) : R Unit :=
  match tx.body with
  | .create bwi _ =>
    match tx.witnesses[bwi]? with
    | none => .error (.validity .TransactionCreateBytecodeWitnessIndex)
    | some _ => .ok ()
  | .upgradeConsensus wi checksumOk deserOk =>
    match tx.witnesses[wi]? with
    | none => .error (.validity .InputWitnessIndexBounds)
    | some _ =>
      if !checksumOk then .error (.validity .TransactionUpgradeConsensusParametersChecksumMismatch)
      else if !deserOk then .error (.validity .TransactionUpgradeConsensusParametersDeserialization)
      else .ok ()
  | _ => .ok ()

/-! ### `initial_free_balances` -/

/-- `BTreeMap<AssetId, Word>` as an association list (insertion order; printed sorted) -/
def mget : List (Nat × Nat) → Nat → Option Nat
  | [], _ => none
  | (k, v) :: rest, a => if k = a then some v else mget rest a

def mset : List (Nat × Nat) → Nat → Nat → List (Nat × Nat)
  | [], a, x => [(a, x)]
  | (k, v) :: rest, a, x => if k = a then (k, x) :: rest else (k, v) :: mset rest a x

/-- `u64::checked_add` -/
def checkedAdd (a b : Nat) : Option Nat := if a + b ≤ 18446744073709551615 then some (a + b) else none

/-- `add_up_input_balances`: (non-retryable balances, retryable balance) -/
def addUpInputBalances (base : Nat) : List Input → List (Nat × Nat) → Nat → Option (List (Nat × Nat) × Nat)
  | [], m, r => some (m, r)
  | i :: rest, m, r =>
    match i with
    | .coinSigned _ _ amt a _ | .coinPredicate _ _ amt a _ _ _ =>
      match checkedAdd ((mget m a).getD 0) amt with
      | none => none
      | some s => addUpInputBalances base rest (mset m a s) r
    | .messageCoinSigned _ _ amt _ | .messageCoinPredicate _ _ amt _ _ _ =>
      match checkedAdd ((mget m base).getD 0) amt with
      | none => none
      | some s => addUpInputBalances base rest (mset m base s) r
    | .messageDataSigned _ _ amt _ _ | .messageDataPredicate _ _ amt _ _ _ _ =>
      match checkedAdd r amt with
      | none => none
      | some s => addUpInputBalances base rest m s
    | .contract _ _ => addUpInputBalances base rest m r

/-- `deduct_max_fee_from_base_asset` -/
def deductMaxFee (m : List (Nat × Nat)) (base maxFee : Nat) : Except VErr (List (Nat × Nat)) :=
  let bal := (mget m base).getD 0
  if maxFee ≤ bal then .ok (mset m base (bal - maxFee)) else .error .InsufficientFeeAmount

/-- `reduce_free_balances_by_coin_outputs` -/
def reduceByCoinOutputs : List (Nat × Nat) → List Output → Except VErr (List (Nat × Nat))
  | m, [] => .ok m
  | m, .coin a amt :: rest =>
    match mget m a with
    | none => .error .TransactionOutputCoinAssetIdNotFound
    | some bal => if amt ≤ bal then reduceByCoinOutputs (mset m a (bal - amt)) rest else .error .InsufficientInputAmount
  | m, _ :: rest => reduceByCoinOutputs m rest

/-- `AvailableBalances` -/
structure Balances where
  nonRetryable : List (Nat × Nat)
  retryable : Nat
  deriving DecidableEq, Repr, Inhabited

def liftV {α : Type} : Except VErr α → R α
  | .ok a => .ok a
  | .error e => .error (.validity e)

/-- `initial_free_balances` -/
def initialFreeBalances (p : Params) (tx : Tx) : R Balances := do
  match addUpInputBalances p.baseAsset tx.inputs [] 0 with
  | none => throw (.validity .BalanceOverflow)
  | some (m, retryable) =>
    match tx.policies.maxFee with
    | none => throw (.validity .TransactionMaxFeeNotSet)
    | some maxFee =>
      let m ← liftV (deductMaxFee m p.baseAsset maxFee)
      let m ← liftV (reduceByCoinOutputs m tx.outputs)
      pure { nonRetryable := m, retryable := retryable }

/-- what `into_checked_basic` records (per kind `CheckedMetadata`): balances, `min_gas`, `max_gas` -/
structure Checked where
  balances : Balances
  minGas : Nat
  maxGas : Nat
  deriving DecidableEq, Repr, Inhabited

/-- `IntoChecked::into_checked_basic` for Script / Create / Upgrade / Upload / Blob -/
def check (p : Params) (height : Nat) (tx : Tx) : R Checked := do
  precompute tx
  checkCommonPart p height tx
  checkUniqueRules p tx
  let balances ← initialFreeBalances p tx
  match minGas p.gas p.fee (feeView tx), maxGas p.gas p.fee (feeView tx) with
  | .ok mn, .ok mx => pure { balances, minGas := mn, maxGas := mx }
  | .error pn, _ => throw (.panic pn)
  | _, .error pn => throw (.panic pn)

/-! ### Mint -/

structure MintTx where
  size : Nat
  txPointerHeight : Nat
  outputInputIndex : Nat
  mintAsset : Nat
  deriving DecidableEq, Repr, Inhabited

/-- `Mint::check_without_signatures` (its `precompute` cannot fail; `into_checked_basic` records no metadata) -/
def checkMint (p : Params) (height : Nat) (tx : MintTx) : R Unit := do
  rejectIf (tx.size > p.maxSize) .TransactionSizeLimitExceeded
  rejectIf (tx.txPointerHeight ≠ height) .TransactionMintIncorrectBlockHeight
  rejectIf (tx.outputInputIndex ≠ 0) .TransactionMintIncorrectOutputIndex
  rejectIf (tx.mintAsset ≠ p.baseAsset) .TransactionMintNonBaseAsset

end FuelVerif.Validity
