/-
C09 (receipts clause): `ReceiptsCtx` of fuel-vm/src/interpreter/receipts.rs as a state machine.
The ORDER of the four statements of `push` is taken from `Gen/ReceiptsCtx.lean` (regenerated from the
source), so the model executes what the code says today; a `&mut self` method that returns early keeps
whatever it had already mutated.
-/
import FuelVerif.Model.BinaryMerkle
import FuelVerif.Gen.ReceiptsCtx
namespace FuelVerif.RCtx
open FuelVerif.BMT FuelVerif.Gen.ReceiptsCtx

inductive RKind | scriptResult | panic | other
  deriving DecidableEq, Repr

/-- a receipt as far as `ReceiptsCtx` looks at it: its variant class and its canonical bytes -/
structure Rc where
  kind : RKind
  enc : Bytes
  deriving DecidableEq, Repr

structure RState where
  receipts : List Rc := []
  leaves : List Bytes := []     -- what has been pushed into `receipts_tree` since it was created
  deriving Repr

inductive RErr | bugReceiptsCtxFull | tooManyReceipts
  deriving DecidableEq, Repr

/-- one statement of `push`; `some e` = early `return Err(e)` -/
def pushStmt (r : Rc) (s : RState) : String → RState × Option RErr
  | "full" => if s.receipts.length = maxReceipts then (s, some .bugReceiptsCtxFull) else (s, none)
  | "tail" =>
    if (s.receipts.length = maxReceipts - 1 ∧ r.kind ≠ .scriptResult) ∨
       (s.receipts.length = maxReceipts - 2 ∧ r.kind ≠ .scriptResult ∧ r.kind ≠ .panic)
    then (s, some .tooManyReceipts) else (s, none)
  | "tree" => ({ s with leaves := s.leaves ++ [r.enc] }, none)
  | "list" => ({ s with receipts := s.receipts ++ [r] }, none)
  | _ => (s, none)

def runStmts (r : Rc) : List String → RState → RState × Option RErr
  | [], s => (s, none)
  | st :: rest, s =>
    match pushStmt r s st with
    | (s', some e) => (s', some e)
    | (s', none) => runStmts r rest s'

/-- `ReceiptsCtx::push` -/
def push (s : RState) (r : Rc) : RState × Option RErr := runStmts r pushOrder s

/-- `n` pushes of the same receipt, stopping at the first rejection -/
def fill (s : RState) (r : Rc) : Nat → RState × Option RErr
  | 0 => (s, none)
  | n + 1 =>
    match push s r with
    | (s', some e) => (s', some e)
    | (s', none) => fill s' r n

/-- closed form of `fill` used by the driver for the 65 000-receipt prefixes (proved equal to `fill`
in Props/C09b.lean: `fillFast_eq`); falls back to `fill` whenever the closed form is not known to apply -/
def fillFast (s : RState) (r : Rc) (n : Nat) : RState × Option RErr :=
  if pushOrder = ["full", "tail", "tree", "list"] ∧ s.receipts.length + n ≤ maxReceipts - 2 then
    ({ receipts := s.receipts ++ List.replicate n r, leaves := s.leaves ++ List.replicate n r.enc }, none)
  else fill s r n

/-- `ReceiptsCtx::clear` -/
def clear (s : RState) : RState :=
  if clearResetsTreeAndList then {} else { s with receipts := [] }

/-- `ReceiptsCtx::root` -/
def root (H : HashFn) (s : RState) : Except Err Bytes := receiptsRoot H s.leaves

inductive Op | push (r : Rc) | clear

def step (s : RState) : Op → RState
  | .push r => (push s r).1
  | .clear => clear s

def run (ops : List Op) : RState := ops.foldl step {}

/-- the invariant the property needs: the tree holds exactly the receipts' encodings, within the limit -/
def Inv (s : RState) : Prop := s.leaves = s.receipts.map (·.enc) ∧ s.receipts.length ≤ maxReceipts

end FuelVerif.RCtx
