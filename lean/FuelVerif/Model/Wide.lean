/-
C22 model: the wide-integer instructions of fuel-vm, transcribed from
  fuel-vm/src/interpreter/alu/wideint.rs   (`wideint_ops!` for u128/U256: alu_wideint_{cmp,op,mul,div,addmod,mulmod,muldiv},
                                            cmp_*, op_overflowing_*; the to_prim/from_prim helpers are value-preserving
                                            re-encodings and disappear on `Nat`)
  fuel-asm/src/args/wideint.rs             (CompareArgs/MathArgs/MulArgs/DivArgs::from_imm; tables from Gen/AluArgs)
  fuel-vm/src/interpreter/executors/opcodes_impl.rs (operand wiring of the 14 W* opcodes)
parametric in the operand size `n` bytes (16 = u128 / "WD*", 32 = U256 / "WQ*"). Operands are `Nat`s read
big-endian from memory (`from_be_bytes(read_bytes(addr)?)`) or zero-extended registers (`c.into()`).
-/
import FuelVerif.Model.AluBase
import FuelVerif.Model.VmMem
import FuelVerif.Model.Instr
import FuelVerif.Basic.Util
namespace FuelVerif.Alu
open FuelVerif.Gen.AluArgs

/-- registers, memory, and the `$hp` saved in each call frame of `Interpreter::frames`
(`frame.registers()[RegId::HP]`, outermost first; empty in a script or predicate) -/
structure VmSt where
  regs : Regs
  mem : Mem
  frames : List Nat

/-- `OwnershipRegisters::new`: `prev_hp = vm.frames.last().map(|frame| frame.registers()[RegId::HP]).unwrap_or(VM_MAX_RAM)` -/
def VmSt.prevHp (s : VmSt) : Nat := s.frames.getLast?.getD vmMaxRam

abbrev WOut := VmSt × Option Panic

/-- `Interpreter::ownership_registers` -/
def VmSt.owner (s : VmSt) : Owner :=
  { sp := s.regs regSP, ssp := s.regs regSSP, hp := s.regs regHP, prevHp := s.prevHp }

/-- `$t::from_be_bytes(self.memory.read_bytes(addr)?)` -/
def readWide (m : Mem) (addr n : Nat) : Except Panic Nat :=
  match m.readBytes addr n with
  | .error p => .error p
  | .ok bs => .ok (beNat bs)

/-- operand that is indirect only if the flag is set: `if indirect { read } else { reg.into() }` -/
def readOperand (m : Mem) (indirect : Bool) (v n : Nat) : Except Panic Nat :=
  if indirect then readWide m v n else .ok v

inductive CmpMode | EQ | NE | LT | GT | LTE | GTE | LZC
  deriving DecidableEq, Repr
inductive WMathOp | ADD | SUB | NOT | OR | XOR | AND | SHL | SHR
  deriving DecidableEq, Repr

/-- `strum::FromRepr` of `wideint::CompareMode`, through the generated discriminant table -/
def cmpModeFromRepr (n : Nat) : Option CmpMode :=
  match wideCompareModes.find? (fun p => p.1 == n) with
  | some (_, "EQ") => some .EQ | some (_, "NE") => some .NE | some (_, "LT") => some .LT | some (_, "GT") => some .GT
  | some (_, "LTE") => some .LTE | some (_, "GTE") => some .GTE | some (_, "LZC") => some .LZC
  | _ => none

def wMathOpFromRepr (n : Nat) : Option WMathOp :=
  match wideMathOps.find? (fun p => p.1 == n) with
  | some (_, "ADD") => some .ADD | some (_, "SUB") => some .SUB | some (_, "NOT") => some .NOT | some (_, "OR") => some .OR
  | some (_, "XOR") => some .XOR | some (_, "AND") => some .AND | some (_, "SHL") => some .SHL | some (_, "SHR") => some .SHR
  | _ => none

def bitSet (bits shift : Nat) : Bool := ((bits >>> shift) &&& 1) == 1

/-- `CompareArgs::from_imm` → (mode, indirect_rhs) -/
def compareFromImm (bits : Nat) : Option (CmpMode × Bool) :=
  let indirectRhs := bitSet bits cmpIndirectShift
  let reserved := (bits >>> cmpReservedShift) &&& cmpReservedMask
  if reserved ≠ 0 then none
  else match cmpModeFromRepr (bits &&& cmpModeMask) with
    | none => none
    | some mode => some (mode, indirectRhs)

/-- `wideint::MathArgs::from_imm` → (op, indirect_rhs) -/
def mathFromImm (bits : Nat) : Option (WMathOp × Bool) :=
  let indirectRhs := bitSet bits mathIndirectShift
  match wMathOpFromRepr (bits &&& mathOpMask) with
  | none => none
  | some op => some (op, indirectRhs)

/-- `MulArgs::from_imm` → (indirect_lhs, indirect_rhs) -/
def mulFromImm (bits : Nat) : Option (Bool × Bool) :=
  let indirectLhs := bitSet bits mulIndirectLhsShift
  let indirectRhs := bitSet bits mulIndirectRhsShift
  if (bits &&& mulReservedMask) ≠ 0 then none else some (indirectLhs, indirectRhs)

/-- `DivArgs::from_imm` → indirect_rhs -/
def divFromImm (bits : Nat) : Option Bool :=
  let indirectRhs := bitSet bits divIndirectRhsShift
  if (bits &&& divReservedMask) ≠ 0 then none else some indirectRhs

/-- `leading_zeros()` of a `W`-bit integer -/
def leadingZeros (W v : Nat) : Nat := if v = 0 then W else W - (Nat.log2 v + 1)

/-- `cmp_$t(lhs, rhs, mode)` -/
def wideCmpVal (W lhs rhs : Nat) : CmpMode → Nat
  | .EQ => boolWord' (lhs == rhs)
  | .NE => boolWord' (lhs != rhs)
  | .GT => boolWord' (decide (lhs > rhs))
  | .LT => boolWord' (decide (lhs < rhs))
  | .GTE => boolWord' (decide (lhs ≥ rhs))
  | .LTE => boolWord' (decide (lhs ≤ rhs))
  | .LZC => leadingZeros W lhs
where boolWord' (b : Bool) : Nat := if b then 1 else 0

/-- `op_overflowing_$t(lhs, rhs, args)` → (wrapped, overflow), `W` = bit width -/
def wideOpOverflowing (W lhs rhs : Nat) : WMathOp → Nat × Bool
  | .ADD => ((lhs + rhs) % 2 ^ W, decide (lhs + rhs ≥ 2 ^ W))
  | .SUB => ((lhs + 2 ^ W - rhs) % 2 ^ W, decide (lhs < rhs))
  | .OR => (lhs ||| rhs, false)
  | .XOR => (lhs ^^^ rhs, false)
  | .AND => (lhs &&& rhs, false)
  | .NOT => (2 ^ W - 1 - lhs, false)
  | .SHL => (if rhs < 2 ^ 32 then (if rhs < W then (lhs <<< rhs) % 2 ^ W else 0) else 0, false)
  | .SHR => (if rhs < 2 ^ 32 then (if rhs < W then lhs >>> rhs else 0) else 0, false)

/-- common tail of the arithmetic instructions: `write_bytes(owner_regs, dest_addr, result.to_be_bytes())?; inc_pc(pc)`
on a state whose `$of/$err` were already updated -/
def writeResult (s : VmSt) (regs' : Regs) (destAddr n result : Nat) : WOut :=
  match s.mem.writeBytes s.owner destAddr (natBE n result) with
  | .error p => ({ s with regs := regs' }, some p)
  | .ok m' => ({ s with regs := incPc regs', mem := m' }, none)

/-- `alu_wideint_cmp_$t(ra, b, c, args)` -/
def wideCmp (n : Nat) (s : VmSt) (ra b c : Nat) (mode : CmpMode) (indirectRhs : Bool) : WOut :=
  match writeRegKey ra with
  | .error p => (s, some p)
  | .ok k =>
    match readWide s.mem b n with
    | .error p => (s, some p)
    | .ok lhs =>
      match readOperand s.mem indirectRhs c n with
      | .error p => (s, some p)
      | .ok rhs =>
        let r := s.regs.set k (wideCmpVal (8 * n) lhs rhs mode)
        let r := r.set regOF 0
        let r := r.set regERR 0
        ({ s with regs := incPc r }, none)

/-- `alu_wideint_op_$t(dest_addr, b, c, args)` -/
def wideOp (n : Nat) (s : VmSt) (destAddr b c : Nat) (op : WMathOp) (indirectRhs : Bool) : WOut :=
  match readWide s.mem b n with
  | .error p => (s, some p)
  | .ok lhs =>
    match readOperand s.mem indirectRhs c n with
    | .error p => (s, some p)
    | .ok rhs =>
      let (wrapped, overflow) := wideOpOverflowing (8 * n) lhs rhs op
      if overflow ∧ ¬ isWrapping (s.regs regFLAG) then (s, some .ArithmeticOverflow)
      else
        let r := s.regs.set regOF (if overflow then 1 else 0)
        let r := r.set regERR 0
        writeResult s r destAddr n wrapped

/-- `alu_wideint_mul_$t(dest_addr, b, c, args)` -/
def wideMul (n : Nat) (s : VmSt) (destAddr b c : Nat) (indirectLhs indirectRhs : Bool) : WOut :=
  match readOperand s.mem indirectLhs b n with
  | .error p => (s, some p)
  | .ok lhs =>
    match readOperand s.mem indirectRhs c n with
    | .error p => (s, some p)
    | .ok rhs =>
      let W := 8 * n
      let wrapped := (lhs * rhs) % 2 ^ W          -- overflowing_mul
      let overflow := decide (lhs * rhs ≥ 2 ^ W)
      if overflow ∧ ¬ isWrapping (s.regs regFLAG) then (s, some .ArithmeticOverflow)
      else
        let r := s.regs.set regOF (if overflow then 1 else 0)
        let r := r.set regERR 0
        writeResult s r destAddr n wrapped

/-- the `match x.checked_div/checked_rem(y)` shared by div, addmod, mulmod: `Some(v)` ⇒ `$err = 0`, result `v`;
`None` (zero divisor/modulus) ⇒ with UNSAFEMATH `$err = 1`, result 0, else `ArithmeticError`. Then `$of = 0`, write. -/
def wideErrTail (n : Nat) (s : VmSt) (destAddr : Nat) (v : Option Nat) : WOut :=
  match v with
  | some d =>
    let r := s.regs.set regERR 0
    let r := r.set regOF 0
    writeResult s r destAddr n d
  | none =>
    if isUnsafeMath (s.regs regFLAG) then
      let r := s.regs.set regERR 1
      let r := r.set regOF 0
      writeResult s r destAddr n 0
    else (s, some .ArithmeticError)

/-- `checked_div` / `checked_rem` on unsigned integers -/
def checkedDiv (a b : Nat) : Option Nat := if b = 0 then none else some (a / b)
def checkedRem (a b : Nat) : Option Nat := if b = 0 then none else some (a % b)

/-- `alu_wideint_div_$t(dest_addr, b, c, args)` -/
def wideDiv (n : Nat) (s : VmSt) (destAddr b c : Nat) (indirectRhs : Bool) : WOut :=
  match readWide s.mem b n with
  | .error p => (s, some p)
  | .ok lhs =>
    match readOperand s.mem indirectRhs c n with
    | .error p => (s, some p)
    | .ok rhs => wideErrTail n s destAddr (checkedDiv lhs rhs)

/-- three indirect operands read in order `b`, `c`, `d` -/
def read3 (n : Nat) (s : VmSt) (b c d : Nat) : Except Panic (Nat × Nat × Nat) :=
  match readWide s.mem b n with
  | .error p => .error p
  | .ok x =>
    match readWide s.mem c n with
    | .error p => .error p
    | .ok y =>
      match readWide s.mem d n with
      | .error p => .error p
      | .ok z => .ok (x, y, z)

/-- `alu_wideint_addmod_$t(dest_addr, b, c, d)`: the truncation of the remainder to `W` bits is explicit -/
def wideAddmod (n : Nat) (s : VmSt) (destAddr b c d : Nat) : WOut :=
  match read3 n s b c d with
  | .error p => (s, some p)
  | .ok (lhs, rhs, modulus) =>
    wideErrTail n s destAddr ((checkedRem (lhs + rhs) modulus).map (· % 2 ^ (8 * n)))

/-- `alu_wideint_mulmod_$t(dest_addr, b, c, d)` -/
def wideMulmod (n : Nat) (s : VmSt) (destAddr b c d : Nat) : WOut :=
  match read3 n s b c d with
  | .error p => (s, some p)
  | .ok (lhs, rhs, modulus) =>
    wideErrTail n s destAddr ((checkedRem (lhs * rhs) modulus).map (· % 2 ^ (8 * n)))

/-- `alu_wideint_muldiv_$t(dest_addr, b, c, d)` -/
def wideMuldiv (n : Nat) (s : VmSt) (destAddr b c d : Nat) : WOut :=
  match read3 n s b c d with
  | .error p => (s, some p)
  | .ok (lhs, rhs, divider) =>
    let W := 8 * n
    let product := lhs * rhs                      -- full_mul
    let productDivMax := product / 2 ^ W          -- product >> (S * 8)
    let result := (checkedDiv product divider).getD productDivMax   -- .unwrap_or(product_div_max)
    let lower := result % 2 ^ W
    let overflows := decide (result / 2 ^ W % 2 ^ W ≠ 0)          -- higher_half != [0; S]
    if overflows ∧ ¬ isWrapping (s.regs regFLAG) then (s, some .ArithmeticOverflow)
    else
      let r := s.regs.set regOF (if overflows then 1 else 0)
      let r := r.set regERR 0
      writeResult s r destAddr n lower

inductive WideOp | WDCM | WQCM | WDOP | WQOP | WDML | WQML | WDDV | WQDV | WDMD | WQMD | WDAM | WQAM | WDMM | WQMM
  deriving DecidableEq, Repr

def WideOp.ofName : String → Option WideOp
  | "WDCM" => some .WDCM | "WQCM" => some .WQCM | "WDOP" => some .WDOP | "WQOP" => some .WQOP
  | "WDML" => some .WDML | "WQML" => some .WQML | "WDDV" => some .WDDV | "WQDV" => some .WQDV
  | "WDMD" => some .WDMD | "WQMD" => some .WQMD | "WDAM" => some .WDAM | "WQAM" => some .WQAM
  | "WDMM" => some .WDMM | "WQMM" => some .WQMM
  | _ => none

/-- operand size in bytes: `WD*` = u128, `WQ*` = U256 -/
def WideOp.bytes : WideOp → Nat
  | .WDCM | .WDOP | .WDML | .WDDV | .WDMD | .WDAM | .WDMM => 16
  | _ => 32

/-- one wide-integer instruction (`impl Execute for op::X`, after the gas charge) -/
def execWide (op : WideOp) (args : List Nat) (s : VmSt) : WOut :=
  let r := s.regs
  let n := op.bytes
  match op, args with
  | .WDCM, [a, b, c, imm] | .WQCM, [a, b, c, imm] =>
    match compareFromImm imm with
    | none => (s, some .InvalidImmediateValue)
    | some (mode, ind) => wideCmp n s a (r b) (r c) mode ind
  | .WDOP, [a, b, c, imm] | .WQOP, [a, b, c, imm] =>
    match mathFromImm imm with
    | none => (s, some .InvalidImmediateValue)
    | some (mop, ind) => wideOp n s (r a) (r b) (r c) mop ind
  | .WDML, [a, b, c, imm] | .WQML, [a, b, c, imm] =>
    match mulFromImm imm with
    | none => (s, some .InvalidImmediateValue)
    | some (il, ir) => wideMul n s (r a) (r b) (r c) il ir
  | .WDDV, [a, b, c, imm] | .WQDV, [a, b, c, imm] =>
    match divFromImm imm with
    | none => (s, some .InvalidImmediateValue)
    | some ir => wideDiv n s (r a) (r b) (r c) ir
  | .WDMD, [a, b, c, d] | .WQMD, [a, b, c, d] => wideMuldiv n s (r a) (r b) (r c) (r d)
  | .WDAM, [a, b, c, d] | .WQAM, [a, b, c, d] => wideAddmod n s (r a) (r b) (r c) (r d)
  | .WDMM, [a, b, c, d] | .WQMM, [a, b, c, d] => wideMulmod n s (r a) (r b) (r c) (r d)
  | _, _ => (s, some .HostPanic)

/-- `instruction_inner` restricted to the wide-integer opcodes; `none` = not one of them -/
def stepWide (w : Nat) (s : VmSt) : Option WOut :=
  match Instr.decode w with
  | none => some (s, some .InvalidInstruction)
  | some i =>
    match Instr.lookup i.op with
    | none => some (s, some .InvalidInstruction)
    | some row =>
      match WideOp.ofName row.name with
      | some op => some (execWide op i.args s)
      | none => none

end FuelVerif.Alu
