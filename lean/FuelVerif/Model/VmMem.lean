/-
Minimal model of `MemoryInstance` access as used by the wide-integer instructions (C22) and the
instruction fetch (C25), transcribed from fuel-vm/src/interpreter/memory.rs:
`ToAddr for Word`, `MemoryInstance::verify`, `read_bytes`, `write_bytes`, `OwnershipRegisters::{verify_ownership,
has_ownership_range, has_ownership_stack, has_ownership_heap}`.
The memory is the pair of allocation bounds (`stack.len()`, `hp`) and a total byte function whose values
matter only at accessible addresses. (The full memory refinement is property C23's subject.)
-/
import FuelVerif.Model.AluBase
namespace FuelVerif.Alu
open FuelVerif.Gen.AluArgs

structure Mem where
  /-- `stack.len()` -/
  stackLen : Nat
  /-- `MemoryInstance::hp` -/
  hp : Nat
  bytes : Nat → UInt8

/-- `MEM_SIZE` (= `VM_MAX_RAM as usize`) -/
def memSize : Nat := vmMaxRam

/-- `<Word as ToAddr>::to_addr`: `usize::try_from` (64-bit target: always fits) then `> MEM_SIZE ⇒ MemoryOverflow` -/
def toAddr (v : Nat) : Except Panic Nat :=
  if v > memSize then .error .MemoryOverflow else .ok v

/-- `MemoryInstance::verify(addr, count)` → the range `start..end` -/
def Mem.verify (m : Mem) (addr count : Nat) : Except Panic (Nat × Nat) :=
  match toAddr addr with
  | .error p => .error p
  | .ok start =>
    match toAddr count with
    | .error p => .error p
    | .ok len =>
      let end_ := start + len       -- saturating_add on usize: both ≤ MEM_SIZE, never saturates
      if end_ > memSize then .error .MemoryOverflow
      else if end_ ≤ m.stackLen ∨ start ≥ m.hp then .ok (start, end_)
      else .error .UninitalizedMemoryAccess

/-- `read_bytes::<C>(at)` -/
def Mem.readBytes (m : Mem) (addr n : Nat) : Except Panic (List UInt8) :=
  match m.verify addr n with
  | .error p => .error p
  | .ok (start, _) => .ok ((List.range n).map (fun i => m.bytes (start + i)))

/-- `OwnershipRegisters` -/
structure Owner where
  sp : Nat
  ssp : Nat
  hp : Nat
  prevHp : Nat

/-- `has_ownership_stack(range)` for `range = start..end` -/
def Owner.hasStack (o : Owner) (start end_ : Nat) : Bool :=
  if end_ ≤ start ∧ start = o.ssp then true            -- range.is_empty() && range.start == ssp
  else if ¬ (o.ssp ≤ start ∧ start < o.sp) then false  -- !(ssp..sp).contains(&range.start)
  else if end_ > vmMaxRam then false
  else decide (o.ssp ≤ end_ ∧ end_ ≤ o.sp)             -- (ssp..=sp).contains(&range.end)

/-- `has_ownership_heap(range)` -/
def Owner.hasHeap (o : Owner) (start end_ : Nat) : Bool :=
  if end_ ≤ start ∧ start = o.hp then true
  else if start < o.hp then false
  else decide (o.hp ≠ o.prevHp ∧ end_ ≤ o.prevHp)

/-- `verify_ownership` -/
def Owner.verify (o : Owner) (start end_ : Nat) : Except Panic Unit :=
  if o.hasStack start end_ || o.hasHeap start end_ then .ok () else .error .MemoryOwnership

/-- contents after `copy_from_slice(&data)` at `start` -/
def Mem.store (m : Mem) (start : Nat) (data : List UInt8) : Mem :=
  { m with bytes := fun a => if start ≤ a ∧ a < start + data.length then data.getD (a - start) 0 else m.bytes a }

/-- `write_bytes(owner, addr, data)`: `verify`, `verify_ownership`, `write_noownerchecks` (re-verifies), copy -/
def Mem.writeBytes (m : Mem) (o : Owner) (addr : Nat) (data : List UInt8) : Except Panic Mem :=
  match m.verify addr data.length with
  | .error p => .error p
  | .ok (start, end_) =>
    match o.verify start end_ with
    | .error p => .error p
    | .ok () =>
      match m.verify start (end_ - start) with
      | .error p => .error p
      | .ok (s, _) => .ok (m.store s data)

end FuelVerif.Alu
