/-
`MemoryInstance` as far as instance reuse is concerned (C31): both vectors with their REAL lengths and stale
contents, `reset` (which keeps the allocations and the dirty heap bytes), regrowth and the zeroing it does.

Transcribed from fuel-vm/src/interpreter/memory.rs
  MemoryInstance::{new, reset, heap_offset, grow_stack, grow_heap_by, verify, read, write_noownerchecks}
  impl PartialEq for MemoryInstance  ("equality comparison of the accessible memory")

A `Vec<u8>` is modelled as (length, index function); `resize`, `truncate`, `fill`, `copy_within` by their effect
on that pair (DESIGN §4: Vec semantics are modelled, not verified).
-/
import FuelVerif.Basic.Util
import FuelVerif.Gen.VmConsts
namespace FuelVerif.VmMemory
open FuelVerif.Gen

inductive Err where
  | MemoryOverflow | MemoryGrowthOverlap | UninitalizedMemoryAccess
deriving DecidableEq, Repr

structure MemI where
  stackLen : Nat
  stack : Nat → UInt8
  heapLen : Nat
  heap : Nat → UInt8
  hp : Nat

/-- `MemoryInstance::new` -/
def MemI.new : MemI := ⟨0, fun _ => 0, 0, fun _ => 0, memSize⟩

/-- `MemoryInstance::reset`: `stack.truncate(0); hp = MEM_SIZE` — the heap vector and its contents stay -/
def MemI.reset (m : MemI) : MemI := { m with stackLen := 0, hp := memSize }

/-- `heap_offset` -/
def MemI.heapOffset (m : MemI) : Nat := memSize - m.heapLen

/-- `grow_stack` -/
def MemI.growStack (m : MemI) (newSp : Nat) : Except Err MemI :=
  if newSp > vmMaxRam then .error .MemoryOverflow
  else if newSp > m.stackLen then
    if newSp > m.hp then .error .MemoryGrowthOverlap
    else .ok { m with stackLen := newSp, stack := fun i => if i < m.stackLen then m.stack i else 0 }   -- resize(new_sp, 0)
  else .ok m

def nextPow2Go (n : Nat) : Nat → Nat → Nat
  | 0, p => p
  | fuel + 1, p => if p ≥ n then p else nextPow2Go n fuel (2 * p)

/-- `usize::next_power_of_two` (smallest power of two ≥ n), for n ≤ 2^64 -/
def nextPow2 (n : Nat) : Nat := nextPow2Go n 64 1

/-- `grow_heap_by(sp, hp, amount)`; the `hp` register is `m.hp` (debug_assert) -/
def MemI.growHeapBy (m : MemI) (sp amount : Nat) : Except Err MemI :=
  if amount > m.hp then .error .MemoryOverflow                    -- checked_sub
  else
    let newHp := m.hp - amount
    if newHp < sp then .error .MemoryGrowthOverlap
    else
      let newLen := memSize - newHp
      let m' : MemI :=
        if m.heapLen ≥ newLen then
          -- heap[start..end].fill(0)
          let start := newHp - m.heapOffset
          let stop := m.hp - m.heapOffset
          { m with heap := fun i => if start ≤ i ∧ i < stop then 0 else m.heap i }
        else
          -- if let Some(end) = hp.checked_sub(heap_offset) { heap[..end].fill(0) }
          let h1 : Nat → UInt8 := if m.heapOffset ≤ m.hp then (fun i => if i < m.hp - m.heapOffset then 0 else m.heap i) else m.heap
          let cap := max 256 (min (nextPow2 newLen) memSize)           -- clamp(256, MEM_SIZE)
          let pre := cap - m.heapLen
          -- resize(cap, 0); copy_within(..old_len, prefix_zeroes); heap[..prefix_zeroes].fill(0)
          { m with heapLen := cap, heap := fun i => if i < pre then 0 else h1 (i - pre) }
      -- self.hp = new_hp; stack.truncate(new_hp)
      .ok { m' with hp := newHp, stackLen := min m'.stackLen newHp }

/-- `verify` -/
def MemI.verify (m : MemI) (start len : Nat) : Except Err Unit :=
  if start + len > memSize then .error .MemoryOverflow
  else if start + len ≤ m.stackLen ∨ start ≥ m.hp then .ok ()
  else .error .UninitalizedMemoryAccess

/-- the byte at an accessible address -/
def MemI.byteAt (m : MemI) (a : Nat) : UInt8 :=
  if a < m.stackLen then m.stack a else m.heap (a - m.heapOffset)

/-- `read` -/
def MemI.read (m : MemI) (start len : Nat) : Except Err Bytes :=
  match m.verify start len with
  | .error e => .error e
  | .ok () =>
    if start + len ≤ m.stackLen then .ok ((List.range len).map (fun i => m.stack (start + i)))
    else .ok ((List.range len).map (fun i => m.heap (start + i - m.heapOffset)))

/-- `write_noownerchecks` + `copy_from_slice(data)` -/
def MemI.write (m : MemI) (start : Nat) (data : Bytes) : Except Err MemI :=
  match m.verify start data.length with
  | .error e => .error e
  | .ok () =>
    if start + data.length ≤ m.stackLen then
      .ok { m with stack := fun i => if start ≤ i ∧ i < start + data.length then data.getD (i - start) 0 else m.stack i }
    else
      .ok { m with heap := fun i => if start - m.heapOffset ≤ i ∧ i < start - m.heapOffset + data.length
                                    then data.getD (i - (start - m.heapOffset)) 0 else m.heap i }

/-- `impl PartialEq for MemoryInstance`: same stack vector, same `hp`, same heap bytes from `hp` up -/
def MemI.Equiv (a b : MemI) : Prop :=
  a.stackLen = b.stackLen ∧ (∀ i, i < a.stackLen → a.stack i = b.stack i) ∧ a.hp = b.hp ∧
  ∀ x, a.hp ≤ x → x < memSize → a.heap (x - a.heapOffset) = b.heap (x - b.heapOffset)

/-- the representation invariant: the heap vector fits, `hp` lies inside it, the stack ends below `hp` -/
def MemI.Wf (m : MemI) : Prop :=
  m.heapLen ≤ memSize ∧ m.heapOffset ≤ m.hp ∧ m.hp ≤ memSize ∧ m.stackLen ≤ m.hp

/-- a memory operation as the interpreter issues it -/
inductive Op where
  | reset
  | growStack (newSp : Nat)
  | growHeapBy (sp amount : Nat)
  | read (start len : Nat)
  | write (start : Nat) (data : Bytes)

/-- one operation: new memory and what the caller observes (an error, or the bytes read) -/
def applyOp (m : MemI) : Op → MemI × Except Err Bytes
  | .reset => (m.reset, .ok [])
  | .growStack n => match m.growStack n with
    | .ok m' => (m', .ok [])
    | .error e => (m, .error e)
  | .growHeapBy sp n => match m.growHeapBy sp n with
    | .ok m' => (m', .ok [])
    | .error e => (m, .error e)
  | .read s n => (m, m.read s n)
  | .write s d => match m.write s d with
    | .ok m' => (m', .ok [])
    | .error e => (m, .error e)

/-- a whole history of operations: final memory and everything that was observed -/
def runOps (m : MemI) : List Op → MemI × List (Except Err Bytes)
  | [] => (m, [])
  | op :: rest =>
    let r := applyOp m op
    let q := runOps r.1 rest
    (q.1, r.2 :: q.2)

end FuelVerif.VmMemory
