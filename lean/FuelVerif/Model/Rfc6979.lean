/-
Deterministic nonce of RFC 6979 (HMAC_DRBG with HMAC-SHA-256, qlen = hlen = 256), as both signing
libraries compute it: `rfc6979-0.4.0` `generate_k` / `HmacDrbg` (RustCrypto) and
`nonce_function_rfc6979` + `rfc6979_hmac_sha256_*` (libsecp256k1, no extra data, no algo16).
The hash function is a parameter; the driver instantiates SHA-256.

What differs between the callers is the `h1` they pass:
  * libsecp256k1 passes the message reduced mod n (`scalar_set_b32` then `scalar_get_b32`);
  * `ecdsa-0.16.9` `try_sign_prehashed_rfc6979` passes the 32 message bytes as they are
    (so `k256::sign` before `fix-C16-k256-sign-reduce-message`, and `p256::sign_prehashed`, use the raw bytes).
-/
import FuelVerif.Basic.Util
namespace FuelVerif.Rfc6979
open FuelVerif

/-- HMAC with a 64-byte block (keys here are 32 bytes, never longer than the block) -/
def hmac (H : Bytes → Bytes) (key data : Bytes) : Bytes :=
  let k := key ++ zeros (64 - key.length)
  H (k.map (· ^^^ 0x5c) ++ H (k.map (· ^^^ 0x36) ++ data))

/-- the candidate loop: `V = HMAC_K(V)`; accept `0 < V < n`; otherwise `K = HMAC_K(V ‖ 00)`, `V = HMAC_K(V)` -/
def candidates (H : Bytes → Bytes) (n : Nat) : Nat → Bytes → Bytes → Option Nat
  | 0, _, _ => none
  | fuel + 1, K, V =>
    let V := hmac H K V
    let k := beNat V
    if k ≠ 0 ∧ k < n then some k
    else
      let K := hmac H K (V ++ [0x00])
      let V := hmac H K V
      candidates H n fuel K V

/-- `generate_k(x, n, h1, "")`; `none` only if 8 consecutive candidates are out of range -/
def generateK (H : Bytes → Bytes) (n : Nat) (x h1 : Bytes) : Option Nat :=
  let V := List.replicate 32 (0x01 : UInt8)
  let K := zeros 32
  let K := hmac H K (V ++ [0x00] ++ x ++ h1)
  let V := hmac H K V
  let K := hmac H K (V ++ [0x01] ++ x ++ h1)
  let V := hmac H K V
  candidates H n 8 K V

theorem candidates_range (H : Bytes → Bytes) (n : Nat) : ∀ fuel K V k,
    candidates H n fuel K V = some k → k ≠ 0 ∧ k < n := by
  intro fuel
  induction fuel with
  | zero => intro K V k h; simp [candidates] at h
  | succ f ih =>
    intro K V k h
    unfold candidates at h
    simp only at h
    split at h
    · rename_i hc
      cases Option.some.inj h
      exact hc
    · exact ih _ _ _ h

/-- a generated nonce is a valid one: `0 < k < n` -/
theorem generateK_range (H : Bytes → Bytes) (n : Nat) (x h1 : Bytes) (k : Nat)
    (h : generateK H n x h1 = some k) : k ≠ 0 ∧ k < n :=
  candidates_range H n _ _ _ _ h

end FuelVerif.Rfc6979
