/-
Executable model of `fuel-vm/src/interpreter/memory.rs` (C23, C24): `MemoryInstance` (stack vector,
over-allocated heap vector, `hp`), `OwnershipRegisters`, `get_changes`/`collect_rollback_data`/`rollback`.

Conventions
* Buffers (`Vec<u8>`) are a length plus a function `Nat → UInt8` (local index); values at indices
  `≥ len` are junk that no transcribed operation ever reads (`resize` re-zeroes them on growth, exactly as
  `Vec::resize(n, 0)` does). This keeps the 64 MiB address space executable in the driver and the proofs
  extensional.
* `M` is `MEM_SIZE = VM_MAX_RAM` (a parameter; the driver and the property theorems instantiate
  `Gen.memSize`), `minCap` the lower clamp of the reallocation policy (`Gen.heapMinCap`).
* `Word`/`usize` arguments are `Nat`; callers pass values `< 2^64` (usize is 64 bit, so `usize::try_from(Word)`
  never fails and `saturating_add` of two values `≤ M` never saturates).
* Where Rust would panic (slice index out of range, `assert!`, `expect`, arithmetic overflow with
  overflow checks) the model returns `Err.RustPanic`; `unreachable!()` is `Err.Unreachable`. The property
  theorems show these are not reachable from `new` except for the two documented refusals of
  `collect_rollback_data`.
-/
import FuelVerif.Basic.Util
import FuelVerif.Gen.MemConsts
namespace FuelVerif.Memory

/-- `PanicReason` variants produced by memory.rs (spelling as in fuel-asm), plus Rust-level panics -/
inductive Err
  | MemoryOverflow | MemoryGrowthOverlap | UninitalizedMemoryAccess | MemoryWriteOverlap | MemoryOwnership
  | Unreachable | RustPanic
  deriving DecidableEq, Repr, Inhabited

def Err.name : Err → String
  | .MemoryOverflow => "MemoryOverflow"
  | .MemoryGrowthOverlap => "MemoryGrowthOverlap"
  | .UninitalizedMemoryAccess => "UninitalizedMemoryAccess"
  | .MemoryWriteOverlap => "MemoryWriteOverlap"
  | .MemoryOwnership => "MemoryOwnership"
  | .Unreachable => "unreachable"
  | .RustPanic => "panic"

abbrev Buf := Nat → UInt8

/-- `buf[a..b].fill(0)` -/
def fill0 (f : Buf) (a b : Nat) : Buf := fun i => if a ≤ i ∧ i < b then 0 else f i
/-- the content part of `Vec::resize(n, 0)` when growing from length `len`: new cells are zero -/
def resize0 (f : Buf) (len : Nat) : Buf := fun i => if i < len then f i else 0
/-- `dst[d..d+n].copy_from_slice(&src[s..s+n])` (also `copy_within(s..s+n, d)` when `dst = src`: memmove semantics) -/
def copyFrom (dst : Buf) (d : Nat) (src : Buf) (s n : Nat) : Buf :=
  fun i => if d ≤ i ∧ i < d + n then src (s + (i - d)) else dst i
/-- `buf[a..a+len]` filled by the caller with `vals 0 … vals (len-1)` (the `&mut [u8]` returned by `write*`) -/
def putAt (f : Buf) (a len : Nat) (vals : Nat → UInt8) : Buf :=
  fun i => if a ≤ i ∧ i < a + len then vals (i - a) else f i
/-- `&buf[s..e]` as a byte list -/
def slice (f : Buf) (s e : Nat) : Bytes := (List.range (e - s)).map (fun i => f (s + i))

/-- `struct MemoryInstance { stack, heap, hp }` -/
structure Mem where
  stackLen : Nat
  stack : Buf
  heapLen : Nat
  heap : Buf
  hp : Nat

/-- `struct OwnershipRegisters { sp, ssp, hp, prev_hp }` -/
structure Ownership where
  sp : Nat
  ssp : Nat
  hp : Nat
  prevHp : Nat
  deriving DecidableEq, Repr, Inhabited

/-- `usize::next_power_of_two` for arguments `≤ 2^63` (loop of at most 64 doublings) -/
def nextPow2Go (n : Nat) : Nat → Nat → Nat
  | 0, p => p
  | fuel + 1, p => if n ≤ p then p else nextPow2Go n fuel (2 * p)
def nextPow2 (n : Nat) : Nat := nextPow2Go n 64 1

/-- `Ord::clamp(x, lo, hi)` for `lo ≤ hi` (Rust asserts `lo <= hi`) -/
def clamp (x lo hi : Nat) : Nat := if x < lo then lo else if x > hi then hi else x

section
variable (M minCap : Nat)

/-- `MemoryInstance::new` -/
def Mem.new : Mem := { stackLen := 0, stack := fun _ => 0, heapLen := 0, heap := fun _ => 0, hp := M }

/-- `MemoryInstance::reset`: `stack.truncate(0); hp = MEM_SIZE` — the heap buffer keeps its old bytes -/
def Mem.reset (m : Mem) : Mem := { m with stackLen := 0, hp := M }

/-- `heap_offset`: `MEM_SIZE.saturating_sub(heap.len())` -/
def Mem.heapOffset (m : Mem) : Nat := M - m.heapLen

/-- `grow_stack(new_sp)` -/
def Mem.growStack (m : Mem) (newSp : Nat) : Except Err Mem :=
  if newSp > M then .error .MemoryOverflow
  else if newSp > m.stackLen then
    if newSp > m.hp then .error .MemoryGrowthOverlap
    else .ok { m with stackLen := newSp, stack := resize0 m.stack m.stackLen }
  else .ok m

/-- `grow_heap_by(sp_reg, hp_reg, amount)`; the new value of `hp_reg` is the `hp` of the result -/
def Mem.growHeapBy (m : Mem) (spReg amount : Nat) : Except Err Mem :=
  if m.hp < amount then .error .MemoryOverflow                       -- checked_sub
  else
    let newHp := m.hp - amount
    if newHp < spReg then .error .MemoryGrowthOverlap
    else if M < newHp then .error .RustPanic                         -- `MEM_SIZE - new_hp`
    else
      let newLen := M - newHp
      let off := m.heapOffset M
      if m.heapLen ≥ newLen then
        -- `start = new_hp - off; end = hp - off; heap[start..end].fill(0)`
        if newHp < off ∨ m.hp < off ∨ m.hp - off > m.heapLen then .error .RustPanic
        else .ok { m with heap := fill0 m.heap (newHp - off) (m.hp - off), hp := newHp,
                          stackLen := min m.stackLen newHp }
      else
        -- `if let Some(end) = hp.checked_sub(off) { heap[..end].fill(0) }`
        if off ≤ m.hp ∧ m.hp - off > m.heapLen then .error .RustPanic
        else
          let heap1 := if off ≤ m.hp then fill0 m.heap 0 (m.hp - off) else m.heap
          if M < minCap then .error .RustPanic                       -- `clamp` asserts min <= max
          else
            let cap := clamp (nextPow2 newLen) minCap M
            let oldLen := m.heapLen
            if cap < oldLen then .error .RustPanic                   -- `cap - old_len`
            else
              let pre := cap - oldLen
              let heap2 := resize0 heap1 oldLen                      -- `heap.resize(cap, 0)`
              let heap3 := copyFrom heap2 pre heap2 0 oldLen         -- `heap.copy_within(..old_len, prefix_zeroes)`
              let heap4 := fill0 heap3 0 pre                         -- `heap[..prefix_zeroes].fill(0)`
              .ok { m with heapLen := cap, heap := heap4, hp := newHp, stackLen := min m.stackLen newHp }

/-- `verify(addr, count)`: `to_addr` of both, saturating end, bounds, accessibility; returns `(start, end)` -/
def Mem.verify (m : Mem) (addr count : Nat) : Except Err (Nat × Nat) :=
  if addr > M then .error .MemoryOverflow
  else if count > M then .error .MemoryOverflow
  else if addr + count > M then .error .MemoryOverflow              -- `end = start.saturating_add(len)`
  else if addr + count ≤ m.stackLen ∨ addr ≥ m.hp then .ok (addr, addr + count)
  else .error .UninitalizedMemoryAccess

/-- `read(addr, count)` -/
def Mem.read (m : Mem) (addr count : Nat) : Except Err Bytes :=
  match m.verify M addr count with
  | .error e => .error e
  | .ok (s, e) =>
    if e ≤ m.stackLen then .ok (slice m.stack s e)
    else if s ≥ m.heapOffset M then
      if e - m.heapOffset M > m.heapLen then .error .RustPanic
      else .ok (slice m.heap (s - m.heapOffset M) (e - m.heapOffset M))
    else .error .Unreachable

/-- `write_noownerchecks(addr, len)` followed by the caller filling the returned slice with `vals` -/
def Mem.writeNoOwnerChecks (m : Mem) (addr len : Nat) (vals : Nat → UInt8) : Except Err Mem :=
  match m.verify M addr len with
  | .error e => .error e
  | .ok (s, e) =>
    if e ≤ m.stackLen then .ok { m with stack := putAt m.stack s (e - s) vals }
    else if s ≥ m.heapOffset M then
      if e - m.heapOffset M > m.heapLen then .error .RustPanic
      else .ok { m with heap := putAt m.heap (s - m.heapOffset M) (e - s) vals }
    else .error .Unreachable

/-- `has_ownership_stack(range)` with `range = start..end` (`Range<Word>`; empty iff `end ≤ start`) -/
def Ownership.hasStack (o : Ownership) (s e : Nat) : Bool :=
  if e ≤ s ∧ s = o.ssp then true
  else if ¬ (o.ssp ≤ s ∧ s < o.sp) then false
  else if e > M then false
  else decide (o.ssp ≤ e ∧ e ≤ o.sp)

/-- `has_ownership_heap(range)` -/
def Ownership.hasHeap (o : Ownership) (s e : Nat) : Bool :=
  if e ≤ s ∧ s = o.hp then true
  else if s < o.hp then false
  else decide (o.hp ≠ o.prevHp ∧ e ≤ o.prevHp)

/-- `has_ownership_range` -/
def Ownership.hasRange (o : Ownership) (s e : Nat) : Bool := o.hasStack M s e || o.hasHeap s e

/-- `verify_ownership(range)` -/
def Ownership.verifyOwnership (o : Ownership) (s e : Nat) : Except Err Unit :=
  if o.hasRange M s e then .ok () else .error .MemoryOwnership

/-- `OwnershipRegisters::new(vm)`: `prev_hp` is the `$hp` saved in the last call frame, else `VM_MAX_RAM` -/
def Ownership.ofVm (sp ssp hp : Nat) (lastFrameSavedHp : Option Nat) : Ownership :=
  { sp := sp, ssp := ssp, hp := hp, prevHp := lastFrameSavedHp.getD M }

/-- `OwnershipRegisters::only_allow_stack_write(sp, ssp, hp)` (LDC) -/
def Ownership.onlyAllowStackWrite (sp ssp hp : Nat) : Ownership :=
  { sp := sp, ssp := ssp, hp := hp, prevHp := hp }

/-- `write(owner, addr, len)` followed by the caller filling the returned slice with `vals` -/
def Mem.write (m : Mem) (o : Ownership) (addr len : Nat) (vals : Nat → UInt8) : Except Err Mem :=
  match m.verify M addr len with
  | .error e => .error e
  | .ok (s, e) =>
    match o.verifyOwnership M s e with
    | .error e => .error e
    | .ok () => m.writeNoOwnerChecks M s (e - s) vals

/-- the four-way overlap test of `memcopy` on `(dst.start, dst.end)`, `(src.start, src.end)` -/
def memcopyOverlap (ds de ss se : Nat) : Bool :=
  (decide (ds ≤ ss) && decide (ss < de)) || (decide (ss ≤ ds) && decide (ds < se))
    || (decide (ds < se) && decide (se ≤ de)) || (decide (ss < de) && decide (de ≤ se))

/-- `memcopy(dst, src, length, owner)` -/
def Mem.memcopy (m : Mem) (dst src len : Nat) (o : Ownership) : Except Err Mem :=
  match m.verify M dst len with
  | .error e => .error e
  | .ok (ds, de) =>
    match m.verify M src len with
    | .error e => .error e
    | .ok (ss, se) =>
      if memcopyOverlap ds de ss se then .error .MemoryWriteOverlap
      else
        match o.verifyOwnership M ds de with
        | .error e => .error e
        | .ok () =>
          let off := m.heapOffset M
          if se ≤ m.stackLen then
            if de ≤ m.stackLen then
              .ok { m with stack := copyFrom m.stack ds m.stack ss (se - ss) }
            else if ds ≥ off then
              if de - off > m.heapLen then .error .RustPanic
              else .ok { m with heap := copyFrom m.heap (ds - off) m.stack ss (se - ss) }
            else .error .Unreachable
          else if ss ≥ off then
            if de ≤ m.stackLen then
              if se - off > m.heapLen then .error .RustPanic
              else .ok { m with stack := copyFrom m.stack ds m.heap (ss - off) (se - ss) }
            else if ds ≥ off then
              if se - off > m.heapLen ∨ de - off > m.heapLen then .error .RustPanic
              else .ok { m with heap := copyFrom m.heap (ds - off) m.heap (ss - off) (se - ss) }
            else .error .Unreachable
          else .error .Unreachable

/-- `impl PartialEq for MemoryInstance`: equal stack vectors, equal `hp`, equal heap contents from `hp` -/
def Mem.eqAccessible (a b : Mem) : Bool :=
  decide (a.stackLen = b.stackLen) && (List.range a.stackLen).all (fun i => a.stack i == b.stack i)
    && decide (a.hp = b.hp)
    && decide (a.heapLen - (a.hp - a.heapOffset M) = b.heapLen - (b.hp - b.heapOffset M))
    && (List.range (a.heapLen - (a.hp - a.heapOffset M))).all
         (fun i => a.heap (a.hp - a.heapOffset M + i) == b.heap (b.hp - b.heapOffset M + i))

end

/-- `struct MemorySliceChange { global_start, data }` -/
structure SliceChange where
  globalStart : Nat
  data : Bytes
  deriving DecidableEq, Repr

/-- the `changes.push(MemorySliceChange { … desired_array[start..start+count] … })` of `get_changes` -/
def mkChange (desired : Buf) (offset : Nat) (r : Nat × Nat) : SliceChange :=
  { globalStart := offset + r.1, data := slice desired r.1 (r.1 + r.2) }

/-- loop of `get_changes` from index `i` with `k` elements left; `range` is the open run `(start, count)` -/
def getChangesGo (latest desired : Buf) (offset : Nat) : Nat → Nat → Option (Nat × Nat) → List SliceChange
  | 0, _, none => []
  | 0, _, some r => [mkChange desired offset r]
  | k + 1, i, range =>
    if latest i ≠ desired i then
      getChangesGo latest desired offset k (i + 1)
        (match range with | none => some (i, 1) | some (s, c) => some (s, c + 1))
    else
      match range with
      | some r => mkChange desired offset r :: getChangesGo latest desired offset k (i + 1) none
      | none => getChangesGo latest desired offset k (i + 1) none

/-- `get_changes(latest_array, desired_array, offset)` for two slices of (zipped) length `n` -/
def getChanges (latest desired : Buf) (offset n : Nat) : List SliceChange :=
  getChangesGo latest desired offset n 0 none

/-- `struct MemoryRollbackData` -/
structure RollbackData where
  sp : Nat
  hp : Nat
  stackChanges : List SliceChange
  heapChanges : List SliceChange

/-- `buf[local .. local + data.len()].copy_from_slice(&data)` for each change, `local = global_start - offset`
(`checked_sub … expect`), panicking when the slice leaves the buffer -/
def applyChanges (len offset : Nat) : Buf → List SliceChange → Except Err Buf
  | f, [] => .ok f
  | f, ch :: rest =>
    if ch.globalStart < offset then .error .RustPanic
    else if ch.globalStart - offset + ch.data.length > len then .error .RustPanic
    else applyChanges len offset
           (putAt f (ch.globalStart - offset) ch.data.length (fun j => ch.data.getD j 0)) rest

section
variable (M : Nat)

/-- `collect_rollback_data(&self, desired)`: `None` when the two are equal (`PartialEq`), else the diff.
Refusals (Rust panics): `assert!(hp >= self.hp)`; `self.stack[..sp]` when the CURRENT stack vector is shorter
than the desired one; the two `expect`s / slice starts on the heap side.
The stack comparison exists in two shapes selected by the generated flag `Gen.rollbackSlicesCurrentStackToSp`
(the translator recognises the text of today's code and of the proposed repair, nothing else). -/
def Mem.collectRollbackData (cur desired : Mem) : Except Err (Option RollbackData) :=
  if cur.eqAccessible M desired then .ok none
  else
    let sp := desired.stackLen
    let hp := desired.hp
    if hp < cur.hp then .error .RustPanic
    else if Gen.rollbackSlicesCurrentStackToSp && decide (sp > cur.stackLen) then .error .RustPanic
    else
      let stackChanges :=
        if Gen.rollbackSlicesCurrentStackToSp then
          -- today's code: `get_changes(&self.stack[..sp], &desired.stack[..sp], 0)`
          getChanges cur.stack desired.stack 0 sp
        else
          -- repaired code (repo-patches/fix-C23-rollback-short-stack.diff): common prefix, then the missing
          -- tail of the current stack compared as zeroes (`rollback` resizes the stack with zeroes first)
          let common := min sp cur.stackLen
          getChanges cur.stack desired.stack 0 common ++
            (if common < sp then getChanges (fun _ => 0) (fun i => desired.stack (common + i)) common (sp - common)
             else [])
      if hp < cur.heapOffset M then .error .RustPanic
      else
        let hs := hp - cur.heapOffset M
        if hs > cur.heapLen then .error .RustPanic
        else if hp < desired.heapOffset M then .error .RustPanic
        else
          let dhs := hp - desired.heapOffset M
          if dhs > desired.heapLen then .error .RustPanic
          else
            let n := min (cur.heapLen - hs) (desired.heapLen - dhs)
            let heapChanges := getChanges (fun i => cur.heap (hs + i)) (fun i => desired.heap (dhs + i)) hp n
            .ok (some { sp := sp, hp := hp, stackChanges := stackChanges, heapChanges := heapChanges })

/-- `rollback(&mut self, data)` -/
def Mem.rollback (m : Mem) (d : RollbackData) : Except Err Mem :=
  let stack1 := if d.sp > m.stackLen then resize0 m.stack m.stackLen else m.stack   -- `stack.resize(data.sp, 0)`
  if d.hp < m.hp then .error .RustPanic
  else
    match applyChanges d.sp 0 stack1 d.stackChanges with
    | .error e => .error e
    | .ok stack2 =>
      match applyChanges m.heapLen (m.heapOffset M) m.heap d.heapChanges with
      | .error e => .error e
      | .ok heap2 => .ok { m with stackLen := d.sp, stack := stack2, hp := d.hp, heap := heap2 }

end

/-! ### Histories (the operations the C23 stream drives) -/

inductive Op
  | reset
  | growStack (newSp : Nat)
  | growHeap (spReg amount : Nat)
  | verify (addr count : Nat)
  | read (addr count : Nat)
  | write (addr : Nat) (data : Bytes)
  | memcopy (dst src len : Nat) (o : Ownership)
  | snapshot
  | rollback (k : Nat)
  deriving Repr

inductive Out
  | ok
  | hp (n : Nat)
  | range (s e : Nat)
  | bytes (b : Bytes)
  | err (e : Err)
  | noChange          -- `collect_rollback_data` returned `None`
  | noSlot
  deriving DecidableEq, Repr

/-- state of a history: the instance and the snapshots (clones) taken so far -/
structure HState where
  cur : Mem
  snaps : List Mem

section
variable (M minCap : Nat)

def HState.init : HState := { cur := Mem.new M, snaps := [] }

def stepC (s : HState) : Op → HState × Out
  | .reset => ({ s with cur := s.cur.reset M }, .ok)
  | .growStack n =>
    match s.cur.growStack M n with
    | .ok m => ({ s with cur := m }, .ok)
    | .error e => (s, .err e)
  | .growHeap sp a =>
    match s.cur.growHeapBy M minCap sp a with
    | .ok m => ({ s with cur := m }, .hp m.hp)
    | .error e => (s, .err e)
  | .verify a c =>
    match s.cur.verify M a c with
    | .ok (x, y) => (s, .range x y)
    | .error e => (s, .err e)
  | .read a c =>
    match s.cur.read M a c with
    | .ok b => (s, .bytes b)
    | .error e => (s, .err e)
  | .write a data =>
    let arr := data.toArray      -- evaluated once; the closure below indexes the array
    match s.cur.writeNoOwnerChecks M a data.length (fun j => arr.getD j 0) with
    | .ok m => ({ s with cur := m }, .ok)
    | .error e => (s, .err e)
  | .memcopy d sr l o =>
    match s.cur.memcopy M d sr l o with
    | .ok m => ({ s with cur := m }, .ok)
    | .error e => (s, .err e)
  | .snapshot => ({ s with snaps := s.snaps ++ [s.cur] }, .ok)
  | .rollback k =>
    match s.snaps[k]? with
    | none => (s, .noSlot)
    | some snap =>
      match s.cur.collectRollbackData M snap with
      | .error e => (s, .err e)
      | .ok none => (s, .noChange)
      | .ok (some d) =>
        match s.cur.rollback M d with
        | .ok m => ({ cur := m, snaps := s.snaps.take (k + 1) }, .ok)   -- later snapshots are no longer ancestors
        | .error e => (s, .err e)

def runC : HState → List Op → HState × List Out
  | s, [] => (s, [])
  | s, op :: ops =>
    let (s1, o) := stepC M minCap s op
    let (s2, os) := runC s1 ops
    (s2, o :: os)

end

end FuelVerif.Memory
