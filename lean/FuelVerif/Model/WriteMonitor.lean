/-
C24: what the per-instruction memory monitor of stream `c24b` reports, as a relation usable with the MODELS of the
instruction families (`Model/Wide.lean`, `Model/CryptoOps.lean`, `Model/StorageRead.lean`, `Model/Alu.lean`,
`Model/Jump.lean`): `EveryInstructionStatement` of `Props/C24.lean` quantifies over a step relation
`StepObs → List (Nat × Nat) → Prop`; `Reports changed changes` says that `changes` is a report about an execution
whose set of changed addresses is `changed`.
-/
import FuelVerif.Model.WriteClass
namespace FuelVerif.Memory

/-- the monitor diffs the whole accessible memory before / after one instruction and reports the maximal runs of
changed addresses: every reported range is non-empty and consists of changed addresses only -/
def Reports (changed : Nat → Prop) (changes : List (Nat × Nat)) : Prop :=
  ∀ r ∈ changes, r.1 < r.2 ∧ ∀ x, r.1 ≤ x → x < r.2 → changed x

/-- the frame's ownership registers as the monitor records them before the instruction -/
def StepObs.own (o : StepObs) : Ownership := { sp := o.spB, ssp := o.sspB, hp := o.hpB, prevHp := o.prevHpB }

/-- the observation carries the given ownership registers -/
def StepObs.hasOwn (o : StepObs) (ssp sp hp prevHp : Nat) : Prop :=
  o.sspB = ssp ∧ o.spB = sp ∧ o.hpB = hp ∧ o.prevHpB = prevHp

end FuelVerif.Memory
