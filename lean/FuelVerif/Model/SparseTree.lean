/-
Sparse Merkle tree — structural layer (a) (DESIGN.md §5.D, C12/C14).

The compact sparse Merkle tree of `fuel-merkle/src/sparse/merkle_tree.rs` seen as a plain inductive tree:
`empty` = `Node::Placeholder`, `leaf k v` = a leaf node (`v` = the 32-byte hash of the value),
`node l r` = an internal node. A single-leaf subtree is never expanded: a leaf hangs at the
shallowest depth at which its subtree holds no other key (that is what `update_with_path_set`'s
"merge leaves / merge placeholders" and `delete_with_path_set`'s orphan-leaf collapse produce).

Everything is generic in the key type `K` (only `bit k i`, the `i`-th bit from the MSB, is used —
`get_bit_at_index_from_msb` in `common/msb.rs`), the key width `n` (256 in fuel-merkle) and the hash
functions (`Hashes`), so that the theorems hold for every hash function; the driver instantiates
SHA-256 (`Model/SparseBytes.lean`).

The storage-level transcription of the Rust code (layer (b)) is `Model/SparseStore.lean`.
-/
namespace FuelVerif.Smt

/-- compact sparse Merkle tree -/
inductive Tree (K V : Type) where
  | empty : Tree K V
  | leaf (k : K) (v : V) : Tree K V
  | node (l r : Tree K V) : Tree K V
deriving DecidableEq, Repr

/-- the three hash constructors of `sparse/hash.rs`: `zero_sum`, `calculate_leaf_hash`,
`calculate_node_hash` -/
structure Hashes (K V Hh : Type) where
  zero : Hh
  leafH : K → V → Hh
  nodeH : Hh → Hh → Hh

variable {K V Hh : Type}

namespace Tree

/-- `Node::hash` of the subtree's top node -/
def hash (P : Hashes K V Hh) : Tree K V → Hh
  | .empty => P.zero
  | .leaf k v => P.leafH k v
  | .node l r => P.nodeH (hash P l) (hash P r)

/-- number of leaves -/
def size : Tree K V → Nat
  | .empty => 0
  | .leaf _ _ => 1
  | .node l r => size l + size r

/-- every leaf key of the tree satisfies `p` -/
def All (p : K → Prop) : Tree K V → Prop
  | .empty => True
  | .leaf k _ => p k
  | .node l r => All p l ∧ All p r

/-- the key-value pairs stored in the tree, left to right -/
def toList : Tree K V → List (K × V)
  | .empty => []
  | .leaf k v => [(k, v)]
  | .node l r => toList l ++ toList r

end Tree

section ops
variable [DecidableEq K] (bit : K → Nat → Bool)

/-- Two distinct leaves meeting at depth `d`: the joint subtree. The leaves are separated at the first
depth where their keys differ (`create_node_on_path` with `common_path_length`), and every level above
it down from `d` is an internal node with a placeholder sibling ("merge placeholders").
`fuel` = remaining key bits (`n - d`); the `0` case is unreachable for distinct `n`-bit keys that agree
on their first `d` bits (see `Lemmas.SparseTree.canon_join`). -/
def join : (fuel d : Nat) → K → V → K → V → Tree K V
  | 0, _, k, v, _, _ => .leaf k v
  | f + 1, d, k, v, k', v' =>
    match bit k d, bit k' d with
    | false, true => .node (.leaf k v) (.leaf k' v')
    | true, false => .node (.leaf k' v') (.leaf k v)
    | false, false => .node (join f (d + 1) k v k' v') .empty
    | true, true => .node .empty (join f (d + 1) k v k' v')

/-- `MerkleTree::insert` (insert or overwrite) on the subtree at depth `d`; `n` = key width -/
def insert (n : Nat) : (d : Nat) → K → V → Tree K V → Tree K V
  | _, k, v, .empty => .leaf k v
  | d, k, v, .leaf k' v' => if k' = k then .leaf k v else join bit (n - d) d k v k' v'
  | d, k, v, .node l r =>
    if bit k d then .node l (insert n (d + 1) k v r) else .node (insert n (d + 1) k v l) r

/-- rebuild a parent after a deletion below it: a parent of a placeholder and a leaf is discarded and
the orphaned leaf moves up (`delete_with_path_set`) -/
def collapse : Tree K V → Tree K V → Tree K V
  | .empty, .empty => .empty
  | .leaf k v, .empty => .leaf k v
  | .empty, .leaf k v => .leaf k v
  | l, r => .node l r

/-- `MerkleTree::delete` on the subtree at depth `d` -/
def delete : (d : Nat) → K → Tree K V → Tree K V
  | _, _, .empty => .empty
  | _, k, .leaf k' v' => if k' = k then .empty else .leaf k' v'
  | d, k, .node l r =>
    if bit k d then collapse l (delete (d + 1) k r) else collapse (delete (d + 1) k l) r

/-- the value stored for `k`: descend by the bits of `k` from depth `d` -/
def get : (d : Nat) → K → Tree K V → Option V
  | _, _, .empty => none
  | _, k, .leaf k' v' => if k' = k then some v' else none
  | d, k, .node l r => if bit k d then get (d + 1) k r else get (d + 1) k l

/-- one operation of a history -/
inductive Op (K V : Type) where
  | ins (k : K) (v : V)
  | del (k : K)
deriving Repr

def applyOp (n : Nat) (t : Tree K V) : Op K V → Tree K V
  | .ins k v => insert bit n 0 k v t
  | .del k => delete bit 0 k t

/-- the tree after a history, starting from the empty tree (`MerkleTree::new`) -/
def run (n : Nat) (ops : List (Op K V)) : Tree K V := ops.foldl (applyOp bit n) .empty

/-! ### the specification: compact sparse Merkle root of a finite map -/

/-- Compact sparse Merkle root of the finite map `S` (keys pairwise distinct) restricted to the subtree
at depth `d`: empty ↦ zero, single pair ↦ leaf hash (not expanded), otherwise the node hash of the two
halves split by bit `d`. `none` only if two entries agree on all remaining `fuel` bits (impossible for
distinct `n`-bit keys with `fuel = n - d`). -/
def specRoot (P : Hashes K V Hh) : (fuel d : Nat) → List (K × V) → Option Hh
  | _, _, [] => some P.zero
  | _, _, [kv] => some (P.leafH kv.1 kv.2)
  | 0, _, _ :: _ :: _ => none
  | f + 1, d, a :: b :: S =>
    match specRoot P f (d + 1) ((a :: b :: S).filter (fun kv => !bit kv.1 d)),
          specRoot P f (d + 1) ((a :: b :: S).filter (fun kv => bit kv.1 d)) with
    | some x, some y => some (P.nodeH x y)
    | _, _ => none

/-- association-list lookup -/
def lookup (k : K) : List (K × V) → Option V
  | [] => none
  | (k', v) :: S => if k' = k then some v else lookup k S

/-- one step of the abstract map -/
def mapStep (m : K → Option V) (op : Op K V) : K → Option V := fun k' =>
  match op with
  | .ins k v => if k' = k then some v else m k'
  | .del k => if k' = k then none else m k'

/-- the key-value map a history leaves behind, as a function -/
def finalMap (ops : List (Op K V)) : K → Option V := ops.foldl mapStep (fun _ => none)

/-- association-list operations used to give a concrete final map -/
def alErase (k : K) : List (K × V) → List (K × V)
  | [] => []
  | (k', v) :: S => if k' = k then alErase k S else (k', v) :: alErase k S

def alInsert (k : K) (v : V) (S : List (K × V)) : List (K × V) := (k, v) :: alErase k S

/-- the final map as a duplicate-free association list -/
def finalList (ops : List (Op K V)) : List (K × V) :=
  ops.foldl (fun S op => match op with
    | .ins k v => alInsert k v S
    | .del k => alErase k S) []

/-! ### proofs (C14): `generate_proof` and the two verifiers on the structural tree -/

/-- `path_set` then `generate_proof`: the side hashes leaf-to-root (root excluded) and the node at the
end of the key's path (a leaf or a placeholder) -/
def pathSet (P : Hashes K V Hh) : (d : Nat) → K → Tree K V → List Hh × Tree K V
  | d, k, .node l r =>
    if bit k d then ((pathSet P (d + 1) k r).1 ++ [l.hash P], (pathSet P (d + 1) k r).2)
    else ((pathSet P (d + 1) k l).1 ++ [r.hash P], (pathSet P (d + 1) k l).2)
  | _, _, t => ([], t)

/-- `ExclusionLeaf` -/
inductive ExLeaf (K V : Type) where
  | leaf (k : K) (v : V)
  | placeholder
deriving DecidableEq, Repr

/-- `Proof` -/
inductive Proof (K V Hh : Type) where
  | inclusion (proofSet : List Hh)
  | exclusion (proofSet : List Hh) (leaf : ExLeaf K V)
deriving Repr

def Proof.isInclusion : Proof K V Hh → Bool
  | .inclusion _ => true
  | .exclusion _ _ => false

/-- `MerkleTree::generate_proof` -/
def generateProof (P : Hashes K V Hh) (k : K) (t : Tree K V) : Proof K V Hh :=
  match pathSet bit P 0 k t with
  | (s, .leaf k' v') => if k' = k then .inclusion s else .exclusion s (.leaf k' v')
  | (s, _) => .exclusion s .placeholder

/-- the verifier's loop: fold the side hashes from the leaf upwards; the side hash at position `i` of
`m` is combined at key-bit index `d + (m - 1 - i)` (`d = 0` in the Rust code) -/
def foldUp (P : Hashes K V Hh) (d : Nat) (k : K) : List Hh → Hh → Hh
  | [], cur => cur
  | s :: rest, cur =>
    foldUp P d k rest (if bit k (d + rest.length) then P.nodeH s cur else P.nodeH cur s)

/-- `ExclusionLeaf::hash` -/
def ExLeaf.hash (P : Hashes K V Hh) : ExLeaf K V → Hh
  | .leaf k v => P.leafH k v
  | .placeholder => P.zero

/-- `InclusionProof::verify` (with `v` = `sum(value)`) -/
def verifyInclusion (P : Hashes K V Hh) [DecidableEq Hh] (n : Nat) (root : Hh) (k : K) (v : V)
    (proofSet : List Hh) : Bool :=
  if proofSet.length > n then false
  else decide (foldUp bit P 0 k proofSet (P.leafH k v) = root)

/-- `ExclusionProof::verify` -/
def verifyExclusion (P : Hashes K V Hh) [DecidableEq Hh] (n : Nat) (root : Hh) (k : K)
    (proofSet : List Hh) (leaf : ExLeaf K V) : Bool :=
  match leaf with
  | .leaf k' v' =>
    if k' = k then false
    else if proofSet.length > n then false
    else decide (foldUp bit P 0 k proofSet (P.leafH k' v') = root)
  | .placeholder =>
    if proofSet.length > n then false
    else decide (foldUp bit P 0 k proofSet P.zero = root)

end ops

end FuelVerif.Smt
