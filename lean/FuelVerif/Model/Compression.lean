/-
C07 model — DA compression at the level of fields.

A transaction is the list of its leaf fields in declaration order (the order in which the derive-generated
`compress_with` / `decompress_with` visit them: fuel-derive/src/compression/{compress,decompress}.rs
`construct_compressed` / `construct_decompress` bind the fields of a variant in order). Each leaf carries the path
of (owner type, field name) segments from the root, its value, and — for fields of the hand-written
`DecompressibleBy` impls (Coin by UtxoId, Message by Nonce, Mint) — the context key of the enclosing object.
Field modes come from a table (`FieldTable`, instantiated by `Gen.Fields` which the translator regenerates):
  skip      `#[compress(skip)]`: absent from the compressed form; on decompression `Default::default()`
            (derive) or restored from the context (hand-written impls),
  registry  the declared type's `Compressed` is a `RegistryKey`: value ↔ key through the context,
  utxo      `UtxoId` ↔ `CompressedUtxoId` through the context,
  normal    everything else (identity compression of the primitives, recursively derived structs).
`RegistryKey` is transcribed from fuel-compression/src/key.rs. The registry context is the harness's
(`harness/src/streams/c07.rs`, a copy of the test-only context of fuel-tx/src/tests/da_compression.rs extended
with a bounded ring of keys): `Ring` below; theorems about compression are stated for ANY context
satisfying `CtxLaws` and `Ring` is proved to satisfy them.
-/
import FuelVerif.Basic.Util
import FuelVerif.Gen.Fields
namespace FuelVerif.Compression

/-! ### RegistryKey (fuel-compression/src/key.rs) -/

/-- `RegistryKey::DEFAULT_VALUE.as_u32()` = all `SIZE` bytes set -/
def keyDefault : Nat := 256 ^ Gen.Fields.registryKeySize - 1
/-- `RegistryKey::MAX_WRITABLE.as_u32()` -/
def keyMaxWritable : Nat := keyDefault - 1

/-- `RegistryKey::try_from(u32)`: `Err` iff the top byte of the big-endian u32 is non-zero -/
def keyTryFromU32 (v : Nat) : Option Nat := if v / 256 ^ Gen.Fields.registryKeySize ≠ 0 then none else some v

/-- `RegistryKey::next`: panics for the default value; wraps to ZERO just below it -/
def keyNext (k : Nat) : Except String Nat :=
  if k = keyDefault then .error "Max/default value has no next key"
  else
    let nextRaw := k + 1
    if nextRaw = keyDefault then .ok 0
    else match keyTryFromU32 nextRaw with
      | some k' => .ok k'
      | none => .error "The procedure above always produces a valid key"

/-! ### fields -/

abbrev Seg := String × String

/-- a leaf value: an integer, a byte string (fixed or variable width), or an enum-variant / length marker -/
inductive Val
  | num (n : Nat)
  | bytes (b : Bytes)
  | tag (s : String)
  deriving DecidableEq, Repr

structure Leaf where
  path : List Seg
  /-- context key of the enclosing hand-written object (`utxo:<hex>`, `nonce:<hex>`, `mint`) or "" -/
  group : String
  val : Val
  deriving DecidableEq, Repr

/-- the field table: what the translator extracts -/
structure FieldTable where
  skip : Seg → Bool
  /-- restored from the context by a hand-written `DecompressibleBy` impl -/
  restored : Seg → Bool
  /-- reset by `prepare_sign` (malleable) -/
  zeroed : Seg → Bool
  registry : Seg → Option String
  utxo : Seg → Bool
  /-- the field's declared type has a hand-written (non-derived) `CompressibleBy`/`DecompressibleBy` pair whose bodies,
  as extracted by the translator, do NOT compose to the identity: the model refuses to compress such a field -/
  unmodelled : Seg → Bool

/-- do the two extracted body kinds of a hand-written impl compose to the identity? (`bits`/`from_bits_truncate`:
bitflags keeps every declared flag; `elementwise`: element i ↦ element i, same order) -/
def pairRoundTrips (ck dk : String) : Bool :=
  (ck == "identity" && dk == "identity") || (ck == "bits" && dk == "from_bits_truncate") ||
  (ck == "elementwise" && dk == "elementwise")

/-- the hand-written impl pair for a declared field type (`Word` is `u64`) -/
def handImplFor (ty : String) : Option (String × String × String) :=
  let ty' := if ty == "Word" then "u64" else ty
  Gen.Fields.handImpls.find? (fun h => h.1 == ty')

/-- the table regenerated from the Rust sources -/
def genTable : FieldTable where
  unmodelled s :=
    match Gen.Fields.compressFields.find? (fun r => r.1 == s.1 && r.2.1 == s.2) with
    | some r => match handImplFor r.2.2.2.2 with
      | some h => !pairRoundTrips h.2.1 h.2.2
      | none => false
    | none => false
  skip s := Gen.Fields.compressFields.any (fun r => r.1 == s.1 && r.2.1 == s.2 && r.2.2.1)
  restored s := Gen.Fields.handDecompress.any (fun r => r.1 == s.1 && r.2.1 == s.2 && r.2.2 == "ctx")
  zeroed s := Gen.Fields.zeroed.any (fun r => r.1 == s.1 && r.2 == s.2)
  registry s := (Gen.Fields.registryFields.find? (fun r => r.1 == s.1 && r.2.1 == s.2)).map (·.2.2)
  utxo s := Gen.Fields.utxoFields.any (fun r => r.1 == s.1 && r.2 == s.2)

/-- the first skipped segment on the path, if any (a field is dropped when it or an ancestor is skipped) -/
def skipSeg (T : FieldTable) (l : Leaf) : Option Seg := l.path.find? T.skip

inductive Mode | normal | skipDefault | skipRestored | registry (ks : String) | utxo | unmodelled
  deriving DecidableEq, Repr

def mode (T : FieldTable) (l : Leaf) : Mode :=
  match skipSeg T l with
  | some s => if T.restored s then .skipRestored else .skipDefault
  | none =>
    if l.path.any T.unmodelled then .unmodelled else
    match l.path.findSome? T.registry with
    | some ks => .registry ks
    | none => if l.path.any T.utxo then .utxo else .normal

/-- `Default::default()` of a leaf: depends on the kind and width of the value only (the type), not its content -/
def zeroVal : Val → Val
  | .num _ => .num 0
  | .bytes b => .bytes (zeros b.length)
  | .tag s => .tag s

/-- zeroed by `prepare_sign` when it or an ancestor is a malleable field -/
def strip (T : FieldTable) (l : Leaf) : Leaf := if l.path.any T.zeroed then { l with val := zeroVal l.val } else l

/-- the expected result of a round trip: skipped-and-not-restored fields are defaults, everything else is kept -/
def restoreDefaults (T : FieldTable) (l : Leaf) : Leaf :=
  match mode T l with
  | .skipDefault => { l with val := zeroVal l.val }
  | _ => l

/-! ### abstract context -/

/-- a compressed leaf: a kept value, a registry key, a compressed utxo id, or nothing (skipped; the decompressor
knows the field statically — here: its path, group and default) -/
inductive CLeaf
  | val (v : Val)
  | key (ks : String) (k : Nat)
  | utxo (k : Nat)
  | skipped
  deriving DecidableEq, Repr

/-- the operations a compression context offers (the `CompressibleBy<Ctx>` / `DecompressibleBy<Ctx>` impls for the
registry types, `UtxoId`, and the lookups of the hand-written impls) -/
structure CtxOps (C : Type) where
  regCompress : C → String → Val → Except String (Nat × C)
  regDecompress : C → String → Nat → Option Val
  utxoCompress : C → Val → Except String (Nat × C)
  utxoDecompress : C → Nat → Option Val
  /-- `ctx.latest_tx_coins.get(utxo)` / `latest_tx_messages.get(nonce)` / `latest_tx_pointer`: group, field path ↦ value -/
  info : C → String → List Seg → Option Val

section Generic
variable {C : Type} (ops : CtxOps C) (T : FieldTable)

/-- derive(Compress): one leaf -/
def compressLeaf (c : C) (l : Leaf) : Except String (CLeaf × C) :=
  match mode T l with
  | .normal => .ok (.val l.val, c)
  | .skipDefault => .ok (.skipped, c)
  | .skipRestored => .ok (.skipped, c)
  | .unmodelled => .error "unmodelled hand-written impl"
  | .registry ks =>
    match ops.regCompress c ks l.val with
    | .ok (k, c') => .ok (.key ks k, c')
    | .error e => .error e
  | .utxo =>
    match ops.utxoCompress c l.val with
    | .ok (k, c') => .ok (.utxo k, c')
    | .error e => .error e

/-- `compress_with` over all fields in declaration order, threading the context -/
def compressAll : C → List Leaf → Except String (List CLeaf × C)
  | c, [] => .ok ([], c)
  | c, l :: rest =>
    match compressLeaf ops T c l with
    | .error e => .error e
    | .ok (cl, c') =>
      match compressAll c' rest with
      | .error e => .error e
      | .ok (cls, c'') => .ok (cl :: cls, c'')

/-- derive(Decompress) / hand-written impls: one leaf. `shape` is the static knowledge of the field (path, group
taken from the already decompressed key field, and the kind/width of the value). -/
def decompressLeaf (c : C) (shape : Leaf) (cl : CLeaf) : Option Leaf :=
  match mode T shape, cl with
  | .normal, .val v => some { shape with val := v }
  | .skipDefault, .skipped => some { shape with val := zeroVal shape.val }
  | .skipRestored, .skipped => (ops.info c shape.group shape.path).map (fun v => { shape with val := v })
  | .registry ks, .key ks' k => if ks = ks' then (ops.regDecompress c ks k).map (fun v => { shape with val := v }) else none
  | .utxo, .utxo k => (ops.utxoDecompress c k).map (fun v => { shape with val := v })
  | _, _ => none

def decompressAll (c : C) : List Leaf → List CLeaf → Option (List Leaf)
  | [], [] => some []
  | s :: ss, cl :: cls =>
    match decompressLeaf ops T c s cl, decompressAll c ss cls with
    | some l, some ls => some (l :: ls)
    | _, _ => none
  | _, _ => none

end Generic

/-! ### the ring registry context (harness/src/streams/c07.rs) -/

/-- one keyspace: `entries` key ↦ value (keys unique), `next` = next key to try -/
structure Registry where
  entries : List (Nat × Val)
  next : Nat
  deriving Repr

structure Ring where
  /-- number of usable keys (ring size): keys are `0 .. size-1`; `size = keyDefault` is the real key space -/
  size : Nat
  /-- first key every keyspace tries -/
  start : Nat
  regs : List (String × Registry)
  /-- keys handed out while compressing the current transaction: never evicted before `endTx` -/
  touched : List (String × Nat)
  /-- `tx_blocks`: UtxoId ↦ index (never evicted) -/
  utxos : List Val
  /-- stored coin / message / mint data: (group, field path) ↦ value -/
  infos : List ((String × List Seg) × Val)
  deriving Repr

/-- advance inside the ring with the real `RegistryKey::next`, wrapping at `size` -/
def advance (size k : Nat) : Nat :=
  match keyNext k with
  | .ok n => if n ≥ size then 0 else n
  | .error _ => 0

def getReg (r : Ring) (ks : String) : Registry := (r.regs.lookup ks).getD ⟨[], r.start⟩
def setReg (r : Ring) (ks : String) (g : Registry) : Ring :=
  { r with regs := (ks, g) :: r.regs.filter (fun e => e.1 != ks) }

/-- first key at or after `k` (in ring order) that was not handed out during this transaction; `fuel` tries -/
def findFree (size : Nat) (touched : List Nat) : Nat → Nat → Option Nat
  | 0, _ => none
  | fuel + 1, k => if touched.contains k then findFree size touched fuel (advance size k) else some k

def ringRegCompress (r : Ring) (ks : String) (v : Val) : Except String (Nat × Ring) :=
  let g := getReg r ks
  match g.entries.find? (fun e => e.2 == v) with
  | some e => .ok (e.1, { r with touched := (ks, e.1) :: r.touched })
  | none =>
    let mine := (r.touched.filter (fun t => t.1 == ks)).map (·.2)
    match findFree r.size mine (mine.length + 1) g.next with
    | none => .error "registry-full"
    | some k =>
      let g' : Registry := ⟨(k, v) :: g.entries.filter (fun e => e.1 != k), advance r.size k⟩
      .ok (k, { setReg r ks g' with touched := (ks, k) :: r.touched })

def ringRegDecompress (r : Ring) (ks : String) (k : Nat) : Option Val := (getReg r ks).entries.lookup k

/-- position of the first occurrence -/
def indexOf (v : Val) : List Val → Option Nat
  | [] => none
  | x :: xs => if x = v then some 0 else (indexOf v xs).map (· + 1)

def ringUtxoCompress (r : Ring) (v : Val) : Except String (Nat × Ring) :=
  match indexOf v r.utxos with
  | some i => .ok (i, r)
  | none => .ok (r.utxos.length, { r with utxos := r.utxos ++ [v] })

def ringUtxoDecompress (r : Ring) (k : Nat) : Option Val := r.utxos[k]?

def ringInfo (r : Ring) (group : String) (path : List Seg) : Option Val := r.infos.lookup (group, path)

def ringOps : CtxOps Ring where
  regCompress := ringRegCompress
  regDecompress := ringRegDecompress
  utxoCompress := ringUtxoCompress
  utxoDecompress := ringUtxoDecompress
  info := ringInfo

/-- `store_tx_info`: remember the skipped-and-restored data of every coin / message / mint of the transaction -/
def storeTxInfo (T : FieldTable) (r : Ring) (tx : List Leaf) : Ring :=
  tx.foldl (fun r l =>
    match mode T l with
    | .skipRestored => { r with infos := ((l.group, l.path), l.val) :: r.infos.filter (fun e => e.1 != (l.group, l.path)) }
    | _ => r) r

/-- between transactions the protection of the keys of the previous one ends -/
def endTx (r : Ring) : Ring := { r with touched := [] }

/-- one transaction of a sequence, as the harness runs it: store its coin / message data, compress, decompress
against the context as it is afterwards. A failed compression leaves the registries as they were. -/
def runTx (T : FieldTable) (r : Ring) (tx : List Leaf) : Ring × Except String (List CLeaf × Option (List Leaf)) :=
  let r1 := storeTxInfo T (endTx r) tx
  match compressAll ringOps T r1 tx with
  | .error e => (r1, .error e)
  | .ok (cls, r2) => (r2, .ok (cls, decompressAll ringOps T r2 tx cls))

/-- a history of transactions sharing one context; per transaction: the transaction and its outcome -/
def runSeq (T : FieldTable) : Ring → List (List Leaf) → Ring × List (List Leaf × Except String (Option (List Leaf)))
  | r, [] => (r, [])
  | r, tx :: rest =>
    let (r', res) := runTx T r tx
    let (r'', out) := runSeq T r' rest
    (r'', (tx, res.map (·.2)) :: out)

end FuelVerif.Compression
