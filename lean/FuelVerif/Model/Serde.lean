/-
C06 model, part 1: the serde data model as trees, and the two binary formats used by fuel-vm
(postcard 1.x and bincode 1.3 legacy/default configuration) as encoders/decoders over those trees.

`Tree` is what a value looks like to a `serde::Serializer` (the harness records exactly this with a
recording serializer); `Shape` is what a `Deserialize` impl asks a `Deserializer` for.
-/
import FuelVerif.Basic.Util
namespace FuelVerif.Serde

inductive Tree
  | u8 (n : Nat) | u16 (n : Nat) | u32 (n : Nat) | u64 (n : Nat) | u128 (n : Nat)
  | bool (b : Bool)
  | bytes (bs : List UInt8)            -- serialize_bytes / serialize_str
  | seq (xs : List Tree)               -- serialize_seq: length-prefixed
  | tuple (xs : List Tree)             -- tuple / struct / fixed array / newtype: no prefix
  | variant (idx : Nat) (payload : Tree) -- enum variant: index, then the payload (`tuple []` for unit variants)
  | none
  | some (t : Tree)
  deriving Repr, Inhabited

inductive Shape
  | u8 | u16 | u32 | u64 | u128 | bool | bytes
  | seq (elem : Shape)
  | tuple (fields : List Shape)
  | enum (variants : List Shape)
  | option (inner : Shape)
  /-- a struct of two whose second field's layout is chosen by the first: a `u32` bit set `bits`, then `a` when
  `bits ∩ all = bits ∩ legacy`, else `b`. This is what the hand-written `Deserialize for Policies`
  (`StructVisitor::visit_seq`) requests and its `Serialize` emits; `all`/`legacy` come from `Gen/Policies.lean`. -/
  | sel (all legacy : Nat) (a b : Shape)
  deriving Repr, Inhabited

/-- `bits.intersection(all) == bits.intersection(legacy)` -/
def selLegacy (all legacy bits : Nat) : Bool := (bits &&& all) == (bits &&& legacy)

abbrev Bytes := List UInt8

/-! ### postcard -/

/-- LEB128 as in postcard `varint_uN`: low 7 bits first, continuation bit 0x80.
`fuel` = `varint_max::<T>()` (the loop bound of the Rust function). -/
def varintEnc : Nat → Nat → Bytes
  | 0, _ => []
  | fuel + 1, n => if n < 128 then [UInt8.ofNat n] else UInt8.ofNat (n % 128 + 128) :: varintEnc fuel (n / 128)

def varintMax (bits : Nat) : Nat := (bits + 6) / 7
def maxOfLastByte (bits : Nat) : Nat := 2 ^ (bits % 7) - 1

/-- `try_take_varint_uN`: at most `varint_max` bytes, the last one bounded by `max_of_last_byte`.
Returns the value and the rest. `i` counts bytes already consumed, `fuel = varint_max - i`. -/
def varintDecAux (bits : Nat) : Nat → Nat → Bytes → Option (Nat × Bytes)
  | 0, _, _ => none
  | _, _, [] => none
  | fuel + 1, i, b :: rest =>
    let carry := b.toNat % 128
    if b.toNat < 128 then
      if fuel = 0 ∧ b.toNat > maxOfLastByte bits then none else some (carry * 2 ^ (7 * i), rest)
    else
      match varintDecAux bits fuel (i + 1) rest with
      | some (v, r) => some (carry * 2 ^ (7 * i) + v, r)
      | none => none

def varintDec (bits : Nat) (bs : Bytes) : Option (Nat × Bytes) := varintDecAux bits (varintMax bits) 0 bs

mutual
def pcEnc : Tree → Bytes
  | .u8 n => [UInt8.ofNat n]
  | .u16 n => varintEnc 3 n
  | .u32 n => varintEnc 5 n
  | .u64 n => varintEnc 10 n
  | .u128 n => varintEnc 19 n
  | .bool b => [if b then 1 else 0]
  | .bytes bs => varintEnc 10 bs.length ++ bs
  | .seq xs => varintEnc 10 xs.length ++ pcEncList xs
  | .tuple xs => pcEncList xs
  | .variant idx p => varintEnc 5 idx ++ pcEnc p
  | .none => [0]
  | .some t => 1 :: pcEnc t
def pcEncList : List Tree → Bytes
  | [] => []
  | t :: ts => pcEnc t ++ pcEncList ts
end

/-- decode `n` elements with the element decoder `f` -/
def decN (f : Bytes → Option (Tree × Bytes)) : Nat → Bytes → Option (List Tree × Bytes)
  | 0, bs => some ([], bs)
  | n + 1, bs =>
    match f bs with
    | none => none
    | some (t, r) =>
      match decN f n r with
      | none => none
      | some (ts, r') => some (t :: ts, r')

def takeN (n : Nat) (bs : Bytes) : Option (Bytes × Bytes) :=
  if n ≤ bs.length then some (bs.take n, bs.drop n) else none

mutual
def pcDec : Shape → Bytes → Option (Tree × Bytes)
  | .u8, bs => match bs with | b :: r => some (.u8 b.toNat, r) | [] => none
  | .u16, bs => (varintDec 16 bs).map (fun (v, r) => (.u16 v, r))
  | .u32, bs => (varintDec 32 bs).map (fun (v, r) => (.u32 v, r))
  | .u64, bs => (varintDec 64 bs).map (fun (v, r) => (.u64 v, r))
  | .u128, bs => (varintDec 128 bs).map (fun (v, r) => (.u128 v, r))
  | .bool, bs => match bs with
    | b :: r => if b = 0 then some (.bool false, r) else if b = 1 then some (.bool true, r) else none
    | [] => none
  | .bytes, bs =>
    match varintDec 64 bs with
    | none => none
    | some (n, r) => (takeN n r).map (fun (x, r') => (.bytes x, r'))
  | .seq e, bs =>
    match varintDec 64 bs with
    | none => none
    | some (n, r) => (decN (pcDec e) n r).map (fun (xs, r') => (.seq xs, r'))
  | .tuple fs, bs => (pcDecList fs bs).map (fun (xs, r) => (.tuple xs, r))
  | .enum vs, bs =>
    match varintDec 32 bs with
    | none => none
    | some (idx, r) => pcDecVariant vs idx idx r
  | .option s, bs => match bs with
    | b :: r => if b = 0 then some (.none, r) else if b = 1 then (pcDec s r).map (fun (t, r') => (.some t, r')) else none
    | [] => none
  | .sel al lg a b, bs =>
    match varintDec 32 bs with
    | none => none
    | some (bits, r) =>
      if selLegacy al lg bits then (pcDec a r).map (fun (x, r') => (.tuple [.u32 bits, x], r'))
      else (pcDec b r).map (fun (x, r') => (.tuple [.u32 bits, x], r'))
def pcDecList : List Shape → Bytes → Option (List Tree × Bytes)
  | [], bs => some ([], bs)
  | s :: ss, bs =>
    match pcDec s bs with
    | none => none
    | some (t, r) =>
      match pcDecList ss r with
      | none => none
      | some (ts, r') => some (t :: ts, r')
/-- select the `k`-th variant shape (counting down), decode its payload, tag with the original index -/
def pcDecVariant : List Shape → Nat → Nat → Bytes → Option (Tree × Bytes)
  | [], _, _, _ => none
  | s :: _, 0, idx, bs => (pcDec s bs).map (fun (t, r) => (.variant idx t, r))
  | _ :: ss, k + 1, idx, bs => pcDecVariant ss k idx bs
end

/-! ### bincode 1.3, default options of `bincode::serialize` (fixed-width little-endian integers,
u64 length prefixes, u32 variant index, u8 option tag) -/

def leEnc : Nat → Nat → Bytes
  | 0, _ => []
  | len + 1, n => UInt8.ofNat (n % 256) :: leEnc len (n / 256)

def leVal : Bytes → Nat
  | [] => 0
  | b :: r => b.toNat + 256 * leVal r

def leDec (len : Nat) (bs : Bytes) : Option (Nat × Bytes) :=
  (takeN len bs).map (fun (x, r) => (leVal x, r))

mutual
def bcEnc : Tree → Bytes
  | .u8 n => leEnc 1 n
  | .u16 n => leEnc 2 n
  | .u32 n => leEnc 4 n
  | .u64 n => leEnc 8 n
  | .u128 n => leEnc 16 n
  | .bool b => [if b then 1 else 0]
  | .bytes bs => leEnc 8 bs.length ++ bs
  | .seq xs => leEnc 8 xs.length ++ bcEncList xs
  | .tuple xs => bcEncList xs
  | .variant idx p => leEnc 4 idx ++ bcEnc p
  | .none => [0]
  | .some t => 1 :: bcEnc t
def bcEncList : List Tree → Bytes
  | [] => []
  | t :: ts => bcEnc t ++ bcEncList ts
end

mutual
def bcDec : Shape → Bytes → Option (Tree × Bytes)
  | .u8, bs => (leDec 1 bs).map (fun (v, r) => (.u8 v, r))
  | .u16, bs => (leDec 2 bs).map (fun (v, r) => (.u16 v, r))
  | .u32, bs => (leDec 4 bs).map (fun (v, r) => (.u32 v, r))
  | .u64, bs => (leDec 8 bs).map (fun (v, r) => (.u64 v, r))
  | .u128, bs => (leDec 16 bs).map (fun (v, r) => (.u128 v, r))
  | .bool, bs => match bs with
    | b :: r => if b = 0 then some (.bool false, r) else if b = 1 then some (.bool true, r) else none
    | [] => none
  | .bytes, bs =>
    match leDec 8 bs with
    | none => none
    | some (n, r) => (takeN n r).map (fun (x, r') => (.bytes x, r'))
  | .seq e, bs =>
    match leDec 8 bs with
    | none => none
    | some (n, r) => (decN (bcDec e) n r).map (fun (xs, r') => (.seq xs, r'))
  | .tuple fs, bs => (bcDecList fs bs).map (fun (xs, r) => (.tuple xs, r))
  | .enum vs, bs =>
    match leDec 4 bs with
    | none => none
    | some (idx, r) => bcDecVariant vs idx idx r
  | .option s, bs => match bs with
    | b :: r => if b = 0 then some (.none, r) else if b = 1 then (bcDec s r).map (fun (t, r') => (.some t, r')) else none
    | [] => none
  | .sel al lg a b, bs =>
    match leDec 4 bs with
    | none => none
    | some (bits, r) =>
      if selLegacy al lg bits then (bcDec a r).map (fun (x, r') => (.tuple [.u32 bits, x], r'))
      else (bcDec b r).map (fun (x, r') => (.tuple [.u32 bits, x], r'))
def bcDecList : List Shape → Bytes → Option (List Tree × Bytes)
  | [], bs => some ([], bs)
  | s :: ss, bs =>
    match bcDec s bs with
    | none => none
    | some (t, r) =>
      match bcDecList ss r with
      | none => none
      | some (ts, r') => some (t :: ts, r')
def bcDecVariant : List Shape → Nat → Nat → Bytes → Option (Tree × Bytes)
  | [], _, _, _ => none
  | s :: _, 0, idx, bs => (bcDec s bs).map (fun (t, r) => (.variant idx t, r))
  | _ :: ss, k + 1, idx, bs => bcDecVariant ss k idx bs
end

/-! ### typing: which trees a shape describes (with the integer ranges of the Rust types) -/

mutual
def HasShape : Shape → Tree → Prop
  | .u8, .u8 n => n < 2 ^ 8
  | .u16, .u16 n => n < 2 ^ 16
  | .u32, .u32 n => n < 2 ^ 32
  | .u64, .u64 n => n < 2 ^ 64
  | .u128, .u128 n => n < 2 ^ 128
  | .bool, .bool _ => True
  | .bytes, .bytes bs => bs.length < 2 ^ 64
  | .seq e, .seq xs => xs.length < 2 ^ 64 ∧ AllShape e xs
  | .tuple fs, .tuple xs => ListShape fs xs
  | .enum vs, .variant idx p => idx < 2 ^ 32 ∧ VariantShape vs idx p
  | .option _, .none => True
  | .option s, .some t => HasShape s t
  | .sel al lg a b, .tuple [.u32 bits, x] =>
    bits < 2 ^ 32 ∧ (if selLegacy al lg bits then HasShape a x else HasShape b x)
  | _, _ => False
def AllShape : Shape → List Tree → Prop
  | _, [] => True
  | e, t :: ts => HasShape e t ∧ AllShape e ts
def ListShape : List Shape → List Tree → Prop
  | [], [] => True
  | s :: ss, t :: ts => HasShape s t ∧ ListShape ss ts
  | _, _ => False
def VariantShape : List Shape → Nat → Tree → Prop
  | [], _, _ => False
  | s :: _, 0, p => HasShape s p
  | _ :: ss, k + 1, p => VariantShape ss k p
end

end FuelVerif.Serde
