/-
Model of the secp256k1 / secp256r1 signature code of `fuel-crypto`:

  fuel-crypto/src/secp256/signature_format.rs   encode_signature / decode_signature (recovery bit)
  fuel-crypto/src/secp256/backend/k1/k256.rs    recover / verify / sign   (no-std backend, RustCrypto)
  fuel-crypto/src/secp256/backend/k1/secp256k1.rs  recover / verify / sign (std backend, libsecp256k1)
  fuel-crypto/src/secp256/backend/r1/p256.rs    recover / sign_prehashed
  fuel-crypto/src/secp256/signature.rs          Signature::{sign,recover,verify} = std backend

The wrappers are transcribed function by function.  The library calls they make are transcribed from
the library sources at the level of their *acceptance rules* (which byte strings are rejected, in
which order, which scalar equations are evaluated):

  ecdsa-0.16.9   Signature::from_scalars, hazmat::{sign_prehashed, verify_prehashed},
                 VerifyingKey::recover_from_prehash
  k256-0.13.4    VerifyPrimitive (low-s only), SignPrimitive (normalises s, flips the parity)
  p256-0.13.2    default VerifyPrimitive / SignPrimitive
  secp256k1-sys  secp256k1_ecdsa_{recoverable_signature_parse_compact, signature_parse_compact,
                 sig_recover, sig_verify, sig_sign, verify}, secp256k1_ec_pubkey_parse

The elliptic curve itself is a PARAMETER (`Curve`): point type, group order, decompression,
`u1·G + u2·P`, uncompressed parsing, affine coordinates.  `Model/Ecc.lean` supplies executable
instances for the driver; the theorems assume the group laws (`Lemmas/EcdsaLaws.lean`).
-/
import FuelVerif.Basic.Util
import FuelVerif.Model.Ecc
namespace FuelVerif.Ecdsa
open FuelVerif

/-- the curve as seen by the ECDSA code -/
structure Curve where
  Pt : Type
  /-- field modulus (coordinates are canonical iff `< p`) -/
  p : Nat
  /-- order of the base point = scalar modulus -/
  n : Nat
  isZero : Pt → Bool
  /-- `AffinePoint::decompress(x, y_is_odd)` / `secp256k1_ge_set_xo_var` -/
  liftX : Nat → Bool → Option Pt
  /-- `lincomb(G, u1, P, u2)` / `secp256k1_ecmult(P, u2, u1)` : `u1·G + u2·P` -/
  lincomb : Nat → Nat → Pt → Pt
  /-- uncompressed SEC1 parse (`from_encoded_point` / `secp256k1_ec_pubkey_parse`) -/
  ofXY : Nat → Nat → Option Pt
  /-- affine coordinates of a non-identity point -/
  toXY : Pt → Nat × Nat
  /-- `mul_by_generator(k)` / `secp256k1_ecmult_gen` : `k·G` -/
  mulG : Nat → Pt
  /-- equality of points (`VerifyingKey: PartialEq`) -/
  decEq : DecidableEq Pt

/-- `fuel_crypto::Error` variants that the signature code returns -/
inductive Error where
  | InvalidSignature
  | InvalidPublicKey
deriving DecidableEq, Repr

def Error.name : Error → String
  | .InvalidSignature => "InvalidSignature"
  | .InvalidPublicKey => "InvalidPublicKey"

/-- panics of the signing wrappers -/
inductive SignPanic where
  /-- `expect("reduced-x recovery ids are never generated")` -/
  | ReducedX
  /-- `assert!(signature[32] >> 7 == 0, "Non-normalized signature")` -/
  | NonNormalized
  /-- `unreachable!("Invalid signature generated")` -/
  | InvalidSignatureGenerated
  /-- `expect("Infallible signature operation")` / libsecp256k1 nonce retry (k = 0, r = 0 or s = 0) -/
  | SignFailed
deriving DecidableEq, Repr

def SignPanic.name : SignPanic → String
  | .ReducedX => "panic-reduced-x"
  | .NonNormalized => "panic-non-normalized"
  | .InvalidSignatureGenerated => "panic-invalid-signature-generated"
  | .SignFailed => "panic-sign-failed"

/-! ### signature_format.rs -/

/-- `decode_signature`: recovery id = top bit of byte 32, cleared from the signature -/
def decodeSignature (sig : Bytes) : Bytes × Bool :=
  let b := sig.getD 32 0
  (sig.set 32 (b &&& 0x7f), (b &&& 0x80) != 0)

/-- `encode_signature`: panics if the top bit of byte 32 is set -/
def encodeSignature (sig : Bytes) (isYOdd : Bool) : Except SignPanic Bytes :=
  let b := sig.getD 32 0
  if b >>> 7 == 0 then
    let v : UInt8 := if isYOdd then 1 else 0
    .ok (sig.set 32 ((v <<< 7) ||| (b &&& 0x7f)))
  else .error .NonNormalized

/-- the `r` half of a 64-byte compact signature as an integer -/
def sigR (sig : Bytes) : Nat := beNat (sig.take 32)
/-- the `s` half -/
def sigS (sig : Bytes) : Nat := beNat ((sig.drop 32).take 32)
def compact (r s : Nat) : Bytes := natBE 32 r ++ natBE 32 s

/-! ### scalar arithmetic mod n (both libraries reduce the 32-byte message mod n) -/

/-- `Reduce::reduce_bytes(prehash)` / `secp256k1_scalar_set_b32(&m, msg32, NULL)` -/
def msgScalar (n : Nat) (msg : Bytes) : Nat := beNat msg % n

/-- scalar inversion; both libraries compute `x^(n-2)` (or an equivalent) for `x ≠ 0` -/
def invN (n x : Nat) : Nat := Ecc.powMod x (n - 2) n

def negN (n x : Nat) : Nat := (n - x % n) % n

/-- `Scalar::is_high` / `secp256k1_scalar_is_high`: `s > (n-1)/2` -/
def isHigh (n s : Nat) : Bool := decide (n / 2 < s)

variable (E : Curve)

/-- x-coordinate of a point as `to_affine().x()` gives it (0 for the identity) -/
def affX (P : E.Pt) : Nat := if E.isZero P then 0 else (E.toXY P).1

/-- 64-byte public key `x ‖ y` (`PublicKey::from(vk)`, `to_encoded_point(false)`) -/
def pubBytes (P : E.Pt) : Bytes := natBE 32 (E.toXY P).1 ++ natBE 32 (E.toXY P).2

/-! ### ecdsa-0.16.9 (RustCrypto) -/

/-- `Signature::from_slice` → `from_scalars`: both halves canonical scalars (`< n`) and non-zero -/
def rcParse (sig : Bytes) : Option (Nat × Nat) :=
  let r := sigR sig
  let s := sigS sig
  if r < E.n ∧ s < E.n then
    if r = 0 ∨ s = 0 then none else some (r, s)
  else none

/-- `hazmat::verify_prehashed` -/
def rcVerifyPrehashed (Q : E.Pt) (z r s : Nat) : Bool :=
  let sInv := invN E.n s
  let u1 := z * sInv % E.n
  let u2 := r * sInv % E.n
  let x := affX E (E.lincomb u1 u2 Q)
  r == x % E.n

/-- `VerifyPrimitive::verify_prehashed`; `lowS = true` is k256's override (rejects `s.is_high()`),
`lowS = false` the default used by p256 -/
def rcVerify (lowS : Bool) (Q : E.Pt) (z r s : Nat) : Bool :=
  if lowS && isHigh E.n s then false else rcVerifyPrehashed E Q z r s

/-- `VerifyingKey::recover_from_prehash` with `is_x_reduced = false` (the only ids
`signature_format::RecoveryId` can express) -/
def rcRecover (lowS : Bool) (z r s : Nat) (odd : Bool) : Option E.Pt :=
  match E.liftX r odd with
  | none => none
  | some R =>
    let rInv := invN E.n r
    let u1 := negN E.n (rInv * z % E.n)
    let u2 := rInv * s % E.n
    let pk := E.lincomb u1 u2 R
    -- `Self::from_affine(pk.into())?` rejects the identity
    if E.isZero pk then none
    -- "Ensure signature verifies with the recovered key"
    else if rcVerify E lowS pk z r s then some pk else none

/-- `Signature::normalize_s` -/
def normalizeS (s : Nat) : Option Nat := if isHigh E.n s then some (negN E.n s) else none

/-! ### libsecp256k1 -/

/-- `secp256k1_ecdsa_(recoverable_)signature_parse_compact`: both halves must not overflow -/
def scParse (sig : Bytes) : Option (Nat × Nat) :=
  let r := sigR sig
  let s := sigS sig
  if r < E.n ∧ s < E.n then some (r, s) else none

/-- `secp256k1_ecdsa_sig_recover` + the `!secp256k1_gej_is_infinity` check of its caller; recid ∈ {0,1} -/
def scSigRecover (z r s : Nat) (odd : Bool) : Option E.Pt :=
  if r = 0 ∨ s = 0 then none else
  match E.liftX r odd with
  | none => none
  | some R =>
    let rn := invN E.n r
    let u1 := negN E.n (rn * z % E.n)
    let u2 := rn * s % E.n
    let Q := E.lincomb u1 u2 R
    if E.isZero Q then none else some Q

/-- `secp256k1_ecdsa_sig_verify`: compares `r` with the x-coordinate, then `r + n` when that is `< p` -/
def scSigVerify (Q : E.Pt) (z r s : Nat) : Bool :=
  if r = 0 ∨ s = 0 then false else
  let sn := invN E.n s
  let u1 := sn * z % E.n
  let u2 := sn * r % E.n
  let pr := E.lincomb u1 u2 Q
  if E.isZero pr then false else
  let x := (E.toXY pr).1
  if x == r then true
  else if r + E.n ≥ E.p then false
  else x == r + E.n

/-- `secp256k1_ecdsa_verify`: `!secp256k1_scalar_is_high(&s) && sig_verify` -/
def scVerify (Q : E.Pt) (z r s : Nat) : Bool :=
  !isHigh E.n s && scSigVerify E Q z r s

/-! ### backend/k1/secp256k1.rs (std backend; `Signature::{recover,verify,sign}` when built with std) -/

/-- `secp256k1::recover` -/
def secpRecover (sig msg : Bytes) : Except Error Bytes :=
  let (sig', odd) := decodeSignature sig
  match scParse E sig' with
  | none => .error .InvalidSignature
  | some (r, s) =>
    match scSigRecover E (msgScalar E.n msg) r s odd with
    | none => .error .InvalidSignature
    | some Q => .ok (pubBytes E Q)

/-- `secp256k1::verify` -/
def secpVerify (sig pk msg : Bytes) : Except Error Unit :=
  let (sig', _) := decodeSignature sig
  match scParse E sig' with
  | none => .error .InvalidSignature
  | some (r, s) =>
    match E.ofXY (beNat (pk.take 32)) (beNat ((pk.drop 32).take 32)) with
    | none => .error .InvalidPublicKey
    | some Q =>
      if scVerify E Q (msgScalar E.n msg) r s then .ok () else .error .InvalidSignature

/-! ### backend/k1/k256.rs (no-std backend) -/

/-- `k256::recover` as it was before `fix-C16-k256-high-s` (kept for the negative witness F6):
the library's recovery re-verifies with a low-s-only verifier, so `n/2 < s` is rejected -/
def k256RecoverPre (sig msg : Bytes) : Except Error Bytes :=
  let (sig', odd) := decodeSignature sig
  match rcParse E sig' with
  | none => .error .InvalidSignature
  | some (r, s) =>
    match rcRecover E true (msgScalar E.n msg) r s odd with
    | none => .error .InvalidSignature
    | some Q => .ok (pubBytes E Q)

/-- `k256::recover` (with `fix-C16-k256-high-s`): a high `s` is replaced by `n - s` and the parity
bit flipped before calling the library -/
def k256Recover (sig msg : Bytes) : Except Error Bytes :=
  let (sig', odd) := decodeSignature sig
  match rcParse E sig' with
  | none => .error .InvalidSignature
  | some (r, s) =>
    let (s, odd) := match normalizeS E s with
      | some s' => (s', !odd)
      | none => (s, odd)
    match rcRecover E true (msgScalar E.n msg) r s odd with
    | none => .error .InvalidSignature
    | some Q => .ok (pubBytes E Q)

/-- `k256::verify` (public key parsed first) -/
def k256Verify (sig pk msg : Bytes) : Except Error Unit :=
  match E.ofXY (beNat (pk.take 32)) (beNat ((pk.drop 32).take 32)) with
  | none => .error .InvalidPublicKey
  | some Q =>
    let (sig', _) := decodeSignature sig
    match rcParse E sig' with
    | none => .error .InvalidSignature
    | some (r, s) =>
      if rcVerify E true Q (msgScalar E.n msg) r s then .ok () else .error .InvalidSignature

/-! ### backend/r1/p256.rs -/

/-- `secp256r1::recover` (p256 verifier accepts high s) -/
def r1Recover (sig msg : Bytes) : Except Error Bytes :=
  let (sig', odd) := decodeSignature sig
  match rcParse E sig' with
  | none => .error .InvalidSignature
  | some (r, s) =>
    match rcRecover E false (msgScalar E.n msg) r s odd with
    | none => .error .InvalidSignature
    | some Q => .ok (pubBytes E Q)

/-! ### signing (the nonce `k` is explicit: both libraries derive it by RFC 6979 from key and message) -/

/-- y-coordinate parity (`R.y_is_odd()` / `secp256k1_fe_is_odd(&r.y)`) -/
def yOdd (P : E.Pt) : Bool := (E.toXY P).2 % 2 == 1

/-- `hazmat::sign_prehashed`: `R = k·G`, `r = R.x mod n`, `s = k⁻¹ (z + r d)`;
result `(r, s, y_is_odd, x_is_reduced)`; fails on `k = 0` and (through `from_scalars`) on `r = 0 ∨ s = 0` -/
def rcSignPrehashed (d k z : Nat) : Option (Nat × Nat × Bool × Bool) :=
  if k = 0 then none else
  let kInv := invN E.n k
  let R := E.mulG k
  let x := affX E R
  let r := x % E.n
  let xReduced := decide (r ≠ x)
  let s := kInv * ((z + r * d % E.n) % E.n) % E.n
  if r = 0 ∨ s = 0 then none else some (r, s, yOdd E R, xReduced)

/-- k256 `SignPrimitive::try_sign_prehashed`: normalises `s`, flips the parity when it did -/
def k256SignPrim (d k z : Nat) : Option (Nat × Nat × Bool × Bool) :=
  match rcSignPrehashed E d k z with
  | none => none
  | some (r, s, odd, red) =>
    some (r, (normalizeS E s).getD s, odd ^^ isHigh E.n s, red)

/-- `secp256k1_ecdsa_sig_sign`: result `(r, s, recid)`, `recid = (overflow << 1 | y odd) ^ high` -/
def scSigSign (d k z : Nat) : Option (Nat × Nat × Nat) :=
  let R := E.mulG k
  let x := (E.toXY R).1
  let r := x % E.n
  let overflow := decide (E.n ≤ x)
  let recid := (if overflow then 2 else 0) + (if yOdd E R then 1 else 0)
  let s := invN E.n k * ((r * d % E.n + z) % E.n) % E.n
  let high := isHigh E.n s
  let s := if high then negN E.n s else s
  let recid := if high then recid ^^^ 1 else recid
  if r = 0 ∨ s = 0 then none else some (r, s, recid)

/-- `secp256k1::sign` (std backend); `k` must be a valid nonce (`0 < k < n`), as `sign_inner` checks -/
def secpSign (d k : Nat) (msg : Bytes) : Except SignPanic Bytes :=
  if k = 0 then .error .SignFailed else
  match scSigSign E d k (msgScalar E.n msg) with
  | none => .error .SignFailed
  | some (r, s, recid) =>
    -- `SecpRecoveryId::try_from(recovery_id).expect("reduced-x recovery ids are never generated")`
    if recid = 0 then encodeSignature (compact r s) false
    else if recid = 1 then encodeSignature (compact r s) true
    else .error .ReducedX

/-- the "which recovery id recovers the actual key" search shared by `k256::sign` and `p256::sign_prehashed` -/
def findRecid (lowS : Bool) (actual : E.Pt) (z r s : Nat) : Except SignPanic Bool :=
  let _ := E.decEq
  let rec1 := rcRecover E lowS z r s false
  let rec2 := rcRecover E lowS z r s true
  if rec1 == some actual then .ok false
  else if rec2 == some actual then .ok true
  else .error .InvalidSignatureGenerated

/-- `k256::sign` (no-std backend) -/
def k256Sign (d k : Nat) (msg : Bytes) : Except SignPanic Bytes :=
  let z := msgScalar E.n msg
  match k256SignPrim E d k z with
  | none => .error .SignFailed
  | some (r, s, _, _) =>
    match findRecid E true (E.mulG d) z r s with
    | .error e => .error e
    | .ok odd => encodeSignature (compact r s) odd

/-- `p256::sign_prehashed` (test-helpers): library signature, `normalize_s`, recovery-id search -/
def r1Sign (d k : Nat) (msg : Bytes) : Except SignPanic Bytes :=
  let z := msgScalar E.n msg
  match rcSignPrehashed E d k z with
  | none => .error .SignFailed
  | some (r, s, _, _) =>
    let s := (normalizeS E s).getD s
    match findRecid E false (E.mulG d) z r s with
    | .error e => .error e
    | .ok odd => encodeSignature (compact r s) odd

/-- `k256::public_key` / `secp256k1::public_key` -/
def publicKey (d : Nat) : Bytes := pubBytes E (E.mulG d)

/-! ### executable instances (affine points, `none` = identity) for the driver -/

def execCurve (c : Ecc.Params) : Curve where
  Pt := Option (Nat × Nat)
  p := c.p
  n := c.n
  isZero := fun P => P.isNone
  liftX := fun x odd => (Ecc.liftX c x odd).map (fun P => some (Ecc.toAffine c P))
  lincomb := fun u1 u2 P =>
    let J := match P with | none => Ecc.JPt.inf | some (x, y) => Ecc.ofAffine x y
    let R := Ecc.lincomb c u1 u2 J
    if R.isInf then none else some (Ecc.toAffine c R)
  ofXY := fun x y => (Ecc.ofXY c x y).map (fun _ => some (x, y))
  toXY := fun P => P.getD (0, 0)
  mulG := fun k =>
    let R := Ecc.mul c k (Ecc.gen c)
    if R.isInf then none else some (Ecc.toAffine c R)
  decEq := inferInstance

def k1 : Curve := execCurve Ecc.secp256k1
def r1 : Curve := execCurve Ecc.secp256r1

end FuelVerif.Ecdsa
