/-
Model of the hand-written canonical codec of `Input`
(fuel-tx/src/transaction/types/input.rs, `impl Serialize for Input`, `impl Deserialize for Input`,
with `Coin<Full>::into_signed/into_predicate` of input/coin.rs and
`FullMessage::into_coin_signed/…` of input/message.rs).

Model value of an `Input`: `Val.variant i payload`, `i` the position of the variant in `enum Input`
(`Gen.Canonical.inputVariants`), `payload` the field list of the variant's struct (`Coin<Signed>`, …),
with `Val.unit` at the `Empty<_>` fields.

Encoding is that of an enum whose variants carry the `InputRepr` discriminants 0,0,1,2,2,2,2: the seven
variants share three wire discriminants, so the decoder cannot match on the discriminant alone: it
decodes the *full* layout (`CoinFull`, `FullMessage`) and picks the variant from the emptiness of
`predicate` / `data` (`capacity() == 0` right after `decode_static`, i.e. the length words).
-/
import FuelVerif.Model.Resolve
namespace FuelVerif.Canonical.InputCodec
open FuelVerif FuelVerif.Canonical FuelVerif.Canonical.Resolve FuelVerif.Gen.Canonical

/-- the coin / message / contract structs contain no hand-written codec -/
def env0 : Env := fun _ => Codec.none

/-- discriminant of `InputRepr::<name>` -/
def reprDisc (name : String) : Nat := (prefixValue ("InputRepr", name)).getD 0

/-- `Desc.void` (rejected by `Desc.wf`, and by every decoder) when a type cannot be resolved -/
def orVoid (o : Option Desc) : Desc := o.getD .void

/-- descriptor of the payload struct of an `Input` variant -/
def payloadDesc (structName spec : String) : Desc :=
  orVoid (if spec == "" then named structName else specialised structName spec)

/-- (wire discriminant, payload descriptor) of the seven variants, in declaration order -/
def variantDescs : List (Nat × Desc) :=
  inputVariants.map (fun r => (reprDisc r.2.1, payloadDesc r.2.2.1 r.2.2.2))

/-- `InputRepr::from(self).encode_static` then the payload: the encoder of `Input` is the encoder of
this enum descriptor (its discriminants repeat (it is `wf` but not `nodup`), so it is never *decoded* generically) -/
def encDesc : Desc := Desc.enumOf variantDescs

def coinFull : Desc := payloadDesc "Coin" "Full"
def messageFull : Desc := payloadDesc "Message" "Full"
def contract : Desc := payloadDesc "InputContract" ""
def inputRepr : Desc := orVoid (named "InputRepr")

/-- position of `Input::<name>` in the enum -/
def variantIdx (name : String) : Nat := inputVariants.findIdx (fun r => r.1 == name)

/-- field names of a deriving struct, in order -/
def fieldNames (structName : String) : List String :=
  match structs.find? (fun r => r.name == structName) with
  | some sr => sr.fields.map (·.name)
  | none => []

/-- `let Self { a, b, .. } = self; T { a, b, ..Default::default() }`: keep the named fields, default
(`Empty`) the others -/
def keepFields (names : List String) : List String → Val → Val
  | n :: ns, .pair v r => .pair (if names.contains n then v else .unit) (keepFields names ns r)
  | _, v => v

/-- the field `name` of a (partial) struct value -/
def getField (structName name : String) (v : Val) : Option Val :=
  match (fieldNames structName).findIdx? (· == name) with
  | some i => v.field i
  | none => none

/-- `x.capacity()` of a `Bytes` / `PredicateCode` field right after `decode_static`
(newtype structs around the `Vec<u8>` whose length word has been read) -/
def capOf : Val → Option Nat
  | .cap n => some n
  | .pair a .unit => capOf a
  | _ => none

def keptCoinSigned : List String := ["utxo_id", "owner", "amount", "asset_id", "tx_pointer", "witness_index"]
def keptCoinPredicate : List String := ["utxo_id", "owner", "amount", "asset_id", "tx_pointer", "predicate", "predicate_data", "predicate_gas_used"]
def keptMessageCoinSigned : List String := ["sender", "recipient", "amount", "nonce", "witness_index"]
def keptMessageCoinPredicate : List String := ["sender", "recipient", "amount", "nonce", "predicate", "predicate_data", "predicate_gas_used"]
def keptMessageDataSigned : List String := ["sender", "recipient", "amount", "nonce", "witness_index", "data"]
def keptMessageDataPredicate : List String := ["sender", "recipient", "amount", "nonce", "data", "predicate", "predicate_data", "predicate_gas_used"]

/-- `Input::decode_static` -/
def decS (bs : Bytes) : R (Val × Bytes) :=
  -- `<InputRepr as Deserialize>::decode(buffer).map_err(|_| Error::UnknownDiscriminant)?`
  match decU64 bs with
  | .error _ => .error .unknownDiscriminant
  | .ok (w, r) =>
    if w = reprDisc "Coin" then
      match Canonical.decS env0 coinFull r with
      | .error e => .error e
      | .ok (coin, r') =>
        match (getField "Coin" "predicate" coin).bind capOf with
        | none => .error .shape
        | some pc =>
          if pc = 0 then .ok (Val.variant (variantIdx "CoinSigned") (keepFields keptCoinSigned (fieldNames "Coin") coin), r')
          else .ok (Val.variant (variantIdx "CoinPredicate") (keepFields keptCoinPredicate (fieldNames "Coin") coin), r')
    else if w = reprDisc "Contract" then
      match Canonical.decS env0 contract r with
      | .error e => .error e
      | .ok (c, r') => .ok (Val.variant (variantIdx "Contract") c, r')
    else if w = reprDisc "Message" then
      match Canonical.decS env0 messageFull r with
      | .error e => .error e
      | .ok (m, r') =>
        match (getField "Message" "data" m).bind capOf, (getField "Message" "predicate" m).bind capOf with
        | some dc, some pc =>
          let names := fieldNames "Message"
          match decide (dc = 0), decide (pc = 0) with
          | true, true => .ok (Val.variant (variantIdx "MessageCoinSigned") (keepFields keptMessageCoinSigned names m), r')
          | true, false => .ok (Val.variant (variantIdx "MessageCoinPredicate") (keepFields keptMessageCoinPredicate names m), r')
          | false, true => .ok (Val.variant (variantIdx "MessageDataSigned") (keepFields keptMessageDataSigned names m), r')
          | false, false => .ok (Val.variant (variantIdx "MessageDataPredicate") (keepFields keptMessageDataPredicate names m), r')
        | _, _ => .error .shape
    else .error .unknownDiscriminant

/-- `Input::decode_dynamic`: `match self { Input::CoinSigned(coin) => coin.decode_dynamic(buffer), .. }` -/
def decD (p : Val) (bs : Bytes) : R (Val × Bytes) := Canonical.decD env0 encDesc p bs

/-- variant index and payload of an enum value -/
def unVariant : Val → Option (Nat × Val)
  | .inl v => some (0, v)
  | .inr v => (unVariant v).map (fun p => (p.1 + 1, p.2))
  | _ => none

/-- the length word of field `f` of the partial payload is non-zero -/
def capNonzero (structName f : String) (payload : Val) : Bool :=
  match (getField structName f payload).bind capOf with
  | some n => n != 0
  | none => false

/-- on a *partial* input (what `decode_static` returns): the emptiness conditions under which the decoder
picks this variant — a predicate variant has a non-empty predicate, a message-data variant non-empty
data (the `Empty` fields are empty by type) -/
def matchesP (p : Val) : Bool :=
  match unVariant p with
  | none => false
  | some (i, payload) =>
    match inputVariants[i]? with
    | none => false
    | some r =>
      (if r.2.2.2 == "Predicate" || r.2.2.2 == "MessageCoin<Predicate>" || r.2.2.2 == "MessageData<Predicate>"
        then capNonzero r.2.2.1 "predicate" payload else true) &&
      (if r.2.2.2 == "MessageData<Signed>" || r.2.2.2 == "MessageData<Predicate>"
        then capNonzero r.2.2.1 "data" payload else true)

/-- inputs the round trip is claimed for (`Input::wf` of DESIGN §5.A): values of the seven variant
structs whose predicate / data are non-empty where the variant has them -/
def wt (v : Val) : Bool :=
  Canonical.wt env0 encDesc v && matchesP (Canonical.partialOf env0 encDesc v)

/-- partial inputs `decS` produces -/
def pwt (p : Val) : Bool :=
  Canonical.pwt env0 encDesc p && matchesP p

def codec : Codec where
  encS := Canonical.encS env0 encDesc
  encD := Canonical.encD env0 encDesc
  -- `size_static`: variant's `size_static().saturating_add(8)`; `size_dynamic`: the variant's
  sizeS := Canonical.sizeS env0 encDesc
  sizeD := Canonical.sizeD env0 encDesc
  decS := decS
  decD := decD
  wt := wt
  pwt := pwt
  partialOf := Canonical.partialOf env0 encDesc

end FuelVerif.Canonical.InputCodec
