/-
Static `$pc` discipline of the 127 `impl Execute for fuel_asm::op::X` (C25).

`Gen/PcSites.lean` (tools/gen/pc_sites.py) records, for every success exit of every instruction implementation, the
ordered list of textual `$pc` updates on that path, following the helper the impl delegates to. This file gives those
lists a meaning (`runPcSteps`) and classifies an implementation by the SHAPE of its exits — independently of the
name-based `pcClass` of `Props/C25.lean`; `Props/C25.lean` proves that the two classifications agree on the whole table.
-/
import FuelVerif.Gen.PcSites
import FuelVerif.Model.AluBase
namespace FuelVerif.Gen
open FuelVerif.Alu

/-- an exit is reachable under the default configuration iff each of its compile-time guards has the default value
(`EcalHandler::INC_PC = true`: the `else` branch of `external_call` is dead unless a handler overrides the constant) -/
def PcExit.enabled (e : PcExit) : Bool :=
  e.guards.all (fun g => constDefaults.lookup g.1 == some g.2)

def PcStep.isHandler : PcStep → Bool
  | .handler _ => true
  | _ => false

/-- the effect of one recorded step on the value of `$pc`, where the step determines it:
`inc_pc` is `*pc = pc.saturating_add(Instruction::SIZE as Word)` (the translator pins that body). An assignment or a
frame restore sets `$pc` to a value that is not a function of the old `$pc`; a handler is foreign code. -/
def PcStep.run : PcStep → Nat → Option Nat
  | .incPc, pc => some (satAdd pc instrSize)
  | _, _ => none

end FuelVerif.Gen
namespace FuelVerif.Alu
open FuelVerif.Gen
/-- run the `$pc` updates of a path in order; `none` as soon as a step does not determine `$pc` from its old value -/
def runPcSteps : List PcStep → Nat → Option Nat
  | [], pc => some pc
  | s :: ss, pc => (s.run pc).bind (runPcSteps ss)

end FuelVerif.Alu
namespace FuelVerif.Gen
open FuelVerif.Alu
/-- steps of an exit with the foreign-handler calls removed (a handler that leaves `$pc` alone) -/
def PcExit.ownSteps (e : PcExit) : List PcStep := e.steps.filter (fun s => !s.isHandler)

/-- **advancing** exit: its own `$pc` updates are exactly one `inc_pc`, and it is the LAST step of the path
(a handler call, if any, comes before it) -/
def PcExit.isAdvancing (e : PcExit) : Bool :=
  e.ownSteps == [.incPc] && e.steps.getLast? == some .incPc

/-- exits of `JumpArgs::jump`: the untaken branch ends in `inc_pc`, the taken branch assigns the checked target -/
def PcExit.isJumpExit (e : PcExit) : Bool :=
  (e.steps == [.incPc] || e.steps == [.assign "target_addr"]) &&
  e.via.getLast? == some "JumpArgs::jump"

/-- exits of `RetCtx::return_from_context`: restore the caller's registers if a frame is popped, then `inc_pc` -/
def PcExit.isReturnExit (e : PcExit) : Bool :=
  (e.steps == [.restoreFrame, .incPc] || e.steps == [.incPc]) &&
  e.via.getLast? == some "RetCtx::return_from_context"

/-- exit of `PrepareCallCtx::prepare_call`: `$pc` := start of the callee's code -/
def PcExit.isCallExit (e : PcExit) : Bool :=
  e.steps == [.assign "code_start"] && e.via.getLast? == some "PrepareCallCtx::prepare_call"

end FuelVerif.Gen

namespace FuelVerif.Alu
open FuelVerif.Gen

/-- shape classification of one table entry `(mnemonic, ExecuteState constructor, exits)` -/
inductive SiteShape
  | advancing   -- returns `Proceed`; every reachable exit ends in the single `inc_pc` of the path
  | jump        -- returns `Proceed`; both exits of `JumpArgs::jump`
  | call        -- returns `Proceed`; `$pc` := callee code start
  | ret         -- returns `Return`/`ReturnData`; (restore frame)? then `inc_pc`
  | revert      -- returns `Revert`; `$pc` untouched
  deriving DecidableEq, Repr

def enabledExits (s : String × String × List PcExit) : List PcExit := s.2.2.filter (·.enabled)

def siteShape (s : String × String × List PcExit) : Option SiteShape :=
  let st := s.2.1
  let ex := enabledExits s
  if ex.isEmpty then none
  else if st == "Proceed" && ex.all (·.isAdvancing) then some .advancing
  else if st == "Proceed" && ex.all (·.isJumpExit) && ex.any (·.steps == [.incPc]) && ex.any (·.steps == [.assign "target_addr"]) then some .jump
  else if st == "Proceed" && ex.all (·.isCallExit) then some .call
  else if (st == "Return" || st == "ReturnData") && ex.all (·.isReturnExit) then some .ret
  else if st == "Revert" && ex.all (·.steps == []) then some .revert
  else none

/-- the function that performs the last `$pc` update of an exit (the impl itself when `via` is empty) -/
def exitOwners (s : String × String × List PcExit) : List String :=
  (s.1 ++ "::execute") :: s.2.2.flatMap (·.via)

/-- `$pc` writes that are not part of any instruction: VM initialisation and `inc_pc` itself -/
def nonInstructionPcWriters : List String := ["Interpreter::init_script", "Interpreter::init_predicate", "inc_pc"]

end FuelVerif.Alu
