/-
C19 composed with C10 / C15: the cryptographic sub-checks of `into_checked_basic` computed in Lean from the
transaction's own bytes, through the models of the code that performs them.

`Model/Validity.lean` works on a validity summary in which four sub-checks are booleans. Here the summary is built
from a `Raw` transaction that still carries the bytes those sub-checks read, and the booleans are COMPUTED:

  Upload   `fuel_merkle::binary::verify(root, witness, proof_set, subsection_index, subsections_number)`
           = `BMT.verify` (Model/BinaryMerkle.lean, C10)                                      upload.rs check_unique_rules
  Create   `Output::ContractCreated { contract_id, state_root }` equal to `CreateMetadata::compute(tx)`:
           `Contract::root_from_code`, `Contract::initial_state_root`, `Contract::id`
           = `Ids.CreateMetadata.compute` (Model/ContractId.lean, C15)                         create.rs check_unique_rules
  Blob     `BlobId::compute(witness) = Hasher::hash(witness)` equal to `blob_id`                blob.rs check_unique_rules
  Upgrade  `Hasher::hash(witness)` equal to the `checksum` of the purpose                      upgrade.rs UpgradeMetadata::compute
           (the postcard deserialisation that follows stays a boolean: third-party decoder)

(The predicate-owner comparison `Input::is_predicate_owner_valid` is not part of `into_checked_basic`: it belongs to
`check_signatures` / `check_predicates`, i.e. C20, whose model already composes C15's `predicateOwner`.)
Imports only Basic / Gen / Model (core only): the driver links it and computes the booleans itself with SHA-256.
-/
import FuelVerif.Model.Validity
import FuelVerif.Model.ContractId
namespace FuelVerif.Validity
open FuelVerif

/-- an output, with the bytes the Create rule compares -/
inductive ROutput
  | plain (o : Output)                                  -- coin / contract / change / variable
  | contractCreated (contractId stateRoot : Bytes)
  deriving DecidableEq, Repr, Inhabited

/-- kind-specific body with the bytes the sub-checks read (instead of their verdicts) -/
inductive RBody
  | script (gasLimit scriptLen scriptDataLen : Nat)
  | create (bytecodeWitnessIndex : Nat) (salt : Bytes) (slots : List Ids.Slot)
  | upgradeConsensus (witnessIndex : Nat) (checksum : Bytes) (deserializeOk : Bool)
  | upgradeState
  | upload (witnessIndex subsectionsNumber : Nat) (root : Bytes) (proofSet : List Bytes) (subsectionIndex : Nat)
  | blob (witnessIndex : Nat) (blobId : Bytes)
  deriving DecidableEq, Repr, Inhabited

/-- a chargeable transaction as far as `into_checked_basic` reads it, witnesses with their DATA -/
structure Raw where
  body : RBody
  size : Nat
  policies : Policies
  inputs : List Input
  outputs : List ROutput
  witnesses : List Bytes
  deriving Repr, Inhabited

/-- `CreateMetadata::compute(tx)` for a Create body (C15's model), `none` for the other kinds and when it fails -/
def Raw.createMetadata (H : Bytes → Bytes) (raw : Raw) : Option Ids.CreateMetadata :=
  match raw.body with
  | .create bwi salt slots =>
    match Ids.CreateMetadata.compute H { bytecodeWitnessIndex := bwi, salt := salt, storageSlots := slots, witnesses := raw.witnesses } with
    | .ok m => some m
    | .error _ => none
  | _ => none

/-- `contract_id != &contract_id_calculated || state_root != &state_root_calculated` negated -/
def createdMatches (m : Option Ids.CreateMetadata) (contractId stateRoot : Bytes) : Bool :=
  match m with
  | some m => contractId == m.contractId && stateRoot == m.stateRoot
  | none => false

/-- upload.rs: `witnesses.get(index)` then `fuel_merkle::binary::verify(..)`; a panic of `verify` (C10: impossible for
`u16` counts) counts as not verified -/
def uploadProofOk (H : Bytes → Bytes) (raw : Raw) (wi n : Nat) (root : Bytes) (proofSet : List Bytes) (idx : Nat) : Bool :=
  match raw.witnesses[wi]? with
  | none => false
  | some w => match BMT.verify H root w proofSet idx n with
    | .ok b => b
    | .error _ => false

/-- blob.rs: `BlobId::compute(witness) == blob_id` -/
def blobIdOk (H : Bytes → Bytes) (raw : Raw) (wi : Nat) (blobId : Bytes) : Bool :=
  match raw.witnesses[wi]? with
  | none => false
  | some w => blobId == H w

/-- upgrade.rs: `Hasher::hash(witness) == checksum` -/
def checksumOk (H : Bytes → Bytes) (raw : Raw) (wi : Nat) (checksum : Bytes) : Bool :=
  match raw.witnesses[wi]? with
  | none => false
  | some w => checksum == H w

/-- storage-slot keys as the numbers the summary compares (`Bytes32` order = big-endian numeric order) -/
def slotKeyNats (slots : List Ids.Slot) : List Nat := slots.map (fun s => beNat s.1)

/-- the summary's output for a raw output, given the verdict for `ContractCreated` -/
def ROutput.toOutput (verdict : Bytes → Bytes → Bool) : ROutput → Output
  | .plain o => o
  | .contractCreated c s => .contractCreated (verdict c s)

/-- the summary's body, given the verdicts -/
def RBody.toBody (proofOk idOk sumOk : Bool) : RBody → Body
  | .script g sl sdl => .script g sl sdl
  | .create bwi _ slots => .create bwi (slotKeyNats slots)
  | .upgradeConsensus wi _ d => .upgradeConsensus wi sumOk d
  | .upgradeState => .upgradeState
  | .upload wi n _ _ _ => .upload wi n proofOk
  | .blob wi _ => .blob wi idOk

/-- the summary with given verdicts -/
def Raw.toTxWith (raw : Raw) (proofOk idOk sumOk : Bool) (verdict : Bytes → Bytes → Bool) : Tx :=
  { body := raw.body.toBody proofOk idOk sumOk, size := raw.size, policies := raw.policies, inputs := raw.inputs,
    outputs := raw.outputs.map (ROutput.toOutput verdict), witnesses := raw.witnesses.map List.length }

def Raw.proofVerdict (H : Bytes → Bytes) (raw : Raw) : Bool :=
  match raw.body with | .upload wi n root proof idx => uploadProofOk H raw wi n root proof idx | _ => true
def Raw.idVerdict (H : Bytes → Bytes) (raw : Raw) : Bool :=
  match raw.body with | .blob wi id => blobIdOk H raw wi id | _ => true
def Raw.sumVerdict (H : Bytes → Bytes) (raw : Raw) : Bool :=
  match raw.body with | .upgradeConsensus wi c _ => checksumOk H raw wi c | _ => true

/-- **the validity summary of a raw transaction, sub-check verdicts computed through the C10 / C15 models** -/
def Raw.toTx (H : Bytes → Bytes) (raw : Raw) : Tx :=
  raw.toTxWith (raw.proofVerdict H) (raw.idVerdict H) (raw.sumVerdict H) (createdMatches (raw.createMetadata H))

/-- the summary in which every cryptographic verdict is "passes": what the NON-cryptographic rules see -/
def Raw.skeleton (raw : Raw) : Tx := raw.toTxWith true true true (fun _ _ => true)

/-- `into_checked_basic` on a raw transaction -/
def checkRaw (H : Bytes → Bytes) (p : Params) (height : Nat) (raw : Raw) : R Checked := check p height (raw.toTx H)

end FuelVerif.Validity
