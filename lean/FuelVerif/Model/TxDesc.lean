/-
The protocol types as descriptors (all resolved from `Gen/Canonical.lean`, see Model/Resolve.lean), the
environment of hand-written codecs, and the hand-written codec of `Transaction`
(fuel-tx/src/transaction.rs `impl Serialize for Transaction`, `impl Deserialize for Transaction`).

Model value of a `Transaction`: `Val.variant i tx`, `i` the position of the variant in `enum Transaction`
(`Gen.Canonical.txVariants`: Script, Create, Mint, Upgrade, Upload, Blob), `tx` the value of the variant's
struct.

Field layout of the values (right-nested field lists, see `Val.elems`):
 * chargeable transaction: `[body, policies, inputs, outputs, witnesses, metadata(skipped)]`,
 * newtype structs (`Bytes32`, `Bytes`, `Witness`, `ScriptCode`, …) are one-field structs: a `Bytes32`
   value is `Val.pair (.bytes b) .unit`,
 * field order / names of every struct: `Gen.Canonical.structs`; `Resolve.fieldIndex` gives positions.
-/
import FuelVerif.Model.Policies
import FuelVerif.Model.InputCodec
namespace FuelVerif.Canonical.TxDesc
open FuelVerif FuelVerif.Canonical FuelVerif.Canonical.Resolve FuelVerif.Gen.Canonical
open FuelVerif.Canonical.InputCodec (orVoid)

/-- the hand-written codecs, by `Desc.custom` index -/
def env : Env := fun k =>
  if k = customPolicies then Policies.codec
  else if k = customInput then InputCodec.codec
  else Codec.none

def policies : Desc := .custom customPolicies
def input : Desc := .custom customInput
def output : Desc := orVoid (named "Output")
def witness : Desc := orVoid (named "Witness")
def utxoId : Desc := orVoid (named "UtxoId")
def txPointer : Desc := orVoid (named "TxPointer")
def storageSlot : Desc := orVoid (named "StorageSlot")
def receipt : Desc := orVoid (named "Receipt")
def upgradePurpose : Desc := orVoid (named "UpgradePurpose")
def scriptExecutionResult : Desc := orVoid (named "ScriptExecutionResult")
def panicInstruction : Desc := orVoid (named "PanicInstruction")
def transactionRepr : Desc := orVoid (named "TransactionRepr")
def bytes32 : Desc := orVoid (named "Bytes32")
def contractCode : Desc := orVoid (named "ContractCode")

/-- descriptor of the struct of a `Transaction` variant row -/
def txStruct (r : String × String × String) : Desc :=
  orVoid (if r.2.2 == "" then named r.2.1 else generic r.2.1 [("Body", .named r.2.2)])

/-- the six transaction structs, in `enum Transaction` order -/
def txDescs : List Desc := txVariants.map txStruct

def txByName (n : String) : Desc :=
  match txVariants.find? (fun r => r.1 == n) with
  | some r => txStruct r
  | none => .void

def script : Desc := txByName "Script"
def create : Desc := txByName "Create"
def mint : Desc := txByName "Mint"
def upgrade : Desc := txByName "Upgrade"
def upload : Desc := txByName "Upload"
def blob : Desc := txByName "Blob"

/-- every named descriptor, for the well-formedness obligation and the driver -/
def registry : List (String × Desc) :=
  [("policies", policies), ("input", input), ("output", output), ("witness", witness), ("utxoid", utxoId),
   ("txpointer", txPointer), ("storageslot", storageSlot), ("receipt", receipt),
   ("upgradepurpose", upgradePurpose), ("scriptresult", scriptExecutionResult),
   ("panicinstruction", panicInstruction), ("bytes32", bytes32), ("contractcode", contractCode),
   ("script", script), ("create", create), ("mint", mint), ("upgrade", upgrade), ("upload", upload), ("blob", blob)]

/-! ### `Transaction` -/

/-- apply `f` to the descriptor and payload of the variant an enum value selects -/
def onVariant {α : Type} (dflt : α) (f : Desc → Val → α) : List Desc → Val → α
  | d :: _, .inl v => f d v
  | _ :: ds, .inr v => onVariant dflt f ds v
  | _, _ => dflt

/-- `match self { Self::Script(tx) => tx.encode_static(buffer), .. }` -/
def txEncS (v : Val) : Bytes := onVariant [] (encS env) txDescs v
def txEncD (v : Val) : Bytes := onVariant [] (encD env) txDescs v
def txSizeS (v : Val) : Nat := onVariant 0 (sizeS env) txDescs v
def txSizeD (v : Val) : Nat := onVariant 0 (sizeD env) txDescs v
def txEncode (v : Val) : Bytes := txEncS v ++ txEncD v
def txSize (v : Val) : Nat := txSizeS v + txSizeD v

/-- the variant with `TransactionRepr` discriminant `w`: position and struct -/
def txOfDisc (w : Nat) : Option (Nat × Desc) :=
  match txVariants.findIdx? (fun r => prefixValue ("TransactionRepr", r.1) == some w) with
  | some i => (txDescs[i]?).map (fun d => (i, d))
  | none => none

/-- `Transaction::decode_static`: peek 8 bytes, decode a `TransactionRepr` from them, then
`<X as Deserialize>::decode_static(buffer)` on the *unconsumed* buffer (the struct re-reads the word as
its prefix) -/
def txDecS (bs : Bytes) : R (Val × Bytes) :=
  match peek 8 bs with
  | .error e => .error e
  | .ok disc =>
    match decode env transactionRepr disc with
    | .error e => .error e
    | .ok (_, _) =>
      match txOfDisc (beNat disc) with
      | none => .error .unknownDiscriminant
      | some (i, d) =>
        match decS env d bs with
        | .error e => .error e
        | .ok (p, r) => .ok (Val.variant i p, r)

/-- `Transaction::decode_dynamic` -/
def txDecD (p : Val) (bs : Bytes) : R (Val × Bytes) :=
  let rec go : List Desc → Val → R (Val × Bytes)
    | d :: _, .inl p =>
      match decD env d p bs with
      | .error e => .error e
      | .ok (v, r) => .ok (.inl v, r)
    | _ :: ds, .inr p =>
      match go ds p with
      | .error e => .error e
      | .ok (v, r) => .ok (.inr v, r)
    | _, _ => .error .shape
  go txDescs p

/-- `Transaction::decode` / `from_bytes` -/
def txDecode (bs : Bytes) : R (Val × Bytes) :=
  match txDecS bs with
  | .error e => .error e
  | .ok (p, r) => txDecD p r

/-- a transaction value of some variant whose struct value is well-typed -/
def txWt (v : Val) : Bool := onVariant false (wt env) txDescs v
/-- skipped fields (`metadata`) erased -/
def txErase : List Desc → Val → Val
  | d :: _, .inl v => .inl (erase env d v)
  | _ :: ds, .inr v => .inr (txErase ds v)
  | _, v => v

end FuelVerif.Canonical.TxDesc
