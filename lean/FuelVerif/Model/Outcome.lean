/-
Execution outcome and receipts (C28). Transcribed from
  fuel-vm/src/interpreter/receipts.rs          ReceiptsCtx::{push, root} (reserved tail slots, incremental tree)
  fuel-merkle/src/binary/root_calculator.rs    MerkleRootCalculator::{push, root}
  fuel-vm/src/interpreter/executors/main.rs    run_program (loop over execute(), result / receipt construction)
  fuel-vm/src/interpreter/flow.rs              append_panic_receipt, return_from_context, revert
  fuel-vm/src/state.rs                         StateTransition::should_revert
  fuel-vm/src/memory_client.rs                 MemoryClient::transact (commit / revert)
  fuel-vm/src/storage/memory.rs                MemoryStorage::{commit, revert}
  fuel-vm/src/interpreter/initialization.rs    init_inner (what a reused interpreter resets before each transaction)
The instruction semantics are abstract: a program run is a list of events saying which receipt an
instruction tries to push and how it ends (proceed / return / revert / fault).
-/
import FuelVerif.Basic.Util
import FuelVerif.Gen.Outcome
namespace FuelVerif.Outcome
open FuelVerif

inductive RKind
  | call | ret | retd | panic | revert | log | logd | transfer | transferOut | scriptResult | messageOut | mint | burn
  deriving DecidableEq, Repr, Inhabited

/-- a receipt: its kind and its canonical encoding (`receipt.to_bytes()`, opaque here) -/
structure Rcpt where
  kind : RKind
  enc : Bytes
  deriving DecidableEq, Repr, Inhabited

/-! ### MerkleRootCalculator -/

structure Node where
  height : Nat
  hash : Bytes
  deriving DecidableEq, Repr, Inhabited

def leafHash (H : Bytes → Bytes) (d : Bytes) : Bytes := H (0x00 :: d)
def nodeHash (H : Bytes → Bytes) (l r : Bytes) : Bytes := H (0x01 :: (l ++ r))

/-- the `while stack.len() > 1 && rhs.height == lhs.height` loop of `push_with_callback` (stack top = head);
    fuel = stack length bounds the number of merges -/
def mergeTop (H : Bytes → Bytes) : Nat → List Node → List Node
  | 0, st => st
  | fuel + 1, r :: l :: rest =>
    if r.height = l.height then mergeTop H fuel (⟨l.height + 1, nodeHash H l.hash r.hash⟩ :: rest)
    else r :: l :: rest
  | _ + 1, st => st

/-- `MerkleRootCalculator::push` -/
def calcPush (H : Bytes → Bytes) (st : List Node) (d : Bytes) : List Node :=
  mergeTop H (st.length + 1) (⟨0, leafHash H d⟩ :: st)

/-- `MerkleRootCalculator::root`: fold the remaining stack right-to-left; empty ⇒ `empty_sum()` = H("") -/
def calcRoot (H : Bytes → Bytes) : List Node → Bytes
  | [] => H []
  | top :: rest => rest.foldl (fun acc l => nodeHash H l.hash acc) top.hash

/-! ### ReceiptsCtx -/

def maxReceipts : Nat := 65535     -- `u16::MAX as usize`

inductive PushErr
  | tooManyReceipts     -- PanicReason::TooManyReceipts (a VM panic)
  | ctxFull             -- Bug(ReceiptsCtxFull) (an interpreter error, not a panic)
  deriving DecidableEq, Repr, Inhabited

/-- `ReceiptsCtx`. The `Vec<Receipt>` is kept newest-first with its length cached (`Vec::len` is O(1)),
    so that the compiled driver replays 65,535-receipt runs in linear time; `receipts` is the push order. -/
structure RCtx where
  recs : List Rcpt          -- newest first
  n : Nat                   -- `receipts.len()`
  tree : List Node
  deriving DecidableEq, Repr, Inhabited

/-- the receipts in push order -/
def RCtx.receipts (c : RCtx) : List Rcpt := c.recs.reverse

def RCtx.empty : RCtx := ⟨[], 0, []⟩

/-- `ReceiptsCtx::push` -/
def RCtx.push (H : Bytes → Bytes) (c : RCtx) (r : Rcpt) : Except PushErr RCtx :=
  if c.n = maxReceipts then .error .ctxFull
  else if (c.n = maxReceipts - 1 ∧ r.kind ≠ .scriptResult) ∨
          (c.n = maxReceipts - 2 ∧ r.kind ≠ .scriptResult ∧ r.kind ≠ .panic) then .error .tooManyReceipts
  else .ok ⟨r :: c.recs, c.n + 1, calcPush H c.tree r.enc⟩

/-- `ReceiptsCtx::root` -/
def RCtx.root (H : Bytes → Bytes) (c : RCtx) : Bytes := calcRoot H c.tree

/-! ### run_program -/

/-- what one executed instruction does, as far as receipts and control flow are concerned -/
inductive Ev
  | quiet                       -- no receipt, `ExecuteState::Proceed`
  | emit (r : Rcpt)             -- pushes `r`, proceeds (LOG, LOGD, TR, TRO, MINT, BURN, SMO)
  | call (r : Rcpt)             -- CALL: pushes the Call receipt, then pushes the frame
  | ret (r : Rcpt)              -- RET / RETD: pops the frame if any, pushes `r`, `ExecuteState::Return*`
  | rvrt (r : Rcpt)             -- RVRT: pushes `r`, `ExecuteState::Revert`
  | fault (p : Rcpt)            -- the instruction panics for its own reason; `p` = the Panic receipt built for it
  deriving DecidableEq, Repr, Inhabited

inductive Final | success | revert | panic
  deriving DecidableEq, Repr, Inhabited

inductive RunErr
  | vmError        -- `run_program` returns `Err` (Bug(ReceiptsCtxFull) propagated by `?`)
  | hostPanic      -- `.expect("Appending a panic receipt cannot fail")` fails
  | unfinished     -- events exhausted before the program terminated (not a completed execution)
  deriving DecidableEq, Repr, Inhabited

structure Outcome where
  rc : RCtx
  fin : Final
  deriving DecidableEq, Repr, Inhabited

/-- the tail of `run_program` after the loop: push `ScriptResult` (the `?` propagates a push error) -/
def finish (H : Bytes → Bytes) (rc : RCtx) (fin : Final) (sr : Final → Rcpt) : Except RunErr Outcome :=
  match rc.push H (sr fin) with
  | .ok rc' => .ok ⟨rc', fin⟩
  | .error _ => .error .vmError

/-- `Err(e)` arm with `instruction_result() = Some`: `append_panic_receipt` (push … `.expect`) then `ScriptResult(Panic)` -/
def panicPath (H : Bytes → Bytes) (rc : RCtx) (p : Rcpt) (sr : Final → Rcpt) : Except RunErr Outcome :=
  match rc.push H p with
  | .ok rc' => finish H rc' .panic sr
  | .error _ => .error .hostPanic

/-- a receipt push made by an instruction: `TooManyReceipts` is a VM panic of that instruction
    (`tmr` = the Panic receipt for it), `ReceiptsCtxFull` is a Bug and aborts `run_program` -/
def runEvents (H : Bytes → Bytes) (sr : Final → Rcpt) (tmr : Rcpt) (rc : RCtx) (depth : Nat) :
    List Ev → Except RunErr Outcome
  | [] => .error .unfinished
  | .quiet :: evs => runEvents H sr tmr rc depth evs
  | .emit r :: evs =>
    match rc.push H r with
    | .ok rc' => runEvents H sr tmr rc' depth evs
    | .error .tooManyReceipts => panicPath H rc tmr sr
    | .error .ctxFull => .error .vmError
  | .call r :: evs =>
    match rc.push H r with
    | .ok rc' => runEvents H sr tmr rc' (depth + 1) evs
    | .error .tooManyReceipts => panicPath H rc tmr sr
    | .error .ctxFull => .error .vmError
  | .ret r :: evs =>
    match rc.push H r with
    | .ok rc' => if depth = 0 then finish H rc' .success sr else runEvents H sr tmr rc' (depth - 1) evs
    | .error .tooManyReceipts => panicPath H rc tmr sr
    | .error .ctxFull => .error .vmError
  | .rvrt r :: _ =>
    match rc.push H r with
    | .ok rc' => finish H rc' .revert sr
    | .error .tooManyReceipts => panicPath H rc tmr sr
    | .error .ctxFull => .error .vmError
  | .fault p :: _ => panicPath H rc p sr

/-! ### a reused interpreter (`MemoryClient` / `Transactor` run one transaction after another on the same `Interpreter`) -/

/-- what the interpreter still holds when the next transaction arrives: its call-frame stack (`frames`; `run_program`
    only looks at `!self.frames.is_empty()`, so the length is what matters) and its receipts context -/
structure Carry where
  depth : Nat := 0
  rc : RCtx := RCtx.empty
  deriving Repr, Inhabited

/-- initialization.rs `init_inner` (called by `init_script` at the start of every `transact`): `self.frames.clear();` and
    `self.receipts.clear();` — each present in the Rust text iff the generated flag says so -/
def initInner (c : Carry) : Carry :=
  { depth := if Gen.initClearsFrames then 0 else c.depth,
    rc := if Gen.initClearsReceipts then RCtx.empty else c.rc }

/-- call frames left behind when the run ends: a run that ends inside a call (RVRT, a panic, out of gas) does not
    unwind; RET pops its frame before pushing its receipt, CALL pushes the frame after its receipt -/
def depthAfter (H : Bytes → Bytes) (rc : RCtx) (depth : Nat) : List Ev → Nat
  | [] => depth
  | .quiet :: evs => depthAfter H rc depth evs
  | .emit r :: evs =>
    match rc.push H r with
    | .ok rc' => depthAfter H rc' depth evs
    | .error _ => depth
  | .call r :: evs =>
    match rc.push H r with
    | .ok rc' => depthAfter H rc' (depth + 1) evs
    | .error _ => depth
  | .ret r :: evs =>
    match rc.push H r with
    | .ok rc' => if depth = 0 then 0 else depthAfter H rc' (depth - 1) evs
    | .error _ => depth - 1
  | .rvrt _ :: _ => depth
  | .fault _ :: _ => depth

/-- one `transact` on an interpreter in state `c`: `init_inner`, then `run_program`; returns the result and what is carried on -/
def transactOn (H : Bytes → Bytes) (sr : Final → Rcpt) (tmr : Rcpt) (c : Carry) (evs : List Ev) :
    Except RunErr Outcome × Carry :=
  let c0 := initInner c
  let r := runEvents H sr tmr c0.rc c0.depth evs
  (r, { depth := depthAfter H c0.rc c0.depth evs, rc := match r with | .ok o => o.rc | .error _ => c0.rc })

/-- a sequence of transactions on one interpreter -/
def runSeq (H : Bytes → Bytes) (sr : Final → Rcpt) (tmr : Rcpt) : Carry → List (List Ev) → List (Except RunErr Outcome)
  | _, [] => []
  | c, evs :: rest => (transactOn H sr tmr c evs).1 :: runSeq H sr tmr (transactOn H sr tmr c evs).2 rest

/-- receipts an instruction can push and then carry on: not the two trailer kinds, not Revert -/
def Rcpt.quiet (r : Rcpt) : Prop := r.kind ≠ .scriptResult ∧ r.kind ≠ .panic ∧ r.kind ≠ .revert

/-- instructions only push program receipts; `ScriptResult` and `Panic` receipts are built by `run_program`,
    a `Revert` receipt only by RVRT -/
def Ev.wf : Ev → Prop
  | .quiet => True
  | .emit r | .call r | .ret r => r.quiet
  | .rvrt r => r.kind = .revert
  | .fault p => p.kind = .panic

/-! ### MemoryClient::transact -/

/-- `StateTransition::should_revert`: any Revert or Panic receipt -/
def shouldRevert (rs : List Rcpt) : Bool := rs.any (fun r => r.kind == .revert || r.kind == .panic)

/-- `MemoryStorage`: the state transactions are applied to (`memory`) and the committed one (`transacted`) -/
structure Store (σ : Type) where
  memory : σ
  transacted : σ

/-- `MemoryClient::transact` after the VM ran (the run left `s.memory` in state `after`) -/
def clientSettle {σ : Type} (s : Store σ) (after : σ) (rs : List Rcpt) : Store σ :=
  if shouldRevert rs then ⟨s.transacted, s.transacted⟩       -- `revert()`: memory = transacted.clone()
  else ⟨after, after⟩                                        -- `commit()`: transacted = memory.clone()

end FuelVerif.Outcome
