/-
Model of the debugger and of the script run loop around it (C32).

Transcribed from
  fuel-vm/src/state/debug.rs            Breakpoint, DebugEval
  fuel-vm/src/state.rs                  ExecuteState, ProgramState (+ PartialEq<Breakpoint>)
  fuel-vm/src/state/debugger.rs         Debugger::{set_single_stepping, clear_breakpoints, set_breakpoint,
                                        remove_breakpoint, eval_state, set_last_state}
  fuel-vm/src/interpreter/debug.rs      Interpreter::eval_debugger_state
  fuel-vm/src/interpreter/executors/instruction.rs   execute, instruction_per_inner
  fuel-vm/src/interpreter/executors/main.rs          run_program
  fuel-vm/src/interpreter/executors/debug.rs         resume

The interpreter without its `debugger` field is an abstract state `σ`; what one instruction does is the
abstract `Machine.exec` (DESIGN §5.J: the theorems are about the loop and bookkeeping AROUND step).
That no instruction reads or writes the `debugger` field is what makes `exec : … → σ → …` a faithful type;
the translator `debugger_refs` re-checks it on the Rust text on every run (Gen/DebuggerRefs.lean).
-/
import FuelVerif.Basic.Util
namespace FuelVerif.Debug

abbrev ContractId := Bytes

/-- `ContractId::default()` / `zeroed()` -/
def zeroId : ContractId := zeros 32

/-- state/debug.rs `Breakpoint { contract, pc }` (pc already in bytes, relative to `$is`) -/
structure Breakpoint where
  contract : ContractId
  pc : Nat
deriving DecidableEq, Repr, Inhabited

/-- state/debug.rs `DebugEval` -/
inductive DebugEval where
  | breakpoint (b : Breakpoint)
  | continue_
deriving DecidableEq, Repr, Inhabited

/-- `DebugEval::should_continue` -/
def DebugEval.shouldContinue : DebugEval → Bool
  | .continue_ => true
  | .breakpoint _ => false

/-- state.rs `ProgramState` -/
inductive ProgramState where
  | ret (w : Nat)
  | retData (d : Bytes)
  | revert (w : Nat)
  | runProgram (d : DebugEval)
  | verifyPredicate (d : DebugEval)
deriving DecidableEq, Repr, Inhabited

/-- `ProgramState::debug_ref` -/
def ProgramState.debugRef : ProgramState → Option DebugEval
  | .runProgram d => some d
  | .verifyPredicate d => some d
  | _ => none

/-- `ProgramState::is_debug` -/
def ProgramState.isDebug (s : ProgramState) : Bool := s.debugRef.isSome

/-- `impl PartialEq<Breakpoint> for ProgramState` -/
def ProgramState.eqBreakpoint (s : ProgramState) (other : Breakpoint) : Bool :=
  match s.debugRef with
  | some (.breakpoint b) => b == other
  | _ => false

/-- state.rs `ExecuteState` -/
inductive ExecuteState where
  | proceed
  | ret (w : Nat)
  | retData (d : Bytes)
  | revert (w : Nat)
  | debugEvent (d : DebugEval)
deriving DecidableEq, Repr, Inhabited

/-- state/debugger.rs `Debugger`. `breakpoints : HashMap<ContractId, HashSet<Word>>` is modelled as the set of
pairs it denotes (a duplicate-free list); an emptied inner set left behind by `remove_breakpoint` is not
observable through any method. -/
structure Debugger where
  isActive : Bool := false
  singleStepping : Bool := false
  breakpoints : List Breakpoint := []
  lastState : Option ProgramState := none
deriving DecidableEq, Repr, Inhabited

namespace Debugger

/-- `Debugger::set_single_stepping` -/
def setSingleStepping (d : Debugger) (b : Bool) : Debugger :=
  { d with isActive := true, singleStepping := b }

/-- `Debugger::clear_breakpoints` (does not touch `is_active`) -/
def clearBreakpoints (d : Debugger) : Debugger := { d with breakpoints := [] }

/-- `Debugger::set_breakpoint` -/
def setBreakpoint (d : Debugger) (b : Breakpoint) : Debugger :=
  { d with isActive := true, breakpoints := if b ∈ d.breakpoints then d.breakpoints else b :: d.breakpoints }

/-- `Debugger::remove_breakpoint` -/
def removeBreakpoint (d : Debugger) (b : Breakpoint) : Debugger :=
  { d with isActive := true, breakpoints := d.breakpoints.filter (fun x => x != b) }

/-- the two identical `match last_state { Some(s) if s == current => Continue, _ => current.into() }` arms -/
def suppress (last : Option ProgramState) (current : Breakpoint) : DebugEval :=
  match last with
  | some s => if s.eqBreakpoint current then .continue_ else .breakpoint current
  | none => .breakpoint current

/-- `Debugger::eval_state` -/
def evalState (d : Debugger) (contract : Option ContractId) (pc : Nat) : Debugger × DebugEval :=
  let contract := contract.getD zeroId
  let last := d.lastState                      -- self.last_state.take()
  let d := { d with lastState := none }
  let current : Breakpoint := ⟨contract, pc⟩
  if d.singleStepping then
    (d, suppress last current)
  else if current ∈ d.breakpoints then
    (d, suppress last current)
  else
    (d, .continue_)                              -- unwrap_or_default()

/-- `Debugger::set_last_state` -/
def setLastState (d : Debugger) (s : ProgramState) : Debugger :=
  { d with isActive := true, lastState := some s }

end Debugger

/-- what `instruction_inner` can answer: an `ExecuteState` other than `DebugEvent` (no `impl Execute`
constructs `DebugEvent`; checked on the Rust text by the translator `debugger_refs`) -/
inductive InstrOut where
  | proceed
  | ret (w : Nat)
  | retData (d : Bytes)
  | revert (w : Nat)
deriving DecidableEq, Repr, Inhabited

def InstrOut.toExecuteState : InstrOut → ExecuteState
  | .proceed => .proceed
  | .ret w => .ret w
  | .retData d => .retData d
  | .revert w => .revert w

/-- `ScriptExecutionResult` as used by `run_program` -/
inductive ScriptResult where
  | success | revert | panic
deriving DecidableEq, Repr, Inhabited

/-- The interpreter minus its `debugger` field (`σ`) with the operations `run_program` uses.
`ε` = `InterpreterError`. -/
structure Machine (σ ε : Type) where
  /-- `fetch_instruction` (`&self`): the raw word at `$pc` or the panic for an unreadable / non-executable `$pc` -/
  fetch : σ → Except ε Nat
  /-- `instruction_inner(raw)` then `InterpreterError::from_runtime`; the VM may be changed even when it fails -/
  exec : Nat → σ → σ × Except ε InstrOut
  /-- inputs of `eval_debugger_state`: `frames.last().map(CallFrame::to)`, `$pc.saturating_sub($is)` -/
  loc : σ → Option ContractId × Nat
  /-- `!self.frames.is_empty()` -/
  inCall : σ → Bool
  /-- `e.instruction_result()`: `Some(r)` ⇒ the state after `append_panic_receipt(r)`; `None` ⇒ propagate `e` -/
  panicReceipt : ε → σ → Option σ
  /-- `script.script().is_empty()`; the script bytes of `self.tx` are not changed by execution -/
  scriptEmpty : Bool
  /-- `self.ret(1)?` of the empty-script special case -/
  retOne : σ → σ × Option ε
  /-- everything after the loop: gas_used, script_result receipt, finalize_outputs, update_transaction_outputs,
  receipts_root; each `?` may leave with an error after partial effects -/
  finish : ScriptResult → ProgramState → σ → σ × Option ε
  /-- `InterpreterError::DebugStateNotInitialized` -/
  debugNotInit : ε

variable {σ ε : Type}

/-- `Interpreter::eval_debugger_state` -/
def evalDebuggerState (m : Machine σ ε) (dbg : Debugger) (s : σ) : Debugger × DebugEval :=
  dbg.evalState (m.loc s).1 (m.loc s).2

/-- `instruction_per_inner` -/
def instructionPerInner (m : Machine σ ε) (raw : Nat) (dbg : Debugger) (s : σ) :
    Debugger × σ × Except ε ExecuteState :=
  if dbg.isActive then
    let dbg' := (evalDebuggerState m dbg s).1
    let debug := (evalDebuggerState m dbg s).2
    if !debug.shouldContinue then
      (dbg', s, .ok (.debugEvent debug))
    else
      let x := m.exec raw s
      (dbg', x.1, x.2.map InstrOut.toExecuteState)
  else
    let x := m.exec raw s
    (dbg, x.1, x.2.map InstrOut.toExecuteState)

/-- `Interpreter::execute::<false>` -/
def execute (m : Machine σ ε) (dbg : Debugger) (s : σ) : Debugger × σ × Except ε ExecuteState :=
  match m.fetch s with
  | .error e => (dbg, s, .error e)
  | .ok raw => instructionPerInner m raw dbg s

/-- how the `loop` of `run_program` is left -/
inductive LoopOut (ε : Type) where
  | event (d : DebugEval)
  | done (r : ScriptResult) (st : ProgramState)
  | fatal (e : ε)

/-- the `loop { … }` of `run_program`; `fuel` bounds the number of iterations (`none` = not finished yet) -/
def loop (m : Machine σ ε) : Nat → Debugger → σ → Option (Debugger × σ × LoopOut ε)
  | 0, _, _ => none
  | fuel + 1, dbg, s =>
    let inCall := m.inCall s
    match execute m dbg s with
    | (dbg', s', .ok .proceed) => loop m fuel dbg' s'
    | (dbg', s', .ok (.debugEvent d)) =>
      some (dbg'.setLastState (.runProgram d), s', .event d)
    | (dbg', s', .ok (.revert r)) => some (dbg', s', .done .revert (.revert r))
    | (dbg', s', .ok (.ret r)) =>
      if inCall then loop m fuel dbg' s' else some (dbg', s', .done .success (.ret r))
    | (dbg', s', .ok (.retData d)) =>
      if inCall then loop m fuel dbg' s' else some (dbg', s', .done .success (.retData d))
    | (dbg', s', .error e) =>
      match m.panicReceipt e s' with
      | some s'' => some (dbg', s'', .done .panic (.revert 0))
      | none => some (dbg', s', .fatal e)

/-- result of a host call: a program state, an `InterpreterError`, or a Rust panic of the host -/
inductive Outcome (ε : Type) where
  | ok (st : ProgramState)
  | err (e : ε)
  | hostPanic

/-- the part of `run_program` after the loop -/
def afterLoop (m : Machine σ ε) : Debugger × σ × LoopOut ε → Debugger × σ × Outcome ε
  | (dbg, s, .event d) => (dbg, s, .ok (.runProgram d))
  | (dbg, s, .fatal e) => (dbg, s, .err e)
  | (dbg, s, .done r st) =>
    match m.finish r st s with
    | (s', none) => (dbg, s', .ok st)
    | (s', some e) => (dbg, s', .err e)

/-- `run_program` -/
def runProgram (m : Machine σ ε) (fuel : Nat) (dbg : Debugger) (s : σ) : Option (Debugger × σ × Outcome ε) :=
  if m.scriptEmpty then
    match m.retOne s with
    | (s1, some e) => some (dbg, s1, .err e)
    | (s1, none) => some (afterLoop m (dbg, s1, .done .success (.ret 1)))
  else
    (loop m fuel dbg s).map (afterLoop m)

/-- `resume` -/
def resume (m : Machine σ ε) (fuel : Nat) (dbg : Debugger) (s : σ) : Option (Debugger × σ × Outcome ε) :=
  match dbg.lastState with
  | none => some (dbg, s, .err m.debugNotInit)
  | some (.ret w) => some (dbg, s, .ok (.ret w))
  | some (.retData d) => some (dbg, s, .ok (.retData d))
  | some (.revert w) => some (dbg, s, .ok (.revert w))
  | some (.verifyPredicate _) => some (dbg, s, .hostPanic)          -- unimplemented!()
  | some (.runProgram _) =>
    match runProgram m fuel dbg s with
    | none => none
    | some (dbg', s', .ok st) => some (if st.isDebug then dbg'.setLastState st else dbg', s', .ok st)
    | some r => some r

/-- the debug event carried by an outcome, if it is a debug state (`state.debug_ref()`) -/
def Outcome.debugOf : Outcome ε → Option DebugEval
  | .ok st => st.debugRef
  | _ => none

/-- "resuming after every debug event until completion": while the outcome is a debug state, record the
event together with the VM state it was reported in, and `resume`. `k` bounds the number of resumes. -/
def drive (m : Machine σ ε) (fuel : Nat) :
    Nat → Debugger × σ × Outcome ε → List (DebugEval × σ) → Option (Debugger × σ × Outcome ε × List (DebugEval × σ))
  | 0, (dbg, s, o), evs =>
    match o.debugOf with
    | none => some (dbg, s, o, evs)
    | some _ => none
  | k + 1, (dbg, s, o), evs =>
    match o.debugOf with
    | none => some (dbg, s, o, evs)
    | some d =>
      match resume m fuel dbg s with
      | none => none
      | some r => drive m fuel k r (evs ++ [(d, s)])

/-- start with `run_program` (as `transact` does after initialisation), then resume to completion -/
def runToCompletion (m : Machine σ ε) (fuel k : Nat) (dbg : Debugger) (s : σ) :
    Option (Debugger × σ × Outcome ε × List (DebugEval × σ)) :=
  match runProgram m fuel dbg s with
  | none => none
  | some r => drive m fuel k r []

/-! ### the uninterrupted run, and what it visits -/

/-- one loop iteration of the run without debugger, as a verdict: continue in `s'`, or leave the loop -/
inductive Next (σ ε : Type) where
  | cont (s : σ)
  | stop (s : σ) (r : LoopOut ε)

/-- the loop body's classification of `exec`'s answer (never an event) -/
def stepExec (m : Machine σ ε) (raw : Nat) (s : σ) : Next σ ε :=
  match m.exec raw s with
  | (s', .ok .proceed) => .cont s'
  | (s', .ok (.revert r)) => .stop s' (.done .revert (.revert r))
  | (s', .ok (.ret r)) => if m.inCall s then .cont s' else .stop s' (.done .success (.ret r))
  | (s', .ok (.retData d)) => if m.inCall s then .cont s' else .stop s' (.done .success (.retData d))
  | (s', .error e) =>
    match m.panicReceipt e s' with
    | some s'' => .stop s'' (.done .panic (.revert 0))
    | none => .stop s' (.fatal e)

/-- a failed fetch, classified -/
def stepFetchErr (m : Machine σ ε) (e : ε) (s : σ) : σ × LoopOut ε :=
  match m.panicReceipt e s with
  | some s'' => (s'', .done .panic (.revert 0))
  | none => (s, .fatal e)

/-- location of the instruction about to execute, as the debugger names it -/
def here (m : Machine σ ε) (s : σ) : Breakpoint := ⟨(m.loc s).1.getD zeroId, (m.loc s).2⟩

/-- the plain loop as a function of the VM state alone, and the arrivals (location, state before the
instruction executes) of every instruction whose fetch succeeded, in order -/
def plainLoop (m : Machine σ ε) : Nat → σ → Option (σ × LoopOut ε × List (Breakpoint × σ))
  | 0, _ => none
  | fuel + 1, s =>
    match m.fetch s with
    | .error e => some ((stepFetchErr m e s).1, (stepFetchErr m e s).2, [])
    | .ok raw =>
      match stepExec m raw s with
      | .stop s' r => some (s', r, [(here m s, s)])
      | .cont s' =>
        match plainLoop m fuel s' with
        | none => none
        | some (s'', r, tr) => some (s'', r, (here m s, s) :: tr)

/-- the part of `run_program` after the loop, on the VM state alone -/
def finishPlain (m : Machine σ ε) (s : σ) (r : LoopOut ε) : σ × Outcome ε :=
  (afterLoop m (({} : Debugger), s, r)).2

/-- `run_program` as a function of the VM state alone (the run "without a debugger"), with its arrivals -/
def plainRun (m : Machine σ ε) (fuel : Nat) (s : σ) : Option (σ × Outcome ε × List (Breakpoint × σ)) :=
  if m.scriptEmpty then
    match m.retOne s with
    | (s1, some e) => some (s1, .err e, [])
    | (s1, none) => some ((finishPlain m s1 (.done .success (.ret 1))).1, (finishPlain m s1 (.done .success (.ret 1))).2, [])
  else
    match plainLoop m fuel s with
    | none => none
    | some (s', r, tr) => some ((finishPlain m s' r).1, (finishPlain m s' r).2, tr)

/-- does the debugger configuration stop at location `b` -/
def hits (dbg : Debugger) (b : Breakpoint) : Bool :=
  dbg.isActive && (dbg.singleStepping || decide (b ∈ dbg.breakpoints))

/-- `Some(s) if s == current` of `eval_state` -/
def lastMatch (last : Option ProgramState) (b : Breakpoint) : Bool :=
  match last with
  | some st => st.eqBreakpoint b
  | none => false

/-- events for arrivals with no pending `last_state`: the arrivals at locations that `hits` -/
def laterEvents (dbg : Debugger) (tr : List (Breakpoint × σ)) : List (DebugEval × σ) :=
  (tr.filter (fun x => hits dbg x.1)).map (fun x => (DebugEval.breakpoint x.1, x.2))

/-- the events a run must report: every arrival at a location that `hits`, except that a stale
`last_state` equal to the very first location suppresses that first report -/
def expectedEvents (dbg : Debugger) : List (Breakpoint × σ) → List (DebugEval × σ)
  | [] => []
  | (b, s) :: rest =>
    (if hits dbg b && !(lastMatch dbg.lastState b) then [(DebugEval.breakpoint b, s)] else [])
    ++ laterEvents dbg rest

/-! ### where the Rust text may mention the debugger (compared with `Gen/DebuggerRefs.lean` in Props/C32)

Every mention listed here was read and is accounted for by this model:
* interpreter.rs: the field, and the read-only accessor `debugger()`;
* constructors.rs: `Debugger::default()`;
* interpreter/debug.rs: the forwarding setters, `eval_debugger_state`, `debugger_set_last_state`, `debugger_last_state`;
* diff/storage.rs: moves the field unchanged between interpreter type conversions;
* executors/debug.rs: `resume`; executors/instruction.rs: the gate; executors/main.rs: `run_program`'s event arm;
* state.rs: `mod debugger; pub use debugger::Debugger`.
`DebugEvent`: its definition, `should_continue`, `From<DebugEval>` in state.rs, and the two loops' arms. -/
def expectedDebuggerMentions : List (String × Nat) := [
  ("fuel-vm/src/interpreter.rs", 3),
  ("fuel-vm/src/interpreter/constructors.rs", 1),
  ("fuel-vm/src/interpreter/debug.rs", 15),
  ("fuel-vm/src/interpreter/diff/storage.rs", 4),
  ("fuel-vm/src/interpreter/executors/debug.rs", 2),
  ("fuel-vm/src/interpreter/executors/instruction.rs", 2),
  ("fuel-vm/src/interpreter/executors/main.rs", 1),
  ("fuel-vm/src/state.rs", 2)]

def expectedDebugEventMentions : List (String × Nat) := [
  ("fuel-vm/src/interpreter/executors/main.rs", 1),
  ("fuel-vm/src/interpreter/executors/predicate.rs", 1),
  ("fuel-vm/src/state.rs", 3)]

end FuelVerif.Debug
