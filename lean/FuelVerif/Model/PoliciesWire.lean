/-
C06 model, part 4: `postcard::from_bytes::<Policies>` / `bincode::deserialize::<Policies>` end to end:
bytes → binary decoder with the GENERATED layout-dependent shape of `Policies`
(`Gen/SerdeShapes.lean`: `sel allMask legacyMaskSeq [Word; 4] Vec<Word>`) → `StructVisitor::visit_seq`
(`deSeq`) → value; and the opposite direction `impl Serialize` (`ser`) → binary encoder.
-/
import FuelVerif.Model.PoliciesSerde
import FuelVerif.Model.SerdeCheck
import FuelVerif.Gen.SerdeShapes
namespace FuelVerif.PoliciesSerde
open FuelVerif.Serde FuelVerif.Gen.SerdeShapes

/-- `dec` = `pcDec` or `bcDec`; returns the value and the unconsumed bytes (both crates' entry points
ignore them) -/
def policiesFromWire (dec : Shape → Bytes → Option (Tree × Bytes)) (bs : Bytes) : Option (Policies × Bytes) :=
  match dec (shapeOf .TPolicies) bs with
  | some (t, r) =>
    match deSeq t with
    | .ok p => some (p, r)
    | .error _ => none
  | none => none

/-- `postcard::to_allocvec(&policies)` / `bincode::serialize(&policies)` -/
def policiesToWire (enc : Tree → Bytes) (p : Policies) : Bytes := enc (ser p)

end FuelVerif.PoliciesSerde
