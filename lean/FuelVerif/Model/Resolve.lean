/-
From the regenerated derive tables (`Gen/Canonical.lean`: struct rows, enum rows, `Specification`
impls, type aliases) to descriptors: `resolve` does what the derive macro + the Rust type checker do —
look every field type up and lay the fields out in declaration order; a `#[canonical(skip)]` field
becomes `Desc.skipped`, a `#[canonical(prefix = Enum::Variant)]` the variant's discriminant.

So the descriptors the theorems and the driver use are *computed from the Rust source text* on every
run; nothing about field order, field types, skip flags, prefixes or discriminants is written by hand.
Hand-written here (and checked only by the correspondence streams): the meaning of the primitive type
names, and which named types have a hand-written `impl` (`customs`).
-/
import FuelVerif.Model.Canonical
namespace FuelVerif.Canonical.Resolve
open FuelVerif FuelVerif.Canonical FuelVerif.Gen.Canonical

/-- indices of the hand-written codecs in the environment -/
def customPolicies : Nat := 0
def customInput : Nat := 1

/-- named types with a hand-written `impl Serialize/Deserialize` -/
def customs : List (String × Nat) := [("Policies", customPolicies), ("Input", customInput)]

/-- byte width of a primitive (`core::mem::size_of`) -/
def primWidth : String → Option Nat
  | "u8" => some 1
  | "u16" => some 2
  | "u32" => some 4
  | "u64" => some 8
  | "usize" => some 8
  | "u128" => some 16
  | _ => none

/-- is the primitive flagged `UNALIGNED_BYTES` by `impl_for_primitives!` -/
def unaligned (p : String) : Bool := primitives.contains (p, true)

/-- what a generic parameter / associated type stands for in the instantiation being resolved -/
abbrev Subst := List (String × Ty)

/-- `#[canonical(prefix = Enum::Variant)]` → the discriminant of that variant -/
def prefixValue (p : String × String) : Option Nat :=
  match enums.find? (fun r => r.name == p.1) with
  | some er => (er.variants.find? (fun vr => vr.name == p.2)).map (·.disc)
  | none => none

mutual
/-- descriptor of a field type; `fuel` bounds the recursion (every call consumes one unit, so the
definition is structural and the kernel can evaluate it) -/
def resolveTy : Nat → Subst → Ty → Option Desc
  | 0, _, _ => none
  | fuel + 1, sub, ty =>
    match ty with
    | .prim p =>
      match primWidth p with
      | some w => some (.uint w)
      | none => none
    | .arrU8 n => some (.bytesN n)
    | .vec (.prim p) =>
      if unaligned p then some .vecBytes
      else match primWidth p with
        | some w => some (.vec (.uint w))
        | none => none
    | .vec t =>
      match resolveTy fuel sub t with
      | some d => some (.vec d)
      | none => none
    | .empty t =>
      match resolveTy fuel sub t with
      | some d => some (.empty d)
      | none => none
    | .assoc a =>
      match sub.lookup a with
      | some t => resolveTy fuel [] t
      | none => none
    | .named n =>
      match sub.lookup n with
      | some t => resolveTy fuel [] t
      | none =>
        match typeAliases.lookup n with
        | some p => resolveTy fuel [] (.prim p)
        | none =>
          match customs.lookup n with
          | some k => some (.custom k)
          | none =>
            match structs.find? (fun r => r.name == n) with
            | some sr => resolveStruct fuel [] sr
            | none =>
              match enums.find? (fun r => r.name == n) with
              | some er =>
                match resolveVariants fuel er.variants with
                | some a => some (.enum a)
                | none => none
              | none => none
    | .other _ => none
/-- fields in declaration order -/
def resolveFields : Nat → Subst → List FieldRow → Option Desc
  | 0, _, _ => none
  | _ + 1, _, [] => some .unit
  | fuel + 1, sub, f :: fs =>
    match (if f.skip then some Desc.skipped else resolveTy fuel sub f.ty), resolveFields fuel sub fs with
    | some d, some r => some (.pair d r)
    | _, _ => none
def resolveStruct : Nat → Subst → StructRow → Option Desc
  | 0, _, _ => none
  | fuel + 1, sub, sr =>
    match resolveFields fuel sub sr.fields with
    | none => none
    | some body =>
      match sr.pre with
      | none => some body
      | some text =>
        match prefixValue text with
        | some p => some (.pre p body)
        | none => none
def resolveVariants : Nat → List VariantRow → Option Desc
  | 0, _ => none
  | _ + 1, [] => some .void
  | fuel + 1, v :: vs =>
    match resolveFields fuel [] v.fields, resolveVariants fuel vs with
    | some d, some r => some (.alt v.disc d r)
    | _, _ => none
end

def FUEL : Nat := 64

/-- descriptor of the named (non-generic) type -/
def named (n : String) : Option Desc := resolveTy FUEL [] (.named n)

/-- descriptor of a generic struct instantiated with `sub` -/
def generic (n : String) (sub : Subst) : Option Desc :=
  match structs.find? (fun r => r.name == n) with
  | some sr => resolveStruct FUEL sub sr
  | none => none

/-- the associated types of `impl <trait> for <spec>` -/
def specSubst (trait spec : String) : Option Subst :=
  (specImpls.find? (fun r => r.1 == trait && r.2.1 == spec)).map (·.2.2)

/-- `Coin<spec>` / `Message<spec>` -/
def specialised (structName spec : String) : Option Desc :=
  let trait := if structName == "Coin" then "CoinSpecification" else "MessageSpecification"
  match specSubst trait spec with
  | some sub => generic structName sub
  | none => none

/-- position of field `f` in struct row `n` (for offset / accessor lemmas of later properties) -/
def fieldIndex (n f : String) : Option Nat :=
  match structs.find? (fun r => r.name == n) with
  | some sr => sr.fields.findIdx? (fun r => r.name == f)
  | none => none

end FuelVerif.Canonical.Resolve
