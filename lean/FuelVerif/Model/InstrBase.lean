/- Base types for the instruction-encoding model (C08). Import-free. -/
namespace FuelVerif.Instr

inductive ArgKind | reg | imm06 | imm12 | imm18 | imm24
  deriving DecidableEq, Repr, Inhabited

structure InstrRow where
  opcode : Nat
  name : String
  args : List ArgKind
  deriving DecidableEq, Repr, Inhabited

/-- the three forms an `op_reserved_part!` arm takes in macros.rs -/
inductive ReservedRule
  | always                    -- `true`
  | allZero                   -- `self.0 == [0; 3]`
  | immZero (k : ArgKind)     -- unpack the remaining low bits as that immediate, require `== 0`
  deriving DecidableEq, Repr

end FuelVerif.Instr
