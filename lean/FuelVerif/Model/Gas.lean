/-
Gas machine (C26). Transcribed from
  fuel-vm/src/interpreter/gas.rs            gas_charge, dependent_gas_charge(_without_base)
  fuel-vm/src/interpreter/flow.rs           PrepareCallCtx::prepare_call (gas part), RetCtx::return_from_context (gas part)
  fuel-tx/.../consensus_parameters/gas.rs   DependentCost::{base, resolve, resolve_without_base}
  fuel-vm/src/interpreter/executors/main.rs run_program (gas_used)
  fuel-tx/.../consensus_parameters/gas.rs   impl GasCostsValues (getters over V1 … V7), via the generated `Gen.gasGetters`
  fuel-vm/src/interpreter/storage.rs        storage_read_slot / storage_write_slot / storage_clear_slot_range (charges)
  fuel-vm/src/interpreter/{flow,blockchain,blob}.rs  unit counts of the base-then-dependent charges (`dependentUnits`)
and the per-opcode charge plan (`chargePlan`) built on the generated tables `Gen.opcodeCharge` (charge site of every
opcode), `Gen.storageOpTable` (micro-operations of the storage opcodes) and `Gen.gasGetters` (schedule versions).

Words are `Nat`; every Rust operator is mirrored explicitly (`saturating_*`, `checked_*`, plain `-`
which panics on underflow under overflow-checks => error constructor `arith`).
-/
import FuelVerif.Gen.Gas
namespace FuelVerif.Gas

def wordMax : Nat := 2 ^ 64 - 1

/-- `u64::saturating_add` -/
def satAdd (a b : Nat) : Nat := if a + b > wordMax then wordMax else a + b
/-- `u64::saturating_mul` -/
def satMul (a b : Nat) : Nat := if a * b > wordMax then wordMax else a * b

inductive GasErr
  | outOfGas            -- PanicReason::OutOfGas
  | gasCostNotDefined   -- PanicReason::GasCostNotDefined (schedule has no such entry)
  | divByZero           -- `units.checked_div(0).expect(..)` : Rust panic
  | arith               -- plain `-` underflow: Rust panic (overflow-checks) / wrap
  | ctxGasOverflow      -- Bug(ContextGasOverflow)
  | ctxGasUnderflow     -- Bug(ContextGasUnderflow)
  | globalGasUnderflow  -- Bug(GlobalGasUnderflow)
  | unknownOpcode
  | malformed           -- the schedule lacks a field of its version / an unknown getter or version (not reachable from Rust values)
  deriving DecidableEq, Repr, Inhabited

/-- `DependentCost::base` -/
def DepCost.base : DepCost → Nat
  | .light b _ => b
  | .heavy b _ => b

/-- `DependentCost::resolve_without_base` -/
def DepCost.resolveWithoutBase : DepCost → Nat → Except GasErr Nat
  | .light _ upg, units => if upg = 0 then .error .divByZero else .ok (units / upg)
  | .heavy _ gpu, units => .ok (satMul units gpu)

/-- `DependentCost::resolve` -/
def DepCost.resolve (c : DepCost) (units : Nat) : Except GasErr Nat :=
  match c.resolveWithoutBase units with
  | .error e => .error e
  | .ok d => .ok (satAdd c.base d)

/-- `$cgas`, `$ggas` and, for every call frame (innermost first), the caller's context gas
    stored in the frame (`CallFrame::context_gas`). -/
structure GasState where
  cgas : Nat
  ggas : Nat
  saved : List Nat
  deriving DecidableEq, Repr, Inhabited

/-- `Interpreter::set_gas` as used by `init_inner` -/
def GasState.init (limit : Nat) : GasState := ⟨limit, limit, []⟩

/-- gas.rs `gas_charge`: registers are written before the error is returned, so the state is
    returned in both cases. -/
def gasCharge (s : GasState) (g : Nat) : GasState × Option GasErr :=
  if g > s.cgas then
    ({ s with ggas := s.ggas - s.cgas, cgas := 0 }, some .outOfGas)   -- `saturating_sub`
  else if g > s.ggas then
    (s, some .arith)                                                   -- `ggas_before - gas_to_use` underflows
  else
    ({ s with ggas := s.ggas - g, cgas := s.cgas - g }, none)

/-- consecutive charges of one instruction; stops at the first error -/
def chargeAll (s : GasState) : List Nat → GasState × Option GasErr
  | [] => (s, none)
  | g :: gs =>
    match gasCharge s g with
    | (s', none) => chargeAll s' gs
    | r => r

/-- flow.rs `prepare_call`: `forward = min(cgas, rD)`, `cgas = cgas.checked_sub(forward)` stored in the
    frame, later `cgas = forward` and `frames.push(frame)`. -/
def forwardGas (s : GasState) (fwd : Nat) : GasState × Option GasErr :=
  let f := min s.cgas fwd
  if f > s.cgas then (s, some .ctxGasUnderflow)
  else ({ s with cgas := f, saved := (s.cgas - f) :: s.saved }, none)

/-- `prepare_call` failing after the `checked_sub` but before the frame is pushed
    (CallFrame::new / grow_stack / code read / receipt push): `$cgas` keeps the reduced value. -/
def forwardAbort (s : GasState) (fwd : Nat) : GasState :=
  { s with cgas := s.cgas - min s.cgas fwd }

/-- flow.rs `return_from_context`: `if let Some(frame) = frames.pop() { cgas = cgas.checked_add(frame.context_gas()) … }` -/
def returnGas (s : GasState) : GasState × Option GasErr :=
  match s.saved with
  | [] => (s, none)
  | sv :: rest =>
    if s.cgas + sv > wordMax then ({ s with saved := rest }, some .ctxGasOverflow)
    else ({ s with cgas := s.cgas + sv, saved := rest }, none)

/-- executors/main.rs `run_program`: `gas_limit.checked_sub(self.remaining_gas())` -/
def gasUsed (limit : Nat) (s : GasState) : Except GasErr Nat :=
  if s.ggas > limit then .error .globalGasUnderflow else .ok (limit - s.ggas)

/-! ### Abstract op lists (what the proofs quantify over) -/

inductive GasOp
  | charge (g : Nat)
  | forward (fwd : Nat)
  | forwardAbort (fwd : Nat)
  | ret
  deriving DecidableEq, Repr, Inhabited

def applyOp (s : GasState) : GasOp → GasState × Option GasErr
  | .charge g => gasCharge s g
  | .forward f => forwardGas s f
  | .forwardAbort f => (forwardAbort s f, none)
  | .ret => returnGas s

/-- all states visited (including the first); execution stops at the first error, as a panic ends the script -/
def trace (s : GasState) : List GasOp → List GasState
  | [] => [s]
  | op :: ops =>
    match applyOp s op with
    | (s', none) => s :: trace s' ops
    | (s', some _) => [s, s']

/-! ### Schedule and per-instruction charge list -/

/-- a `GasCostsValues`: its version (`V1` … `V7`) and the values of the `Word` / `DependentCost` fields of
    `GasCostsValuesV{version}` -/
structure Schedule where
  fixed : List (String × Nat)
  dep : List (String × DepCost)
  version : Nat := 7
  deriving Repr, Inhabited

def defaultSchedule : Schedule := { fixed := Gen.defaultFixed, dep := Gen.defaultDep }

/-- the arm `GasCostsValues::V{version}(v) => …` of getter `g` (fuel-tx gas.rs `impl GasCostsValues`) -/
def Schedule.arm (sch : Schedule) (g : String) : Option GetterArm :=
  match Gen.gasGetters.lookup g with
  | some (_, _, arms) => if sch.version = 0 then none else arms[sch.version - 1]?
  | none => none

/-- a getter returning `Word` or `Result<Word, GasCostNotDefined>` -/
def Schedule.word (sch : Schedule) (g : String) : Except GasErr Nat :=
  match sch.arm g with
  | some (.field f) =>
    match sch.fixed.lookup f with
    | some v => .ok v
    | none => .error .malformed
  | some .undef => .error .gasCostNotDefined
  | _ => .error .malformed

/-- a getter returning `DependentCost` or `Result<DependentCost, GasCostNotDefined>`; old versions wrap a
    `Word` field as `HeavyOperation { base, gas_per_unit: 0 }` -/
def Schedule.depc (sch : Schedule) (g : String) : Except GasErr DepCost :=
  match sch.arm g with
  | some (.field f) =>
    match sch.dep.lookup f with
    | some v => .ok v
    | none => .error .malformed
  | some (.heavy0 f) =>
    match sch.fixed.lookup f with
    | some b => .ok (.heavy b 0)
    | none => .error .malformed
  | some .undef => .error .gasCostNotDefined
  | none => .error .malformed

/-- `dependent_gas_charge(g(), units)` -/
def Schedule.depTotal (sch : Schedule) (g : String) (units : Nat) : Except GasErr Nat :=
  match sch.depc g with
  | .ok d => d.resolve units
  | .error e => .error e

/-- `gas_charge(g().base())` -/
def Schedule.depBase (sch : Schedule) (g : String) : Except GasErr Nat :=
  match sch.depc g with
  | .ok d => .ok d.base
  | .error e => .error e

/-- `dependent_gas_charge_without_base(g(), units)` -/
def Schedule.depUnits (sch : Schedule) (g : String) (units : Nat) : Except GasErr Nat :=
  match sch.depc g with
  | .ok d => d.resolveWithoutBase units
  | .error e => .error e

/-- fuel-types bytes.rs `padded_len_word` / `padded_len_usize`: next multiple of 8, `None` on overflow -/
def paddedLen (len : Nat) : Option Nat :=
  if len % 8 = 0 then some len
  else if len + (8 - len % 8) > wordMax then none
  else some (len + (8 - len % 8))

/-- opcodes whose `execute` charges `noop()` and then the storage micro-operations of storage.rs -/
def storageOps : List String := Gen.storageOpTable.map (·.1)

/-- The charges one instruction makes, in program order, and how the list ends. -/
structure Plan where
  charges : List Nat := []
  /-- after `charges` the instruction fails because a schedule entry is not defined in this version
      (`GasCostNotDefined`), or on `units_per_gas = 0` (`divByZero`, a Rust panic) -/
  stop : Option GasErr := none
  /-- `false`: by the run-time information the instruction cannot complete (missing contract / blob, fewer
      reachable slots than the range asks for, update offset beyond the value, unpaddable length, invalid LDC
      mode): it panics after a prefix of `charges` -/
  complete : Bool := true
  /-- `false`: the VM itself charges nothing (ECAL; its handler may) -/
  exact : Bool := true
  deriving Repr, Inhabited

/-- next charge; nothing is added once the plan has stopped -/
def Plan.add (p : Plan) (c : Except GasErr Nat) : Plan :=
  match p.stop, p.complete with
  | none, true =>
    match c with
    | .ok g => { p with charges := p.charges ++ [g] }
    | .error e => { p with stop := some e }
  | _, _ => p

/-- the instruction panics here for a reason other than gas -/
def Plan.halt (p : Plan) : Plan :=
  match p.stop with
  | none => { p with complete := false }
  | some _ => p

/-- surcharge `gas_charge(40 * new_storage_per_byte)` made by TR / MINT / CALL when a new balance entry is created -/
def newEntryCharge (sch : Schedule) : Except GasErr Nat :=
  match sch.word Gen.newEntryGetter with
  | .ok p => .ok (satMul Gen.balanceEntryBytes p)
  | .error e => .error e

def Plan.addNewEntry (p : Plan) (sch : Schedule) (flag : Nat) : Plan :=
  if flag = 0 then p else p.add (newEntryCharge sch)

/-- `[hot₀, len₀, hot₁, len₁, …]` → per accessed slot, in key order: is it in the slot cache, byte length of its value (0 = unset) -/
def slotPairs : List Nat → List (Nat × Nat)
  | h :: l :: rest => (h, l) :: slotPairs rest
  | _ => []

/-- length of the value a storage opcode writes; `none`: `storage_update_from_memory` rejects the offset -/
def slenEval (args : List Nat) (oldLen : Nat) : SLen → Option Nat
  | .const n => some n
  | .arg i => some (args.getD i 0)
  | .update o l =>
    let off := if args.getD o 0 = wordMax then oldLen else args.getD o 0
    if off > oldLen then none else some (max oldLen (off + args.getD l 0))

/-- one micro-operation of storage.rs on a slot that is (`hot ≠ 0`) or is not in the slot cache and holds `len` bytes:
    `storage_read_slot` = one dependent charge (hot / cold entry) over `len`;
    `storage_write_slot` = `storage_write` over the new length, then `new_storage_per_byte * (new − old)` (saturating);
    `storage_clear_slot_range` = `storage_clear` over the number of slots -/
def slotStep (sch : Schedule) (args : List Nat) (hot len : Nat) (p : Plan) : SStep → Plan
  | .read => p.add (sch.depTotal (if hot = 0 then Gen.storageReadColdGetter else Gen.storageReadHotGetter) len)
  | .write l =>
    match slenEval args len l with
    | none => p.halt
    | some n =>
      (p.add (sch.depTotal Gen.storageWriteGetter n)).add
        (match sch.word Gen.storageNewBytesGetter with
         | .ok c => .ok (satMul c (n - len))
         | .error e => .error e)
  | .clear r => p.add (sch.depTotal Gen.storageClearGetter (args.getD r 0))

def slotSteps (sch : Schedule) (args : List Nat) (steps : List SStep) (p : Plan) (slot : Nat × Nat) : Plan :=
  steps.foldl (slotStep sch args slot.1 slot.2) p

/-- the part of a storage opcode after its `noop()` charge -/
def storagePlan (sch : Schedule) (op : StorageOp) (args sizes : List Nat) (p : Plan) : Plan :=
  let slots := slotPairs sizes
  match op.rangeArg with
  | some r =>
    let range := args.getD r 0
    let used := slots.take range
    let p1 := used.foldl (slotSteps sch args op.perSlot) p
    if used.length < range then p1.halt else slotSteps sch args op.after p1 (0, 0)
  | none =>
    match slots with
    | s :: _ => slotSteps sch args op.after p s
    | [] =>
      if op.after.all (fun st => match st with | .clear _ => true | _ => false) then slotSteps sch args op.after p (0, 0)
      else p.halt

/-- `gas_charge(c.base())`, then — once the size is known — `dependent_gas_charge_without_base(c, units)`;
    `units = none`: the contract / blob does not exist, the length cannot be padded, … -/
def Plan.baseThen (p : Plan) (sch : Schedule) (g : String) (units : Option Nat) : Plan :=
  let p1 := p.add (sch.depBase g)
  match units with
  | some u => p1.add (sch.depUnits g u)
  | none => p1.halt

/-- `sizes = [exists, len, …]` → stored length of the contract / blob, if it exists -/
def storedLen (sizes : List Nat) : Option Nat :=
  match sizes with
  | e :: l :: _ => if e = 0 then none else some l
  | _ => none

/-- unit count of the dependent part of CALL / LDC / CCP / CROO / CSIZ / BSIZ / BLDD, as flow.rs `prepare_call`,
    blockchain.rs `load_contract_code` / `load_blob_code` / `load_memory_code` / `code_copy` / `code_root` /
    `code_size` and blob.rs `blob_size` / `blob_load_data` compute it; outer `none` = no dependent charge is
    made (LDC from memory with zero length), inner `none` = the instruction panics first -/
def dependentUnits (mn : String) (args sizes : List Nat) : Option (Option Nat) :=
  if mn = "CALL" then some ((storedLen sizes).bind paddedLen)                       -- `code_size_padded`
  else if mn = "CSIZ" ∨ mn = "CROO" ∨ mn = "BSIZ" then some (storedLen sizes)          -- `len` / `size`
  else if mn = "CCP" ∨ mn = "BLDD" then
    some ((storedLen sizes).map (fun l => max l (args.getD 3 0)))                   -- `max(contract_len, length)`
  else if mn = "LDC" then
    let len := args.getD 2 0
    match args.getD 3 0 with
    | 0 => some ((storedLen sizes).bind (fun l => (paddedLen len).map (fun pl => max l pl)))   -- `padded_len_word(..).ok_or(MemoryOverflow)?`
    | 1 => some ((storedLen sizes).map (fun l => max l ((paddedLen len).getD wordMax)))        -- `.unwrap_or(Word::MAX)`
    | 2 => if len = 0 then none else some (some ((paddedLen len).getD wordMax))
    | _ => some none                                                                -- `InvalidImmediateValue`
  else some none

/-- The charges one instruction makes, in program order.
    `args`: the operand values in `unpack()` order (register contents, or the immediate itself);
    `sizes`: run-time state the schedule depends on —
      CALL: `[callee exists, code size, new-balance-entry flag]`; TR/MINT: `[new-entry flag]`;
      LDC (contract / blob) / CCP / CROO / CSIZ / BSIZ / BLDD: `[exists, stored length]`;
      storage opcodes: `[hot₀, len₀, hot₁, len₁, …]` for the slots in key order. -/
def chargePlan (sch : Schedule) (mn : String) (args sizes : List Nat) : Plan :=
  match Gen.opcodeCharge.lookup mn with
  | none => { stop := some .unknownOpcode }
  | some .none => { exact := false }
  | some (.fixed g) | some (.fixedOpt g) =>
    let p : Plan := ({} : Plan).add (sch.word g)
    match Gen.storageOpTable.lookup mn with
    | some op => storagePlan sch op args sizes p
    | none =>
      if mn = "TR" ∨ mn = "MINT" then p.addNewEntry sch (sizes.getD 0 0) else p
  | some (.dep g i) | some (.depOpt g i) =>
    let u := args.getD i 0
    let u := if mn = "ED19" ∧ u = 0 then Gen.ed19ZeroLenUnits else u
    ({} : Plan).add (sch.depTotal g u)
  | some (.baseThenDep g) | some (.baseThenDepOpt g) =>
    match dependentUnits mn args sizes with
    | none => ({} : Plan).add (sch.depBase g)
    | some units =>
      let p := ({} : Plan).baseThen sch g units
      if mn = "CALL" then p.addNewEntry sch (sizes.getD 2 0) else p

/-- (compatibility) the charge list and whether it is complete and exact; a stopped plan is an error -/
def chargeList (sch : Schedule) (mn : String) (args sizes : List Nat) : Except GasErr (List Nat × Bool) :=
  let p := chargePlan sch mn args sizes
  match p.stop with
  | some e => .error e
  | none => .ok (p.charges, p.exact && p.complete)

/-- gas effect of one instruction that does not fail for a reason other than gas:
    all charges, then CALL forwards `$rD`, RET/RETD credit the saved context gas back. -/
def instrGas (s : GasState) (mn : String) (args : List Nat) (charges : List Nat) : GasState × Option GasErr :=
  match chargeAll s charges with
  | (s', some e) => (s', some e)
  | (s', none) =>
    if mn = "CALL" then forwardGas s' (args.getD 3 0)
    else if mn = "RET" ∨ mn = "RETD" then returnGas s'
    else (s', none)

/-- the same as a list of abstract ops (used to lift the invariant to instructions) -/
def instrOps (mn : String) (args : List Nat) (charges : List Nat) : List GasOp :=
  charges.map GasOp.charge ++
    (if mn = "CALL" then [GasOp.forward (args.getD 3 0)]
     else if mn = "RET" ∨ mn = "RETD" then [GasOp.ret] else [])

/-- states after `k` successful charges, `k = 0 … charges.length` (while they succeed) -/
def prefixStates (s : GasState) : List Nat → List GasState
  | [] => [s]
  | g :: gs =>
    match gasCharge s g with
    | (s', none) => s :: prefixStates s' gs
    | _ => [s]

/-- after-states admissible when the instruction panicked for a reason other than OutOfGas:
    it stopped between two charges, or (CALL) after the forwarded gas had been deducted, or (RET/RETD in a
    call) after the frame was popped and its gas credited but the receipt push failed. -/
def panicStates (s : GasState) (mn : String) (args : List Nat) (charges : List Nat) : List GasState :=
  let ps := prefixStates s charges
  if ps.length = charges.length + 1 then
    if mn = "CALL" then ps ++ [forwardAbort (ps.getLastD s) (args.getD 3 0)]
    else if mn = "RET" ∨ mn = "RETD" then ps ++ [(returnGas (ps.getLastD s)).1]
    else ps
  else ps

end FuelVerif.Gas
